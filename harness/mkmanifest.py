"""Writes /verif/MANIFEST.json from the table below (kept next to the code so
that it stays current)."""
import json
import os

ROOT = os.path.dirname(os.path.dirname(os.path.abspath(__file__)))
BASELINE = ("cd /repo && TENSORFLOW_LATTICE_VERIF= /venv/bin/python -m pytest -ra -q -p no:cacheprovider "
            "--timeout=900 --continue-on-collection-errors")

COMMON_NOTE = (
    "Trusted base: Coq 8.16.1 kernel (full .vo build) and vm_compute (in-Coq evaluation of the model for the "
    "correspondence check; no native_compute); no axioms declared, Print Assumptions of each property theorem "
    "recorded in the evidence; hand-written Gallina model over exact rationals Q tied to /repo's working tree on "
    "every run by the correspondence check (same inputs through TensorFlow implementation and model, compared "
    "inside Coq) - that tie is differential testing, not proof; floating point and TensorFlow tensor plumbing are "
    "modelled, not verified. ")

CHECKS = {
    "C20": dict(
        text=("Theorems (Props/C20.v) about the Gallina model of Linear.call: per-unit formula, monotone for every "
              "pair of points under sign constraints, monotonic/range dominance effects, weighted average. The model "
              "is tied to linear_layer.py by evaluating layer and model on the same points on every run. Closed over "
              "the C06 constraint model: for every kernel column and valid configuration the layer evaluated with the "
              "PROJECTED weights is monotone, satisfies both dominance effects and (order 1, all increasing, column not "
              "numerically zero; refuted witness for the zero column, D32) is a weighted average; both call branches, "
              "no-bias form, unit forms. A third of the run-time cases apply the real kernel constraint before the call."),
        note="Model/LinearEval.v hand-written from Linear.call/build; clip handling of +-inf modelled as optional bounds.",
        technique="Coq proof over Q model + in-Coq correspondence with the Keras layer",
        design="7/C20"),
}

CHECKS["C06"] = dict(
    text=("Theorems (Props/C06.v) about the Gallina model of the partial-order projection shared by Linear "
          "dominances and categorical ordering pairs (every pair satisfied for every pair list with a valid "
          "topological order; feasible weights unchanged) and of linear_lib.project / categorical project. The model "
          "is tied to the code by projecting the same float64 matrices with LinearConstraints / "
          "CategoricalCalibrationConstraints on every run; the topological order is re-validated in Coq per case."),
    note="Models: Model/PartialOrder.v, Model/LinearProject.v. The order-2 norm theorems hold for ANY root function "
         "(identity sumsq(r) * rt(S)^2 == S), for an approximate root (relative error e) and for the EXECUTED truncated "
         "Newton root (two-sided bounds proved); the exact-root statement is the e = 0 special case. "
         "normalization_order is modelled for None, 1 and 2 only.",
    technique="Coq proof over Q model + in-Coq correspondence with the constraint objects",
    design="7/C06")

CHECKS["C19"] = dict(
    text=("Theorems (Props/C19.v) about a Gallina mirror of custom_reduce_prod's hand-written gradient: for every "
          "length, position and zero pattern the delivered number is the unique slope of the product (product of the "
          "other entries); chain rule gives exact kernel/scale slopes of the Kronecker-factored output; for Lattice "
          "(hypercube, simplex), PWLCalibration and CategoricalCalibration the kernel derivative is the interpolation "
          "weight, independent of the kernel, non-negative and summing to one for in-range/clipped Lattice inputs. "
          "tf.GradientTape gradients of the real functions/layers are compared with the model inside Coq on every run."),
    note="The layer outputs are proved LINEAR in the kernel with exactly the weights the check compares: Lattice "
         "hypercube weights = the C02 model's weights (entrywise), simplex via the sparse sum, PWLCalibration (all "
         "call forms) and CategoricalCalibration; per-entry kernel slopes for every unit; KFL unit_out = kfl_out and its "
         "kernel / scale / input gradients are slopes of the C07 model within one linear piece (C19_kfl_input_gradient). "
         + "Models: Model/Gradients.v. TensorFlow autodiff of built-in ops is trusted; product path compared in float32 "
         "(1e-5) and float64 (1e-9). Open known finding D69.",
    technique="Coq proof over Q model + in-Coq correspondence with tf.GradientTape gradients",
    design="7/C19")


CHECKS["C01"] = dict(
    text=("Theorems (Props/C01.v) about the Gallina model of lattice_lib.finalize_constraints and the strict "
          "LatticeConstraints.__call__: for every rank, sizes, unit count, valid trust configuration and rational "
          "kernel the result is monotone along every monotone dimension, satisfies every Edgeworth and trapezoid "
          "trust and lies inside the bounds, and a feasible kernel passes unchanged; finalize is applied to an "
          "ARBITRARY kernel, so iteration counts and other families configured alongside are covered. Guards: the "
          "documented exception (trapezoid only) and known finding D1 (monotone conditional feature of a trapezoid "
          "trust with Edgeworth present), for which C01_refuted_trap_mono_cond exhibits the witness; D1 is narrowed "
          "to what it can disturb: without any D1 guard the result is monotone along every monotone dimension that "
          "is not the conditional feature of a trapezoid trust, and a monotonicity failure implies such a dimension "
          "(C01_monotone_failure_only_along_trapezoid_conditional). The model is "
          "compared in Coq with finalize_constraints / LatticeConstraints on float64 kernels on every run."),
    note="Models: Model/LatticeFinalize.v; the Dykstra stage's real output is an input of the model (its own model "
         "and theorems are under C08). Open known finding D1 is listed in known_findings.json.",
    technique="Coq proof (invariants over the projection passes) + in-Coq correspondence",
    design="7/C01")
CHECKS["C02"] = dict(
    text=("Theorems (Props/C02.v), every rank / sizes >= 2 / units: hypercube output = multilinear formula of the "
          "containing cell, simplex output = sorted-simplex formula; vertex reproduction, convex combination, "
          "continuity across faces, tie-order independence, agreement of both schemes on vertices and axis-parallel "
          "edges, monotone for every pair of points when the kernel is, Edgeworth effect. Model mirrors "
          "evaluate_with_*_interpolation line by line and is compared in Coq with the real layer on every run."),
    note="Models: Model/Interp1D.v, Model/LatticeInterp.v. Bucketing/split/reshape/matmul plumbing tied only.",
    technique="Coq proof over Q model + in-Coq correspondence with the Lattice layer",
    design="7/C02")
CHECKS["C05"] = dict(
    text=("Theorems (Props/C05.v), any keypoint count / positive lengths / units: PWLCalibration output takes the "
          "cumulative kernel sums at keypoints, is linear between and constant outside, cyclic ends equal, "
          "single-column broadcast per unit, missing-value imputation (learned or fixed), learned keypoints ordered "
          "with fixed ends for any logits (softmax oracle), categorical row lookup and default bucket; hence "
          "monotone/bounded functions and reported keypoints on the graph. Compared in Coq with real layers."),
    note="Models: Model/PWLEval.v, Model/CategoricalEval.v; softmax is an oracle (positive, sums to 1) captured "
         "from TensorFlow and checked numerically.",
    technique="Coq proof over Q model + in-Coq correspondence with calibration layers",
    design="7/C05")
CHECKS["C13"] = dict(
    text=("Theorems (Props/C13.v): code-shaped models of the five regularizers equal independently written "
          "documented sums for every rank/size/units/row count; non-negative, linear in l1/l2, per-dimension "
          "amounts weight their own dimension (torsion pairs by product), zero on constant / separable / "
          "linear-index / quadratic-index kernels, cyclic variants. Real regularizer objects and layer.losses are "
          "compared in Coq with both model and formula on every run."),
    note="Model: Model/Regularizers.v; transpose+reshape by index meaning; sqrt(l)^2 = l as oracle fact.",
    technique="Coq proof (two definitions proved equal) + in-Coq correspondence",
    design="7/C13")
CHECKS["C17"] = dict(
    text=("Theorems (Props/C17.v) over executable models of RTL._get_rtl_structure and call routing, "
          "set_random_lattice_ensemble, the Crystals pair cover and _get_final_crystal_lattices, for every layout, "
          "rank, lattice count and every value of the random source (shuffles = any permutation, choices = any "
          "admissible pick): rank, coverage, +-1 balance, monotone wiring, labelling, determinism; no-repeat; all "
          "pairs covered; Crystals rank/coverage whenever the use allocation returns (known finding D13 witness "
          "otherwise). Structures compared in Coq with the code's on every run."),
    note="Models: Model/RTLStructure.v, Model/Ensembles.v; NumPy random values replayed/recorded as oracle values. "
         "Determinism across interpreters (PYTHONHASHSEED) is a differential probe run in two fresh interpreters on "
         "every run (the theorems state determinism as: the structure is a function of config and oracle values).",
    technique="Coq proof over combinatorial model with permutation oracles + in-Coq structural comparison",
    design="7/C17")
CHECKS["C18"] = dict(
    text=("Theorems (Props/C18.v) for an executable model of compute_keypoints / _weighted_quantile and the "
          "feature/label helpers: strictly increasing keypoints (>= 2 distinct clipped values), within range, "
          "endpoints at clip bounds / data extremes, count, repair loop always finds a free index, accepted by "
          "PWLCalibration, no error for non-negative weights with positive sum - for every rounding to a nearest "
          "integer. Compared in Coq with ~1900 real calls per run, either neighbour accepted at exact ties."),
    note="Model: Model/Keypoints.v; hand-written meaning of np.unique/argsort/reduceat/quantile/interp/rint/linspace.",
    technique="Coq proof over Q/Z model + in-Coq correspondence with compute_keypoints",
    design="7/C18")

CHECKS["C04"] = dict(
    text=("Theorems (Props/C04.v) about the Gallina model of pwl_calibration_lib.project_all_constraints, per unit, "
          "every positive spacing, every iteration count: heights have the configured sign exactly, keypoint outputs "
          "within bounds (guard: not monotone+convex, known finding D2 with refuted witness; D2 characterised exactly: "
          "for monotone+convex the bounds hold whenever the bias entering the final squeeze has room > 0.001 to the "
          "far bound, and a bounds failure implies no room - C04_bounds_unless_squeeze_has_no_room), convexity of slopes, "
          "clamped ends hit exactly for >= 1 iteration (Dykstra invariant proved; D3 refuted witness for 0 "
          "iterations), missing output clipped, feasible kernels unchanged, per-unit. Model compared in Coq with "
          "PWLCalibrationConstraints / layer.kernel.constraint on every run."),
    note="Model: Model/PWLProject.v. Open known findings D2, D3 in known_findings.json.",
    technique="Coq proof (Dykstra invariants) over Q model + in-Coq correspondence",
    design="7/C04")

CHECKS["C08"] = dict(
    text=("Theorems (Props/C08.v) about the Gallina model of lattice_lib.project_by_dykstra and its eight group "
          "projections: roll-back (increment-sum) invariant; a kernel feasible for every configured family is "
          "returned unchanged for any iteration count and units (all eight families); every fixpoint of a sweep "
          "is the Euclidean-nearest feasible kernel (variational inequality) for the six exact families; each of "
          "their group updates IS the nearest-point map onto its constraint group (coefficients, parities and "
          "signs checked by proof); range-dominance corner update refuted as a projection (the property claims "
          "nearest only for the six families); PWL feasible-fixed re-exported. The quantitative core of "
          "Boyle-Dykstra is proved on the model for the six exact families (exact potential identity): after ANY number "
          "of sweeps the kernel is not farther from ANY feasible kernel than the input, the squared sweep movements "
          "sum to at most dist2(W0, Y), some sweep among the first n moves by at most dist2(W0, Y)/n, and a sweep with "
          "zero movement yields the nearest feasible kernel. Only the existence of the limit of the iterates is still "
          "cited; it is tested against an independent exact projection (NNLS) and by 300-sweep convergence cases for "
          "all eight families. PWL calibrator, monotonicity with bounds (all BOUND/CLAMPED variants): both group maps "
          "are proved exact Euclidean projections for ALL inputs, one loop body is one abstract sweep, a fixpoint of "
          "the loop is the nearest feasible column, Fejer bound / summable movement / stalling hold, and a converged "
          "state is returned unchanged by the finalisation; tested against an LDP/NNLS projection."),
    note="Models: Model/LatticeDykstra.v, Model/PWLProject.v. Asymptotic clauses (violation -> 0, closeness at "
         "finite n) are differential testing, labelled as such in the evidence.",
    technique="Coq proof (Dykstra fixpoint theory, half-space projections) + in-Coq correspondence + NNLS oracle test",
    design="7/C08")
CHECKS["C09"] = dict(
    text=("Theorems (Props/C09.v): in the Lattice models every pass of finalize and every group op / sweep of the "
          "Dykstra stage, run on a multi-unit kernel and sliced at unit u, equals the single-unit model run on "
          "column u alone (simulation proofs over the explicit per-unit reductions), hence permuting units permutes "
          "results; Linear, Categorical and PWL per-column theorems re-exported. On every run Coq executes the "
          "SINGLE-unit models on each column and compares with the columns of the implementation's multi-unit "
          "result; output-unit and batch independence of all layer kinds, CDF, functional forms, RTL and two "
          "premade models are differential tests on the implementation."),
    note="KroneckerFactoredLattice: per-unit simulation of every constraint step and history, unit permutation, the "
         "kernel layout slice and output locality are proved on Model/KFL.v (C09_kfl_*), and the one-unit model is "
         "replayed in Coq against unit u of the multi-unit implementation; output locality is also proved for the "
         "Linear, Categorical, PWL and Lattice evaluation models. Batch handling inside TensorFlow kernels is observed "
         "(differential tests), not modelled.",
    technique="Coq simulation proofs + in-Coq single-unit model vs multi-unit implementation columns",
    design="7/C09")
CHECKS["C10"] = dict(
    text=("Theorems (Props/C10.v) for models of the library's initializers, all shapes/units/bounds and all random "
          "draws (arbitrary in-level order, arbitrary sorted samples): Lattice linear init is linear along monotone "
          "dims, valley/peak around size//2, constant elsewhere, min/max = init range; random-monotonic init "
          "monotone in all dims and in range; PWL / KFL / categorical initial weights monotone and bounded; strict "
          "constraint leaves the fresh kernel unchanged for monotonicity+bounds configs; which other families the "
          "linear kernel satisfies, with refuted witnesses for known findings D6, D24. Initializers and fresh "
          "layers compared in Coq with the models on every run."),
    note="Models: Model/LatticeInit.v, PWLInit.v, KFLInit.v. 'Passes its own assert_constraints' is proved by composing "
         "the initializer models with the C12 assert models (C10_passes_assert_lattice / _pwl / _categorical / _kfl, "
         "guards = complements of D6 / D24; refuted outside the guards). float32 layer builds are judged by the "
         "predicates only. Open findings D6, D24, D25, D63.",
    technique="Coq proof over Q model with random-source oracles + in-Coq correspondence",
    design="7/C10")

CHECKS["C03"] = dict(
    text=("Theorems (Props/C03.v): a layer state machine (Init / optimizer Update followed by the variable's "
          "constraint / Restore of an earlier state) keeps every constrained variable feasible after ANY history "
          "(reusing the constraint theorems of C01, C04, C06); for feasible weights and the wiring the premade "
          "builders produce (calibrator direction -> increasing lattice/linear dimension, calibrator range -> lattice "
          "input range) calibrated lattice (hypercube and simplex), calibrated linear and ensembles (average or "
          "linear combination, optional output calibration) are monotone for every pair of non-missing points, in "
          "or out of range, ordered along categorical pairs, and bounded for all inputs incl. missing; refuted "
          "witness for known finding D32 (weighted average with all-zero weights). On every run real tfl.premade "
          "models run hostile training histories; predicates are evaluated after every op, weights are extracted "
          "and Coq evaluates the composed model against model(x) and decides the wiring hypotheses on the built "
          "structure."),
    note="Models: Model/Premade.v over PWLEval/CategoricalEval/LatticeInterp/LinearEval. Keras optimizer re-applying "
         "variable.constraint, constructors not applying it and set_weights copying verbatim are observed runtime "
         "behaviour, not modelled; KFL-parameterised members, RTL internals and Crystals prefitting are covered by "
         "implementation-side histories only; unimodality/dominance/joint constraints of premade lattices are "
         "exercised, not proved. Kronecker-factored members (via the C07 development, tf_keras constraint order "
         "modelled for both optimizer generations) and RTL-wired ensembles (via the C17 wiring theorems) are covered "
         "by the composition and reachable-feasibility theorems; single-lattice KFL premade models are compared "
         "weight for weight with the Coq model. Every CalibratedLatticeEnsemble (explicit, random, Crystals, rtl_layer; "
         "lattice or KFL members) is extracted from the Keras graph, evaluated as ensemble2_eval in Coq against model(x), "
         "and the hypotheses of the ensemble theorems are decided in Coq on the extracted structure by a boolean check "
         "with a soundness proof (C03_wiring_check_sound). The initial-value hypotheses of the reachable-feasibility "
         "theorems are discharged by proof for the initializers the premade builders use (C03_init_feasible_*, "
         "C03_reachable_feasible_*_from_init; lattice linear / random-monotonic, PWL uniform / equal-heights / output "
         "calibrator, missing output, categorical with its build-time projection, constant 1/n Linear, KFL), under "
         "configuration validity and output_initialization inside the bounds (D65 otherwise); fresh weights are "
         "compared in Coq with the initializer models on every run. END-TO-END theorems (C03_calibrated_lattice / _linear / "
         "_kfl / _ensemble _end_to_end): for a model description whose validity predicate contains configuration facts "
         "only, every state reachable by any well-shaped history yields a function that is monotone, pair-ordered and "
         "bounded - all initial-value, calibrator and kernel facts are derived; guards D1 / D2 / D32 / D57 / D65. The "
         "descriptions are tied to the real builders at construction and after one update (Harness/H_C03E2E.v). "
         "Open known findings D32, D57, D65.",
    technique="Coq proof (state-machine invariant + composition of monotone maps) + in-Coq correspondence with premade models under training histories",
    design="7/C03")
CHECKS["C07"] = dict(
    text=("Theorems (Props/C07.v) about the Gallina model of KroneckerFactoredLattice evaluation, "
          "finalize_weight_constraints, finalize_scale_constraints and the two constraint objects, for every lattice "
          "size >= 2, dims, units, terms, rational kernel and scale and every history of kernel.constraint / "
          "scale.constraint / finalize_constraints containing both: the output is non-decreasing along every "
          "monotone input and within [output_min, output_max] for in-range (or clipped) inputs, for every sign "
          "pattern of scale incl. zeros; the scale constraint never flips a sign; idempotence, order irrelevance; "
          "refuted parameter-level idempotence. Each history is replayed by the model and kernel, scale and outputs "
          "are compared in Coq with the float64 layer on every run."),
    note="Model: Model/KFL.v. tf.pow(x, 1/dims) is an oracle in the theorems (any upper approximation of the root) "
         "and a truncated Newton iteration when executed. Histories are lists of constraint steps and arbitrary "
         "re-assignments of kernel / scale / bias: monotone whenever a kernel constraint follows the last kernel or "
         "scale update, bounded whenever a kernel constraint follows the last kernel update and a scale constraint "
         "the last scale update (C07_monotone_history, C07_bounded_history); the stale interleaving (kernel "
         "constraint, scale sign change, scale constraint only) is refuted for monotonicity: open known finding D75.",
    technique="Coq proof over Q model with a root oracle + in-Coq correspondence with the layer's constraints",
    design="7/C07")
CHECKS["C11"] = dict(
    text=("Theorems (Props/C11.v, REGENERATED from /repo's source on every run by a Python-ast translator): for each "
          "of the classes with get_config found in tensorflow_lattice/python, get_config's keys cover and are "
          "constructor parameters, every attribute read is set by __init__, no parameter is dropped, "
          "from_config(get_config()) restores the constructor state and get_config is stable (generic theorems in "
          "Proofs/ConfigRoundTrip.v instantiated per class; the guarded Linear case and refuted dropped parameters "
          "are named as such); custom-object registry covers the layers; seed-determined RTL / random-ensemble "
          "structure is a function of config and seed. On every run real objects are rebuilt via from_config and "
          "JSON, configs/attributes/variables/outputs compared, h5 save/load after training steps, and observed "
          "configs compared in Coq with the model's."),
    note="Translator harness/translators/gen_config.py (fail-closed) is trusted; wrappers without a concrete model "
         "(canonicalisers, keras.*.get/serialize) are Section hypotheses (idempotent, serialize/deserialize inverse), "
         "exercised by the executed round trips; Keras/HDF5 machinery is observed, not modelled. Open known findings "
         "D23, D31.",
    technique="Coq proof over a model regenerated from source by a translator + executed round trips compared in Coq",
    design="7/C11")
CHECKS["C12"] = dict(
    text=("Theorems (Props/C12.v) about Gallina models of the six assert_constraints functions (one conjunct per "
          "tf.Assert, the code's slicing, reductions and comparisons): for Lattice (monotonicity, Edgeworth, "
          "trapezoid, monotonic/range dominance, joint monotonicity, bounds), RTL, PWLCalibration, Linear, "
          "CategoricalCalibration and KroneckerFactoredLattice the assert fails whenever ANY covered inequality "
          "instance (every vertex, pair, square, unit) is violated by more than eps and passes when all hold up to "
          "eps - the covered constraints being stated independently of the assert's slicing; eps=0 acceptance equals "
          "C01 feasibility. Eager assert_constraints on real float64 layers with assigned weights (each inequality "
          "instance x unit injected) is compared in Coq with the model's boolean on every run."),
    note="Model: Model/Asserts.v. L2 norm compared by squares. Not asserted by the code hence not covered: "
         "unimodalities, PWL convexity, cyclic closure, KFL bias. What a passing assert MEANS for the layer function is "
         "proved by composition with C02 / C05 / C07 / C20 (C12_*_assert_implies_*: monotone for every pair of points, "
         "bounded, dominance effects, weighted average; KFL needs non-negative factors, which the assert does not "
         "check: refuted witness, open known finding D72).",
    technique="Coq proof (assert == independently stated feasibility) + in-Coq correspondence with eager assert_constraints",
    design="7/C12")
CHECKS["C14"] = dict(
    text=("Theorems (Props/C14.v), all shapes/parameters/inputs: KroneckerFactoredLattice output = hypercube Lattice "
          "output on the dense kernel bias + mean_t scale_t * outer product (in-range or clipped inputs); "
          "pwl_calibration_fn = PWLCalibration layer holding the derived keypoints and kernel (incl. missing); "
          "cdf_fn = CDF layer for mean / none reductions; ParallelCombination = column-wise calibrators (all input "
          "forms); Aggregation = per-example mean over ragged rows; RTL = gather of its recorded indices into its "
          "lattices. On every run the paired public callables are run on identical inputs and both sides are "
          "compared in Coq with both models."),
    note="Models: Model/Representations.v over KFL, LatticeInterp, PWLEval, CondPWL, CDF, RTLStructure. softmax/sigmoid "
         "are oracles; the wrapped model of Aggregation is assumed row-wise (hypothesis); sigmoid CDF pairs and "
         "kronecker-factored RTL are compared implementation vs implementation only.",
    technique="Coq proof (two models proved equal) + in-Coq correspondence with both public callables",
    design="7/C14")
CHECKS["C15"] = dict(
    text=("Theorems (Props/C15.v) for the Gallina models of pwl_calibration_fn and cdf_fn / CDF.call, for every "
          "parameter tensor, units, keypoint count and broadcast form and ANY softmax / sigmoid / exp / log oracle "
          "meeting the stated hypotheses (softmax entries >= 0 summing to 1, zeros allowed; sigmoid in [0,1], "
          "non-decreasing): outputs in [keypoint_output_min, keypoint_output_max], non-decreasing when increasing, "
          "clamps reached at the end keypoints, cyclic ends equal, missing input -> missing output, accepted "
          "parameter sizes (one documented form refuted: rejected by the code when units > 1); CDF outputs in [0,1] "
          "([eps,1+eps] geometric) and non-decreasing for non-negative scaling; NonNeg constraint. Outputs and "
          "derived parameters compared in Coq with the real functions on every run."),
    note="Models: Model/CondPWL.v, Model/CDF.v; oracle values are tables captured from TensorFlow, hypotheses "
         "checked numerically on every captured value. Float saturation of softmax outside the model (|p|>3 "
         "predicate-only).",
    technique="Coq proof over Q model with softmax/sigmoid oracles + in-Coq correspondence",
    design="7/C15")
CHECKS["C16"] = dict(
    text=("Theorems (Props/C16.v) about Gallina functions REGENERATED from /repo's utils.py on every run by a "
          "Python-ast translator, over a model of the Python value universe: every canonicalize_* helper is total "
          "(value or ValueError, never another exception; boundary refuted where the code does raise otherwise), "
          "idempotent, maps every synonymous spelling (any case, ints, bools) to the same canonical value, returns "
          "values in the canonical range, trusts as tuples. The accept/reject decision of the verify_hyperparameters "
          "functions and layer constructors (Model/Verify.v) is tied by correspondence: structured samples of the "
          "constructor cross product are run against real constructors, build, projection, regularizer and first "
          "call (ValueError up front, or accepted and finite), synonym twins must behave identically."),
    note="Translator harness/translators/gen_canon.py and Model/PyVal.v (Python semantics) are trusted. 'accepted => "
         "total and finite' is tested on random dyadic weights and proved only in the form of the C16_total_* facts "
         "named below; exceptions from Python typing are "
         "invisible to the typed Verify.v model and found by the constructor runs. Theorems about Model/Verify.v: "
         "every conjunct of every accepts_* function has a 'violating it => rejected' theorem in user terms, and an "
         "accepted configuration satisfies the validity hypotheses of the C01 / C04 / C06 / C07 theorems (bridges). "
         "Decision models (tied on every run, each conjunct with a rejection theorem) also cover RTL, CDF, the "
         "regulariser objects and premade verify_config; accepted RTL configs give the premise of the C17 structure "
         "theorems. 'Accepted => no silent totalisation' (C16_total_*): for accepted configurations every denominator of the "
         "projection / evaluation / initialiser models is non-zero (or behind the code's own guard) and every index "
         "the evaluation models use is in range, with refuted witnesses where the code can raise or return NaN "
         "(D45, D48, D60, D70, D71). Open known findings D42-D51, D59, D60, D70, D71.",
    technique="Coq proof over functions translated from source + in-Coq correspondence of accept/reject decisions",
    design="7/C16")

NOT_YET = {}


def main():
  props = [json.loads(l) for l in open(os.path.join(ROOT, "properties.jsonl"))]
  checks = []
  na = []
  for p in props:
    pid = p["id"]
    if pid in CHECKS:
      c = CHECKS[pid]
      checks.append({
          "property_id": pid,
          "quick_cmd": "./check %s --tier quick" % pid,
          "thorough_cmd": "./check %s --tier thorough" % pid,
          "evidence_file": "/verif/evidence/%s.json" % pid,
          "replay_cmd_template": "./check %s --replay {path}" % pid,
          "engine": "coq-model-and-correspondence",
          "level_claimed": {"category": "proof", "text": c["text"], "design_ref": "DESIGN.md section " + c["design"]},
          "level_note": COMMON_NOTE + c["note"],
          "technique": c["technique"],
      })
    else:
      na.append({"property_id": pid,
                 "reason": NOT_YET.get(pid, "check not built yet in this session (Coq proof applies; see DESIGN.md "
                                            "section 7); not claimed until its check is quiet on the unchanged tree")})
  man = {
      "version": 1,
      "setup_cmd": "cd /verif/coq && sh ./configure.sh && (timeout 3000 make -k -j16 || true)",
      "hooks": {
          "guard": "TENSORFLOW_LATTICE_VERIF",
          "enable": "no hooks in /repo are needed: every observation point is a public callable; checks export "
                    "TENSORFLOW_LATTICE_VERIF=1 and PYTHONPATH=/repo",
          "baseline_off_cmd": BASELINE,
          "source_commits": [],
          "add_only": True,
      },
      "engines": [{
          "name": "coq-model-and-correspondence",
          "path": "/verif/check",
          "serves_properties": sorted(CHECKS),
          "kind_free_text": "Coq 8.16 development /verif/coq (Model/ Proofs/ Props/ Harness/) + Python harness "
                            "(harness/) generating cases, running TensorFlow Lattice from /repo and comparing in Coq",
      }],
      "checks": checks,
      "not_applicable": na,
      "notes": "See DESIGN.md. known findings: /verif/known_findings.json",
  }
  with open(os.path.join(ROOT, "MANIFEST.json"), "w") as f:
    json.dump(man, f, indent=1)


if __name__ == "__main__":
  main()
