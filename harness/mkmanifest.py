"""Writes /verif/MANIFEST.json from the table below (kept next to the code so
that it stays current)."""
import json
import os

ROOT = os.path.dirname(os.path.dirname(os.path.abspath(__file__)))
BASELINE = ("cd /repo && TENSORFLOW_LATTICE_VERIF= /venv/bin/python -m pytest -ra -q -p no:cacheprovider "
            "--timeout=900 --continue-on-collection-errors")

COMMON_NOTE = (
    "Trusted base: Coq 8.16.1 kernel (full .vo build) and vm_compute (in-Coq evaluation of the model for the "
    "correspondence check; no native_compute); no axioms declared, Print Assumptions of each property theorem "
    "recorded in the evidence; hand-written Gallina model over exact rationals Q tied to /repo's working tree on "
    "every run by the correspondence check (same inputs through TensorFlow implementation and model, compared "
    "inside Coq) - that tie is differential testing, not proof; floating point and TensorFlow tensor plumbing are "
    "modelled, not verified. ")

CHECKS = {
    "C20": dict(
        text=("Theorems (Props/C20.v) about the Gallina model of Linear.call: per-unit formula, monotone for every "
              "pair of points under sign constraints, monotonic/range dominance effects, weighted average. The model "
              "is tied to linear_layer.py by evaluating layer and model on the same points on every run."),
        note="Model/LinearEval.v hand-written from Linear.call/build; clip handling of +-inf modelled as optional bounds.",
        technique="Coq proof over Q model + in-Coq correspondence with the Keras layer",
        design="7/C20"),
}

CHECKS["C06"] = dict(
    text=("Theorems (Props/C06.v) about the Gallina model of the partial-order projection shared by Linear "
          "dominances and categorical ordering pairs (every pair satisfied for every pair list with a valid "
          "topological order; feasible weights unchanged) and of linear_lib.project / categorical project. The model "
          "is tied to the code by projecting the same float64 matrices with LinearConstraints / "
          "CategoricalCalibrationConstraints on every run; the topological order is re-validated in Coq per case."),
    note="Models: Model/PartialOrder.v, Model/LinearProject.v. The order-2 norm's square root is an oracle in "
         "theorems and a truncated Newton iteration in execution.",
    technique="Coq proof over Q model + in-Coq correspondence with the constraint objects",
    design="7/C06")

CHECKS["C19"] = dict(
    text=("Theorems (Props/C19.v) about a Gallina mirror of custom_reduce_prod's hand-written gradient: for every "
          "length, position and zero pattern the delivered number is the unique slope of the product (product of the "
          "other entries); chain rule gives exact kernel/scale slopes of the Kronecker-factored output; for Lattice "
          "(hypercube, simplex), PWLCalibration and CategoricalCalibration the kernel derivative is the interpolation "
          "weight, independent of the kernel, non-negative and summing to one for in-range/clipped Lattice inputs. "
          "tf.GradientTape gradients of the real functions/layers are compared with the model inside Coq on every run."),
    note="Models: Model/Gradients.v. TensorFlow autodiff of built-in ops is trusted; float32-only product path "
         "compared at 1e-5.",
    technique="Coq proof over Q model + in-Coq correspondence with tf.GradientTape gradients",
    design="7/C19")

NOT_YET = {}


def main():
  props = [json.loads(l) for l in open(os.path.join(ROOT, "properties.jsonl"))]
  checks = []
  na = []
  for p in props:
    pid = p["id"]
    if pid in CHECKS:
      c = CHECKS[pid]
      checks.append({
          "property_id": pid,
          "quick_cmd": "./check %s --tier quick" % pid,
          "thorough_cmd": "./check %s --tier thorough" % pid,
          "evidence_file": "/verif/evidence/%s.json" % pid,
          "replay_cmd_template": "./check %s --replay {path}" % pid,
          "engine": "coq-model-and-correspondence",
          "level_claimed": {"category": "proof", "text": c["text"], "design_ref": "DESIGN.md section " + c["design"]},
          "level_note": COMMON_NOTE + c["note"],
          "technique": c["technique"],
      })
    else:
      na.append({"property_id": pid,
                 "reason": NOT_YET.get(pid, "check not built yet in this session (Coq proof applies; see DESIGN.md "
                                            "section 7); not claimed until its check is quiet on the unchanged tree")})
  man = {
      "version": 1,
      "setup_cmd": "cd /verif/coq && sh ./configure.sh && (timeout 3000 make -k -j16 || true)",
      "hooks": {
          "guard": "TENSORFLOW_LATTICE_VERIF",
          "enable": "no hooks in /repo are needed: every observation point is a public callable; checks export "
                    "TENSORFLOW_LATTICE_VERIF=1 and PYTHONPATH=/repo",
          "baseline_off_cmd": BASELINE,
          "source_commits": [],
          "add_only": True,
      },
      "engines": [{
          "name": "coq-model-and-correspondence",
          "path": "/verif/check",
          "serves_properties": sorted(CHECKS),
          "kind_free_text": "Coq 8.16 development /verif/coq (Model/ Proofs/ Props/ Harness/) + Python harness "
                            "(harness/) generating cases, running TensorFlow Lattice from /repo and comparing in Coq",
      }],
      "checks": checks,
      "not_applicable": na,
      "notes": "See DESIGN.md. known findings: /verif/known_findings.json",
  }
  with open(os.path.join(ROOT, "MANIFEST.json"), "w") as f:
    json.dump(man, f, indent=1)


if __name__ == "__main__":
  main()
