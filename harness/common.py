"""Shared machinery of the /verif checks (see DESIGN.md sections 1, 3, 5).

Every check does, in this order:
  1. regenerate Gen/*.v from /repo (translators) and rebuild the Coq project;
  2. re-compile Props/<id>.v, collecting theorem names and Print Assumptions;
  3. generate cases from one PRNG, run the implementation on them and evaluate
     the property predicate on the implementation's output;
  4. let Coq evaluate the model on the same cases (vm_compute) and compare
     inside Coq (Harness/H_<id>.v: check : case -> bool);
  5. verdict, replay files, evidence.
"""
import fcntl
import glob
import hashlib
import json
import os
import random
import re
import shutil
import subprocess
import sys
import tempfile
import time
import traceback
from fractions import Fraction

ROOT = os.path.dirname(os.path.dirname(os.path.abspath(__file__)))
COQ = os.path.join(ROOT, "coq")
REPO = os.environ.get("VERIF_REPO", "/repo")
FORBIDDEN = re.compile(
    r"\b(Admitted|admit|Axiom|Axioms|Parameter|Parameters|Conjecture|Conjectures|"
    r"Unset\s+Guard|bypass_check|Admit\s+Obligations|type-in-type|impredicative-set)\b")

TRUSTED_BASE_COMMON = [
    "Coq 8.16.1 kernel (coqc full .vo build, no -vos/-vok); vm_compute used for the "
    "in-Coq evaluation of the model in the correspondence check; no native_compute",
    "no axioms declared by the development (scan for Admitted/admit/Axiom/Parameter/"
    "Conjecture/Unset Guard/bypass_check over every .v on every run); Print Assumptions "
    "of every property theorem is recorded under coverage.theorems",
    "numbers are exact rationals (Q): theorems are about the algorithm in exact "
    "arithmetic; floating-point rounding, overflow and underflow are outside the model",
    "the correspondence harness (generators, float->exact rational literal conversion, "
    "tolerance 1e-9 relative unless stated, Harness/Compare.v) ties the hand-written "
    "model to /repo's current working tree on every run",
    "TensorFlow tensor plumbing (reshape/transpose/stack/gather/matmul) is modelled by "
    "its index-level meaning and tied by correspondence only",
]


# --------------------------------------------------------------------------
# Coq literal writers
# --------------------------------------------------------------------------
def frac(x):
  if isinstance(x, Fraction):
    return x
  if isinstance(x, bool):
    return Fraction(int(x))
  if isinstance(x, int):
    return Fraction(x)
  x = float(x)
  if x != x or x in (float("inf"), float("-inf")):
    raise ValueError("non-finite value cannot be written as a rational: %r" % x)
  n, d = x.as_integer_ratio()
  return Fraction(n, d)


def cq(x):
  f = frac(x)
  if f.numerator < 0:
    return "((%d)#%d)" % (f.numerator, f.denominator)
  return "(%d#%d)" % (f.numerator, f.denominator)


def clist(items):
  return "[" + "; ".join(items) + "]"


def cql(xs):
  return clist([cq(x) for x in xs])


def cqm(rows):
  return clist([cql(r) for r in rows])


def cnat(n):
  return "%d%%nat" % int(n)


def cnatl(ns):
  return "(" + clist(["%d" % int(n) for n in ns]) + "%nat)" if ns else "(@nil nat)"


def cz(n):
  return "(%d)%%Z" % int(n)


def czl(ns):
  return clist([cz(n) for n in ns]) if ns else "(@nil Z)"


def cbool(b):
  return "true" if b else "false"


def copt(x, f=cq):
  return "None" if x is None else "(Some %s)" % f(x)


def cpair(a, b):
  return "(%s, %s)" % (a, b)


def cnatpairs(ps):
  if not ps:
    return "(@nil (nat*nat))"
  return clist(["(%d%%nat, %d%%nat)" % (int(a), int(b)) for a, b in ps])


# --------------------------------------------------------------------------
# Context
# --------------------------------------------------------------------------
class Ctx(object):

  def __init__(self, pid, tier, seed):
    self.pid = pid
    self.tier = tier
    self.seed = seed
    self.rng = random.Random(seed * 1000003 + int(hashlib.sha1(pid.encode()).hexdigest()[:6], 16))
    self.t0 = time.time()
    self.scratch = tempfile.mkdtemp(prefix="tflverif_%s_" % pid)
    self.notes = []

  def n(self, quick, thorough):
    return thorough if self.tier == "thorough" else quick

  def cleanup(self):
    shutil.rmtree(self.scratch, ignore_errors=True)


class Case(object):
  """One evaluated case.

  desc: JSON-able description that fully determines the case (replayable).
  coq: Coq term of type H_<id>.case (model inputs + implementation output), or
       None when the case has no model-side comparison.
  pred_fail: None, or a string naming the property clause that the
       IMPLEMENTATION's output violates on this case.
  nontrivial / key / klass: for the coverage figures.
  """

  def __init__(self, desc, coq=None, pred_fail=None, nontrivial=True, key=None,
               klass="default", info=None):
    self.desc = desc
    self.coq = coq
    self.pred_fail = pred_fail
    self.nontrivial = nontrivial
    self.key = key if key is not None else json.dumps(desc, sort_keys=True, default=str)
    self.klass = klass
    self.info = info or {}


# --------------------------------------------------------------------------
# Coq build and proof obligations
# --------------------------------------------------------------------------
def run(cmd, timeout, cwd=None, env=None):
  try:
    p = subprocess.run(cmd, cwd=cwd, env=env, stdout=subprocess.PIPE, stderr=subprocess.STDOUT,
                       timeout=timeout, universal_newlines=True)
    return p.returncode, p.stdout
  except subprocess.TimeoutExpired as e:
    out = e.stdout or ""
    if isinstance(out, bytes):
      out = out.decode("utf8", "replace")
    return 124, out + "\n[timeout after %ss]" % timeout


def regenerate(ctx):
  """Runs the translators (Gen/*.v from /repo's working tree). Returns a list of
  (translator, message) for translators that no longer cover the source."""
  problems = []
  gen_dir = os.path.join(ROOT, "harness", "translators")
  for script in sorted(glob.glob(os.path.join(gen_dir, "gen_*.py"))):
    rc, out = run([sys.executable, script, REPO, os.path.join(COQ, "Gen")], 300)
    if rc != 0:
      problems.append((os.path.basename(script), out[-2000:]))
  return problems


def build_coq(ctx, targets=None, timeout=1500):
  """Full .vo build (incremental through make) of the given targets and
  everything they depend on (default: the whole development). Returns
  (ok, log, failing_file)."""
  lock = open(os.path.join(COQ, ".build.lock"), "w")
  fcntl.flock(lock, fcntl.LOCK_EX)
  try:
    rc, out = run(["sh", os.path.join(COQ, "configure.sh")], 120)
    if rc != 0:
      return False, out, "configure.sh"
    rc, out = run(["make", "-C", COQ, "-j16", "-k"] + list(targets or []), timeout)
    failing = None
    if rc != 0:
      m = re.findall(r'File "\./([^"]+)", line', out)
      failing = m[0] if m else "?"
    return rc == 0, out, failing
  finally:
    fcntl.flock(lock, fcntl.LOCK_UN)
    lock.close()


def coq_closure(roots):
  """Files of the development transitively required by the given .v files."""
  seen = {}
  todo = list(roots)
  while todo:
    rel = todo.pop()
    if rel in seen:
      continue
    path = os.path.join(COQ, rel)
    if not os.path.exists(path):
      continue
    text = open(path).read()
    seen[rel] = text
    for m in re.finditer(r"From\s+TFL\s+Require\s+(.*?)\.(?=\s|$)", text, flags=re.S):
      for mod in m.group(1).split():
        if mod not in ("Import", "Export"):
          todo.append(mod.replace(".", "/") + ".v")
    for m in re.finditer(r"Require\s+(.*?)\.(?=\s|$)", text, flags=re.S):
      for mod in m.group(1).split():
        if mod.startswith("TFL."):
          todo.append(mod[len("TFL."):].replace(".", "/") + ".v")
  return seen


def scan_forbidden(roots=None):
  """Scans the property's dependency closure (or the whole development) for
  constructs that would declare an axiom or switch off a kernel check."""
  hits = []
  if roots is None:
    files = {os.path.relpath(p, COQ): open(p).read()
             for p in glob.glob(os.path.join(COQ, "**", "*.v"), recursive=True)}
  else:
    files = coq_closure(roots)
  for rel, text in sorted(files.items()):
    prev = None
    while prev != text:
      prev = text
      text = re.sub(r"\(\*[^*(]*(?:\*(?!\))[^*(]*|\((?!\*)[^*(]*)*\*\)", " ", text)
    for m in FORBIDDEN.finditer(text):
      hits.append("%s: %s" % (rel, m.group(0)))
  return hits


def prop_theorems(pid, timeout=600):
  """Re-compiles Props/<pid>.v and returns (ok, {theorem: assumptions}, log)."""
  path = os.path.join(COQ, "Props", pid + ".v")
  src = open(path).read()
  names = re.findall(r"^\s*Theorem\s+(\w+)", src, flags=re.M)
  printed = re.findall(r"^\s*Print Assumptions\s+(\w+)\s*\.", src, flags=re.M)
  rc, out = run(["coqc", "-Q", COQ, "TFL", "-w", "none", path], timeout)
  blocks = []
  cur = None
  for line in out.splitlines():
    if line.startswith("Closed under the global context") or line.startswith("Axioms:"):
      if cur is not None:
        blocks.append("\n".join(cur))
      cur = [line]
    elif cur is not None:
      cur.append(line)
  if cur is not None:
    blocks.append("\n".join(cur))
  assum = {}
  for i, n in enumerate(printed):
    assum[n] = blocks[i].strip() if i < len(blocks) else "(not printed)"
  ok = rc == 0 and set(names) <= set(printed) and len(blocks) == len(printed)
  return ok, names, assum, out


# --------------------------------------------------------------------------
# In-Coq correspondence
# --------------------------------------------------------------------------
def run_coq_cases(ctx, hmodule, case_terms, shard=250, timeout=900, check_fn="check"):
  """Evaluates `check` of Harness/<hmodule>.v on every case term inside Coq.
  Returns (bad_indices, errors)."""
  if not case_terms:
    return [], []
  shards = [case_terms[i:i + shard] for i in range(0, len(case_terms), shard)]
  files = []
  for k, sh in enumerate(shards):
    path = os.path.join(ctx.scratch, "cases_%s_%d.v" % (hmodule, k))
    with open(path, "w") as f:
      f.write("From TFL Require Import Harness.%s.\nOpen Scope Q_scope.\n" % hmodule)
      f.write("Definition cases : list case := [\n")
      f.write(";\n".join(sh))
      f.write("\n].\nEval vm_compute in (bad_indices %s cases).\n" % check_fn)
    files.append(path)
  procs = []
  results = [None] * len(files)
  maxpar = 16
  pending = list(enumerate(files))
  running = []
  errors = []

  def reap(block):
    for item in list(running):
      k, p, t0 = item
      if p.poll() is None:
        if time.time() - t0 > timeout:
          p.kill()
          p.wait()
          errors.append("shard %d: coqc timeout" % k)
          running.remove(item)
          results[k] = None
        continue
      out = p.stdout.read()
      running.remove(item)
      if p.returncode != 0:
        errors.append("shard %d: coqc failed: %s" % (k, out[-1500:]))
      else:
        m = re.search(r"=\s*(\[.*?\]|nil)\s*:\s*list nat", out, flags=re.S)
        if not m:
          errors.append("shard %d: cannot parse coqc output: %s" % (k, out[-500:]))
        else:
          results[k] = [int(x) for x in re.findall(r"\d+", m.group(1))]

  while pending or running:
    while pending and len(running) < maxpar:
      k, path = pending.pop(0)
      p = subprocess.Popen(
          ["bash", "-c", "ulimit -s unlimited 2>/dev/null; exec coqc -Q %s TFL -w none %s" % (COQ, path)],
          cwd=ctx.scratch, stdout=subprocess.PIPE, stderr=subprocess.STDOUT, universal_newlines=True)
      running.append((k, p, time.time()))
    reap(False)
    time.sleep(0.05)
  bad = []
  for k, r in enumerate(results):
    if r is None:
      continue
    bad.extend([k * shard + i for i in r])
  return bad, errors


# --------------------------------------------------------------------------
# Known findings
# --------------------------------------------------------------------------
def load_known(pid):
  path = os.path.join(ROOT, "known_findings.json")
  if not os.path.exists(path):
    return []
  data = json.load(open(path))
  return [e for e in data.get("findings", []) if e.get("property") == pid]


# --------------------------------------------------------------------------
# Verdict + evidence
# --------------------------------------------------------------------------
def write_replay(pid, payload):
  os.makedirs(os.path.join(ROOT, "replay"), exist_ok=True)
  blob = json.dumps(payload, sort_keys=True, indent=1, default=str)
  h = hashlib.sha1(blob.encode()).hexdigest()[:12]
  path = os.path.join(ROOT, "replay", "%s_%s.json" % (pid, h))
  with open(path, "w") as f:
    f.write(blob)
  return path


def write_evidence(ctx, coverage, assumptions, violations):
  os.makedirs(os.path.join(ROOT, "evidence"), exist_ok=True)
  ev = {
      "property_id": ctx.pid,
      "tier": ctx.tier,
      "seed": ctx.seed,
      "level": "proof",
      "coverage": coverage,
      "assumptions": assumptions,
      "wall_s": round(time.time() - ctx.t0, 2),
      "violations": violations,
  }
  path = os.path.join(ROOT, "evidence", ctx.pid + ".json")
  if os.path.realpath(os.environ.get("VERIF_REPO", "/repo")) != "/repo" or getattr(ctx, "is_replay", False):
    # a run against a scratch copy (seeded change) or a single-case replay: never overwrite the evidence of the
    # full check of /repo itself
    path = os.path.join(tempfile.gettempdir(), "verif_evidence_scratch_%s.json" % ctx.pid)
  tmp = path + ".tmp"
  with open(tmp, "w") as f:
    json.dump(ev, f, indent=1, sort_keys=True, default=str)
  os.replace(tmp, path)
  return path


def load_corpus(pid):
  out = []
  for p in sorted(glob.glob(os.path.join(ROOT, "corpus", pid, "*.json"))):
    try:
      out.append(json.load(open(p)))
    except Exception:  # pylint: disable=broad-except
      pass
  return out


def run_property(mod, ctx, replay_path=None):
  """Generic driver. `mod` provides:
     ID, HMODULE, RULE (str), TRUSTED (list of str), LIMITS (list of str),
     gen_descs(ctx) -> list of desc dicts,
     eval_cases(ctx, descs) -> list of Case  (runs the implementation),
     KNOWN_CLASSES = {class name: fn(case) -> bool},
     optional extra(ctx) -> list of (kind, message, replay payload) violations.
  """
  pid = mod.ID
  ctx.is_replay = bool(replay_path)
  violations = []   # (message, replay payload, found_input: bool)
  known_lines = []

  # 1. translators + build
  gen_problems = regenerate(ctx) if getattr(mod, "USES_GEN", False) else []
  ok_build, build_log, failing = build_coq(
      ctx, targets=["Props/%s.vo" % pid, "Harness/%s.vo" % mod.HMODULE])
  forb = scan_forbidden(["Props/%s.v" % pid, "Harness/%s.v" % mod.HMODULE])
  ok_props, names, assum, props_log = (False, [], {}, "")
  if ok_build or True:
    try:
      ok_props, names, assum, props_log = prop_theorems(pid)
    except Exception as e:  # pylint: disable=broad-except
      props_log = "prop_theorems failed: %r" % (e,)
  obligations = len(names)
  coqchk_summary = None
  if ctx.tier == "thorough" and ok_build:
    rc_chk, out_chk = run(["coqchk", "-silent", "-o", "-Q", COQ, "TFL", "TFL.Props.%s" % pid], 3000)
    i = out_chk.find("CONTEXT SUMMARY")
    coqchk_summary = {"exit": rc_chk, "summary": out_chk[i:i + 3000] if i >= 0 else out_chk[-1500:]}
  discharged = len([n for n in names if n in assum and assum[n] != "(not printed)"]) if ok_props else 0

  # 2. cases on the implementation
  if replay_path:
    payload = json.load(open(replay_path))
    descs = [payload["case"]] if "case" in payload else []
    corpus = []
  else:
    corpus = [d for d in load_corpus(pid)]
    descs = corpus + mod.gen_descs(ctx)
  cases = mod.eval_cases(ctx, descs)

  # 3. model side, in Coq
  terms, owner = [], []
  for i, c in enumerate(cases):
    if c.coq is None:
      continue
    for t in (c.coq if isinstance(c.coq, (list, tuple)) else [c.coq]):
      terms.append(t)
      owner.append(i)
  idx_with_coq = sorted(set(owner))
  bad, coq_errors = ([], [])
  if ok_build:
    bad, coq_errors = run_coq_cases(ctx, mod.HMODULE, terms, shard=getattr(mod, "SHARD", 250))
  bad_cases = sorted(set(owner[b] for b in bad))
  extra_bad = {}
  if ok_build:
    for fn in getattr(mod, "EXTRA_CHECK_FNS", []):
      b2, e2 = run_coq_cases(ctx, mod.HMODULE, terms, shard=getattr(mod, "SHARD", 250), check_fn=fn)
      coq_errors.extend(e2)
      if b2:
        extra_bad[fn] = sorted(set(owner[b] for b in b2))

  # 4. verdict
  known = [e for e in load_known(pid) if e.get("status") == "open"]
  known_classes = getattr(mod, "KNOWN_CLASSES", {})
  known_fired = {}
  pred_fail_cases = []
  for i, c in enumerate(cases):
    if c.pred_fail is None:
      continue
    matched = None
    for e in known:
      fn = known_classes.get(e.get("class"))
      if fn is not None and fn(c):
        matched = e
        break
    if matched is not None:
      known_fired.setdefault(matched["id"], []).append(i)
    else:
      pred_fail_cases.append(i)

  def shrink_key(i):
    return len(json.dumps(cases[i].desc, default=str))

  if pred_fail_cases:
    i = min(pred_fail_cases, key=shrink_key)
    violations.append((
        "implementation output violates the property: %s" % cases[i].pred_fail,
        {"property": pid, "kind": "property-predicate-on-implementation", "clause": cases[i].pred_fail,
         "case": cases[i].desc, "info": cases[i].info, "n_failing_cases": len(pred_fail_cases)}, True))
  # focused search: when model and implementation disagree but no generated case violates the property itself,
  # the module may derive further cases from the disagreeing ones (same configuration, more iterations, other
  # weights) on which the property predicate is evaluated - the search for a concrete failing input.
  if bad_cases and not pred_fail_cases and hasattr(mod, "focus") and not replay_path:
    fdescs = []
    for i in sorted(bad_cases, key=shrink_key)[:4]:
      try:
        fdescs.extend(mod.focus(ctx, cases[i].desc))
      except Exception as ex:  # pylint: disable=broad-except
        print("# focus() raised %r" % (ex,))
    if fdescs:
      fcases = mod.eval_cases(ctx, fdescs[:40])
      for c in fcases:
        if c.pred_fail is not None and not any(
            known_classes.get(e.get("class")) and known_classes[e.get("class")](c) for e in known):
          cases.append(c)
          pred_fail_cases.append(len(cases) - 1)
      if pred_fail_cases:
        i = min(pred_fail_cases, key=shrink_key)
        violations.append((
            "implementation output violates the property (found by the focused search around a model/implementation "
            "disagreement): %s" % cases[i].pred_fail,
            {"property": pid, "kind": "property-predicate-on-implementation", "clause": cases[i].pred_fail,
             "case": cases[i].desc, "info": cases[i].info, "n_failing_cases": len(pred_fail_cases)}, True))
  broken = []
  if gen_problems:
    broken.append("translator no longer covers the source: %s" % (gen_problems,))
  if not ok_build:
    broken.append("Coq development does not build (first failing file: %s)" % failing)
  if forb:
    broken.append("forbidden constructs in the development: %s" % forb[:5])
  if not ok_props:
    broken.append("Props/%s.v did not compile or misses Print Assumptions" % pid)
  if coq_errors:
    broken.append("correspondence shards failed to evaluate: %s" % coq_errors[:2])
  if coqchk_summary is not None and coqchk_summary["exit"] != 0:
    broken.append("coqchk rejected the compiled closure of Props/%s.vo" % pid)
  if bad_cases:
    i = min(bad_cases, key=shrink_key)
    broken.append("model and implementation disagree on %d case(s), e.g. case %d" % (len(bad_cases), i))
  for fn, lst in extra_bad.items():
    broken.append("in-Coq check %s fails on %d case(s), e.g. %s" % (
        fn, len(lst), json.dumps(cases[lst[0]].desc, default=str)[:400]))
  extra_stats = {}
  if hasattr(mod, "extra") and not replay_path:
    for kind, msg, payload, found in mod.extra(ctx, extra_stats):
      violations.append((msg, dict(payload, property=pid, kind=kind), found))
  if broken and not pred_fail_cases:
    payload = {"property": pid, "kind": "broken-proof-or-correspondence", "what": broken,
               "build_log_tail": build_log[-3000:] if not ok_build else "",
               "props_log_tail": props_log[-2000:] if not ok_props else ""}
    found = False
    if bad_cases:
      i = min(bad_cases, key=shrink_key)
      # a module may recognise a disagreement that is by itself a failing input of the property (e.g. the
      # implementation raised where the model - and the theorem about it - says a value is returned)
      dif = getattr(mod, "disagreement_is_failure", None)
      if dif is not None:
        for j in sorted(bad_cases, key=shrink_key):
          why = dif(cases[j])
          if why:
            i, found = j, True
            broken.insert(0, "implementation output violates the property: %s" % why)
            break
      payload["case"] = cases[i].desc
      payload["info"] = cases[i].info
      payload["correspondence_point"] = "Harness/%s.v check" % mod.HMODULE
    # For properties whose statement IS "the output equals this formula" the
    # disagreeing case is itself an input on which the property fails.
    found = found or (bool(bad_cases) and getattr(mod, "FUNCTIONAL", False))
    violations.append(("; ".join(broken), payload, found))
  elif broken:
    violations[0][1]["also_broken"] = broken

  probes = getattr(mod, "KNOWN_PROBES", {})
  probe_fired = {}
  for e in known:
    fired = known_fired.get(e["id"], [])
    if fired:
      line = "KNOWN-FINDING: property=%s %s (%d case(s) this run, e.g. %s)" % (
          pid, e["what"], len(fired), json.dumps(cases[fired[0]].desc, default=str)[:300])
      known_lines.append(line)
    elif e.get("class") in probes and not replay_path:
      # a listed finding that the case stream does not produce: replay its fixed witness on the real code
      try:
        w = probes[e["class"]](ctx)
      except Exception as ex:  # pylint: disable=broad-except
        w = None
        print("# probe of known finding %s raised %r" % (e["id"], ex))
      if w:
        probe_fired[e["id"]] = 1
        known_lines.append("KNOWN-FINDING: property=%s %s (fixed witness replayed this run: %s)" % (
            pid, e["what"], str(w)[:300]))
      else:
        print("# listed known finding %s did not reproduce on its fixed witness this run" % e["id"])

  # 5. evidence
  distinct = {}
  hist = {}
  for c in cases:
    hist[c.klass] = hist.get(c.klass, 0) + 1
    if c.nontrivial:
      distinct[c.key] = 1
  samples = [c.desc for c in cases[len(corpus):len(corpus) + 3]] or [c.desc for c in cases[:3]]
  coverage = {
      "obligations": obligations,
      "discharged": discharged,
      "checker_cmd": "make -C /verif/coq -j16 && coqc -Q /verif/coq TFL /verif/coq/Props/%s.v" % pid,
      "trusted_base": TRUSTED_BASE_COMMON + list(getattr(mod, "TRUSTED", [])),
      "theorems": assum,
      "partial_or_refuted_theorems": [n for n in names if n.endswith("_partial") or "_refuted" in n],
      "evaluations": len(cases),
      "distinct_nontrivial": len(distinct),
      "rule": mod.RULE,
      "samples": samples,
      "histogram": hist,
      "model_vs_implementation_compared": len(terms),
      "disagreements_checked": len(terms),
      "disagreements_found": len(bad_cases),
      "property_predicate_failures": len(pred_fail_cases),
      "known_findings_fired": dict({k: len(v) for k, v in known_fired.items()}, **probe_fired),
      "corpus_cases": len(corpus),
      "limits": list(getattr(mod, "LIMITS", [])),
      "exhaustive": bool(extra_stats.get("exhaustive", False)),
      "build_ok": ok_build,
      "coqchk": coqchk_summary,
  }
  coverage.update({k: v for k, v in extra_stats.items() if k != "exhaustive"})
  assumptions = list(getattr(mod, "ASSUMPTIONS", [])) + [
      "Print Assumptions per theorem is under coverage.theorems",
      "testing (not proof): the correspondence check and the predicate evaluated on "
      "the implementation's outputs"]
  write_evidence(ctx, coverage, assumptions, len(violations))

  for line in known_lines:
    print(line)
  rc = 0
  for msg, payload, found in violations:
    path = write_replay(pid, payload)
    tail = "" if found else " no-failing-input-found"
    print("# %s" % msg[:1000])
    print("VIOLATION property=%s replay=%s%s" % (pid, path, tail))
    rc = 1
  if rc == 0:
    print("OK property=%s tier=%s cases=%d compared_in_coq=%d theorems=%d/%d wall=%.0fs" % (
        pid, ctx.tier, len(cases), len(idx_with_coq), discharged, obligations, time.time() - ctx.t0))
  return rc
