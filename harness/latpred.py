"""Constraint inequalities of a Lattice kernel evaluated with numpy (used as the
property predicate on the implementation's output; mirrors the inequalities of
lattice_lib.assert_constraints). Each function returns the largest violation
(<= 0 means satisfied) of the family for a kernel of shape (prod(sizes), units)."""
import itertools
import numpy as np


def tens(w, sizes):
  w = np.asarray(w, dtype=np.float64)
  return w.reshape(list(sizes) + [w.shape[1]])


def mono_viol(w, sizes, monos):
  t = tens(w, sizes)
  worst = -np.inf
  for d, m in enumerate(monos or []):
    if m:
      diff = np.diff(t, axis=d)
      if diff.size:
        worst = max(worst, float((-diff).max()))
  return worst


def _layers(t, a, b):
  """t moved so that axes a, b come first."""
  return np.moveaxis(t, [a, b], [0, 1])


def edgeworth_viol(w, sizes, trusts):
  t = tens(w, sizes)
  worst = -np.inf
  for m, c, d in trusts or []:
    L = _layers(t, m, c)
    sq = (L[1:, 1:] - L[:-1, 1:]) - (L[1:, :-1] - L[:-1, :-1])
    if sq.size:
      worst = max(worst, float((-d * sq).max()))
  return worst


def trapezoid_viol(w, sizes, trusts):
  t = tens(w, sizes)
  worst = -np.inf
  for m, c, d in trusts or []:
    L = _layers(t, m, c)
    lhs = d * (L[0, :-1] - L[0, 1:])
    rhs = d * (L[-1, 1:] - L[-1, :-1])
    if lhs.size:
      worst = max(worst, float((-lhs).max()), float((-rhs).max()))
  return worst


def bounds_viol(w, omin, omax):
  w = np.asarray(w, dtype=np.float64)
  worst = -np.inf
  if omin is not None:
    worst = max(worst, float(omin - w.min()))
  if omax is not None:
    worst = max(worst, float(w.max() - omax))
  return worst


def unimodality_viol(w, sizes, unimodalities):
  t = tens(w, sizes)
  worst = -np.inf
  for d, u in enumerate(unimodalities or []):
    if not u:
      continue
    n = sizes[d]
    diff = np.diff(t, axis=d) * u  # valley (1): first decreasing then increasing
    # code: i < size//2 -> must decrease (for valley), else increase
    idx = np.arange(n - 1)
    sign = np.where(idx < n // 2, -1.0, 1.0)
    shape = [1] * t.ndim
    shape[d] = n - 1
    v = -(diff * sign.reshape(shape))
    worst = max(worst, float(v.max()))
  return worst


def monotonic_dominance_viol(w, sizes, doms):
  t = tens(w, sizes)
  worst = -np.inf
  for a, b in doms or []:
    L = _layers(t, a, b)
    mid = (L[1:, 1:] + L[:-1, :-1]) / 2
    worst = max(worst, float((mid - L[1:, :-1]).max()), float((L[:-1, 1:] - mid).max()))
  return worst


def range_dominance_viol(w, sizes, doms):
  t = tens(w, sizes)
  worst = -np.inf
  for a, b in doms or []:
    L = _layers(t, a, b)
    dom_range = L[-1] - L[0]          # indexed by j (weak index), then rest
    weak_range = L[:, -1] - L[:, 0]   # indexed by i (dominant index), then rest
    for i in range(L.shape[0]):
      for j in range(L.shape[1]):
        worst = max(worst, float((weak_range[i] - dom_range[j]).max()))
  return worst


def joint_monotonicity_viol(w, sizes, pairs):
  t = tens(w, sizes)
  worst = -np.inf
  for a, b in pairs or []:
    L = _layers(t, a, b)
    mid = (L[1:, :-1] + L[:-1, 1:]) / 2
    worst = max(worst, float((mid - L[1:, 1:]).max()), float((L[:-1, :-1] - mid).max()))
  return worst


def joint_unimodality_rows(sizes, juni):
  """Rows (coefficient vectors over one unit's flattened kernel) of the joint
  unimodality inequalities  <row, w> >= 0, exactly the hyperplanes the code
  projects onto (vertex / offsets enumeration of project_by_dykstra)."""
  rows = []
  shape = list(sizes)
  strides = [int(np.prod(shape[d + 1:])) for d in range(len(shape))]
  for dims, direction in juni or []:
    dims = list(dims)
    ub = [sizes[d] for d in dims]
    centre = [s // 2 for s in ub]
    others = [d for d in range(len(sizes)) if d not in dims]
    for vertex in itertools.product(*[range(s) for s in ub]):
      if all(v == c for v, c in zip(vertex, centre)):
        continue
      for offsets in itertools.product([-1, 1], repeat=len(dims)):
        eq, verts, ok = [], [], True
        for k, off in enumerate(offsets):
          dw = vertex[k] - centre[k]
          if dw == 0:
            continue
          nb = list(vertex)
          nb[k] += off
          if nb[k] < 0 or nb[k] >= ub[k]:
            ok = False
            break
          verts.append(nb)
          eq.append(dw * off)
        if not ok or not verts:
          continue
        verts.append(list(vertex))
        eq.append(-sum(eq))
        sign = 1.0 if direction == "valley" else -1.0
        for rest in itertools.product(*[range(sizes[d]) for d in others]):
          row = np.zeros(int(np.prod(sizes)))
          for v, cf in zip(verts, eq):
            full = [0] * len(sizes)
            for d, val in zip(dims, v):
              full[d] = val
            for d, val in zip(others, rest):
              full[d] = val
            row[sum(f * s for f, s in zip(full, strides))] += sign * cf
          rows.append(row)
  return rows


def joint_unimodality_viol(w, sizes, juni):
  rows = joint_unimodality_rows(sizes, juni)
  if not rows:
    return -np.inf
  w = np.asarray(w, dtype=np.float64)
  A = np.array(rows)
  return float((-(A @ w)).max())


def constraint_rows(cfg, families=("mono", "uni", "edge", "trap", "mdom", "jmono")):
  """Dense rows A (one unit) with  A w >= 0  for the homogeneous families."""
  sizes = cfg["sizes"]
  n = int(np.prod(sizes))
  idx = np.arange(n).reshape(sizes)
  rows = []

  def add(pairs):
    row = np.zeros(n)
    for i, c in pairs:
      row[i] += c
    rows.append(row)

  if "mono" in families:
    for d, m in enumerate(cfg["monos"]):
      if m:
        lo = np.take(idx, range(sizes[d] - 1), axis=d).ravel()
        hi = np.take(idx, range(1, sizes[d]), axis=d).ravel()
        for a, b in zip(lo, hi):
          add([(b, 1.0), (a, -1.0)])
  if "uni" in families:
    for d, u in enumerate(cfg["uni"]):
      if u:
        for i in range(sizes[d] - 1):
          first = i < sizes[d] // 2
          inc = (u == -1 and first) or (u == 1 and not first)
          lo = np.take(idx, [i], axis=d).ravel()
          hi = np.take(idx, [i + 1], axis=d).ravel()
          for a, b in zip(lo, hi):
            add([(b, 1.0), (a, -1.0)] if inc else [(a, 1.0), (b, -1.0)])
  def layers(a, b):
    return np.moveaxis(idx, [a, b], [0, 1])
  if "edge" in families:
    for m, c, dr in cfg["edge"]:
      L = layers(m, c)
      for i in range(L.shape[0] - 1):
        for j in range(L.shape[1] - 1):
          for p, q, r, s in zip(L[i + 1, j + 1].ravel(), L[i, j + 1].ravel(), L[i + 1, j].ravel(), L[i, j].ravel()):
            add([(p, dr), (q, -dr), (r, -dr), (s, dr)])
  if "trap" in families:
    for m, c, dr in cfg["trap"]:
      L = layers(m, c)
      for j in range(L.shape[1] - 1):
        for a, b in zip(L[0, j].ravel(), L[0, j + 1].ravel()):
          add([(a, dr), (b, -dr)])
        for a, b in zip(L[-1, j + 1].ravel(), L[-1, j].ravel()):
          add([(a, dr), (b, -dr)])
  if "mdom" in families:
    for a_, b_ in cfg["mdom"]:
      L = layers(a_, b_)
      for i in range(L.shape[0] - 1):
        for j in range(L.shape[1] - 1):
          for p, q, r, s in zip(L[i + 1, j].ravel(), L[i, j].ravel(), L[i + 1, j + 1].ravel(), L[i, j + 1].ravel()):
            add([(p, 1.0), (q, -0.5), (r, -0.5)])
            add([(q, 0.5), (r, 0.5), (s, -1.0)])
  if "jmono" in families:
    for a_, b_ in cfg["jmono"]:
      L = layers(a_, b_)
      for i in range(L.shape[0] - 1):
        for j in range(L.shape[1] - 1):
          for p, q, r, s in zip(L[i + 1, j + 1].ravel(), L[i + 1, j].ravel(), L[i, j + 1].ravel(), L[i, j].ravel()):
            add([(p, 1.0), (q, -0.5), (r, -0.5)])
            add([(q, 0.5), (r, 0.5), (s, -1.0)])
  if "rdom" in families:
    # range dominance (dominant a_, weak b_): for every dominant index i, weak index j and every rest position
    #   (w[last, j] - w[0, j]) - (w[i, last] - w[i, 0]) >= 0      (mirrors range_dominance_viol)
    for a_, b_ in cfg["rdom"]:
      L = layers(a_, b_)
      for i in range(L.shape[0]):
        for j in range(L.shape[1]):
          for p, q, r, s in zip(L[-1, j].ravel(), L[0, j].ravel(), L[i, -1].ravel(), L[i, 0].ravel()):
            add([(p, 1.0), (q, -1.0), (r, -1.0), (s, 1.0)])
  if "juni" in families:
    rows.extend(joint_unimodality_rows(sizes, cfg["juni"]))
  return np.array(rows) if rows else np.zeros((0, n))


ALL_FAMILIES = ("mono", "uni", "edge", "trap", "mdom", "jmono", "rdom", "juni")


def all_viols(w, cfg):
  """Largest violation over ALL eight homogeneous families (<= 0: every configured shape constraint holds exactly;
  bounds are judged separately by bounds_viol)."""
  s = cfg["sizes"]
  w = np.asarray(w, dtype=np.float64)
  return max(mono_viol(w, s, cfg["monos"]), unimodality_viol(w, s, cfg["uni"]),
             edgeworth_viol(w, s, cfg["edge"]), trapezoid_viol(w, s, cfg["trap"]),
             monotonic_dominance_viol(w, s, cfg["mdom"]), range_dominance_viol(w, s, cfg["rdom"]),
             joint_monotonicity_viol(w, s, cfg["jmono"]),
             max([joint_unimodality_viol(w[:, u], s, cfg["juni"]) for u in range(w.shape[1])] or [-np.inf]))


def nearest_affine(w, G, H):
  """Euclidean projection of w onto {x : G x >= H} (Lawson-Hanson least-distance programming via NNLS); None when
  the set is empty (or the solver did not produce a point)."""
  from scipy.optimize import nnls  # pylint: disable=g-import-not-at-top
  w = np.asarray(w, dtype=np.float64)
  G = np.asarray(G, dtype=np.float64)
  H = np.asarray(H, dtype=np.float64)
  if G.shape[0] == 0:
    return np.array(w)
  h = H - G @ w
  E = np.vstack([G.T, h[None, :]])
  f = np.zeros(E.shape[0])
  f[-1] = 1.0
  try:
    u, _ = nnls(E, f, maxiter=50 * E.shape[1] + 1000)
  except RuntimeError:
    return None
  r = E @ u - f
  if abs(r[-1]) < 1e-12:
    return None
  return w - r[:-1] / r[-1]


def nearest_feasible(w, A):
  """Euclidean projection of w onto {x : A x >= 0} (Moreau / NNLS on the dual)."""
  from scipy.optimize import nnls  # pylint: disable=g-import-not-at-top
  if A.shape[0] == 0:
    return np.array(w, dtype=np.float64)
  lam, _ = nnls(A.T, -np.asarray(w, dtype=np.float64), maxiter=50 * A.shape[0] + 1000)
  return np.asarray(w, dtype=np.float64) + A.T @ lam
