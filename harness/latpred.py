"""Constraint inequalities of a Lattice kernel evaluated with numpy (used as the
property predicate on the implementation's output; mirrors the inequalities of
lattice_lib.assert_constraints). Each function returns the largest violation
(<= 0 means satisfied) of the family for a kernel of shape (prod(sizes), units)."""
import itertools
import numpy as np


def tens(w, sizes):
  w = np.asarray(w, dtype=np.float64)
  return w.reshape(list(sizes) + [w.shape[1]])


def mono_viol(w, sizes, monos):
  t = tens(w, sizes)
  worst = -np.inf
  for d, m in enumerate(monos or []):
    if m:
      diff = np.diff(t, axis=d)
      if diff.size:
        worst = max(worst, float((-diff).max()))
  return worst


def _layers(t, a, b):
  """t moved so that axes a, b come first."""
  return np.moveaxis(t, [a, b], [0, 1])


def edgeworth_viol(w, sizes, trusts):
  t = tens(w, sizes)
  worst = -np.inf
  for m, c, d in trusts or []:
    L = _layers(t, m, c)
    sq = (L[1:, 1:] - L[:-1, 1:]) - (L[1:, :-1] - L[:-1, :-1])
    if sq.size:
      worst = max(worst, float((-d * sq).max()))
  return worst


def trapezoid_viol(w, sizes, trusts):
  t = tens(w, sizes)
  worst = -np.inf
  for m, c, d in trusts or []:
    L = _layers(t, m, c)
    lhs = d * (L[0, :-1] - L[0, 1:])
    rhs = d * (L[-1, 1:] - L[-1, :-1])
    if lhs.size:
      worst = max(worst, float((-lhs).max()), float((-rhs).max()))
  return worst


def bounds_viol(w, omin, omax):
  w = np.asarray(w, dtype=np.float64)
  worst = -np.inf
  if omin is not None:
    worst = max(worst, float(omin - w.min()))
  if omax is not None:
    worst = max(worst, float(w.max() - omax))
  return worst


def unimodality_viol(w, sizes, unimodalities):
  t = tens(w, sizes)
  worst = -np.inf
  for d, u in enumerate(unimodalities or []):
    if not u:
      continue
    n = sizes[d]
    diff = np.diff(t, axis=d) * u  # valley (1): first decreasing then increasing
    # code: i < size//2 -> must decrease (for valley), else increase
    idx = np.arange(n - 1)
    sign = np.where(idx < n // 2, -1.0, 1.0)
    shape = [1] * t.ndim
    shape[d] = n - 1
    v = -(diff * sign.reshape(shape))
    worst = max(worst, float(v.max()))
  return worst


def monotonic_dominance_viol(w, sizes, doms):
  t = tens(w, sizes)
  worst = -np.inf
  for a, b in doms or []:
    L = _layers(t, a, b)
    mid = (L[1:, 1:] + L[:-1, :-1]) / 2
    worst = max(worst, float((mid - L[1:, :-1]).max()), float((L[:-1, 1:] - mid).max()))
  return worst


def range_dominance_viol(w, sizes, doms):
  t = tens(w, sizes)
  worst = -np.inf
  for a, b in doms or []:
    L = _layers(t, a, b)
    dom_range = L[-1] - L[0]          # indexed by j (weak index), then rest
    weak_range = L[:, -1] - L[:, 0]   # indexed by i (dominant index), then rest
    for i in range(L.shape[0]):
      for j in range(L.shape[1]):
        worst = max(worst, float((weak_range[i] - dom_range[j]).max()))
  return worst


def joint_monotonicity_viol(w, sizes, pairs):
  t = tens(w, sizes)
  worst = -np.inf
  for a, b in pairs or []:
    L = _layers(t, a, b)
    mid = (L[1:, :-1] + L[:-1, 1:]) / 2
    worst = max(worst, float((mid - L[1:, 1:]).max()), float((L[:-1, :-1] - mid).max()))
  return worst
