#!/bin/bash
# usage: try_mutant.sh <worktree> <patch.diff> <demo.py> <check ids...>
# Applies the patch inside the scratch worktree, confirms the demo (clean: exit 0, mutated: exit 1)
# and runs the given checks against the mutated worktree (VERIF_REPO). The worktree is left clean.
wt=$1; patch=$2; demo=$3; shift 3
cd "$wt" || exit 2
git checkout -q -- . 
PYTHONPATH=$wt TF_CPP_MIN_LOG_LEVEL=3 /venv/bin/python "$demo" >/dev/null 2>&1; echo "demo on clean tree: exit $?"
git apply "$patch" || { echo "patch does not apply"; exit 2; }
PYTHONPATH=$wt TF_CPP_MIN_LOG_LEVEL=3 /venv/bin/python "$demo" >/dev/null 2>&1; echo "demo on mutated tree: exit $?"
for id in "$@"; do
  (cd /verif && VERIF_REPO=$wt ./check $id 2>&1 | grep -E "^VIOLATION|^OK|^#" | cut -c1-260)
done
git checkout -q -- .
