"""./check dispatcher."""
import argparse
import importlib
import os
import sys
import traceback

sys.path.insert(0, os.path.dirname(os.path.abspath(__file__)))
import common  # pylint: disable=g-import-not-at-top


def main():
  ap = argparse.ArgumentParser()
  ap.add_argument("pid")
  ap.add_argument("--tier", default=os.environ.get("VERIF_TIER", "quick"), choices=["quick", "thorough"])
  ap.add_argument("--replay", default=None)
  args = ap.parse_args()
  seed = int(os.environ.get("VERIF_SEED", "0") or 0)
  ctx = common.Ctx(args.pid, args.tier, seed)
  try:
    mod = importlib.import_module("props.%s" % args.pid.lower())
    rc = common.run_property(mod, ctx, replay_path=args.replay)
  except Exception:  # pylint: disable=broad-except
    traceback.print_exc()
    payload = {"property": args.pid, "kind": "check-crashed", "traceback": traceback.format_exc()}
    path = common.write_replay(args.pid, payload)
    print("VIOLATION property=%s replay=%s no-failing-input-found" % (args.pid, path))
    rc = 1
  finally:
    ctx.cleanup()
  sys.stdout.flush()
  os._exit(rc)


if __name__ == "__main__":
  main()
