"""gen_canon.py <repo_dir> <out_dir>

Fail-closed translator: tensorflow_lattice/python/utils.py's canonicalisers and
count_non_zeros  ->  <out_dir>/GenCanon.v  (Gallina functions over the Python
value universe of coq/Model/PyVal.v, returning Ok v | ValueError | OtherError).

Only the Python constructs listed below are covered.  Anything else makes the
translator exit non-zero with the offending construct, which ./check C16
reports as a broken tie (DESIGN.md section 4/5).

  statements : docstring, `x = e`, `a, b, c = e`, `x += e`, `x.append(e)`,
               `if/elif/else`, `for x in e:` (no break/continue/else),
               `return e`, `raise Exc(...)` (message ignored)
  expressions: None/True/False/int/float/str constants, -int, names,
               [..] and (..) displays, `==` `!=` `is None` `is not None`
               `in [..]` `not in [..]`, not/and/or (lazy), isinstance(x, T) for
               T in six.string_types/str/float/int/bool/list/tuple (or a tuple
               of those), len(x), x.lower(), calls of other translated
               functions (positional / keyword / constant defaults),
               [e for x in it if c], sum(e for x in it if c)

Every Python local is a Coq variable of type `value`; a loop body becomes a
named definition `<function>_body<k>` taking the locals in scope, the loop
variable and the tuple of locals the body re-binds.
"""
import ast
import hashlib
import os
import sys

FUNCS = [
    "canonicalize_convexity",
    "canonicalize_input_bounds",
    "canonicalize_monotonicity",
    "canonicalize_monotonicities",
    "canonicalize_trust",
    "canonicalize_unimodalities",
    "count_non_zeros",
]

ISINSTANCE = {"str": "is_str", "float": "is_float", "int": "is_int", "bool": "is_bool",
              "list": "is_list", "tuple": "is_tuple"}


class Unsupported(Exception):

  def __init__(self, node, why):
    line = getattr(node, "lineno", "?")
    try:
      src = ast.unparse(node)
    except Exception:  # pylint: disable=broad-except
      src = ast.dump(node)
    Exception.__init__(self, "utils.py line %s: %s: %s" % (line, why, src[:200]))


class E(object):
  """A translated pure expression: Coq term of type value or bool."""

  def __init__(self, term, kind):
    self.term = term
    self.kind = kind

  def value(self):
    return self.term if self.kind == "value" else "(VBool %s)" % self.term

  def boolean(self):
    return self.term if self.kind == "bool" else "(py_truthy %s)" % self.term


def cname(name):
  return "v_" + name


def coq_string(s, node):
  if any(ord(c) < 32 or ord(c) > 126 for c in s):
    raise Unsupported(node, "non-ASCII string constant")
  return '"%s"' % s.replace('"', '""')


class Ctx(object):

  def __init__(self, fn, mode, state):
    self.fn = fn          # FnTranslator
    self.mode = mode      # "fn" | "loop"
    self.state = state    # names re-bound by the enclosing loop body (loop mode)

  @property
  def binder(self):
    return "bind" if self.mode == "fn" else "sbind"

  def ret(self, res_term):
    return res_term if self.mode == "fn" else "(Exit %s)" % res_term


def state_tuple(names):
  if not names:
    return "tt"
  if len(names) == 1:
    return cname(names[0])
  return "(" + ", ".join(cname(n) for n in names) + ")"


def state_type(names):
  if not names:
    return "unit"
  return " * ".join(["value"] * len(names)) if len(names) > 1 else "value"


def state_unpack(names, var, body):
  if not names:
    return body
  if len(names) == 1:
    return "let %s := %s in %s" % (cname(names[0]), var, body)
  return "let '%s := %s in %s" % (state_tuple(names), var, body)


def assigned_names(stmts):
  out = []

  def add(n):
    if n not in out:
      out.append(n)

  for s in stmts:
    for node in ast.walk(s):
      if isinstance(node, ast.Assign):
        for t in node.targets:
          for m in ast.walk(t):
            if isinstance(m, ast.Name):
              add(m.id)
      elif isinstance(node, ast.AugAssign) and isinstance(node.target, ast.Name):
        add(node.target.id)
      elif (isinstance(node, ast.Call) and isinstance(node.func, ast.Attribute) and
            node.func.attr == "append" and isinstance(node.func.value, ast.Name)):
        add(node.func.value.id)
  return out


def terminates(stmts):
  if not stmts:
    return False
  last = stmts[-1]
  if isinstance(last, (ast.Return, ast.Raise)):
    return True
  if isinstance(last, ast.If):
    return terminates(last.body) and terminates(last.orelse)
  return False


class FnTranslator(object):

  def __init__(self, module, fdef):
    self.module = module
    self.fdef = fdef
    self.name = fdef.name
    self.counter = 0
    self.bodies = []   # emitted loop-body definitions
    self.calls = set()
    a = fdef.args
    if a.kwonlyargs or a.kwarg or a.posonlyargs:
      raise Unsupported(fdef, "keyword-only / ** / positional-only parameters")
    self.params = [p.arg for p in a.args]
    self.defaults = {}
    for p, d in zip(self.params[len(self.params) - len(a.defaults):], a.defaults):
      self.defaults[p] = d
    self.vararg = a.vararg.arg if a.vararg else None
    if self.vararg and self.params:
      raise Unsupported(fdef, "*args together with named parameters")

  def fresh(self, base="t"):
    self.counter += 1
    return "%s%d" % (base, self.counter)

  # ---------------------------------------------------------------- expressions
  def cps(self, e, env, ctx, k):
    """Translates expression e; k receives the pure E and returns the Coq term
    of the rest of the computation (type: result value in fn mode, step S in
    loop mode)."""
    if isinstance(e, ast.Constant):
      v = e.value
      if v is None:
        return k(E("VNone", "value"))
      if v is True or v is False:
        return k(E("(VBool %s)" % ("true" if v else "false"), "value"))
      if isinstance(v, int):
        return k(E("(VInt (%d))" % v, "value"))
      if isinstance(v, float):
        if v != v or v in (float("inf"), float("-inf")):
          raise Unsupported(e, "non-finite float constant")
        n, d = v.as_integer_ratio()
        return k(E("(VFloat ((%d)#%d))" % (n, d), "value"))
      if isinstance(v, str):
        return k(E("(VStr %s)" % coq_string(v, e), "value"))
      raise Unsupported(e, "constant")
    if isinstance(e, ast.UnaryOp) and isinstance(e.op, ast.USub):
      if isinstance(e.operand, ast.Constant) and type(e.operand.value) is int:
        return k(E("(VInt (-%d))" % e.operand.value, "value"))
      raise Unsupported(e, "unary minus of a non-constant")
    if isinstance(e, ast.UnaryOp) and isinstance(e.op, ast.Not):
      return self.cps(e.operand, env, ctx, lambda x: k(E("(negb %s)" % x.boolean(), "bool")))
    if isinstance(e, ast.Name):
      if e.id not in env:
        raise Unsupported(e, "name is not a local variable or parameter")
      return k(E(cname(e.id), "value"))
    if isinstance(e, (ast.List, ast.Tuple)):
      if not isinstance(e.ctx, ast.Load):
        raise Unsupported(e, "display in store context")
      ctor = "VList" if isinstance(e, ast.List) else "VTuple"
      return self.cps_list(e.elts, env, ctx,
                           lambda xs: k(E("(%s [%s])" % (ctor, "; ".join(x.value() for x in xs)), "value")))
    if isinstance(e, ast.Compare):
      if len(e.ops) != 1:
        raise Unsupported(e, "chained comparison")
      op, right = e.ops[0], e.comparators[0]
      if isinstance(op, (ast.Is, ast.IsNot)):
        if not (isinstance(right, ast.Constant) and right.value is None):
          raise Unsupported(e, "`is` with something other than None")
        neg = isinstance(op, ast.IsNot)
        return self.cps(e.left, env, ctx, lambda x: k(E(
            "(negb (is_none %s))" % x.value() if neg else "(is_none %s)" % x.value(), "bool")))
      if isinstance(op, (ast.Eq, ast.NotEq)):
        neg = isinstance(op, ast.NotEq)

        def after(xs):
          t = "(py_eq %s %s)" % (xs[0].value(), xs[1].value())
          return k(E("(negb %s)" % t if neg else t, "bool"))
        return self.cps_list([e.left, right], env, ctx, after)
      if isinstance(op, (ast.In, ast.NotIn)):
        if not isinstance(right, (ast.List, ast.Tuple)):
          raise Unsupported(e, "`in` with a right operand that is not a display")
        neg = isinstance(op, ast.NotIn)

        def after_in(xs):
          t = "(py_in %s [%s])" % (xs[0].value(), "; ".join(x.value() for x in xs[1:]))
          return k(E("(negb %s)" % t if neg else t, "bool"))
        return self.cps_list([e.left] + list(right.elts), env, ctx, after_in)
      raise Unsupported(e, "comparison operator")
    if isinstance(e, ast.BoolOp):
      if all(self.is_pure(v, env) for v in e.values):
        op = "andb" if isinstance(e.op, ast.And) else "orb"

        def fold(xs):
          t = xs[-1].boolean()
          for x in reversed(xs[:-1]):
            t = "(%s %s %s)" % (op, x.boolean(), t)
          return k(E(t, "bool"))
        return self.cps_list(e.values, env, ctx, fold)
      # lazy evaluation with an effectful operand: build a `result bool` term
      # (only the truth value of and/or is used by the supported contexts)
      rb = self.result_bool(e, env)
      b = self.fresh("b")
      return "(%s %s (fun %s => %s))" % (ctx.binder, rb, b, k(E(b, "bool")))
    if isinstance(e, ast.Call):
      return self.cps_call(e, env, ctx, k)
    if isinstance(e, ast.ListComp):
      return self.comprehension(e, env, ctx, k, kind="list")
    raise Unsupported(e, "expression")

  def cps_list(self, es, env, ctx, k):
    def go(i, acc):
      if i == len(es):
        return k(acc)
      return self.cps(es[i], env, ctx, lambda x: go(i + 1, acc + [x]))
    return go(0, [])

  def is_pure(self, e, env):
    """True when the translation of e introduces no bind (cannot raise)."""
    marker = []

    class Probe(Ctx):
      @property
      def binder(self_inner):  # pylint: disable=no-self-argument
        marker.append(1)
        return "bind"
    saved = (self.counter, list(self.bodies), set(self.calls))
    try:
      self.cps(e, env, Probe(self, "fn", []), lambda x: "")
    finally:
      self.counter, self.bodies, self.calls = saved
    return not marker

  def result_bool(self, e, env):
    """Coq term of type `result bool` for the truth value of e (lazy and/or)."""
    inner = Ctx(self, "fn", [])
    if isinstance(e, ast.BoolOp):
      terms = [self.result_bool(v, env) for v in e.values]
      t = terms[-1]
      for x in reversed(terms[:-1]):
        b = self.fresh("b")
        if isinstance(e.op, ast.And):
          t = "(bind %s (fun %s => if %s then %s else Ok false))" % (x, b, b, t)
        else:
          t = "(bind %s (fun %s => if %s then Ok true else %s))" % (x, b, b, t)
      return t
    return self.cps(e, env, inner, lambda x: "(Ok %s)" % x.boolean())

  def cps_call(self, e, env, ctx, k):
    f = e.func
    if isinstance(f, ast.Name) and f.id == "isinstance":
      if len(e.args) != 2 or e.keywords:
        raise Unsupported(e, "isinstance arity")
      tests = self.type_tests(e.args[1])

      def after(x):
        t = "(%s %s)" % (tests[-1], x.value())
        for fn in reversed(tests[:-1]):
          t = "(orb (%s %s) %s)" % (fn, x.value(), t)
        return k(E(t, "bool"))
      return self.cps(e.args[0], env, ctx, after)
    if isinstance(f, ast.Name) and f.id == "len":
      if len(e.args) != 1 or e.keywords:
        raise Unsupported(e, "len arity")
      t = self.fresh()
      return self.cps(e.args[0], env, ctx, lambda x: "(%s (py_len %s) (fun %s => %s))" % (
          ctx.binder, x.value(), t, k(E(t, "value"))))
    if isinstance(f, ast.Name) and f.id == "sum":
      if len(e.args) != 1 or e.keywords or not isinstance(e.args[0], ast.GeneratorExp):
        raise Unsupported(e, "sum of something other than a generator expression")
      return self.comprehension(e.args[0], env, ctx, k, kind="sum")
    if isinstance(f, ast.Attribute) and f.attr == "lower":
      if e.args or e.keywords:
        raise Unsupported(e, ".lower() with arguments")
      t = self.fresh()
      return self.cps(f.value, env, ctx, lambda x: "(%s (py_lower %s) (fun %s => %s))" % (
          ctx.binder, x.value(), t, k(E(t, "value"))))
    if isinstance(f, ast.Name) and f.id in self.module.translators:
      callee = self.module.translators[f.id]
      if callee.vararg:
        raise Unsupported(e, "call of a *args function")
      if f.id == self.name:
        raise Unsupported(e, "recursive call")
      self.calls.add(f.id)
      actual = {}
      if len(e.args) > len(callee.params):
        raise Unsupported(e, "too many positional arguments")
      for p, a in zip(callee.params, e.args):
        if isinstance(a, ast.Starred):
          raise Unsupported(e, "starred argument")
        actual[p] = a
      for kw in e.keywords:
        if kw.arg is None or kw.arg not in callee.params or kw.arg in actual:
          raise Unsupported(e, "keyword argument")
        actual[kw.arg] = kw.value
      order = []
      for p in callee.params:
        if p in actual:
          order.append(actual[p])
        elif p in callee.defaults:
          order.append(callee.defaults[p])
        else:
          raise Unsupported(e, "missing argument %s" % p)
      t = self.fresh()
      return self.cps_list(order, env, ctx, lambda xs: "(%s (%s %s) (fun %s => %s))" % (
          ctx.binder, f.id, " ".join(x.value() for x in xs), t, k(E(t, "value"))))
    raise Unsupported(e, "call")

  def type_tests(self, t):
    if isinstance(t, ast.Tuple):
      out = []
      for x in t.elts:
        out.extend(self.type_tests(x))
      return out
    if (isinstance(t, ast.Attribute) and isinstance(t.value, ast.Name) and t.value.id == "six" and
        t.attr == "string_types"):
      return ["is_str"]
    if isinstance(t, ast.Name) and t.id in ISINSTANCE:
      return [ISINSTANCE[t.id]]
    raise Unsupported(t, "isinstance type")

  def comprehension(self, e, env, ctx, k, kind):
    if len(e.generators) != 1:
      raise Unsupported(e, "nested comprehension")
    g = e.generators[0]
    if g.is_async or not isinstance(g.target, ast.Name):
      raise Unsupported(e, "comprehension target")
    acc = self.fresh("acc")
    accn = ast.Name(id=acc, ctx=ast.Load())
    if kind == "list":
      init = ast.Assign(targets=[ast.Name(id=acc, ctx=ast.Store())], value=ast.List(elts=[], ctx=ast.Load()))
      upd = ast.Expr(value=ast.Call(func=ast.Attribute(value=accn, attr="append", ctx=ast.Load()),
                                    args=[e.elt], keywords=[]))
    else:
      init = ast.Assign(targets=[ast.Name(id=acc, ctx=ast.Store())], value=ast.Constant(value=0))
      upd = ast.AugAssign(target=ast.Name(id=acc, ctx=ast.Store()), op=ast.Add(), value=e.elt)
    body = [upd]
    for cond in reversed(g.ifs):
      body = [ast.If(test=cond, body=body, orelse=[])]
    loop = ast.For(target=g.target, iter=g.iter, body=body, orelse=[])
    for n in (init, upd, loop):
      ast.copy_location(n, e)
      ast.fix_missing_locations(n)
    return self.stmts([init, loop], env, ctx, lambda env2: k(E(cname(acc), "value")))

  # ----------------------------------------------------------------- statements
  def stmts(self, ss, env, ctx, kont):
    if not ss:
      return kont(env)
    s, rest = ss[0], ss[1:]
    if terminates([s]) and rest:
      raise Unsupported(rest[0], "unreachable statement")
    return self.stmt(s, env, ctx, lambda env2: self.stmts(rest, env2, ctx, kont))

  def stmt(self, s, env, ctx, kont):
    if isinstance(s, ast.Expr):
      v = s.value
      if isinstance(v, ast.Constant) and isinstance(v.value, str):
        return kont(env)  # docstring
      if (isinstance(v, ast.Call) and isinstance(v.func, ast.Attribute) and v.func.attr == "append" and
          isinstance(v.func.value, ast.Name) and len(v.args) == 1 and not v.keywords):
        x = v.func.value.id
        if x not in env:
          raise Unsupported(s, "append to an unknown variable")
        return self.cps(v.args[0], env, ctx, lambda a: "(%s (py_append %s %s) (fun %s => %s))" % (
            ctx.binder, cname(x), a.value(), cname(x), kont(env)))
      raise Unsupported(s, "expression statement")
    if isinstance(s, ast.Return):
      if s.value is None:
        return ctx.ret("(Ok VNone)")
      return self.cps(s.value, env, ctx, lambda x: ctx.ret("(Ok %s)" % x.value()))
    if isinstance(s, ast.Raise):
      exc = s.exc
      if s.cause is not None or not (isinstance(exc, ast.Call) and isinstance(exc.func, ast.Name)):
        raise Unsupported(s, "raise of something other than ExceptionClass(...)")
      for a in list(exc.args) + [kw.value for kw in exc.keywords]:
        self.check_message(a)
      if exc.func.id == "ValueError":
        return ctx.ret("ValueError")
      return ctx.ret("(OtherError %s)" % coq_string(exc.func.id, s))
    if isinstance(s, ast.Assign):
      if len(s.targets) != 1:
        raise Unsupported(s, "multiple assignment targets")
      t = s.targets[0]
      if isinstance(t, ast.Name):
        return self.cps(s.value, env, ctx, lambda x: "(let %s := %s in %s)" % (
            cname(t.id), x.value(), kont(env + [t.id] if t.id not in env else env)))
      if isinstance(t, ast.Tuple) and all(isinstance(m, ast.Name) for m in t.elts):
        names = [m.id for m in t.elts]
        l = self.fresh("l")

        def after(x):
          env2 = env + [n for n in names if n not in env]
          body = kont(env2)
          for i, n in reversed(list(enumerate(names))):
            body = "let %s := nth_value %s %d in %s" % (cname(n), l, i, body)
          return "(%s (py_unpack %d %s) (fun %s => %s))" % (ctx.binder, len(names), x.value(), l, body)
        return self.cps(s.value, env, ctx, after)
      raise Unsupported(s, "assignment target")
    if isinstance(s, ast.AugAssign):
      if not (isinstance(s.target, ast.Name) and isinstance(s.op, ast.Add)):
        raise Unsupported(s, "augmented assignment")
      x = s.target.id
      if x not in env:
        raise Unsupported(s, "+= on an unknown variable")
      return self.cps(s.value, env, ctx, lambda a: "(%s (py_add %s %s) (fun %s => %s))" % (
          ctx.binder, cname(x), a.value(), cname(x), kont(env)))
    if isinstance(s, ast.If):
      # variables first bound inside a branch are not visible afterwards (reading
      # one later is reported as an unknown name: fail closed)
      def branch(body):
        return self.stmts(body, env, ctx, lambda env2: kont(env))
      return self.cps(s.test, env, ctx, lambda c: "(if %s then %s else %s)" % (
          c.boolean(), branch(s.body), branch(s.orelse)))
    if isinstance(s, ast.For):
      if s.orelse or not isinstance(s.target, ast.Name):
        raise Unsupported(s, "for-else / tuple loop target")
      for node in ast.walk(s):
        if isinstance(node, (ast.Break, ast.Continue)):
          raise Unsupported(node, "break/continue")
      tgt = s.target.id
      state = [n for n in assigned_names(s.body) if n in env and n != tgt]
      for n in assigned_names(s.body):
        if n not in env and n != tgt:
          # loop-local temporaries are fine as long as they are not read afterwards;
          # they are simply not part of the state (not visible after the loop)
          pass
      self.counter += 1
      bname = "%s_body%d" % (self.name, self.counter)
      inner = Ctx(self, "loop", state)
      params = [n for n in env if n not in state and n != tgt]
      body_env = list(env) + ([tgt] if tgt not in env else [])
      body_term = self.stmts(s.body, body_env, inner, lambda env2: "(Next %s)" % state_tuple(state))
      self.bodies.append("Definition %s %s(%s : value) (st : %s) : step (%s) :=\n  %s.\n" % (
          bname, "".join("(%s : value) " % cname(p) for p in params), cname(tgt), state_type(state),
          state_type(state), state_unpack(state, "st", body_term)))
      items, st, r = self.fresh("items"), self.fresh("st"), self.fresh("r")
      call = "%s%s" % (bname, "".join(" " + cname(p) for p in params))

      def after(x):
        # after the loop the loop variable is not visible (fail closed if read)
        env_after = [n for n in env]
        return ("(%s (py_iter %s) (fun %s => match py_for %s (%s) %s with Exit %s => %s | Next %s => %s end))" % (
            ctx.binder, x.value(), items, items, call, state_tuple(state), r,
            r if ctx.mode == "fn" else "Exit %s" % r, st, state_unpack(state, st, kont(env_after))))
      return self.cps(s.iter, env, ctx, after)
    raise Unsupported(s, "statement")

  def check_message(self, a):
    """Exception messages are not modelled, but they must not be able to raise
    something themselves beyond str.format / % of locals."""
    for node in ast.walk(a):
      ok = isinstance(node, (ast.Constant, ast.Name, ast.Load, ast.Tuple, ast.BinOp, ast.Mod, ast.Add,
                             ast.Attribute, ast.Call, ast.JoinedStr, ast.FormattedValue))
      if not ok:
        raise Unsupported(a, "exception message")
      if isinstance(node, ast.Call):
        f = node.func
        if not ((isinstance(f, ast.Attribute) and f.attr == "format") or
                (isinstance(f, ast.Name) and f.id in ("str", "repr", "type"))):
          raise Unsupported(a, "call inside an exception message")

  # ------------------------------------------------------------------- function
  def translate(self):
    params = self.params if not self.vararg else [self.vararg]
    ctx = Ctx(self, "fn", [])
    body = self.stmts(self.fdef.body, list(params), ctx, lambda env: "(Ok VNone)")
    head = "Definition %s %s: result value :=\n  %s.\n" % (
        self.name, "".join("(%s : value) " % cname(p) for p in params), body)
    return "".join(self.bodies) + head


class Module(object):

  def __init__(self, src):
    tree = ast.parse(src)
    self.translators = {}
    for node in tree.body:
      if isinstance(node, ast.FunctionDef) and node.name in FUNCS:
        if node.decorator_list:
          raise Unsupported(node, "decorated function")
        self.translators[node.name] = FnTranslator(self, node)
    missing = [f for f in FUNCS if f not in self.translators]
    if missing:
      raise Exception("utils.py no longer defines: %s" % ", ".join(missing))

  def emit(self, digest):
    done, out = [], []
    texts = {}
    for name, tr in self.translators.items():
      texts[name] = tr.translate()
    pending = list(FUNCS)
    while pending:
      progress = False
      for name in list(pending):
        if all(c in done for c in self.translators[name].calls):
          out.append(texts[name])
          done.append(name)
          pending.remove(name)
          progress = True
      if not progress:
        raise Exception("cyclic calls among: %s" % pending)
    disp = ["Definition gen_call (f : string) (args : list value) : result value :="]
    for name in FUNCS:
      tr = self.translators[name]
      if tr.vararg:
        call = "%s (VTuple args)" % name
      else:
        call = "%s %s" % (name, " ".join("(nth_value args %d)" % i for i in range(len(tr.params))))
      disp.append('  if String.eqb f "%s" then %s else' % (name, call))
    disp.append('  OtherError "unknown function".')
    arity = ["Definition gen_arity (f : string) : option nat :="]
    for name in FUNCS:
      tr = self.translators[name]
      arity.append('  if String.eqb f "%s" then %s else' % (
          name, "None" if tr.vararg else "Some %d%%nat" % len(tr.params)))
    arity.append("  None.")
    header = ("(* GENERATED by harness/translators/gen_canon.py from tensorflow_lattice/python/utils.py\n"
              "   (sha1 of the translated function sources: %s).  Do not edit. *)\n"
              "From TFL Require Import Model.PyVal.\nOpen Scope string_scope.\n\n" % digest)
    return header + "\n".join(out) + "\n" + "\n".join(disp) + "\n\n" + "\n".join(arity) + "\n"


def main(argv):
  if len(argv) != 3:
    sys.stderr.write(__doc__)
    return 2
  repo, out_dir = argv[1], argv[2]
  path = os.path.join(repo, "tensorflow_lattice", "python", "utils.py")
  try:
    src = open(path).read()
    mod = Module(src)
    h = hashlib.sha1()
    for name in FUNCS:
      h.update(ast.dump(mod.translators[name].fdef).encode())
    text = mod.emit(h.hexdigest()[:16])
  except Unsupported as e:
    sys.stdout.write("gen_canon: construct not covered by the translator: %s\n" % e)
    return 1
  except Exception as e:  # pylint: disable=broad-except
    sys.stdout.write("gen_canon: cannot translate %s: %s\n" % (path, e))
    return 1
  os.makedirs(out_dir, exist_ok=True)
  out = os.path.join(out_dir, "GenCanon.v")
  old = open(out).read() if os.path.exists(out) else None
  if old != text:
    tmp = out + ".tmp.%d" % os.getpid()
    with open(tmp, "w") as f:
      f.write(text)
    os.replace(tmp, out)
  return 0


if __name__ == "__main__":
  sys.exit(main(sys.argv))
