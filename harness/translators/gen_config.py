#!/usr/bin/env python
"""Translator for property C11: source text of tensorflow_lattice -> Coq data.

  python gen_config.py <repo_dir> <out_dir>

Reads every non-test module <repo_dir>/tensorflow_lattice/python/*.py with the
`ast` module (nothing is imported or executed) and, for every class that
defines `get_config` (and the `_Config` subclasses of configs.py that inherit
it), extracts

  * the `__init__` parameter list with defaults,
  * for each parameter the attribute it is stored in and how
    (Direct | Wrapped <name> | dropped), including stores under `if <param>:`,
  * the key -> expression dictionary returned by `get_config`
    (Attr | Serialized | BaseAttr | Other; keys under `if self.<attr>:`;
    how the Keras base class's config is merged),
  * what a custom `from_config` deserialises / passes on,
  * the registry returned by premade.get_custom_objects.

It writes <out_dir>/GenConfig.v (class descriptions for Model/ConfigModel.v)
and <out_dir>/../Props/C11.v (one instantiation of each generic theorem of
Proofs/ConfigRoundTrip.v per class; the statements are fixed in the hand-written
Proofs file, only the list of classes is generated).

FAIL-CLOSED: any construct outside the shapes listed in this file raises
Uncovered and the program exits with status 2 and a message; the check reports
that as a broken tie.  The module can also be imported: extract(repo) returns
the same data as Python dictionaries (used by harness/props/c11.py).
"""
import ast
import glob
import os
import sys
from fractions import Fraction

KERAS_LAYER_KEYS = ["name", "trainable", "dtype", "batch_input_shape"]
KERAS_MODEL_KEYS = ["name", "trainable"]
KIND_BY_BASE = {
    "keras.layers.Layer": "layer",
    "keras.Model": "model",
    "keras.constraints.Constraint": "constraint",
    "keras.initializers.Initializer": "initializer",
    "keras.regularizers.Regularizer": "regularizer",
    "_Config": "config",
}
SERIALIZE_FUNCS = (
    "keras.initializers.serialize", "keras.regularizers.serialize", "keras.constraints.serialize",
    "keras.layers.serialize", "keras.utils.legacy.serialize_keras_object",
    "keras.utils.serialize_keras_object",
)
DESERIALIZE_FUNCS = (
    "keras.utils.legacy.deserialize_keras_object", "keras.utils.deserialize_keras_object",
    "keras.layers.deserialize",
)


class Uncovered(Exception):
  pass


def fail(where, node, what):
  line = getattr(node, "lineno", "?")
  try:
    text = ast.unparse(node)
  except Exception:  # pylint: disable=broad-except
    text = repr(node)
  raise Uncovered("%s line %s: %s: %s" % (where, line, what, text[:200]))


def dotted(node):
  """a.b.c -> 'a.b.c' ; None when the expression is not a dotted name."""
  parts = []
  while isinstance(node, ast.Attribute):
    parts.append(node.attr)
    node = node.value
  if isinstance(node, ast.Name):
    parts.append(node.id)
    return ".".join(reversed(parts))
  return None


def is_docstring(st):
  return isinstance(st, ast.Expr) and isinstance(st.value, ast.Constant) and isinstance(st.value.value, str)


def self_attr(node):
  if isinstance(node, ast.Attribute) and isinstance(node.value, ast.Name) and node.value.id == "self":
    return node.attr
  return None


def names_in(node):
  return {n.id for n in ast.walk(node) if isinstance(n, ast.Name)}


# ---------------------------------------------------------------------------
# default values
# ---------------------------------------------------------------------------
def const_value(where, node):
  """Python literal -> JSON-able tagged value ('none',), ('bool', b), ... """
  if isinstance(node, ast.Constant):
    v = node.value
    if v is None:
      return ["none"]
    if isinstance(v, bool):
      return ["bool", v]
    if isinstance(v, int):
      return ["int", v]
    if isinstance(v, float):
      f = Fraction(repr(v))
      return ["q", f.numerator, f.denominator]
    if isinstance(v, str):
      return ["str", v]
    fail(where, node, "default constant of unsupported type")
  if isinstance(node, ast.UnaryOp) and isinstance(node.op, ast.USub):
    inner = const_value(where, node.operand)
    if inner[0] == "int":
      return ["int", -inner[1]]
    if inner[0] == "q":
      return ["q", -inner[1], inner[2]]
    fail(where, node, "negated non-number default")
  if isinstance(node, (ast.List, ast.Tuple)):
    return ["list" if isinstance(node, ast.List) else "tuple", [const_value(where, e) for e in node.elts]]
  d = dotted(node)
  if d is not None:
    return ["obj", d]
  fail(where, node, "default value shape not covered")


def py_value(v):
  """Run-time Python object -> the same tagged representation (harness side)."""
  if v is None:
    return ["none"]
  if isinstance(v, bool):
    return ["bool", v]
  if isinstance(v, int):
    return ["int", int(v)]
  if isinstance(v, float):
    if v != v or v in (float("inf"), float("-inf")):
      return ["obj", repr(v)]
    f = Fraction(repr(v))
    return ["q", f.numerator, f.denominator]
  if isinstance(v, str):
    return ["str", v]
  if isinstance(v, list):
    return ["list", [py_value(e) for e in v]]
  if isinstance(v, tuple):
    return ["tuple", [py_value(e) for e in v]]
  return ["obj", type(v).__name__]


def coq_string(s):
  if any(ord(c) < 32 or ord(c) > 126 for c in s):
    raise Uncovered("non-printable character in string %r" % s)
  return '"' + s.replace('"', '""') + '"'


def coq_value(v):
  t = v[0]
  if t == "none":
    return "VNone"
  if t == "bool":
    return "(VBool %s)" % ("true" if v[1] else "false")
  if t == "int":
    return "(VInt (%d)%%Z)" % v[1]
  if t == "q":
    return "(VQ ((%d)#%d))" % (v[1], v[2])
  if t == "str":
    return "(VStr %s)" % coq_string(v[1])
  if t in ("list", "tuple"):
    return "(%s [%s])" % ("VList" if t == "list" else "VTuple", "; ".join(coq_value(e) for e in v[1]))
  if t == "obj":
    return "(VObj %s [])" % coq_string(v[1])
  if t == "unset":
    return "VUnset"
  raise Uncovered("value tag %r" % (t,))


# ---------------------------------------------------------------------------
# __init__
# ---------------------------------------------------------------------------
def parse_params(where, fn):
  a = fn.args
  if a.vararg is not None or a.kwonlyargs or getattr(a, "posonlyargs", []):
    fail(where, fn, "*args / keyword-only / positional-only parameters are not covered")
  if not a.args or a.args[0].arg != "self":
    fail(where, fn, "first parameter is not self")
  names = [x.arg for x in a.args[1:]]
  defaults = [None] * (len(names) - len(a.defaults)) + list(a.defaults)
  if len(defaults) != len(names):
    fail(where, fn, "default alignment")
  params = []
  for n, dflt in zip(names, defaults):
    params.append((n, None if dflt is None else const_value(where + "." + n, dflt)))
  return params, a.kwarg is not None


class Site(object):
  """One place where __init__ writes to self.<attr>."""

  def __init__(self, attr, value, conds, loops, kind, node, order):
    self.attr = attr          # attribute name
    self.value = value        # ast expression written (appended for kind == 'append')
    self.conds = conds        # list of ast tests on the path (if / elif, negated for else)
    self.loops = loops        # list of (loop variable names, iterated expression)
    self.kind = kind          # 'assign' | 'append'
    self.node = node
    self.order = order


def collect_sites(where, body, param_names):
  """Walks __init__; returns (sites, rebinds) where rebinds[name] = list of
  (order, value expr) for assignments to local names."""
  sites = []
  rebinds = {}
  counter = [0]

  def nxt():
    counter[0] += 1
    return counter[0]

  def add_local(name, value, node):
    rebinds.setdefault(name, []).append((nxt(), value))

  def target_local_names(t):
    if isinstance(t, ast.Name):
      return [t.id]
    if isinstance(t, (ast.Tuple, ast.List)) and all(isinstance(e, ast.Name) for e in t.elts):
      return [e.id for e in t.elts]
    return None

  def walk(stmts, conds, loops):
    for st in stmts:
      if is_docstring(st):
        continue
      if isinstance(st, ast.Expr):
        if not isinstance(st.value, ast.Call):
          fail(where, st, "expression statement that is not a call")
        f = st.value.func
        if (isinstance(f, ast.Attribute) and f.attr == "append" and self_attr(f.value) is not None):
          if len(st.value.args) != 1 or st.value.keywords:
            fail(where, st, "append with unusual arguments")
          sites.append(Site(self_attr(f.value), st.value.args[0], list(conds), list(loops), "append", st, nxt()))
        # any other call (verify_hyperparameters, super().__init__, logging) stores nothing
        continue
      if isinstance(st, ast.Assign):
        if len(st.targets) != 1:
          fail(where, st, "chained assignment")
        t = st.targets[0]
        if self_attr(t) is not None:
          sites.append(Site(self_attr(t), st.value, list(conds), list(loops), "assign", st, nxt()))
        elif isinstance(t, (ast.Tuple, ast.List)) and all(self_attr(e) is not None for e in t.elts):
          for e in t.elts:
            sites.append(Site(self_attr(e), st.value, list(conds), list(loops), "assign", st, nxt()))
        elif target_local_names(t) is not None:
          for n in target_local_names(t):
            add_local(n, st.value, st)
        elif (isinstance(t, ast.Subscript) and isinstance(t.value, ast.Name) and t.value.id == "kwargs"):
          pass  # kwargs['inputs'] = ... (premade models)
        else:
          fail(where, st, "assignment target not covered")
        continue
      if isinstance(st, ast.If):
        walk(st.body, conds + [("pos", st.test)], loops)
        walk(st.orelse, conds + [("neg", st.test)], loops)
        continue
      if isinstance(st, ast.For):
        names = target_local_names(st.target)
        if names is None or st.orelse:
          fail(where, st, "for loop shape not covered")
        for n in names:
          add_local(n, st.iter, st)
        walk(st.body, conds, loops + [(names, st.iter)])
        continue
      if isinstance(st, ast.With):
        walk(st.body, conds, loops)
        continue
      if isinstance(st, (ast.Raise, ast.Return, ast.Pass)):
        continue
      fail(where, st, "statement kind not covered in __init__")

  walk(body, [], [])
  return sites, rebinds


def depends_on(expr, p, rebinds, seen=None):
  """Does expr mention parameter p, directly or through local/loop variables?"""
  seen = seen or set()
  for n in names_in(expr):
    if n == p:
      return True
    if n in rebinds and n not in seen:
      seen.add(n)
      for _, v in rebinds[n]:
        if depends_on(v, p, rebinds, seen):
          return True
  return False


def shape_name(expr, p):
  if isinstance(expr, ast.Name):
    return "id" if expr.id == p else "var:" + expr.id
  if isinstance(expr, ast.List) and len(expr.elts) == 1 and isinstance(expr.elts[0], ast.Name) and expr.elts[0].id == p:
    return "[id]"
  if isinstance(expr, ast.Call):
    d = dotted(expr.func)
    return d if d is not None else "call"
  return "expr"


def call_passes_param(expr, p):
  """f(p, ...) or f(kw=p, ...) with p passed as a bare name."""
  if not isinstance(expr, ast.Call):
    return False
  for a in expr.args:
    if isinstance(a, ast.Name) and a.id == p:
      return True
  for k in expr.keywords:
    if isinstance(k.value, ast.Name) and k.value.id == p:
      return True
  return False


def single_tuple_if(node, attr, p):
  """if isinstance(p, tuple) and <rest>: self.attr = [p]  else: self.attr = p
  -> 'single_tuple_to_list' when <rest> is isinstance(p[0], int),
     'single_pair_to_list'  when <rest> is len(p) == 2 and isinstance(p[1], six.string_types),
     None otherwise."""
  if not isinstance(node, ast.If) or len(node.body) != 1 or len(node.orelse) != 1:
    return None
  t = node.test
  if not (isinstance(t, ast.BoolOp) and isinstance(t.op, ast.And) and t.values):
    return None
  first = t.values[0]
  if not (isinstance(first, ast.Call) and dotted(first.func) == "isinstance" and len(first.args) == 2
          and isinstance(first.args[0], ast.Name) and first.args[0].id == p
          and dotted(first.args[1]) == "tuple"):
    return None
  b, o = node.body[0], node.orelse[0]
  for st in (b, o):
    if not (isinstance(st, ast.Assign) and len(st.targets) == 1 and self_attr(st.targets[0]) == attr):
      return None
  if not (shape_name(b.value, p) == "[id]" and shape_name(o.value, p) == "id"):
    return None
  rest = [ast.unparse(v) for v in t.values[1:]]
  if rest == ["isinstance(%s[0], int)" % p]:
    return "single_tuple_to_list"
  if rest == ["len(%s) == 2" % p, "isinstance(%s[1], six.string_types)" % p]:
    return "single_pair_to_list"
  return None


def classify_param(where, p, params, init_fn, sites, rebinds):
  """-> ('Direct'|'Wrapped', attr, wrapper, cond) or ('Dropped',)"""
  pnames = [n for n, _ in params]
  mine = []
  for s in sites:
    hit = depends_on(s.value, p, rebinds)
    if not hit and s.kind == "append":
      hit = any(depends_on(it, p, rebinds) for _, it in s.loops)
    if hit:
      mine.append(s)
  rebound = p in rebinds
  # Direct: top-level unconditional  self.a = p , p never re-bound
  for s in mine:
    if (s.kind == "assign" and not s.conds and not s.loops and isinstance(s.value, ast.Name)
        and s.value.id == p and not rebound):
      # every later write to the same attribute must not exist
      others = [t for t in sites if t.attr == s.attr and t is not s]
      if others:
        fail(where, others[0].node, "attribute %s written again after direct store" % s.attr)
      return ("Direct", s.attr, None, None)
  if not mine:
    return ("Dropped",)
  attrs = sorted({s.attr for s in mine})
  if len(attrs) > 1:
    pref = [a for a in attrs if a in (p, "_" + p)]
    if len(pref) != 1:
      fail(where, mine[0].node, "parameter %s reaches several attributes %s" % (p, attrs))
    attrs = pref
  attr = attrs[0]
  mine = [s for s in mine if s.attr == attr]
  # conditional single store:  if <param c>: self.a = p | f(p)
  if len(mine) == 1 and mine[0].kind == "assign" and not mine[0].loops and not rebound:
    s = mine[0]
    cond = None
    if len(s.conds) == 1 and s.conds[0][0] == "pos" and isinstance(s.conds[0][1], ast.Name) \
        and s.conds[0][1].id in pnames and s.conds[0][1].id not in rebinds:
      cond = s.conds[0][1].id
    if not s.conds or cond is not None:
      all_attr_sites = [t for t in sites if t.attr == attr]
      if len(all_attr_sites) == 1:
        if isinstance(s.value, ast.Name) and s.value.id == p:
          return ("Direct", attr, None, cond)
        if call_passes_param(s.value, p) and dotted(s.value.func) is not None:
          return ("Wrapped", attr, dotted(s.value.func), cond)
  # the single-tuple wrapper
  for st in init_fn.body:
    w = single_tuple_if(st, attr, p)
    if w is not None and not rebound:
      if len([t for t in sites if t.attr == attr]) == 2:
        return ("Wrapped", attr, w, None)
  # everything else: an (opaque) wrapper named after the shapes written
  kinds = sorted({s.kind for s in mine})
  label = ("list_of:" if kinds == ["append"] else "cases:") + "|".join(shape_name(s.value, p) for s in mine)
  if rebound:
    label = "rebound;" + label
  if any(c in label for c in '"\n'):
    fail(where, mine[0].node, "wrapper label")
  return ("Wrapped", attr, label, None)


# ---------------------------------------------------------------------------
# get_config
# ---------------------------------------------------------------------------
def is_super_get_config(node, cname):
  """super(C, self).get_config() / super().get_config() [.copy()]"""
  if isinstance(node, ast.Call) and isinstance(node.func, ast.Attribute) and node.func.attr == "copy" \
      and not node.args and not node.keywords:
    node = node.func.value
  if not (isinstance(node, ast.Call) and isinstance(node.func, ast.Attribute) and node.func.attr == "get_config"
          and not node.args and not node.keywords):
    return False
  s = node.func.value
  if not (isinstance(s, ast.Call) and dotted(s.func) == "super"):
    return False
  if s.args and not (len(s.args) == 2 and dotted(s.args[0]) == cname and dotted(s.args[1]) == "self"):
    return False
  return True


def classify_src(expr, stored_attrs, base_keys):
  a = self_attr(expr)
  if a is not None:
    if a not in stored_attrs and a in base_keys:
      return ("BaseAttr", a)
    return ("Attr", a)
  if isinstance(expr, ast.Call) and dotted(expr.func) in SERIALIZE_FUNCS and expr.args \
      and self_attr(expr.args[0]) is not None:
    return ("Serialized", self_attr(expr.args[0]))
  if isinstance(expr, ast.ListComp) and len(expr.generators) == 1:
    g = expr.generators[0]
    if (not g.ifs and isinstance(g.target, ast.Name) and self_attr(g.iter) is not None
        and isinstance(expr.elt, ast.Call) and dotted(expr.elt.func) in SERIALIZE_FUNCS and expr.elt.args
        and isinstance(expr.elt.args[0], ast.Name) and expr.elt.args[0].id == g.target.id):
      return ("Serialized", self_attr(g.iter))
  return ("Other", None)


def parse_get_config(where, fn, cname, stored_attrs, base_keys):
  emits = []       # (key, src kind, src name, cond attr)
  state = {"own_seen": False, "base_seen": False, "mode": "NoBase", "var": None, "returned": False}

  def add_dict(d, cond, node):
    if not isinstance(d, ast.Dict):
      fail(where, node, "expected a dict literal")
    for k, v in zip(d.keys, d.values):
      if not (isinstance(k, ast.Constant) and isinstance(k.value, str)):
        fail(where, node, "config key is not a string literal (or ** unpacking)")
      kind, name = classify_src(v, stored_attrs, base_keys)
      emits.append((k.value, kind, name, cond))

  def own(node):
    if state["returned"]:
      fail(where, node, "statement after return")
    if state["base_seen"] and state["mode"] == "BaseOverrides":
      fail(where, node, "own config entries both before and after merging the base config")
    state["own_seen"] = True

  def base(node):
    if state["base_seen"]:
      fail(where, node, "base config merged twice")
    state["base_seen"] = True
    state["mode"] = "BaseOverrides" if state["own_seen"] else "OwnOverrides"

  def walk(stmts, cond):
    for st in stmts:
      if is_docstring(st):
        continue
      if isinstance(st, ast.Return):
        if cond is not None:
          fail(where, st, "conditional return")
        if isinstance(st.value, ast.Dict):
          if state["var"] is not None:
            fail(where, st, "dict returned although a config variable exists")
          own(st)
          add_dict(st.value, None, st)
        elif not (isinstance(st.value, ast.Name) and st.value.id == state["var"]):
          fail(where, st, "return value not covered")
        state["returned"] = True
        continue
      if isinstance(st, ast.Assign) and len(st.targets) == 1:
        t = st.targets[0]
        if isinstance(t, ast.Name):
          if state["var"] is not None or cond is not None:
            fail(where, st, "second assignment to a config variable")
          state["var"] = t.id
          if is_super_get_config(st.value, cname):
            base(st)
          else:
            own(st)
            add_dict(st.value, None, st)
          continue
        if (isinstance(t, ast.Subscript) and isinstance(t.value, ast.Name) and t.value.id == state["var"]
            and isinstance(t.slice, ast.Constant) and isinstance(t.slice.value, str)):
          own(st)
          kind, name = classify_src(st.value, stored_attrs, base_keys)
          emits.append((t.slice.value, kind, name, cond))
          continue
        fail(where, st, "assignment not covered in get_config")
      if isinstance(st, ast.Expr) and isinstance(st.value, ast.Call):
        c = st.value
        if (isinstance(c.func, ast.Attribute) and c.func.attr == "update" and isinstance(c.func.value, ast.Name)
            and c.func.value.id == state["var"] and len(c.args) == 1 and not c.keywords):
          if is_super_get_config(c.args[0], cname):
            if cond is not None:
              fail(where, st, "conditional merge of the base config")
            base(st)
          else:
            own(st)
            add_dict(c.args[0], cond, st)
          continue
        fail(where, st, "call not covered in get_config")
      if isinstance(st, ast.If):
        a = self_attr(st.test)
        if a is None or st.orelse or cond is not None:
          fail(where, st, "only `if self.<attr>:` without else is covered in get_config")
        walk(st.body, a)
        continue
      fail(where, st, "statement kind not covered in get_config")

  walk(fn.body, None)
  if not state["returned"]:
    fail(where, fn, "get_config without return")
  return emits, state["mode"]


# ---------------------------------------------------------------------------
# from_config
# ---------------------------------------------------------------------------
def config_key_read(node):
  """config.pop('k') | config.get('k'[, default]) | config['k'] -> (k, popped)"""
  if isinstance(node, ast.Call) and isinstance(node.func, ast.Attribute) and dotted(node.func.value) == "config" \
      and node.func.attr in ("pop", "get") and node.args and isinstance(node.args[0], ast.Constant):
    return node.args[0].value, node.func.attr == "pop"
  if isinstance(node, ast.Subscript) and dotted(node.value) == "config" and isinstance(node.slice, ast.Constant):
    return node.slice.value, False
  return None


def parse_from_config(where, fn, cname, params, nested_keys):
  if not any(dotted(d) == "classmethod" for d in fn.decorator_list):
    fail(where, fn, "from_config is not a classmethod")
  argnames = [a.arg for a in fn.args.args]
  if argnames[:2] != ["cls", "config"]:
    fail(where, fn, "from_config signature")
  pnames = [n for n, _ in params]
  deser_vars = {}   # local variable -> config key it holds (deserialised)
  deser, passes = [], []
  passes_all = False
  returned = False
  for st in fn.body:
    if is_docstring(st):
      continue
    if returned:
      fail(where, st, "statement after return")
    if isinstance(st, ast.Assign) and len(st.targets) == 1 and isinstance(st.targets[0], ast.Name):
      v = st.value
      if isinstance(v, ast.Call) and dotted(v.func) in DESERIALIZE_FUNCS and v.args:
        kr = config_key_read(v.args[0])
        if kr is None:
          fail(where, st, "deserialised expression is not a config entry")
        deser_vars[st.targets[0].id] = kr[0]
        continue
      fail(where, st, "assignment not covered in from_config")
    if isinstance(st, ast.Expr) and isinstance(st.value, ast.Call):
      continue  # verify_config(...)
    if isinstance(st, ast.Return):
      c = st.value
      if not (isinstance(c, ast.Call) and dotted(c.func) in ("cls", cname)):
        fail(where, st, "from_config does not return cls(...)")
      for i, a in enumerate(c.args):
        if isinstance(a, ast.Starred):
          fail(where, st, "*args in cls(...)")
        if not (isinstance(a, ast.Name) and a.id in deser_vars):
          fail(where, st, "positional argument of cls(...) not covered")
        k = deser_vars[a.id]
        if i >= len(pnames) or pnames[i] != k:
          fail(where, st, "positional argument %d of cls(...) carries config key %r but the parameter is %r" % (
              i, k, pnames[i] if i < len(pnames) else None))
        deser.append(k)
        passes.append(k)
      for kw in c.keywords:
        if kw.arg is None:
          if dotted(kw.value) == "config":
            passes_all = True
          elif (isinstance(kw.value, ast.Call) and dotted(kw.value.func) == "_Config.deserialize_nested_configs"
                and kw.value.args and dotted(kw.value.args[0]) == "config"):
            passes_all = True
            deser.extend([k for k in nested_keys if k in pnames])
          else:
            fail(where, st, "** argument of cls(...) not covered")
          continue
        if isinstance(kw.value, ast.Name) and kw.value.id in deser_vars:
          k = deser_vars[kw.value.id]
          if k != kw.arg:
            fail(where, st, "keyword %s receives config key %s" % (kw.arg, k))
          deser.append(k)
          passes.append(k)
          continue
        kr = config_key_read(kw.value)
        if kr is None or kr[0] != kw.arg:
          fail(where, st, "keyword argument of cls(...) not covered")
        passes.append(kw.arg)
      returned = True
      continue
    fail(where, st, "statement kind not covered in from_config")
  if not returned:
    fail(where, fn, "from_config without return")
  return deser, (None if passes_all else passes)


# ---------------------------------------------------------------------------
# _Config (configs.py): self.__dict__ = kwargs ; nested serialisation
# ---------------------------------------------------------------------------
def nested_keys_of(where, fn, funcs):
  """Keys k handled as `if 'k' in config and config['k'] is not None:
  config['k'] = [<funcs>(x, ...) for x in config['k']]`; every other statement
  of the function must be one of the known harmless ones."""
  keys = []
  for st in fn.body:
    if is_docstring(st):
      continue
    if isinstance(st, ast.Assign) and len(st.targets) == 1 and isinstance(st.targets[0], ast.Name) \
        and isinstance(st.value, ast.Call) and dotted(st.value.func) == "copy.deepcopy":
      continue
    if isinstance(st, ast.Return) and isinstance(st.value, ast.Name):
      continue
    if isinstance(st, ast.If) and not st.orelse and len(st.body) == 1:
      t = st.test
      b = st.body[0]
      # if 'self' in config: config.pop('self')
      if (isinstance(t, ast.Compare) and len(t.ops) == 1 and isinstance(t.ops[0], ast.In)
          and isinstance(t.left, ast.Constant) and t.left.value in ("self", "__class__")
          and isinstance(b, ast.Expr) and isinstance(b.value, ast.Call)
          and isinstance(b.value.func, ast.Attribute) and b.value.func.attr == "pop"):
        continue
      if (isinstance(t, ast.BoolOp) and isinstance(t.op, ast.And) and len(t.values) == 2
          and isinstance(t.values[0], ast.Compare) and isinstance(t.values[0].ops[0], ast.In)
          and isinstance(t.values[0].left, ast.Constant)
          and isinstance(b, ast.Assign) and len(b.targets) == 1 and isinstance(b.targets[0], ast.Subscript)
          and isinstance(b.targets[0].slice, ast.Constant)
          and b.targets[0].slice.value == t.values[0].left.value
          and isinstance(b.value, ast.ListComp) and isinstance(b.value.elt, ast.Call)
          and dotted(b.value.elt.func) in funcs
          and len(b.value.generators) == 1
          and isinstance(b.value.generators[0].iter, ast.Subscript)
          and isinstance(b.value.generators[0].iter.slice, ast.Constant)
          and b.value.generators[0].iter.slice.value == t.values[0].left.value):
        keys.append(t.values[0].left.value)
        continue
    fail(where, st, "statement not covered in _Config")
  return keys


def parse_config_base(where, cls):
  fns = {n.name: n for n in cls.body if isinstance(n, ast.FunctionDef)}
  for need in ("__init__", "get_config", "deserialize_nested_configs"):
    if need not in fns:
      fail(where, cls, "_Config lacks %s" % need)
  init = fns["__init__"]
  if [a.arg for a in init.args.args] != ["self", "kwargs"]:
    fail(where, init, "_Config.__init__ signature")
  last = [st for st in init.body if not is_docstring(st)][-1]
  if not (isinstance(last, ast.Assign) and dotted(last.targets[0]) == "self.__dict__" and dotted(last.value) == "kwargs"):
    fail(where, last, "_Config.__init__ does not end with self.__dict__ = kwargs")
  ser_keys = nested_keys_of(where + ".get_config", fns["get_config"], SERIALIZE_FUNCS)
  deser_keys = nested_keys_of(where + ".deserialize_nested_configs", fns["deserialize_nested_configs"],
                              DESERIALIZE_FUNCS)
  return ser_keys, deser_keys


def parse_config_subclass(where, cls, fns, ser_keys, deser_keys):
  init = fns.get("__init__")
  if init is None:
    fail(where, cls, "config class without __init__")
  params, var_kw = parse_params(where, init)
  if var_kw:
    fail(where, init, "config class with **kwargs")
  body = [st for st in init.body if not is_docstring(st)]
  # exactly: super(C, self).__init__(locals())  -- locals() == the parameters
  ok = (len(body) == 1 and isinstance(body[0], ast.Expr) and isinstance(body[0].value, ast.Call)
        and isinstance(body[0].value.func, ast.Attribute) and body[0].value.func.attr == "__init__"
        and len(body[0].value.args) == 1 and isinstance(body[0].value.args[0], ast.Call)
        and dotted(body[0].value.args[0].func) == "locals" and not body[0].value.args[0].args)
  if not ok:
    fail(where, init, "config __init__ is not exactly super().__init__(locals())")
  stores = [dict(param=n, attr=n, how="Direct", wrapper=None, cond=None) for n, _ in params]
  emits = [dict(key=n, src=("Serialized" if n in ser_keys else "Attr"), name=n, cond=None) for n, _ in params]
  if "from_config" not in fns:
    fail(where, cls, "config class without from_config")
  deser, passes = parse_from_config(where + ".from_config", fns["from_config"], cls.name, params, deser_keys)
  return dict(params=params, var_kw=False, base_keys=[], stores=stores, dropped=[], emits=emits,
              base="NoBase", deser=deser, passes=passes)


# ---------------------------------------------------------------------------
# registry
# ---------------------------------------------------------------------------
def parse_registry(where, tree):
  aliases = {}
  for n in tree.body:
    if isinstance(n, ast.ImportFrom) and (n.module == "tensorflow_lattice.python" or
                                          (n.module is None and n.level == 1)):
      for a in n.names:
        aliases[a.asname or a.name] = a.name
  fn = None
  for n in tree.body:
    if isinstance(n, ast.FunctionDef) and n.name == "get_custom_objects":
      fn = n
  if fn is None:
    fail(where, tree, "premade.get_custom_objects not found")
  reg = None
  for st in fn.body:
    if isinstance(st, ast.Assign) and isinstance(st.value, ast.Dict) and len(st.value.keys) > 5:
      reg = st.value
  if reg is None:
    fail(where, fn, "registry dictionary not found")
  out = []
  for k, v in zip(reg.keys, reg.values):
    if not (isinstance(k, ast.Constant) and isinstance(k.value, str)):
      fail(where, reg, "registry key")
    d = dotted(v)
    if d is None:
      fail(where, v, "registry value")
    parts = d.split(".")
    if len(parts) == 1:
      mod, cls = "premade", parts[0]
    elif len(parts) == 2 and parts[0] in aliases:
      mod, cls = aliases[parts[0]], parts[1]
    else:
      fail(where, v, "registry value module")
    if cls != k.value:
      fail(where, v, "registry key %r names class %r" % (k.value, cls))
    out.append((k.value, mod))
  return out


# ---------------------------------------------------------------------------
# driver
# ---------------------------------------------------------------------------
def extract(repo):
  pydir = os.path.join(repo, "tensorflow_lattice", "python")
  files = [f for f in sorted(glob.glob(os.path.join(pydir, "*.py")))
           if not f.endswith("_test.py") and os.path.basename(f) != "__init__.py"]
  if not files:
    raise Uncovered("no source files under %s" % pydir)
  classes = []
  registry = None
  config_base = None
  trees = {}
  for f in files:
    mod = os.path.basename(f)[:-3]
    trees[mod] = ast.parse(open(f).read(), filename=f)
  if "configs" in trees:
    for c in trees["configs"].body:
      if isinstance(c, ast.ClassDef) and c.name == "_Config":
        config_base = parse_config_base("configs._Config", c)
  if "premade" in trees:
    registry = parse_registry("premade.get_custom_objects", trees["premade"])
  if registry is None:
    raise Uncovered("premade.py not found")
  with_get_config = set()
  for mod, tree in trees.items():
    for c in tree.body:
      if isinstance(c, ast.ClassDef) and any(isinstance(n, ast.FunctionDef) and n.name == "get_config" for n in c.body):
        with_get_config.add(c.name)
  for mod in sorted(trees):
    tree = trees[mod]
    for c in tree.body:
      if not isinstance(c, ast.ClassDef):
        continue
      where = "%s.%s" % (mod, c.name)
      fns = {n.name: n for n in c.body if isinstance(n, ast.FunctionDef)}
      bases = [dotted(b) for b in c.bases]
      if "get_config" not in fns:
        if any(b in with_get_config and b != "_Config" for b in bases):
          fail(where, c, "class inherits get_config from a tensorflow_lattice class (not covered)")
        if "_Config" in bases:
          if config_base is None:
            fail(where, c, "_Config base not parsed")
          d = parse_config_subclass(where, c, fns, config_base[0], config_base[1])
          d.update(name=c.name, module=mod, kind="config")
          classes.append(d)
        continue
      if c.name == "_Config":
        continue  # abstract base, handled through its subclasses
      kinds = [KIND_BY_BASE[b] for b in bases if b in KIND_BY_BASE]
      if len(kinds) != 1 or kinds[0] == "config":
        fail(where, c, "base classes %s not covered" % (bases,))
      kind = kinds[0]
      if "__init__" not in fns:
        fail(where, c, "class with get_config but without __init__")
      params, var_kw = parse_params(where + ".__init__", fns["__init__"])
      if kind in ("layer", "model") and not var_kw:
        fail(where, c, "layer/model without **kwargs")
      if kind not in ("layer", "model") and var_kw:
        fail(where, c, "**kwargs on a %s" % kind)
      base_keys = {"layer": KERAS_LAYER_KEYS, "model": KERAS_MODEL_KEYS}.get(kind, [])
      sites, rebinds = collect_sites(where + ".__init__", fns["__init__"].body, [n for n, _ in params])
      stores, dropped = [], []
      for p, _ in params:
        r = classify_param(where + ".__init__", p, params, fns["__init__"], sites, rebinds)
        if r[0] == "Dropped":
          dropped.append(p)
        else:
          stores.append(dict(param=p, attr=r[1], how=r[0], wrapper=r[2], cond=r[3]))
      stored_attrs = {s.attr for s in sites}
      emits_raw, mode = parse_get_config(where + ".get_config", fns["get_config"], c.name, stored_attrs, base_keys)
      emits = [dict(key=k, src=kind_, name=name, cond=cond) for k, kind_, name, cond in emits_raw]
      if mode != "NoBase" and kind not in ("layer", "model"):
        fail(where, c, "base config merged by a %s" % kind)
      deser, passes = [], None
      if "from_config" in fns:
        deser, passes = parse_from_config(where + ".from_config", fns["from_config"], c.name, params, [])
      classes.append(dict(name=c.name, module=mod, kind=kind, params=params, var_kw=var_kw,
                          base_keys=list(base_keys), stores=stores, dropped=dropped, emits=emits,
                          base=mode, deser=deser, passes=passes))
  if not classes:
    raise Uncovered("no class with get_config found")
  # inputs of the seed-derived structures: attributes read by RTL._get_rtl_structure and by
  # premade_lib.set_random_lattice_ensemble (optional: absent functions just drop the theorem)
  structure_inputs = {}
  for c in trees.get("rtl_layer", ast.Module(body=[], type_ignores=[])).body:
    if isinstance(c, ast.ClassDef) and c.name == "RTL":
      for n in c.body:
        if isinstance(n, ast.FunctionDef) and n.name == "_get_rtl_structure":
          reads = sorted({self_attr(x) for x in ast.walk(n) if self_attr(x) is not None})
          structure_inputs["rtl_layer.RTL"] = reads
  for n in trees.get("premade_lib", ast.Module(body=[], type_ignores=[])).body:
    if isinstance(n, ast.FunctionDef) and n.name == "set_random_lattice_ensemble":
      reads = sorted({x.attr for x in ast.walk(n) if isinstance(x, ast.Attribute)
                      and isinstance(x.value, ast.Name) and x.value.id == "model_config"})
      structure_inputs["configs.CalibratedLatticeEnsembleConfig"] = reads
  for d in classes:
    key = "%s.%s" % (d["module"], d["name"])
    attrs = {st["attr"] for st in d["stores"]}
    d["structure_inputs"] = [a for a in structure_inputs.get(key, []) if a in attrs]
  # Coq identifiers
  counts = {}
  for d in classes:
    counts[d["name"]] = counts.get(d["name"], 0) + 1
  for d in classes:
    d["ident"] = d["name"] if counts[d["name"]] == 1 else "%s_%s" % (d["module"], d["name"])
    if not d["ident"].replace("_", "a").isalnum():
      raise Uncovered("class identifier %r" % d["ident"])
  return dict(classes=classes, registry=registry)


def cs(s):
  return coq_string(s)


def clist(items):
  return "[" + "; ".join(items) + "]"


def copt_str(s):
  return "None" if s is None else "(Some %s)" % cs(s)


def render_gen(data):
  out = []
  w = out.append
  w("(* GENERATED on every run by harness/translators/gen_config.py from the source text of")
  w("   tensorflow_lattice/python/*.py -- do not edit.  One class description per class that")
  w("   defines get_config (and per _Config subclass); see Model/ConfigModel.v for the meaning. *)")
  w("From Coq Require Import String List ZArith QArith.")
  w("From TFL Require Import Model.ConfigModel.")
  w("Import ListNotations.")
  w("Open Scope string_scope.")
  w("")
  for d in data["classes"]:
    i = d["ident"]
    w("(* ---- %s.%s (%s) *)" % (d["module"], d["name"], d["kind"]))
    w("Definition params_%s : list (string * option value) :=" % i)
    w("  " + clist(["(%s, %s)" % (cs(n), "None" if v is None else "Some %s" % coq_value(v)) for n, v in d["params"]]) + ".")
    w("Definition stores_%s : list pstore :=" % i)
    w("  " + clist(["mk_store %s %s %s %s" % (
        cs(s["param"]), cs(s["attr"]),
        "Direct" if s["how"] == "Direct" else "(Wrapped %s)" % cs(s["wrapper"]),
        copt_str(s["cond"])) for s in d["stores"]]) + ".")
    w("Definition emits_%s : list emit :=" % i)
    w("  " + clist(["mk_emit %s %s %s" % (
        cs(e["key"]), "Other" if e["src"] == "Other" else "(%s %s)" % (e["src"], cs(e["name"])),
        copt_str(e["cond"])) for e in d["emits"]]) + ".")
    base_keys = {"layer": "keras_layer_keys", "model": "keras_model_keys"}.get(d["kind"], "[]")
    w("Definition desc_%s : class_desc :=" % i)
    w("  mk_class %s %s %s params_%s %s %s stores_%s %s emits_%s %s %s %s." % (
        cs(d["name"]), cs(d["module"]), cs(d["kind"]), i, "true" if d["var_kw"] else "false", base_keys, i,
        clist([cs(p) for p in d["dropped"]]), i, d["base"], clist([cs(k) for k in d["deser"]]),
        "None" if d["passes"] is None else "(Some %s)" % clist([cs(k) for k in d["passes"]])))
    w("Definition init_names_%s : list string := param_names desc_%s." % (i, i))
    w("Definition keys_%s : list string := emit_keys desc_%s." % (i, i))
    w("Definition init_%s wrap_oracle (kw : kwargs) : cfg := init wrap_oracle desc_%s kw." % (i, i))
    w("Definition get_config_%s ser (c : cfg) : kwargs := get_config ser desc_%s c." % (i, i))
    w("")
  w("Definition all_classes : list class_desc :=")
  w("  " + clist(["desc_%s" % d["ident"] for d in data["classes"]]) + ".")
  w("(* premade.get_custom_objects: registered name -> defining module *)")
  w("Definition custom_objects : list (string * string) :=")
  w("  " + clist(["(%s, %s)" % (cs(k), cs(m)) for k, m in data["registry"]]) + ".")
  return "\n".join(out) + "\n"


PER_CLASS = [
    ("keys_cover_init", "keys_cover_init desc_%s", "apply keys_cover_init_spec; vm_compute; reflexivity"),
    ("keys_are_params", "keys_are_params desc_%s", "apply keys_are_params_spec; vm_compute; reflexivity"),
    ("reads_are_set", "reads_are_set desc_%s", "apply reads_are_set_spec; vm_compute; reflexivity"),
    ("no_dropped_params", "no_dropped_params desc_%s", "apply no_dropped_params_spec; vm_compute; reflexivity"),
    ("roundtrip", "roundtrip_for desc_%s", "apply roundtrip_generic; vm_compute; reflexivity"),
    ("config_stable", "config_stable_for desc_%s", "apply config_stable_generic; vm_compute; reflexivity"),
]
# for a class with a parameter that is always stored but only conditionally reported
PER_CLASS_GUARDED = PER_CLASS[:4] + [
    ("roundtrip_guarded", "roundtrip_guarded_for desc_%s", "apply roundtrip_guarded_generic; vm_compute; reflexivity"),
    # what get_config hides it hides on both sides: the CONFIG is equal without any guard
    ("config_stable", "config_stable_for desc_%s", "apply config_stable_unguarded_generic; vm_compute; reflexivity"),
]


def hidden_pairs(d):
  """(parameter, condition parameter): stored unconditionally, reported under `if self.<attr>`."""
  out = []
  for s in d["stores"]:
    if s["cond"] is not None:
      continue
    for e in d["emits"]:
      if e["key"] == s["param"] and e["cond"] is not None:
        owner = [t["param"] for t in d["stores"] if t["attr"] == e["cond"]]
        out.append((s["param"], owner[0] if owner else e["cond"]))
        break
  return out


def render_props(data):
  out = []
  w = out.append
  w("(* C11 - Config and weight round-trips reproduce the same function.")
  w("   GENERATED on every run by harness/translators/gen_config.py: one instantiation of each")
  w("   generic statement of Proofs/ConfigRoundTrip.v per class description of Gen/GenConfig.v.")
  w("   The statements (keys_cover_init, keys_are_params, reads_are_set, no_dropped_params,")
  w("   roundtrip_for, config_stable_for) are hand-written there; the round-trip theorems hold for")
  w("   EVERY keyword dictionary kw and every oracle meeting the three stated hypotheses.  The")
  w("   side condition discharged here by `vm_compute; reflexivity` is a decidable check of the")
  w("   class description (a finite list of parameters, stores and keys exactly as written in")
  w("   the source and fully enumerated in Gen/GenConfig.v), so proof by computation is a")
  w("   complete proof of it. *)")
  w("From Coq Require Import String List.")
  w("From TFL Require Import Model.ConfigModel Gen.GenConfig Proofs.ConfigRoundTrip.")
  w("Import ListNotations.")
  w("Open Scope string_scope.")
  w("")
  for d in data["classes"]:
    i = d["ident"]
    w("(* ---- %s.%s *)" % (d["module"], d["name"]))
    hp = hidden_pairs(d)
    if hp:
      w("(* %s: always stored, reported only when the second parameter is true; the state round trip" % (hp,))
      w("   is stated under the guard visible_args (reported, or left at its default). *)")
      name = "C11_%s_hidden_params" % i
      w("Theorem %s : hidden_pairs desc_%s = %s." % (
          name, i, clist(["(%s, %s)" % (cs(a), cs(b)) for a, b in hp])))
      w("Proof. vm_compute; reflexivity. Qed.")
      w("Print Assumptions %s." % name)
    for suffix, stmt, proof in (PER_CLASS_GUARDED if hp else PER_CLASS):
      name = "C11_%s_%s" % (i, suffix)
      w("Theorem %s : %s." % (name, stmt % i))
      w("Proof. %s. Qed." % proof)
      w("Print Assumptions %s." % name)
    w("")
  for d in data["classes"]:
    if d.get("structure_inputs"):
      nm = {"RTL": "C11_rtl_structure_deterministic",
            "CalibratedLatticeEnsembleConfig": "C11_random_ensemble_deterministic"}.get(d["name"])
      if nm is None:
        continue
      w("(* the constructor arguments from which the seed-derived structure of %s is computed" % d["name"])
      w("   (attributes read by %s) are stored verbatim and survive the round trip; the structure is a" % (
          "RTL._get_rtl_structure" if d["name"] == "RTL" else "premade_lib.set_random_lattice_ensemble"))
      w("   function of them (C17 model), hence equal after rebuilding *)")
      w("Theorem %s : attrs_survive desc_%s %s." % (nm, d["ident"], clist([cs(a) for a in d["structure_inputs"]])))
      w("Proof. apply attrs_survive_generic; vm_compute; reflexivity. Qed.")
      w("Print Assumptions %s." % nm)
      w("")
  w("(* every layer, model and model-config class is registered under its own name in")
  w("   premade.get_custom_objects (needed by keras.models.load_model) *)")
  w("Theorem C11_registry_covers_layers : registry_covers_layers custom_objects all_classes.")
  w("Proof. apply registry_covers_layers_spec; vm_compute; reflexivity. Qed.")
  w("Print Assumptions C11_registry_covers_layers.")
  w("(* ... and every other class too, except regularizers / initializers of pwl_calibration_layer,")
  w("   which PWLCalibration.__init__ resolves in its own custom_object_scope *)")
  w("Theorem C11_registry_covers_all_but_pwl_scoped : registry_covers_but_pwl custom_objects all_classes.")
  w("Proof. apply registry_covers_but_pwl_spec; vm_compute; reflexivity. Qed.")
  w("Print Assumptions C11_registry_covers_all_but_pwl_scoped.")
  dropped = [(d, p) for d in data["classes"] for p in d["dropped"]]
  if dropped:
    d, p = dropped[0]
    w("")
    w("(* Known finding D23: a constructor parameter that reaches no attribute and no config key")
    w("   (the unguarded statement `c_dropped d = []` is false of the source as written). *)")
    w("Theorem C11_no_dropped_params_refuted :")
    w("  exists d p, In d all_classes /\\ In p (param_names d) /\\ In p (c_dropped d) /\\ ~ In p (emit_keys d).")
    w("Proof.")
    idx = [x["ident"] for x in data["classes"]].index(d["ident"])
    w("  exists desc_%s, %s. split." % (d["ident"], cs(p)))
    w("  { unfold all_classes.%s apply in_eq. }" % (" do %d apply in_cons." % idx if idx else ""))
    w("  split; [apply mem_In; vm_compute; reflexivity|]. split; [apply mem_In; vm_compute; reflexivity|].")
    w("  apply mem_false_not_In. vm_compute. reflexivity.")
    w("Qed.")
    w("Print Assumptions C11_no_dropped_params_refuted.")
  return "\n".join(out) + "\n"


def write_if_changed(path, text):
  try:
    if open(path).read() == text:
      return
  except IOError:
    pass
  tmp = path + ".tmp.%d" % os.getpid()
  with open(tmp, "w") as f:
    f.write(text)
  os.replace(tmp, path)


def main(argv):
  if len(argv) != 3:
    sys.stderr.write("usage: gen_config.py <repo_dir> <out_dir>\n")
    return 2
  repo, out = argv[1], argv[2]
  try:
    data = extract(repo)
    gen = render_gen(data)
    props = render_props(data)
  except Uncovered as e:
    sys.stdout.write("gen_config.py: source construct not covered by the translator: %s\n" % e)
    return 2
  except SyntaxError as e:
    sys.stdout.write("gen_config.py: cannot parse source: %s\n" % e)
    return 2
  os.makedirs(out, exist_ok=True)
  write_if_changed(os.path.join(out, "GenConfig.v"), gen)
  props_dir = os.path.join(os.path.dirname(os.path.abspath(out)), "Props")
  if os.path.isdir(props_dir):
    write_if_changed(os.path.join(props_dir, "C11.v"), props)
  return 0


if __name__ == "__main__":
  sys.exit(main(sys.argv))
