"""Lazy import of TensorFlow and tensorflow_lattice from /repo's working tree."""
import os
import sys

_state = {}


def tfl():
  if "tfl" not in _state:
    os.environ.setdefault("TF_CPP_MIN_LOG_LEVEL", "3")
    repo = os.environ.get("VERIF_REPO", "/repo")
    if repo not in sys.path:
      sys.path.insert(0, repo)
    import tensorflow as tf  # pylint: disable=g-import-not-at-top
    import tensorflow_lattice as tfl_  # pylint: disable=g-import-not-at-top
    assert os.path.realpath(tfl_.__file__).startswith(os.path.realpath(repo)), tfl_.__file__
    tf.get_logger().setLevel("ERROR")
    try:
      from absl import logging as absl_logging  # pylint: disable=g-import-not-at-top
      absl_logging.set_verbosity(absl_logging.ERROR)
    except Exception:  # pylint: disable=broad-except
      pass
    _state["tf"] = tf
    _state["tfl"] = tfl_
  return _state["tf"], _state["tfl"]


def zero_bound(rng, omin, omax, p=0.3):
  """With probability p moves a configured bound pair so that one bound is exactly
  0.0 (falsy-but-set: `if output_max:` instead of `is not None` drops it)."""
  if (omin is None and omax is None) or rng.random() >= p:
    return omin, omax
  if omax is None:
    return 0.0, None
  if omin is None:
    return None, 0.0
  w = omax - omin
  return (0.0, w) if rng.random() < 0.5 else (-w, 0.0)


def dy(rng, lo=-8.0, hi=8.0, denom=8):
  """Random small dyadic rational in [lo, hi] (multiple of 1/denom)."""
  return rng.randint(int(lo * denom), int(hi * denom)) / float(denom)
