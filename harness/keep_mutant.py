"""keep_mutant.py <seed id> <property> <worktree> <k> <caught_by (comma list or '-')> <note>
Stores a confirmed seeded change under /verif/seeded/<seed id>/ (patch.diff, demo.py, meta.json)."""
import json, os, shutil, sys
sid, prop, wt, k, caught, note = sys.argv[1:7]
d = os.path.join("/verif/seeded", sid)
os.makedirs(d, exist_ok=True)
shutil.copy(os.path.join(wt, "mutant_%s.diff" % k), os.path.join(d, "patch.diff"))
shutil.copy(os.path.join(wt, "demo_%s.py" % k), os.path.join(d, "demo.py"))
desc = open(os.path.join(wt, "mutant_%s.md" % k)).read() if os.path.exists(os.path.join(wt, "mutant_%s.md" % k)) else ""
meta = {
    "property": prop,
    "breaks": desc.strip()[:3000],
    "needs_to_manifest": note,
    "origin": "independent sub-agent given only the property text and a scratch worktree",
    "confirmed": "harness/try_mutant.sh: demo.py exits 0 on the clean worktree and 1 with patch.diff applied; "
                 "author ran the stable tests of the touched modules (see description)",
    "checks_run": [c for c in caught.split(",") if c and c != "-"],
    "caught_by": [c for c in caught.split(",") if c and c != "-"],
}
json.dump(meta, open(os.path.join(d, "meta.json"), "w"), indent=1)
print("kept", d)
