"""Compares a junit xml of the repository's test suite with BASELINE.json's stable_pass list."""
import json, sys
import xml.etree.ElementTree as ET
base = json.load(open('/root/.vp/BASELINE.json'))
stable = set(base['stable_pass'])
root = ET.parse(sys.argv[1]).getroot()
passed = set()
for tc in root.iter('testcase'):
  name = "%s::%s" % (tc.get('classname'), tc.get('name'))
  if not any(ch.tag in ('failure', 'error', 'skipped') for ch in tc):
    passed.add(name)
missing = sorted(stable - passed)
print("stable_pass:", len(stable), "passed now:", len(passed), "stable tests not passing:", len(missing))
for m in missing[:40]:
  print("  MISSING", m)
sys.exit(1 if missing else 0)
