"""Rewrites the generated tables of DESIGN.md (between the BEGIN/END GENERATED markers)
from evidence/*.json, known_findings.json and seeded/*/meta.json, so that section 11
stays current.  Usage: python3 harness/mkstatus.py"""
import glob
import json
import os
import re

ROOT = os.path.dirname(os.path.dirname(os.path.abspath(__file__)))


def per_property():
  rows = ["| id | theorems (discharged/obligations) | partial / refuted theorem names | cases (quick) | compared in Coq | "
          "distinct non-trivial | open findings | seeded changes caught / kept |",
          "|---|---|---|---|---|---|---|---|"]
  kf = json.load(open(os.path.join(ROOT, "known_findings.json")))["findings"]
  seeded = {}
  for m in glob.glob(os.path.join(ROOT, "seeded", "*", "meta.json")):
    meta = json.load(open(m))
    pid = meta["property"]
    s = seeded.setdefault(pid, [0, 0])
    s[1] += 1
    if meta.get("caught_by"):
      s[0] += 1
  for l in open(os.path.join(ROOT, "properties.jsonl")):
    pid = json.loads(l)["id"]
    p = os.path.join(ROOT, "evidence", pid + ".json")
    if not os.path.exists(p):
      rows.append("| %s | - | | | | | | |" % pid)
      continue
    ev = json.load(open(p))
    c = ev["coverage"]
    opened = [f["id"] for f in kf if f["property"] == pid and f["status"] == "open"]
    s = seeded.get(pid, [0, 0])
    rows.append("| %s | %s/%s | %s | %s (%s) | %s | %s | %s | %d / %d |" % (
        pid, c.get("discharged"), c.get("obligations"),
        ", ".join(x.replace(pid + "_", "") for x in c.get("partial_or_refuted_theorems", [])) or "-",
        c.get("evaluations"), ev.get("tier"), c.get("model_vs_implementation_compared"),
        c.get("distinct_nontrivial"), ", ".join(opened) or "-", s[0], s[1]))
  return "\n".join(rows)


def seeded_table():
  rows = ["| seeded change | property | needs, in order to manifest | caught by |", "|---|---|---|---|"]
  for m in sorted(glob.glob(os.path.join(ROOT, "seeded", "*", "meta.json"))):
    meta = json.load(open(m))
    rows.append("| %s | %s | %s | %s |" % (
        os.path.basename(os.path.dirname(m)), meta["property"],
        meta.get("needs_to_manifest", "").replace("|", "/").replace("\n", " ")[:300],
        ", ".join(meta.get("caught_by", [])) or "MISSED"))
  return "\n".join(rows)


def findings_table():
  kf = json.load(open(os.path.join(ROOT, "known_findings.json")))["findings"]
  rows = ["| id | property | status | what |", "|---|---|---|---|"]
  for f in sorted(kf, key=lambda f: int(f["id"][1:])):
    st = "open" if f["status"] == "open" else "fixed"
    what = f.get("what") or f["status"]
    rows.append("| %s | %s | %s | %s |" % (f["id"], f["property"], st, what.replace("|", "/").replace("\n", " ")[:420]))
  return "\n".join(rows)


def main():
  path = os.path.join(ROOT, "DESIGN.md")
  s = open(path).read()
  for name, fn in (("PER-PROPERTY", per_property), ("SEEDED", seeded_table), ("FINDINGS", findings_table)):
    b, e = "<!-- BEGIN GENERATED %s -->" % name, "<!-- END GENERATED %s -->" % name
    if b not in s:
      continue
    s = re.sub(re.escape(b) + ".*?" + re.escape(e), lambda m: b + "\n" + fn() + "\n" + e, s, flags=re.S)
  open(path, "w").write(s)


if __name__ == "__main__":
  main()
