From Coq Require Import QArith List Lia Lqa.
Import ListNotations.
Open Scope Q_scope.
Definition idx := list nat.
Definition tens := idx -> Q.
Definition qmax (x y : Q) : Q := if Qle_bool x y then y else x.
Definition qmin (x y : Q) : Q := if Qle_bool x y then x else y.

Fixpoint memo (shape : list nat) : tens -> tens :=
  match shape with
  | [] => fun f => let v := f [] in fun _ => v
  | s :: sh => fun f =>
      let rows := map (fun k => memo sh (fun i => f (k :: i))) (seq 0 s) in
      fun i => match i with
               | k :: r => nth k rows (fun _ => 0) r
               | [] => 0
               end
  end.

Inductive valid : list nat -> idx -> Prop :=
| v_nil : valid [] []
| v_cons s sh k r : (k < s)%nat -> valid sh r -> valid (s :: sh) (k :: r).

Lemma memo_ok : forall sh f i, valid sh i -> memo sh f i = f i.
Proof.
  induction sh as [|s sh IH]; intros f i Hv; inversion Hv; subst; cbn [memo].
  - reflexivity.
  - rewrite nth_indep with (d' := memo sh (fun i => f (0%nat :: i))) by (rewrite map_length, seq_length; lia).
    change (memo sh (fun i => f (0%nat :: i))) with ((fun k => memo sh (fun i => f (k :: i))) 0%nat).
    rewrite map_nth. rewrite seq_nth by lia. cbn [Nat.add]. exact (IH (fun i => f (k :: i)) r H3).
Qed.

(* update index at position d *)
Fixpoint upd (i : idx) (d k : nat) : idx :=
  match i, d with
  | [], _ => []
  | _ :: r, O => k :: r
  | x :: r, S d' => x :: upd r d' k
  end.
(* cumulative min along dim d towards higher indices: min_{k >= i_d} f (upd i d k), by recursion on remaining count *)
Fixpoint sufmin (f : tens) (i : idx) (d : nat) (k n : nat) : Q :=
  match n with O => f (upd i d k) | S n' => qmin (f (upd i d k)) (sufmin f i d (S k) n') end.
Definition cummin (shape : list nat) (d : nat) (f : tens) : tens :=
  memo shape (fun i => sufmin f i d (nth d i 0%nat) (nth d shape 0%nat - 1 - nth d i 0%nat)).
Fixpoint prefmax (f : tens) (i : idx) (d : nat) (k : nat) : Q :=
  match k with O => f (upd i d 0%nat) | S k' => qmax (f (upd i d k)) (prefmax f i d k') end.
Definition cummax (shape : list nat) (d : nat) (f : tens) : tens :=
  memo shape (fun i => prefmax f i d (nth d i 0%nat)).
Definition approx_mono (shape : list nat) (monos : list nat) (w : tens) : tens :=
  let mx := fold_left (fun acc d => cummax shape d acc) monos w in
  let half := memo shape (fun i => Qred ((w i + mx i) * (1#2))) in
  fold_left (fun acc d => cummin shape d acc) monos half.

(* flatten for I/O *)
Fixpoint all_idx (shape : list nat) : list idx :=
  match shape with [] => [[]] | s :: sh => flat_map (fun k => map (cons k) (all_idx sh)) (seq 0 s) end.
Fixpoint flat (shape : list nat) (i : idx) : nat :=
  match shape, i with s :: sh, k :: r => k * fold_right Nat.mul 1%nat sh + flat sh r | _, _ => 0%nat end.
Definition of_list (shape : list nat) (l : list Q) : tens := memo shape (fun i => nth (flat shape i) l 0).
Definition to_list (shape : list nat) (t : tens) : list Q := map t (all_idx shape).

Definition sh := [4;4;4;4]%nat.
Definition inp := map (fun n => inject_Z (Z.of_nat ((n * 37 + 11) mod 17)) - 8) (seq 0 256).
Time Eval vm_compute in (fold_right Qplus 0 (to_list sh (approx_mono sh [0;2;3]%nat (of_list sh inp)))).
Definition sh2 := [2;2;2;2;2;2;2;2]%nat.
Time Eval vm_compute in (fold_right Qplus 0 (to_list sh2 (approx_mono sh2 [0;1;2;3;4;5;6;7]%nat (of_list sh2 inp)))).
Print Assumptions memo_ok.
