From Coq Require Import QArith List Lia Lqa.
Import ListNotations.
Require Import Memo.
Open Scope Q_scope.

Lemma qmin_spec x y : (x <= y /\ qmin x y = x) \/ (y < x /\ qmin x y = y).
Proof. unfold qmin. destruct (Qle_bool x y) eqn:E.
- left. split; [apply Qle_bool_iff; exact E|reflexivity].
- right. split; [|reflexivity]. apply Qnot_le_lt. intro H. apply Qle_bool_iff in H. congruence. Qed.

(* --- index lemmas --- *)
Lemma valid_length sh i : valid sh i -> length i = length sh.
Proof. induction 1; cbn; congruence. Qed.
Lemma valid_nth sh i d : valid sh i -> (d < length sh)%nat -> (nth d i 0%nat < nth d sh 0%nat)%nat.
Proof. intros H; revert d; induction H; intros d Hd; cbn in *. lia. destruct d; [assumption|apply IHvalid; lia]. Qed.
Lemma upd_valid sh i d k : valid sh i -> (k < nth d sh 0%nat)%nat -> valid sh (upd i d k).
Proof. intros H; revert d; induction H; intros d Hk; cbn in *. constructor.
  destruct d; constructor; auto. Qed.
Lemma nth_upd_same i d k : (d < length i)%nat -> nth d (upd i d k) 0%nat = k.
Proof. revert d; induction i as [|x r IH]; intros d H; cbn in *. lia. destruct d; cbn; [reflexivity|apply IH; lia]. Qed.
Lemma nth_upd_other i d d' k : d <> d' -> nth d' (upd i d k) 0%nat = nth d' i 0%nat.
Proof. revert d d'; induction i as [|x r IH]; intros d d' H; cbn. reflexivity.
  destruct d, d'; cbn; try reflexivity; try lia. apply IH; lia. Qed.
Lemma upd_upd i d k k' : upd (upd i d k) d k' = upd i d k'.
Proof. revert d; induction i as [|x r IH]; intros d; cbn. reflexivity. destruct d; cbn; [reflexivity|f_equal; apply IH]. Qed.
Lemma upd_comm i d d' k k' : d <> d' -> upd (upd i d k) d' k' = upd (upd i d' k') d k.
Proof. revert d d'; induction i as [|x r IH]; intros d d' H; cbn. reflexivity.
  destruct d, d'; cbn; try reflexivity; try lia. f_equal; apply IH; lia. Qed.
Lemma upd_self i d : upd i d (nth d i 0%nat) = i.
Proof. revert d; induction i as [|x r IH]; intros d; cbn. reflexivity. destruct d; cbn; [reflexivity|f_equal; apply IH]. Qed.

(* --- suffix min --- *)
Lemma sufmin_le f i d : forall n k j, (k <= j <= k + n)%nat -> sufmin f i d k n <= f (upd i d j).
Proof. induction n as [|n IH]; intros k j Hj; cbn [sufmin].
  - assert (j = k) by lia; subst. lra.
  - destruct (qmin_spec (f (upd i d k)) (sufmin f i d (S k) n)) as [[H ->]|[H ->]].
    + destruct (Nat.eq_dec j k) as [->|Hne]. lra. specialize (IH (S k) j ltac:(lia)). lra.
    + destruct (Nat.eq_dec j k) as [->|Hne]. lra. apply IH; lia.
Qed.
Lemma sufmin_glb f i d c : forall n k, (forall j, (k <= j <= k + n)%nat -> c <= f (upd i d j)) -> c <= sufmin f i d k n.
Proof. induction n as [|n IH]; intros k H; cbn [sufmin]. apply H; lia.
  destruct (qmin_spec (f (upd i d k)) (sufmin f i d (S k) n)) as [[_ ->]|[_ ->]].
  apply H; lia. apply IH. intros j Hj. apply H; lia. Qed.

Definition mono_along (sh : list nat) (d : nat) (f : tens) : Prop :=
  forall i, valid sh i -> (S (nth d i 0%nat) < nth d sh 0%nat)%nat -> f i <= f (upd i d (S (nth d i 0%nat))).

Lemma cummin_val sh d f i : valid sh i ->
  cummin sh d f i = sufmin f i d (nth d i 0%nat) (nth d sh 0%nat - 1 - nth d i 0%nat).
Proof. intros; unfold cummin; rewrite memo_ok by assumption; reflexivity. Qed.

Lemma cummin_mono_self sh d f : (d < length sh)%nat -> mono_along sh d (cummin sh d f).
Proof. intros Hd i Hv Hs. set (x := nth d i 0%nat) in *.
  assert (Hl : length i = length sh) by (apply valid_length; assumption).
  assert (Hv' : valid sh (upd i d (S x))) by (apply upd_valid; assumption).
  rewrite !cummin_val by assumption. rewrite nth_upd_same by lia. fold x.
  apply sufmin_glb. intros j Hj. rewrite upd_upd. apply sufmin_le. lia. Qed.

Lemma cummin_mono_other sh d d' f : d <> d' -> (d < length sh)%nat -> (d' < length sh)%nat ->
  mono_along sh d' f -> mono_along sh d' (cummin sh d f).
Proof. intros Hne Hd Hd' Hm i Hv Hs. set (y := nth d' i 0%nat) in *.
  assert (Hl : length i = length sh) by (apply valid_length; assumption).
  assert (Hv' : valid sh (upd i d' (S y))) by (apply upd_valid; assumption).
  rewrite !cummin_val by assumption. rewrite nth_upd_other by auto.
  set (x := nth d i 0%nat). assert (Hx : (x < nth d sh 0%nat)%nat) by (apply valid_nth; assumption).
  apply sufmin_glb. intros j Hj.
  eapply Qle_trans. apply (sufmin_le f i d _ _ j). lia.
  rewrite upd_comm by auto.
  assert (Hvj : valid sh (upd i d j)) by (apply upd_valid; [assumption|lia]).
  specialize (Hm (upd i d j) Hvj). rewrite nth_upd_other in Hm by auto. fold y in Hm. apply Hm. assumption. Qed.

Theorem cummins_mono sh : forall monos f, (forall d, In d monos -> (d < length sh)%nat) ->
  forall done, (forall d, In d done -> (d < length sh)%nat /\ mono_along sh d f) ->
  forall d, In d (done ++ monos) -> mono_along sh d (fold_left (fun acc d => cummin sh d acc) monos f).
Proof. induction monos as [|m ms IH]; intros f Hb done Hdone d Hin; cbn [fold_left].
  - rewrite app_nil_r in Hin. apply Hdone; assumption.
  - apply (IH (cummin sh m f) ltac:(intros; apply Hb; right; assumption) (m :: done)).
    + intros e [<-|He]. split. apply Hb; left; reflexivity. apply cummin_mono_self. apply Hb; left; reflexivity.
      destruct (Hdone e He) as [Hle Hme]. split; [assumption|].
      destruct (Nat.eq_dec m e) as [<-|Hne]. apply cummin_mono_self; assumption.
      apply cummin_mono_other; auto. apply Hb; left; reflexivity.
    + apply in_app_iff in Hin. destruct Hin as [Hin|[<-|Hin]].
      * apply in_app_iff; left; right; assumption.
      * apply in_app_iff; left; left; reflexivity.
      * apply in_app_iff; right; assumption.
Qed.

Theorem approx_mono_monotone sh monos w d : (forall d, In d monos -> (d < length sh)%nat) ->
  In d monos -> mono_along sh d (approx_mono sh monos w).
Proof. intros Hb Hin. unfold approx_mono. apply (cummins_mono sh monos _ Hb []). intros e []. exact Hin. Qed.
Print Assumptions approx_mono_monotone.
