From Coq Require Import QArith List Lia Lqa Bool.
Import ListNotations.
Require Import Memo.
Open Scope Q_scope.

Definition at2 (b : idx) (m c i j : nat) : idx := upd (upd b m i) c j.
Definition sq (W : tens) (m c i j : nat) (b : idx) : Q :=
  (W (at2 b m c (S i) j) - W (at2 b m c i j)) - (W (at2 b m c (S i) (S j)) - W (at2 b m c i (S j))).
Definition behind (shape : list nat) (m c : nat) : list idx := all_idx (upd (upd shape m 1%nat) c 1%nat).
Definition maxl (l : list Q) : Q := fold_left qmax l 0.
(* positive direction: raise column (i+1,j+1) *)
Definition step_pos (shape : list nat) (m c : nat) (W : tens) (p : nat * nat) : tens :=
  let '(i, j) := p in
  let v := maxl (map (sq W m c i j) (behind shape m c)) in
  memo shape (fun x => if (nth m x 0%nat =? S i)%nat && (nth c x 0%nat =? S j)%nat then Qred (W x + v) else W x).
(* negative direction: lower column (i,j), reverse order *)
Definition step_neg (shape : list nat) (m c : nat) (W : tens) (p : nat * nat) : tens :=
  let '(i, j) := p in
  let v := maxl (map (fun b => - sq W m c i j b) (behind shape m c)) in
  memo shape (fun x => if (nth m x 0%nat =? i)%nat && (nth c x 0%nat =? j)%nat then Qred (W x - v) else W x).
Definition pairs (a b : nat) : list (nat * nat) := list_prod (seq 0 a) (seq 0 b).
Definition edgeworth (shape : list nat) (m c : nat) (pos : bool) (W : tens) : tens :=
  let ps := pairs (nth m shape 0%nat - 1) (nth c shape 0%nat - 1) in
  if pos then fold_left (step_pos shape m c) ps W else fold_left (step_neg shape m c) (rev ps) W.

Definition sh := [3;2;3]%nat.
Definition inp := [-11#4; -15#4; 7#4; -8#4; -7#4; 14#4; -13#4; -16#4; 5#4; 5#4; -7#4; -14#4; 14#4; -8#4; -14#4; 7#4; 16#4; 16#4].
Definition exp1 := [-11#4; -15#4; 7#4; -8#4; -7#4; 14#4; -13#4; -3#4; 46#4; 5#4; 6#4; 27#4; 14#4; 24#4; 73#4; 7#4; 48#4; 103#4].
Definition exp2 := [-39#4; -21#4; 7#4; -36#4; -13#4; 14#4; -41#4; -23#4; 5#4; -23#4; -14#4; -14#4; 14#4; -8#4; -14#4; 7#4; 16#4; 16#4].
Definition exp3 := [-11#4; -15#4; 7#4; -8#4; -7#4; 14#4; -13#4; -16#4; 5#4; 31#4; 19#4; 12#4; 14#4; -8#4; -14#4; 58#4; 67#4; 67#4].
Fixpoint eqs (a b : list Q) : bool := match a, b with [], [] => true | x :: a', y :: b' => Qeq_bool x y && eqs a' b' | _, _ => false end.
Eval vm_compute in (eqs (to_list sh (edgeworth sh 0 2 true (of_list sh inp))) exp1,
                    eqs (to_list sh (edgeworth sh 2 0 false (of_list sh inp))) exp2,
                    eqs (to_list sh (edgeworth sh 0 1 true (of_list sh inp))) exp3).
