From Coq Require Import QArith List Lia Lqa Bool.
Import ListNotations.
Require Import Memo Mono.
Open Scope Q_scope.

Definition at2 (b : idx) (m c i j : nat) : idx := upd (upd b m i) c j.
Definition sq (W : tens) (m c i j : nat) (b : idx) : Q :=
  (W (at2 b m c (S i) j) - W (at2 b m c i j)) - (W (at2 b m c (S i) (S j)) - W (at2 b m c i (S j))).
Definition maxl (l : list Q) : Q := fold_left qmax l 0.
Section E.
Variables (sh : list nat) (m c : nat).
Hypothesis Hmc : m <> c.
Hypothesis Hm : (m < length sh)%nat.
Hypothesis Hc : (c < length sh)%nat.
(* behind set abstracted: any list B of valid indices that contains a representative of every column *)
Variable B : list idx.
Hypothesis B_valid : forall b, In b B -> valid sh b.
Hypothesis B_repr : forall x, valid sh x -> exists b, In b B /\ forall i j, at2 b m c i j = at2 x m c i j.

Definition step (W : tens) (i j : nat) : tens :=
  let v := maxl (map (sq W m c i j) B) in
  memo sh (fun x => if (nth m x 0%nat =? S i)%nat && (nth c x 0%nat =? S j)%nat then Qred (W x + v) else W x).
Definition row (W : tens) (i : nat) : tens := fold_left (fun W j => step W i j) (seq 0 (nth c sh 0%nat - 1)) W.
Definition edge (W : tens) : tens := fold_left row (seq 0 (nth m sh 0%nat - 1)) W.

Lemma qmax_spec x y : (x <= y /\ qmax x y = y) \/ (y < x /\ qmax x y = x).
Proof. unfold qmax. destruct (Qle_bool x y) eqn:E.
- left. split; [apply Qle_bool_iff; exact E|reflexivity].
- right. split; [|reflexivity]. apply Qnot_le_lt. intro H. apply Qle_bool_iff in H. congruence. Qed.
Lemma fold_qmax_ge l : forall a, a <= fold_left qmax l a /\ forall x, In x l -> x <= fold_left qmax l a.
Proof. induction l as [|y l IH]; intros a; cbn [fold_left]. split; [lra|intros x []].
  destruct (IH (qmax a y)) as [H1 H2]. destruct (qmax_spec a y) as [[H ->]|[H ->]]; rewrite ?H in *.
  - destruct (IH y) as [H1' H2']. split. lra. intros x [<-|Hx]. exact H1'. apply H2'; assumption.
  - destruct (IH a) as [H1' H2']. split. exact H1'. intros x [<-|Hx]. lra. apply H2'; assumption. Qed.
Lemma maxl_nonneg l : 0 <= maxl l. Proof. destruct (fold_qmax_ge l 0) as [H _]; exact H. Qed.
Lemma maxl_ge l x : In x l -> x <= maxl l. Proof. destruct (fold_qmax_ge l 0) as [_ H]; apply H. Qed.

Lemma at2_valid b i j : valid sh b -> (i < nth m sh 0%nat)%nat -> (j < nth c sh 0%nat)%nat -> valid sh (at2 b m c i j).
Proof. intros. unfold at2. apply upd_valid; [apply upd_valid|]; assumption. Qed.
Lemma at2_m b i j : valid sh b -> nth m (at2 b m c i j) 0%nat = i.
Proof. intros Hv. unfold at2. rewrite nth_upd_other by auto. apply nth_upd_same. rewrite (valid_length sh b Hv). exact Hm. Qed.
Lemma at2_c b i j : valid sh b -> nth c (at2 b m c i j) 0%nat = j.
Proof. intros Hv. unfold at2. apply nth_upd_same. 
  assert (valid sh (upd b m i) \/ True) by auto. 
  assert (length (upd b m i) = length b). { clear. revert m. induction b; intros [|m]; cbn; auto. }
  rewrite H0, (valid_length sh b Hv). exact Hc. Qed.

Lemma step_val W i j x : valid sh x ->
  step W i j x == if (nth m x 0%nat =? S i)%nat && (nth c x 0%nat =? S j)%nat then W x + maxl (map (sq W m c i j) B) else W x.
Proof. intros Hv. unfold step. rewrite memo_ok by assumption. destruct (_ && _). apply Qred_correct. reflexivity. Qed.

(* value of step at a grid point of column (i',j') *)
Lemma step_at W i j b i' j' : valid sh b -> (i' < nth m sh 0%nat)%nat -> (j' < nth c sh 0%nat)%nat ->
  step W i j (at2 b m c i' j') == W (at2 b m c i' j') + (if (i' =? S i)%nat && (j' =? S j)%nat then maxl (map (sq W m c i j) B) else 0).
Proof. intros Hv Hi Hj. rewrite step_val by (apply at2_valid; assumption). rewrite at2_m, at2_c by assumption.
  destruct (_ && _); lra. Qed.

Definition holds (W : tens) (i j : nat) : Prop := forall b, valid sh b -> sq W m c i j b <= 0.

Lemma sq_repr W i j x : valid sh x -> exists b, In b B /\ sq W m c i j x = sq W m c i j b.
Proof. intros Hv. destruct (B_repr x Hv) as [b [Hb He]]. exists b. split; [assumption|]. unfold sq. rewrite !He. reflexivity. Qed.

Lemma step_fixes W i j : (S i < nth m sh 0%nat)%nat -> (S j < nth c sh 0%nat)%nat -> holds (step W i j) i j.
Proof. intros Hi Hj b Hv. unfold sq. rewrite !step_at by (assumption || lia).
  replace ((S i =? S i)%nat && (j =? S j)%nat) with false by (rewrite Nat.eqb_refl; symmetry; apply Nat.eqb_neq; lia).
  replace ((i =? S i)%nat && (j =? S j)%nat) with false by (symmetry; apply andb_false_iff; left; apply Nat.eqb_neq; lia).
  replace ((i =? S i)%nat && (S j =? S j)%nat) with false by (symmetry; apply andb_false_iff; left; apply Nat.eqb_neq; lia).
  rewrite !Nat.eqb_refl. cbn [andb].
  destruct (sq_repr W i j b Hv) as [b' [Hb' He]].
  pose proof (maxl_ge (map (sq W m c i j) B) (sq W m c i j b') (in_map _ _ _ Hb')) as Hge.
  rewrite <- He in Hge. set (M := maxl _) in *. unfold sq in Hge. lra. Qed.

Lemma step_keeps W i j i' j' : (S i' < nth m sh 0%nat)%nat -> (S j' < nth c sh 0%nat)%nat ->
  (i' < i \/ (i' = i /\ j' < j))%nat -> holds W i' j' -> holds (step W i j) i' j'.
Proof. intros Hi Hj Hlt Hh b Hv. specialize (Hh b Hv). unfold sq in *. rewrite !step_at by (assumption || lia).
  assert (E1 : (S i' =? S i)%nat && (j' =? S j)%nat = false) by (apply andb_false_iff; destruct Hlt as [?|[? ?]]; [left|right]; apply Nat.eqb_neq; lia).
  assert (E2 : (i' =? S i)%nat && (j' =? S j)%nat = false) by (apply andb_false_iff; left; apply Nat.eqb_neq; lia).
  assert (E3 : (S i' =? S i)%nat && (S j' =? S j)%nat = false) by (apply andb_false_iff; destruct Hlt as [?|[? ?]]; [left|right]; apply Nat.eqb_neq; lia).
  assert (E4 : (i' =? S i)%nat && (S j' =? S j)%nat = false) by (apply andb_false_iff; left; apply Nat.eqb_neq; lia).
  rewrite E1, E2, E3, E4. lra. Qed.

(* generic invariant over fold on seq *)
Lemma fold_seq_inv {A} (f : A -> nat -> A) (Inv : nat -> A -> Prop) : forall n s a,
  Inv s a -> (forall k a, (s <= k < s + n)%nat -> Inv k a -> Inv (S k) (f a k)) -> Inv (s + n)%nat (fold_left f (seq s n) a).
Proof. induction n as [|n IH]; intros s a H0 Hs; cbn [seq fold_left]. rewrite Nat.add_0_r; assumption.
  replace (s + S n)%nat with (S s + n)%nat by lia. apply IH. apply Hs; [lia|assumption]. intros k a' Hk. apply Hs; lia. Qed.

Definition inv_row (i : nat) (j : nat) (W : tens) : Prop :=
  forall i' j', (S i' < nth m sh 0%nat)%nat -> (S j' < nth c sh 0%nat)%nat -> (i' < i \/ (i' = i /\ j' < j))%nat -> holds W i' j'.

Lemma row_inv W i : (S i < nth m sh 0%nat)%nat -> inv_row i 0 W -> inv_row (S i) 0 (row W i).
Proof. intros Hi H0. unfold row.
  pose proof (fold_seq_inv (fun W j => step W i j) (inv_row i) (nth c sh 0%nat - 1) 0%nat W H0) as H.
  cbn [Nat.add] in H.
  assert (Hstep : forall k a, (0 <= k < nth c sh 0%nat - 1)%nat -> inv_row i k a -> inv_row i (S k) (step a i k)).
  { intros k a Hk Ha i' j' Hi' Hj' Hlt.
    destruct (Nat.eq_dec i' i) as [->|Hne]; [destruct (Nat.eq_dec j' k) as [->|Hnk]|].
    - apply step_fixes; lia.
    - apply step_keeps; try lia. apply Ha; lia.
    - apply step_keeps; try lia. apply Ha; lia. }
  specialize (H Hstep). intros i' j' Hi' Hj' Hlt. apply H; try assumption. lia. Qed.

Theorem edgeworth_established W : forall i j, (S i < nth m sh 0%nat)%nat -> (S j < nth c sh 0%nat)%nat -> holds (edge W) i j.
Proof. unfold edge.
  pose proof (fold_seq_inv row (fun i W => inv_row i 0 W) (nth m sh 0%nat - 1) 0%nat W) as H. cbn [Nat.add] in H.
  assert (H0 : inv_row 0 0 W) by (intros i' j' _ _ Hlt; lia).
  specialize (H H0 ltac:(intros k a Hk Ha; apply row_inv; [lia|assumption])).
  intros i j Hi Hj. apply (H i j Hi Hj). lia. Qed.
End E.
Print Assumptions edgeworth_established.
