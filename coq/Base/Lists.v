(* List helpers over rationals: positional update, zips, columns. *)
From TFL Require Export Base.QNum.
Open Scope Q_scope.

Fixpoint set_nth (i : nat) (v : Q) (l : list Q) : list Q :=
  match l, i with
  | [], _ => []
  | _ :: r, O => v :: r
  | x :: r, S i' => x :: set_nth i' v r
  end.
Lemma set_nth_length i v l : length (set_nth i v l) = length l.
Proof. revert i; induction l as [|x l IH]; intros [|i]; cbn; auto. Qed.
Lemma nth_set_nth_same i v l : (i < length l)%nat -> nth i (set_nth i v l) 0 = v.
Proof. revert i; induction l as [|x l IH]; intros [|i] H; cbn in *; try lia; auto. apply IH; lia. Qed.
Lemma nth_set_nth_other i j v l : i <> j -> nth j (set_nth i v l) 0 = nth j l 0.
Proof. revert i j; induction l as [|x l IH]; intros [|i] [|j] H; cbn; auto; try lia. Qed.

Fixpoint map2 {A B C} (f : A -> B -> C) (a : list A) (b : list B) : list C :=
  match a, b with x :: a', y :: b' => f x y :: map2 f a' b' | _, _ => [] end.
Lemma map2_length {A B C} (f : A -> B -> C) a b : length (map2 f a b) = Nat.min (length a) (length b).
Proof. revert b; induction a as [|x a IH]; intros [|y b]; cbn; auto. Qed.
Lemma nth_map2 {A B C} (f : A -> B -> C) a b i da db dc :
  (i < length a)%nat -> (i < length b)%nat -> nth i (map2 f a b) dc = f (nth i a da) (nth i b db).
Proof. revert b i; induction a as [|x a IH]; intros [|y b] [|i] Ha Hb; cbn in *; try lia; auto. apply IH; lia. Qed.

(* matrices as lists of rows; column extraction and transpose *)
Definition column (u : nat) (m : list (list Q)) : list Q := map (fun r => nth u r 0) m.
Definition transpose (ncols : nat) (m : list (list Q)) : list (list Q) := map (fun u => column u m) (seq 0 ncols).

Definition mem_nat (n : nat) (l : list nat) : bool := existsb (Nat.eqb n) l.
Lemma mem_nat_true n l : mem_nat n l = true <-> In n l.
Proof. unfold mem_nat. rewrite existsb_exists. split. intros [x [H E]]. apply Nat.eqb_eq in E. subst; assumption.
  intros H; exists n; split; [assumption|apply Nat.eqb_refl]. Qed.
Lemma mem_nat_false n l : mem_nat n l = false <-> ~ In n l.
Proof. rewrite <- mem_nat_true. destruct (mem_nat n l); split; congruence. Qed.

Fixpoint dedup (l : list nat) (seen : list nat) : list nat :=
  match l with [] => [] | x :: r => if mem_nat x seen then dedup r seen else x :: dedup r (x :: seen) end.

Lemma nth_map_seq {A} (f : nat -> A) n u d : (u < n)%nat -> nth u (map f (seq 0 n)) d = f u.
Proof. intros H. rewrite nth_indep with (d' := f 0%nat) by (rewrite map_length, seq_length; exact H).
  rewrite map_nth. rewrite seq_nth by exact H. reflexivity. Qed.
