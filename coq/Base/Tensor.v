(* Tensors as memoised functions on index vectors (see DESIGN.md section 2). *)
From TFL Require Export Base.QNum.
Open Scope Q_scope.

Definition idx := list nat.
Definition tens := idx -> Q.

Fixpoint memo (shape : list nat) : tens -> tens :=
  match shape with
  | [] => fun f => let v := f [] in fun _ => v
  | s :: sh => fun f =>
      let rows := map (fun k => memo sh (fun i => f (k :: i))) (seq 0 s) in
      fun i => match i with
               | k :: r => nth k rows (fun _ => 0) r
               | [] => 0
               end
  end.

Inductive valid : list nat -> idx -> Prop :=
| v_nil : valid [] []
| v_cons s sh k r : (k < s)%nat -> valid sh r -> valid (s :: sh) (k :: r).

Lemma memo_ok : forall sh f i, valid sh i -> memo sh f i = f i.
Proof.
  induction sh as [|s sh IH]; intros f i Hv; inversion Hv; subst; cbn [memo].
  - reflexivity.
  - rewrite nth_indep with (d' := memo sh (fun i => f (0%nat :: i))) by (rewrite map_length, seq_length; lia).
    change (memo sh (fun i => f (0%nat :: i))) with ((fun k => memo sh (fun i => f (k :: i))) 0%nat).
    rewrite map_nth. rewrite seq_nth by lia. cbn [Nat.add].
    match goal with H : valid sh ?r |- _ => exact (IH (fun i => f (k :: i)) r H) end.
Qed.

Fixpoint upd (i : idx) (d k : nat) : idx :=
  match i, d with
  | [], _ => []
  | _ :: r, O => k :: r
  | x :: r, S d' => x :: upd r d' k
  end.

Fixpoint all_idx (shape : list nat) : list idx :=
  match shape with [] => [[]] | s :: sh => flat_map (fun k => map (cons k) (all_idx sh)) (seq 0 s) end.
Fixpoint flat (shape : list nat) (i : idx) : nat :=
  match shape, i with s :: sh, k :: r => k * fold_right Nat.mul 1%nat sh + flat sh r | _, _ => 0%nat end.
Definition of_list (shape : list nat) (l : list Q) : tens := memo shape (fun i => nth (flat shape i) l 0).
Definition to_list (shape : list nat) (t : tens) : list Q := map t (all_idx shape).

Lemma valid_length sh i : valid sh i -> length i = length sh.
Proof. induction 1; cbn; congruence. Qed.
Lemma valid_nth sh i d : valid sh i -> (d < length sh)%nat -> (nth d i 0%nat < nth d sh 0%nat)%nat.
Proof. intros H; revert d; induction H; intros d Hd; cbn in *. lia. destruct d; [assumption|apply IHvalid; lia]. Qed.
Lemma upd_valid sh i d k : valid sh i -> (k < nth d sh 0%nat)%nat -> valid sh (upd i d k).
Proof. intros H; revert d; induction H; intros d Hk; cbn in *. constructor.
  destruct d; constructor; auto. Qed.
Lemma upd_length i d k : length (upd i d k) = length i.
Proof. revert d; induction i as [|x r IH]; intros [|d]; cbn; auto. Qed.
Lemma nth_upd_same i d k : (d < length i)%nat -> nth d (upd i d k) 0%nat = k.
Proof. revert d; induction i as [|x r IH]; intros d H; cbn in *. lia. destruct d; cbn; [reflexivity|apply IH; lia]. Qed.
Lemma nth_upd_other i d d' k : d <> d' -> nth d' (upd i d k) 0%nat = nth d' i 0%nat.
Proof. revert d d'; induction i as [|x r IH]; intros d d' H; cbn. reflexivity.
  destruct d, d'; cbn; try reflexivity; try lia. apply IH; lia. Qed.
Lemma upd_upd i d k k' : upd (upd i d k) d k' = upd i d k'.
Proof. revert d; induction i as [|x r IH]; intros d; cbn. reflexivity. destruct d; cbn; [reflexivity|f_equal; apply IH]. Qed.
Lemma upd_comm i d d' k k' : d <> d' -> upd (upd i d k) d' k' = upd (upd i d' k') d k.
Proof. revert d d'; induction i as [|x r IH]; intros d d' H; cbn. reflexivity.
  destruct d, d'; cbn; try reflexivity; try lia. f_equal; apply IH; lia. Qed.
Lemma upd_self i d : upd i d (nth d i 0%nat) = i.
Proof. revert d; induction i as [|x r IH]; intros d; cbn. reflexivity. destruct d; cbn; [reflexivity|f_equal; apply IH]. Qed.

Lemma all_idx_valid sh i : In i (all_idx sh) <-> valid sh i.
Proof. revert i; induction sh as [|s sh IH]; intros i; cbn [all_idx].
  - split. intros [<-|[]]. constructor. intros H; inversion H; left; reflexivity.
  - rewrite in_flat_map. split.
    + intros [k [Hk Hi]]. apply in_map_iff in Hi. destruct Hi as [r [<- Hr]]. apply in_seq in Hk.
      constructor. lia. apply IH; assumption.
    + intros H; inversion H; subst. exists k. split. apply in_seq; lia. apply in_map. apply IH; assumption. Qed.
