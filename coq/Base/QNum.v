(* Exact rational arithmetic helpers: min / max / abs / clip as boolean
   conditionals (so that they compute) with characterising lemmas (so that
   proofs never unfold them). *)
From Coq Require Export QArith List Lia Lqa Bool.
Export ListNotations.
Open Scope Q_scope.

Definition qmax (x y : Q) : Q := if Qle_bool x y then y else x.
Definition qmin (x y : Q) : Q := if Qle_bool x y then x else y.
Definition qabs (x : Q) : Q := if Qle_bool 0 x then x else - x.
(* tf.clip_by_value(x, lo, hi) = max(min(x, hi), lo) *)
Definition qclip (lo hi x : Q) : Q := qmax (qmin x hi) lo.
Definition qle (x y : Q) : bool := Qle_bool x y.
Definition qlt (x y : Q) : bool := negb (Qle_bool y x).
Definition qhalf (x : Q) : Q := x * (1#2).

Lemma qle_true x y : qle x y = true <-> x <= y.
Proof. unfold qle. apply Qle_bool_iff. Qed.
Lemma qle_false x y : qle x y = false <-> y < x.
Proof. unfold qle. split; intro H.
  - apply Qnot_le_lt. intro H'. apply Qle_bool_iff in H'. congruence.
  - destruct (Qle_bool x y) eqn:E; [|reflexivity]. apply Qle_bool_iff in E. lra. Qed.
Lemma qlt_true x y : qlt x y = true <-> x < y.
Proof. unfold qlt. rewrite negb_true_iff. apply (qle_false y x). Qed.
Lemma qlt_false x y : qlt x y = false <-> y <= x.
Proof. unfold qlt. rewrite negb_false_iff. apply Qle_bool_iff. Qed.

Lemma qmax_spec x y : (x <= y /\ qmax x y = y) \/ (y < x /\ qmax x y = x).
Proof. unfold qmax. destruct (Qle_bool x y) eqn:E.
- left. split; [apply Qle_bool_iff; exact E|reflexivity].
- right. split; [|reflexivity]. apply (qle_false x y). exact E. Qed.
Lemma qmin_spec x y : (x <= y /\ qmin x y = x) \/ (y < x /\ qmin x y = y).
Proof. unfold qmin. destruct (Qle_bool x y) eqn:E.
- left. split; [apply Qle_bool_iff; exact E|reflexivity].
- right. split; [|reflexivity]. apply (qle_false x y). exact E. Qed.
Lemma qabs_spec x : (0 <= x /\ qabs x = x) \/ (x < 0 /\ qabs x = - x).
Proof. unfold qabs. destruct (Qle_bool 0 x) eqn:E.
- left. split; [apply Qle_bool_iff; exact E|reflexivity].
- right. split; [|reflexivity]. apply (qle_false 0 x). exact E. Qed.

Ltac qcase_term t :=
  let H := fresh "Hc" in let E := fresh "Ec" in
  lazymatch t with
  | qmax ?a ?b => destruct (qmax_spec a b) as [[H E]|[H E]]
  | qmin ?a ?b => destruct (qmin_spec a b) as [[H E]|[H E]]
  | qabs ?a => destruct (qabs_spec a) as [[H E]|[H E]]
  end; rewrite E in *; clear E.
Ltac qcases :=
  repeat match goal with
  | |- context [qmax ?a ?b] => qcase_term (qmax a b)
  | |- context [qmin ?a ?b] => qcase_term (qmin a b)
  | |- context [qabs ?a] => qcase_term (qabs a)
  | _ : context [qmax ?a ?b] |- _ => qcase_term (qmax a b)
  | _ : context [qmin ?a ?b] |- _ => qcase_term (qmin a b)
  | _ : context [qabs ?a] |- _ => qcase_term (qabs a)
  end.

Global Instance qmax_proper : Proper (Qeq ==> Qeq ==> Qeq) qmax.
Proof. intros a b Hab c d Hcd. qcases; lra. Qed.
Global Instance qmin_proper : Proper (Qeq ==> Qeq ==> Qeq) qmin.
Proof. intros a b Hab c d Hcd. qcases; lra. Qed.
Global Instance qabs_proper : Proper (Qeq ==> Qeq) qabs.
Proof. intros a b Hab. qcases; lra. Qed.
Global Instance qclip_proper : Proper (Qeq ==> Qeq ==> Qeq ==> Qeq) qclip.
Proof. intros a b Hab c d Hcd e f Hef. unfold qclip. rewrite Hab, Hcd, Hef. reflexivity. Qed.

Lemma qmax_l x y : x <= qmax x y. Proof. qcases; lra. Qed.
Lemma qmax_r x y : y <= qmax x y. Proof. qcases; lra. Qed.
Lemma qmin_l x y : qmin x y <= x. Proof. qcases; lra. Qed.
Lemma qmin_r x y : qmin x y <= y. Proof. qcases; lra. Qed.
Lemma qmax_lub x y z : x <= z -> y <= z -> qmax x y <= z. Proof. intros; qcases; lra. Qed.
Lemma qmin_glb x y z : z <= x -> z <= y -> z <= qmin x y. Proof. intros; qcases; lra. Qed.
Lemma qmax_mono a b c d : a <= c -> b <= d -> qmax a b <= qmax c d. Proof. intros; qcases; lra. Qed.
Lemma qmin_mono a b c d : a <= c -> b <= d -> qmin a b <= qmin c d. Proof. intros; qcases; lra. Qed.
Lemma qabs_nonneg x : 0 <= qabs x. Proof. qcases; lra. Qed.

Lemma qclip_range lo hi x : lo <= hi -> lo <= qclip lo hi x /\ qclip lo hi x <= hi.
Proof. intros H. unfold qclip. qcases; lra. Qed.
Lemma qclip_id lo hi x : lo <= x -> x <= hi -> qclip lo hi x == x.
Proof. intros. unfold qclip. qcases; lra. Qed.
Lemma qclip_mono lo hi x y : x <= y -> qclip lo hi x <= qclip lo hi y.
Proof. intros. unfold qclip. qcases; lra. Qed.

(* Optional bounds (None = unbounded), as used by Linear / Lattice clip. *)
Definition clip_lo (lo : option Q) (x : Q) : Q := match lo with Some l => qmax x l | None => x end.
Definition clip_hi (hi : option Q) (x : Q) : Q := match hi with Some h => qmin x h | None => x end.
Definition clip_opt (lo hi : option Q) (x : Q) : Q := clip_lo lo (clip_hi hi x).
Lemma clip_opt_mono lo hi x y : x <= y -> clip_opt lo hi x <= clip_opt lo hi y.
Proof. intros. unfold clip_opt, clip_lo, clip_hi. destruct lo, hi; qcases; lra. Qed.

(* Sums over lists of rationals *)
Fixpoint qsum (l : list Q) : Q := match l with [] => 0 | x :: r => x + qsum r end.
Lemma qsum_app a b : qsum (a ++ b) == qsum a + qsum b.
Proof. induction a as [|x a IH]; cbn [qsum app]. lra. rewrite IH. lra. Qed.
Lemma qsum_map_ext {A} (f g : A -> Q) l : (forall x, In x l -> f x == g x) -> qsum (map f l) == qsum (map g l).
Proof. induction l as [|x l IH]; intros H; cbn [map qsum]. reflexivity.
  rewrite (H x (or_introl eq_refl)), IH. reflexivity. intros; apply H; right; assumption. Qed.
Lemma qsum_map_le {A} (f g : A -> Q) l : (forall x, In x l -> f x <= g x) -> qsum (map f l) <= qsum (map g l).
Proof. induction l as [|x l IH]; intros H; cbn [map qsum]. lra.
  pose proof (H x (or_introl eq_refl)). assert (qsum (map f l) <= qsum (map g l)) by (apply IH; intros; apply H; right; assumption). lra. Qed.
Lemma qsum_map_scale {A} (f : A -> Q) c l : qsum (map (fun x => c * f x) l) == c * qsum (map f l).
Proof. induction l as [|x l IH]; cbn [map qsum]. lra. rewrite IH. lra. Qed.
Lemma qsum_map_plus {A} (f g : A -> Q) l : qsum (map (fun x => f x + g x) l) == qsum (map f l) + qsum (map g l).
Proof. induction l as [|x l IH]; cbn [map qsum]. lra. rewrite IH. lra. Qed.
Lemma qsum_map_nonneg {A} (f : A -> Q) l : (forall x, In x l -> 0 <= f x) -> 0 <= qsum (map f l).
Proof. induction l as [|x l IH]; intros H; cbn [map qsum]. lra.
  pose proof (H x (or_introl eq_refl)). assert (0 <= qsum (map f l)) by (apply IH; intros; apply H; right; assumption). lra. Qed.

(* fold max / min over lists *)
Definition maxl0 (l : list Q) : Q := fold_left qmax l 0.
Lemma fold_qmax_ge l : forall a, a <= fold_left qmax l a /\ forall x, In x l -> x <= fold_left qmax l a.
Proof. induction l as [|y l IH]; intros a; cbn [fold_left]. split; [lra|intros x []].
  destruct (IH (qmax a y)) as [H1 H2]. split.
  - pose proof (qmax_l a y). lra.
  - intros x [<-|Hx]. pose proof (qmax_r a y). lra. apply H2; assumption. Qed.
Lemma fold_qmax_lub l : forall a z, a <= z -> (forall x, In x l -> x <= z) -> fold_left qmax l a <= z.
Proof. induction l as [|y l IH]; intros a z Ha H; cbn [fold_left]. exact Ha.
  apply IH. apply qmax_lub. exact Ha. apply H; left; reflexivity. intros; apply H; right; assumption. Qed.
Lemma fold_qmin_le l : forall a, fold_left qmin l a <= a /\ forall x, In x l -> fold_left qmin l a <= x.
Proof. induction l as [|y l IH]; intros a; cbn [fold_left]. split; [lra|intros x []].
  destruct (IH (qmin a y)) as [H1 H2]. split.
  - pose proof (qmin_l a y). lra.
  - intros x [<-|Hx]. pose proof (qmin_r a y). lra. apply H2; assumption. Qed.
Lemma fold_qmin_glb l : forall a z, z <= a -> (forall x, In x l -> z <= x) -> z <= fold_left qmin l a.
Proof. induction l as [|y l IH]; intros a z Ha H; cbn [fold_left]. exact Ha.
  apply IH. apply qmin_glb. exact Ha. apply H; left; reflexivity. intros; apply H; right; assumption. Qed.
Lemma maxl0_nonneg l : 0 <= maxl0 l. Proof. destruct (fold_qmax_ge l 0) as [H _]; exact H. Qed.
Lemma maxl0_ge l x : In x l -> x <= maxl0 l. Proof. destruct (fold_qmax_ge l 0) as [_ H]; apply H. Qed.
Lemma maxl0_zero l : (forall x, In x l -> x <= 0) -> maxl0 l == 0.
Proof. intros H. pose proof (maxl0_nonneg l). assert (maxl0 l <= 0) by (apply fold_qmax_lub; [lra|exact H]). lra. Qed.

(* list max/min with head as start *)
Definition qmaxl (l : list Q) : Q := match l with [] => 0 | x :: r => fold_left qmax r x end.
Definition qminl (l : list Q) : Q := match l with [] => 0 | x :: r => fold_left qmin r x end.
Lemma qmaxl_ge l x : In x l -> x <= qmaxl l.
Proof. destruct l as [|y l]; [intros []|]. intros [<-|H]; cbn [qmaxl]; destruct (fold_qmax_ge l y) as [H1 H2]; auto. Qed.
Lemma qminl_le l x : In x l -> qminl l <= x.
Proof. destruct l as [|y l]; [intros []|]. intros [<-|H]; cbn [qminl]; destruct (fold_qmin_le l y) as [H1 H2]; auto. Qed.
Lemma qmaxl_lub l z : l <> [] -> (forall x, In x l -> x <= z) -> qmaxl l <= z.
Proof. destruct l as [|y l]; [congruence|]. intros _ H. cbn [qmaxl]. apply fold_qmax_lub. apply H; left; reflexivity. intros; apply H; right; assumption. Qed.
Lemma qminl_glb l z : l <> [] -> (forall x, In x l -> z <= x) -> z <= qminl l.
Proof. destruct l as [|y l]; [congruence|]. intros _ H. cbn [qminl]. apply fold_qmin_glb. apply H; left; reflexivity. intros; apply H; right; assumption. Qed.

(* pointwise Qeq on lists *)
Definition qleq (a b : list Q) : Prop := Forall2 Qeq a b.

Lemma qmul_nonneg a b : 0 <= a -> 0 <= b -> 0 <= a * b.
Proof. apply Qmult_le_0_compat. Qed.
Lemma qmul_le_l a b c : 0 <= a -> b <= c -> a * b <= a * c.
Proof. intros Ha H. pose proof (qmul_nonneg a (c - b) Ha ltac:(lra)). lra. Qed.
Lemma qmul_le_l_neg a b c : a <= 0 -> b <= c -> a * c <= a * b.
Proof. intros Ha H. pose proof (qmul_nonneg (- a) (c - b) ltac:(lra) ltac:(lra)). lra. Qed.
