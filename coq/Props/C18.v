(* C18 — Computed calibration keypoints are valid for every data sample.
   Property theorems only; proofs live in Proofs/Keypoints.v, the model
   (premade_lib.compute_keypoints, _weighted_quantile and the feature / label
   helpers) in Model/Keypoints.v.

   Vocabulary (defined in Proofs/Keypoints.v):
     nearest rnd       : forall j x, |rnd j x - x| <= 1/2   (ANY rounding to a nearest integer,
                         whatever it does at ties; np.rint = rnd_he is one, C18_half_even_is_nearest)
     strict : bool     : which end of a run of equal weighted quantiles np.interp's search takes
                         (false = NumPy; the theorems hold for both)
     wlen_ok vs ws     : the weight vector, when given, has the data's length
     weights_ok vs ws dv : weights are >= 0 and some example that is not the default value has weight > 0
     clipped vs cmin cmax dv : the data after default-value removal and clipping, plus the clip bounds
     two_distinct cl   : exists a b in cl, a < b
     increasing l      : consecutive elements strictly increase (Qlt)
     veq_in x l        : some element of l equals x (as a rational)
     in_range n i      : 0 <= i < n
   A result [None] is a raised error. *)
From TFL Require Import Model.Keypoints Proofs.Keypoints.
Open Scope Q_scope.

(* np.rint (round half to even) is a rounding to a nearest integer. *)
Theorem C18_half_even_is_nearest : nearest rnd_he.
Proof. exact rnd_he_nearest. Qed.
Print Assumptions C18_half_even_is_nearest.

(* np.unique: the distinct values are strictly increasing and are exactly the clipped data. *)
Theorem C18_distinct_values_spec : forall vs ws cmin cmax dv, wlen_ok vs ws ->
  increasing (distinct_values vs ws cmin cmax dv) /\
  forall x, veq_in x (distinct_values vs ws cmin cmax dv) <-> veq_in x (clipped vs cmin cmax dv).
Proof. exact distinct_values_spec. Qed.
Print Assumptions C18_distinct_values_spec.

(* No error: valid mode / reduction, some data or a clip bound, non-negative
   weights with positive sum => keypoints are returned (any data length, any k). *)
Theorem C18_no_error : forall rnd strict vs k mode cmin cmax dv ws red,
  wlen_ok vs ws -> mode <> MOther -> (ws <> None -> red <> ROther) ->
  clipped vs cmin cmax dv <> [] -> weights_ok vs ws dv ->
  exists kps, compute_keypoints rnd strict vs k mode cmin cmax dv ws red = Some kps.
Proof. exact ck_no_error. Qed.
Print Assumptions C18_no_error.

(* Strictly increasing whenever the clipped data has two distinct values: both
   modes, weighted or not, every k, every weight vector, every data length. *)
Theorem C18_strictly_increasing : forall rnd strict vs k mode cmin cmax dv ws red kps,
  nearest rnd -> wlen_ok vs ws ->
  compute_keypoints rnd strict vs k mode cmin cmax dv ws red = Some kps ->
  two_distinct (clipped vs cmin cmax dv) -> increasing kps.
Proof. exact ck_strictly_increasing. Qed.
Print Assumptions C18_strictly_increasing.

(* Every keypoint lies within the clipped data range. *)
Theorem C18_within_range : forall rnd strict vs k mode cmin cmax dv ws red kps,
  nearest rnd -> wlen_ok vs ws ->
  compute_keypoints rnd strict vs k mode cmin cmax dv ws red = Some kps ->
  forall x, In x kps -> qminl (clipped vs cmin cmax dv) <= x /\ x <= qmaxl (clipped vs cmin cmax dv).
Proof. exact ck_within_range. Qed.
Print Assumptions C18_within_range.

(* First / last keypoint = minimum / maximum of the clipped data (num_keypoints >= 2)... *)
Theorem C18_endpoints : forall rnd strict vs k mode cmin cmax dv ws red kps,
  nearest rnd -> wlen_ok vs ws -> (2 <= k)%nat -> clipped vs cmin cmax dv <> [] ->
  compute_keypoints rnd strict vs k mode cmin cmax dv ws red = Some kps ->
  hd 0 kps == qminl (clipped vs cmin cmax dv) /\ last kps 0 == qmaxl (clipped vs cmin cmax dv).
Proof. exact ck_endpoints. Qed.
Print Assumptions C18_endpoints.

(* ... which are the clip bounds when clip bounds are given (else the data extremes). *)
Theorem C18_endpoints_clip_max : forall vs cmin dv hi, qmaxl (clipped vs cmin (Some hi) dv) == hi.
Proof. exact clipped_max_is_clip_max. Qed.
Print Assumptions C18_endpoints_clip_max.

Theorem C18_endpoints_clip_min : forall vs cmax dv lo,
  qminl (clipped vs (Some lo) cmax dv) == match cmax with Some hi => qmin lo hi | None => lo end.
Proof. exact clipped_min_is_clip_min. Qed.
Print Assumptions C18_endpoints_clip_min.

(* Exactly num_keypoints when that many distinct values exist; otherwise, in
   quantiles mode, the distinct values themselves; uniform mode always k. *)
Theorem C18_count : forall rnd strict vs k mode cmin cmax dv ws red kps,
  nearest rnd ->
  compute_keypoints rnd strict vs k mode cmin cmax dv ws red = Some kps ->
  let sv := distinct_values vs ws cmin cmax dv in
  ((k <= length sv)%nat -> length kps = k) /\
  ((length sv < k)%nat -> mode = Quantiles -> kps = sv) /\
  (mode = Uniform -> length kps = k).
Proof. exact ck_count. Qed.
Print Assumptions C18_count.

(* The repeated-index repair loop (bounded search, as in the code) always ends
   with pairwise distinct in-range indices that keep every original index. *)
Theorem C18_repair_distinct : forall n idx,
  (length idx <= n)%nat -> (forall v, In v idx -> in_range n v) ->
  NoDup (repair n idx) /\ length (repair n idx) = length idx /\
  (forall x, In x (repair n idx) -> in_range n x) /\
  (forall v, In v idx -> In v (repair n idx)).
Proof. exact repair_distinct. Qed.
Print Assumptions C18_repair_distinct.

(* The result passes PWLCalibration's keypoint test (>= 2 keypoints, strictly increasing). *)
Theorem C18_accepted_by_pwl : forall rnd strict vs k mode cmin cmax dv ws red kps,
  nearest rnd -> wlen_ok vs ws -> (2 <= k)%nat ->
  compute_keypoints rnd strict vs k mode cmin cmax dv ws red = Some kps ->
  two_distinct (clipped vs cmin cmax dv) -> pwl_keypoints_ok kps = true.
Proof. exact ck_accepted_by_pwl. Qed.
Print Assumptions C18_accepted_by_pwl.

(* Uniform mode: exactly k equally spaced points from the minimum to the maximum. *)
Theorem C18_uniform_formula : forall rnd strict vs k cmin cmax dv ws red kps,
  wlen_ok vs ws ->
  compute_keypoints rnd strict vs k Uniform cmin cmax dv ws red = Some kps ->
  let a := qminl (clipped vs cmin cmax dv) in let b := qmaxl (clipped vs cmin cmax dv) in
  length kps = k /\ forall j, (j < k)%nat -> nth j kps 0 == a + nq j * ((b - a) / nq (k - 1)).
Proof. exact ck_uniform_formula. Qed.
Print Assumptions C18_uniform_formula.

(* np.interp's precondition: the weighted quantiles of the distinct values are non-decreasing. *)
Theorem C18_interp_xp_nondecreasing : forall ws,
  (forall w, In w ws -> 0 <= w) -> 0 < qsum ws -> chain Qle (wquantiles ws).
Proof. exact wquantiles_nondecreasing. Qed.
Print Assumptions C18_interp_xp_nondecreasing.

(* Helpers.  A keypoint entry computed for a numeric feature is compute_keypoints
   on that feature's data with the fields of its config (the default config when
   none has the name), so all theorems above apply to it. *)
Theorem C18_feature_keypoints : forall rnd strict fcs features ws red name kps m,
  In (name, FKeypoints kps) (compute_feature_keypoints rnd strict fcs features ws red) ->
  fc_spec (fc_by_name fcs name) = KMode m ->
  let fc := fc_by_name fcs name in
  exists vs, In (name, vs) features /\
    compute_keypoints rnd strict vs (fc_num_keypoints fc) m (fc_clip_min fc) (fc_clip_max fc)
                      (fc_default fc) ws red = Some kps.
Proof. exact cfk_numeric. Qed.
Print Assumptions C18_feature_keypoints.

(* Categorical features are skipped, user-given keypoints are passed through. *)
Theorem C18_feature_skip_and_given : forall rnd strict fc vs ws red,
  (fc_num_buckets fc <> 0%nat -> feature_keypoints_one rnd strict fc vs ws red = FSkip) /\
  (fc_num_buckets fc = 0%nat -> forall g, fc_spec fc = KGiven g ->
     feature_keypoints_one rnd strict fc vs ws red = FKeypoints g) /\
  (fc_num_buckets fc = 0%nat -> forall m, fc_spec fc = KMode m ->
     feature_keypoints_one rnd strict fc vs ws red =
     match compute_keypoints rnd strict vs (fc_num_keypoints fc) m (fc_clip_min fc) (fc_clip_max fc)
                             (fc_default fc) ws red with
     | Some kps => FKeypoints kps | None => FError end).
Proof. exact fk_one_cases. Qed.
Print Assumptions C18_feature_skip_and_given.

(* set_feature_keypoints: the named config (added when missing and requested)
   then carries exactly the keypoints; other names are untouched. *)
Theorem C18_set_feature_keypoints : forall add fcs name kps,
  has_fc fcs name = true \/ add = true ->
  fc_spec (fc_by_name (set_feature_keypoints_one add fcs name kps) name) = KGiven kps.
Proof. exact set_feature_keypoints_one_spec. Qed.
Print Assumptions C18_set_feature_keypoints.

Theorem C18_set_feature_keypoints_other : forall add fcs name kps name', name' <> name ->
  fc_by_name (set_feature_keypoints_one add fcs name kps) name' = fc_by_name fcs name'.
Proof. exact set_feature_keypoints_one_other. Qed.
Print Assumptions C18_set_feature_keypoints_other.

(* compute_label_keypoints: user-given passthrough, logits => linspace(-2, 2, k),
   otherwise compute_keypoints on the labels (string labels: arange(#classes),
   weights dropped) with output_min / output_max as clip bounds. *)
Theorem C18_label_keypoints : forall rnd strict lc labels logits ws red,
  (forall g, lc_spec lc = KGiven g -> compute_label_keypoints rnd strict lc labels logits ws red = FKeypoints g) /\
  (forall m, lc_spec lc = KMode m -> logits = true ->
     compute_label_keypoints rnd strict lc labels logits ws red =
     FKeypoints (linspace (-2#1) (2#1) (lc_num_keypoints lc))) /\
  (forall m, lc_spec lc = KMode m -> logits = false ->
     compute_label_keypoints rnd strict lc labels logits ws red =
     match compute_keypoints rnd strict (label_values labels) (lc_num_keypoints lc) m (lc_output_min lc)
                             (lc_output_max lc) None (label_weights labels ws) red with
     | Some kps => FKeypoints kps | None => FError end).
Proof. exact label_keypoints_cases. Qed.
Print Assumptions C18_label_keypoints.

Theorem C18_logits_keypoints_valid : forall k, (2 <= k)%nat ->
  pwl_keypoints_ok (linspace (-2#1) (2#1) k) = true /\ length (linspace (-2#1) (2#1) k) = k.
Proof. exact logits_keypoints_valid. Qed.
Print Assumptions C18_logits_keypoints_valid.

(* ---- the hypotheses are satisfiable (concrete instances) ---- *)
(* weighted quantiles with a clip bound, zero weights on the two smallest values *)
Example C18_ex_weighted :
  let vs := [1; 2; 3; 4; 5; 6] in let w := [0; 0; 1; 1; 1; 1] in
  wlen_ok vs (Some w) /\ weights_ok vs (Some w) None /\ clipped vs (Some 0) None None <> [] /\
  two_distinct (clipped vs (Some 0) None None) /\
  compute_keypoints rnd_he false vs 3 Quantiles (Some 0) None None (Some w) RMean = Some [0; 4; 6].
Proof.
  cbv zeta. split; [reflexivity|]. split.
  - split; [intros x Hx; cbn in Hx; intuition (subst; lra)|].
    exists (3, 1). split; [cbn; tauto|cbn; lra].
  - split; [discriminate|]. split; [exists 0, 6; cbn; intuition lra|vm_compute; reflexivity].
Qed.

(* unweighted quantiles with heavy duplicates and a default value; uniform mode *)
Example C18_ex_unweighted :
  let vs := [5; 1; 1; 2; 1; 9; 2; 2; 7; 1; 3] in
  wlen_ok vs None /\ weights_ok vs None (Some 9) /\ two_distinct (clipped vs None (Some 6) (Some 9)) /\
  compute_keypoints rnd_he false vs 4 Quantiles None (Some 6) (Some 9) None RMean = Some [1; 2; 5; 6] /\
  compute_keypoints rnd_he false vs 4 Uniform None (Some 6) (Some 9) None RMean = Some [1; 8#3; 13#3; 6] /\
  compute_keypoints rnd_he false vs 9 Quantiles None (Some 6) (Some 9) None RMean = Some [1; 2; 3; 5; 6].
Proof.
  cbv zeta. split; [exact I|]. split; [exact I|]. split; [exists 1, 6; cbn; intuition lra|].
  split; [vm_compute; reflexivity|]. split; vm_compute; reflexivity.
Qed.

(* the repair loop on a heavily repeated index vector *)
Example C18_ex_repair :
  (length [0; 3; 3; 3; 3; 6]%Z <= 7)%nat /\ (forall v, In v [0; 3; 3; 3; 3; 6]%Z -> in_range 7 v) /\
  zsort (repair 7 [0; 3; 3; 3; 3; 6]%Z) = [0; 1; 2; 3; 4; 6]%Z.
Proof.
  split; [cbn; lia|]. split; [|vm_compute; reflexivity].
  intros v Hv. unfold in_range. cbn in Hv. intuition (subst; lia).
Qed.

(* a feature helper call: one configured feature, one categorical, one without a config *)
Example C18_ex_feature :
  let fcs := [mkfc 0 0 (KMode Uniform) 3 (Some 0) None None; mkfc 1 3 (KMode Quantiles) 5 None None None] in
  let feats := [(0%nat, [1; 2; 4]); (1%nat, [0; 1; 2]); (2%nat, [3; 1; 2])] in
  compute_feature_keypoints rnd_he false fcs feats None RMean =
  [(0%nat, FKeypoints [0; 2; 4]); (1%nat, FSkip); (2%nat, FKeypoints [1; 2; 3])].
Proof. vm_compute. reflexivity. Qed.

(* ==== added after the coverage review (proofs in Proofs/KeypointsMore.v) ==== *)
From TFL Require Import Proofs.KeypointsMore.

(* "returns without error ... all weight vectors": EXACTLY when the model raises, for weights of
   any sign and any data.  ck_raises: an invalid mode; weights with an invalid reduction; 'uniform'
   on no data at all; or 'quantiles' with weights, 2 < k <= #distinct values and the reduced weights
   of the distinct values summing to zero (all weights zero, or negative weights cancelling: the
   code then indexes with int(nan); open finding D67).  C18_no_error is the special case where
   weights_ok excludes the last disjunct. *)
Theorem C18_error_iff : forall rnd strict vs k mode cmin cmax dv ws red,
  compute_keypoints rnd strict vs k mode cmin cmax dv ws red = None <->
  (let gs := ck_groups vs ws cmin cmax dv in
   mode = MOther \/ (ws <> None /\ red = ROther) \/ (mode = Uniform /\ gs = []) \/
   (mode = Quantiles /\ ws <> None /\ (2 < k)%nat /\ (k <= length gs)%nat /\ qsum (map (reduce red) gs) == 0)).
Proof. exact ck_error_iff. Qed.
Print Assumptions C18_error_iff.

(* witnesses: zero weights raise for k = 3 but not for k = 2; cancelling negative weights raise *)
Theorem C18_zero_weight_sum_refuted :
  compute_keypoints rnd_he false [1; 2; 3; 4; 5; 6] 3 Quantiles None None None (Some [0; 0; 0; 0; 0; 0]) RMean = None /\
  compute_keypoints rnd_he false [1; 2; 3; 4; 5; 6] 2 Quantiles None None None (Some [0; 0; 0; 0; 0; 0]) RMean = Some [1; 6] /\
  compute_keypoints rnd_he false [1; 2; 3; 2] 3 Quantiles None None None (Some [1; -3; 0; 1]) RMean = None.
Proof. exact zero_weights_raise. Qed.
Print Assumptions C18_zero_weight_sum_refuted.

(* Weights of any sign (np.interp's xp is then not monotone and NumPy's search is not the model's
   scan): whatever in-range interpolated indices [raws] np.interp returns, the rest of
   _weighted_quantile (rint, pinning of the 0 and 1 quantiles, repeated-index repair, sort, take)
   returns exactly k strictly increasing data values from the smallest to the largest, which
   PWLCalibration accepts.  weighted_idx = idx_of_raws on the model's own interpolation. *)
Theorem C18_valid_for_any_interp_indices : forall rnd sv k raws,
  nearest rnd -> increasing sv -> (2 <= k)%nat -> (k <= length sv)%nat -> length raws = k ->
  (forall x, In x raws -> 0 <= x /\ x <= nq (length sv - 1)) ->
  let kps := take sv (idx_of_raws rnd (length sv) k raws) in
  increasing kps /\ length kps = k /\ pwl_keypoints_ok kps = true /\
  hd 0 kps == hd 0 sv /\ last kps 0 == last sv 0 /\ (forall x, In x kps -> In x sv).
Proof. exact any_indices_valid. Qed.
Print Assumptions C18_valid_for_any_interp_indices.

(* set_feature_keypoints over the whole dict (distinct keys): every entry whose config exists (or
   with add_missing_feature_configs) ends up in the config of that name; configs of names that are
   not keys are untouched; without add_missing no config is added. *)
Theorem C18_set_feature_keypoints_dict : forall add fk fcs, NoDup (map fst fk) ->
  (forall name kps, In (name, kps) fk -> has_fc fcs name = true \/ add = true ->
     fc_spec (fc_by_name (set_feature_keypoints add fcs fk) name) = KGiven kps) /\
  (forall name, ~ In name (map fst fk) -> fc_by_name (set_feature_keypoints add fcs fk) name = fc_by_name fcs name).
Proof. exact set_feature_keypoints_spec. Qed.
Print Assumptions C18_set_feature_keypoints_dict.

Theorem C18_set_feature_keypoints_no_add : forall fk fcs,
  length (set_feature_keypoints false fcs fk) = length fcs.
Proof. exact set_feature_keypoints_length. Qed.
Print Assumptions C18_set_feature_keypoints_no_add.

(* compute_feature_keypoints then set_feature_keypoints(add_missing=True): the config of every
   numeric feature with a mode string carries compute_keypoints of that feature's data with the
   fields of the original (or default) config, so every theorem above applies to what the configs
   are filled with. *)
Theorem C18_feature_compute_then_set : forall rnd strict fcs features ws red name m,
  NoDup (map fst features) -> In name (map fst features) ->
  let fc := fc_by_name fcs name in
  fc_num_buckets fc = 0%nat -> fc_spec fc = KMode m ->
  let res := compute_feature_keypoints rnd strict fcs features ws red in
  (forall n r, In (n, r) res -> r <> FError) ->
  exists vs kps, In (name, vs) features /\
    compute_keypoints rnd strict vs (fc_num_keypoints fc) m (fc_clip_min fc) (fc_clip_max fc) (fc_default fc) ws red = Some kps /\
    fc_spec (fc_by_name (set_feature_keypoints true fcs (fk_dict res)) name) = KGiven kps.
Proof. exact compute_then_set. Qed.
Print Assumptions C18_feature_compute_then_set.

(* set_label_keypoints stores the keypoints (other fields unchanged); a later
   compute_label_keypoints returns them as given. *)
Theorem C18_set_label_keypoints : forall rnd strict lc kps labels logits ws red,
  let lc' := set_label_keypoints lc kps in
  lc_spec lc' = KGiven kps /\ lc_num_keypoints lc' = lc_num_keypoints lc /\
  lc_output_min lc' = lc_output_min lc /\ lc_output_max lc' = lc_output_max lc /\
  compute_label_keypoints rnd strict lc' labels logits ws red = FKeypoints kps.
Proof. exact set_label_keypoints_spec. Qed.
Print Assumptions C18_set_label_keypoints.

Theorem C18_label_compute_then_set : forall rnd strict lc labels ws red m kps,
  lc_spec lc = KMode m ->
  compute_label_keypoints rnd strict lc labels false ws red = FKeypoints kps ->
  compute_keypoints rnd strict (label_values labels) (lc_num_keypoints lc) m (lc_output_min lc) (lc_output_max lc)
                    None (label_weights labels ws) red = Some kps /\
  lc_spec (set_label_keypoints lc kps) = KGiven kps.
Proof. exact label_compute_then_set. Qed.
Print Assumptions C18_label_compute_then_set.

(* ---- satisfiable hypotheses for the added theorems ---- *)
(* an out-of-order (non-monotone) in-range index vector, as negative weights can produce *)
Example C18_ex_any_indices :
  let sv := [1; 2; 4; 7; 8] in let raws := [3; (1#2); 4] in
  increasing sv /\ length raws = 3%nat /\ (forall x, In x raws -> 0 <= x /\ x <= nq (length sv - 1)) /\
  take sv (idx_of_raws rnd_he (length sv) 3 raws) = [1; 2; 8].
Proof.
  cbv zeta. split; [cbn; repeat split; lra|]. split; [reflexivity|]. split; [|vm_compute; reflexivity].
  intros x Hx. destruct Hx as [<-|[<-|[<-|[]]]]; split; unfold Qle; cbn; lia.
Qed.

(* the dict helper: two keys, one with a config, one added; a third config untouched *)
Example C18_ex_set_dict :
  let fcs := [mkfc 0 0 (KMode Quantiles) 4 None None None; mkfc 7 3 (KMode Uniform) 5 None None None] in
  let fk := [(0%nat, [1; 2; 3]); (2%nat, [0; 5])] in
  NoDup (map fst fk) /\
  map (fun fc => (fc_name fc, fc_spec fc)) (set_feature_keypoints true fcs fk) =
    [(0%nat, KGiven [1; 2; 3]); (7%nat, KMode Uniform); (2%nat, KGiven [0; 5])] /\
  map (fun fc => (fc_name fc, fc_spec fc)) (set_feature_keypoints false fcs fk) =
    [(0%nat, KGiven [1; 2; 3]); (7%nat, KMode Uniform)].
Proof.
  cbv zeta. split; [|split; vm_compute; reflexivity].
  cbn. constructor; [cbn; intuition discriminate|]. constructor; [cbn; tauto|constructor].
Qed.

(* compute then set on the C18_ex_feature call *)
Example C18_ex_compute_then_set :
  let fcs := [mkfc 0 0 (KMode Uniform) 3 (Some 0) None None; mkfc 1 3 (KMode Quantiles) 5 None None None] in
  let feats := [(0%nat, [1; 2; 4]); (1%nat, [0; 1; 2]); (2%nat, [3; 1; 2])] in
  let res := compute_feature_keypoints rnd_he false fcs feats None RMean in
  NoDup (map fst feats) /\ (forall n r, In (n, r) res -> r <> FError) /\
  map (fun fc => (fc_name fc, fc_spec fc)) (set_feature_keypoints true fcs (fk_dict res)) =
    [(0%nat, KGiven [0; 2; 4]); (1%nat, KMode Quantiles); (2%nat, KGiven [1; 2; 3])].
Proof.
  cbv zeta. split.
  - cbn. constructor; [cbn; intuition discriminate|]. constructor; [cbn; intuition discriminate|].
    constructor; [cbn; tauto|constructor].
  - split; [|vm_compute; reflexivity].
    intros n r Hin. vm_compute in Hin. destruct Hin as [H|[H|[H|[]]]]; inversion H; discriminate.
Qed.

(* a label helper call: numeric labels, 'quantiles', output_min as clip bound; then stored *)
Example C18_ex_label :
  let lc := mklc (KMode Quantiles) 3 (Some 0) None in
  compute_label_keypoints rnd_he false lc (LNum [1; 3; 2; 3; 5]) false None RMean = FKeypoints [0; 2; 5] /\
  compute_label_keypoints rnd_he false lc (LStr [4; 2; 4; 9]%nat) false (Some [1; 1; 1; 1]) RSum = FKeypoints [0; 1; 2] /\
  compute_label_keypoints rnd_he false lc (LNum [1; 3]) true None RMean = FKeypoints [-2#1; 0; 2] /\
  lc_spec (set_label_keypoints lc [0; 2; 5]) = KGiven [0; 2; 5].
Proof. cbv zeta. repeat split; vm_compute; reflexivity. Qed.
