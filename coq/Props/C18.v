(* C18 — Computed calibration keypoints are valid for every data sample.
   Property theorems only; proofs live in Proofs/Keypoints.v, the model
   (premade_lib.compute_keypoints, _weighted_quantile and the feature / label
   helpers) in Model/Keypoints.v.

   Vocabulary (defined in Proofs/Keypoints.v):
     nearest rnd       : forall j x, |rnd j x - x| <= 1/2   (ANY rounding to a nearest integer,
                         whatever it does at ties; np.rint = rnd_he is one, C18_half_even_is_nearest)
     strict : bool     : which end of a run of equal weighted quantiles np.interp's search takes
                         (false = NumPy; the theorems hold for both)
     wlen_ok vs ws     : the weight vector, when given, has the data's length
     weights_ok vs ws dv : weights are >= 0 and some example that is not the default value has weight > 0
     clipped vs cmin cmax dv : the data after default-value removal and clipping, plus the clip bounds
     two_distinct cl   : exists a b in cl, a < b
     increasing l      : consecutive elements strictly increase (Qlt)
     veq_in x l        : some element of l equals x (as a rational)
     in_range n i      : 0 <= i < n
   A result [None] is a raised error. *)
From TFL Require Import Model.Keypoints Proofs.Keypoints.
Open Scope Q_scope.

(* np.rint (round half to even) is a rounding to a nearest integer. *)
Theorem C18_half_even_is_nearest : nearest rnd_he.
Proof. exact rnd_he_nearest. Qed.
Print Assumptions C18_half_even_is_nearest.

(* np.unique: the distinct values are strictly increasing and are exactly the clipped data. *)
Theorem C18_distinct_values_spec : forall vs ws cmin cmax dv, wlen_ok vs ws ->
  increasing (distinct_values vs ws cmin cmax dv) /\
  forall x, veq_in x (distinct_values vs ws cmin cmax dv) <-> veq_in x (clipped vs cmin cmax dv).
Proof. exact distinct_values_spec. Qed.
Print Assumptions C18_distinct_values_spec.

(* No error: valid mode / reduction, some data or a clip bound, non-negative
   weights with positive sum => keypoints are returned (any data length, any k). *)
Theorem C18_no_error : forall rnd strict vs k mode cmin cmax dv ws red,
  wlen_ok vs ws -> mode <> MOther -> (ws <> None -> red <> ROther) ->
  clipped vs cmin cmax dv <> [] -> weights_ok vs ws dv ->
  exists kps, compute_keypoints rnd strict vs k mode cmin cmax dv ws red = Some kps.
Proof. exact ck_no_error. Qed.
Print Assumptions C18_no_error.

(* Strictly increasing whenever the clipped data has two distinct values: both
   modes, weighted or not, every k, every weight vector, every data length. *)
Theorem C18_strictly_increasing : forall rnd strict vs k mode cmin cmax dv ws red kps,
  nearest rnd -> wlen_ok vs ws ->
  compute_keypoints rnd strict vs k mode cmin cmax dv ws red = Some kps ->
  two_distinct (clipped vs cmin cmax dv) -> increasing kps.
Proof. exact ck_strictly_increasing. Qed.
Print Assumptions C18_strictly_increasing.

(* Every keypoint lies within the clipped data range. *)
Theorem C18_within_range : forall rnd strict vs k mode cmin cmax dv ws red kps,
  nearest rnd -> wlen_ok vs ws ->
  compute_keypoints rnd strict vs k mode cmin cmax dv ws red = Some kps ->
  forall x, In x kps -> qminl (clipped vs cmin cmax dv) <= x /\ x <= qmaxl (clipped vs cmin cmax dv).
Proof. exact ck_within_range. Qed.
Print Assumptions C18_within_range.

(* First / last keypoint = minimum / maximum of the clipped data (num_keypoints >= 2)... *)
Theorem C18_endpoints : forall rnd strict vs k mode cmin cmax dv ws red kps,
  nearest rnd -> wlen_ok vs ws -> (2 <= k)%nat -> clipped vs cmin cmax dv <> [] ->
  compute_keypoints rnd strict vs k mode cmin cmax dv ws red = Some kps ->
  hd 0 kps == qminl (clipped vs cmin cmax dv) /\ last kps 0 == qmaxl (clipped vs cmin cmax dv).
Proof. exact ck_endpoints. Qed.
Print Assumptions C18_endpoints.

(* ... which are the clip bounds when clip bounds are given (else the data extremes). *)
Theorem C18_endpoints_clip_max : forall vs cmin dv hi, qmaxl (clipped vs cmin (Some hi) dv) == hi.
Proof. exact clipped_max_is_clip_max. Qed.
Print Assumptions C18_endpoints_clip_max.

Theorem C18_endpoints_clip_min : forall vs cmax dv lo,
  qminl (clipped vs (Some lo) cmax dv) == match cmax with Some hi => qmin lo hi | None => lo end.
Proof. exact clipped_min_is_clip_min. Qed.
Print Assumptions C18_endpoints_clip_min.

(* Exactly num_keypoints when that many distinct values exist; otherwise, in
   quantiles mode, the distinct values themselves; uniform mode always k. *)
Theorem C18_count : forall rnd strict vs k mode cmin cmax dv ws red kps,
  nearest rnd ->
  compute_keypoints rnd strict vs k mode cmin cmax dv ws red = Some kps ->
  let sv := distinct_values vs ws cmin cmax dv in
  ((k <= length sv)%nat -> length kps = k) /\
  ((length sv < k)%nat -> mode = Quantiles -> kps = sv) /\
  (mode = Uniform -> length kps = k).
Proof. exact ck_count. Qed.
Print Assumptions C18_count.

(* The repeated-index repair loop (bounded search, as in the code) always ends
   with pairwise distinct in-range indices that keep every original index. *)
Theorem C18_repair_distinct : forall n idx,
  (length idx <= n)%nat -> (forall v, In v idx -> in_range n v) ->
  NoDup (repair n idx) /\ length (repair n idx) = length idx /\
  (forall x, In x (repair n idx) -> in_range n x) /\
  (forall v, In v idx -> In v (repair n idx)).
Proof. exact repair_distinct. Qed.
Print Assumptions C18_repair_distinct.

(* The result passes PWLCalibration's keypoint test (>= 2 keypoints, strictly increasing). *)
Theorem C18_accepted_by_pwl : forall rnd strict vs k mode cmin cmax dv ws red kps,
  nearest rnd -> wlen_ok vs ws -> (2 <= k)%nat ->
  compute_keypoints rnd strict vs k mode cmin cmax dv ws red = Some kps ->
  two_distinct (clipped vs cmin cmax dv) -> pwl_keypoints_ok kps = true.
Proof. exact ck_accepted_by_pwl. Qed.
Print Assumptions C18_accepted_by_pwl.

(* Uniform mode: exactly k equally spaced points from the minimum to the maximum. *)
Theorem C18_uniform_formula : forall rnd strict vs k cmin cmax dv ws red kps,
  wlen_ok vs ws ->
  compute_keypoints rnd strict vs k Uniform cmin cmax dv ws red = Some kps ->
  let a := qminl (clipped vs cmin cmax dv) in let b := qmaxl (clipped vs cmin cmax dv) in
  length kps = k /\ forall j, (j < k)%nat -> nth j kps 0 == a + nq j * ((b - a) / nq (k - 1)).
Proof. exact ck_uniform_formula. Qed.
Print Assumptions C18_uniform_formula.

(* np.interp's precondition: the weighted quantiles of the distinct values are non-decreasing. *)
Theorem C18_interp_xp_nondecreasing : forall ws,
  (forall w, In w ws -> 0 <= w) -> 0 < qsum ws -> chain Qle (wquantiles ws).
Proof. exact wquantiles_nondecreasing. Qed.
Print Assumptions C18_interp_xp_nondecreasing.

(* Helpers.  A keypoint entry computed for a numeric feature is compute_keypoints
   on that feature's data with the fields of its config (the default config when
   none has the name), so all theorems above apply to it. *)
Theorem C18_feature_keypoints : forall rnd strict fcs features ws red name kps m,
  In (name, FKeypoints kps) (compute_feature_keypoints rnd strict fcs features ws red) ->
  fc_spec (fc_by_name fcs name) = KMode m ->
  let fc := fc_by_name fcs name in
  exists vs, In (name, vs) features /\
    compute_keypoints rnd strict vs (fc_num_keypoints fc) m (fc_clip_min fc) (fc_clip_max fc)
                      (fc_default fc) ws red = Some kps.
Proof. exact cfk_numeric. Qed.
Print Assumptions C18_feature_keypoints.

(* Categorical features are skipped, user-given keypoints are passed through. *)
Theorem C18_feature_skip_and_given : forall rnd strict fc vs ws red,
  (fc_num_buckets fc <> 0%nat -> feature_keypoints_one rnd strict fc vs ws red = FSkip) /\
  (fc_num_buckets fc = 0%nat -> forall g, fc_spec fc = KGiven g ->
     feature_keypoints_one rnd strict fc vs ws red = FKeypoints g) /\
  (fc_num_buckets fc = 0%nat -> forall m, fc_spec fc = KMode m ->
     feature_keypoints_one rnd strict fc vs ws red =
     match compute_keypoints rnd strict vs (fc_num_keypoints fc) m (fc_clip_min fc) (fc_clip_max fc)
                             (fc_default fc) ws red with
     | Some kps => FKeypoints kps | None => FError end).
Proof. exact fk_one_cases. Qed.
Print Assumptions C18_feature_skip_and_given.

(* set_feature_keypoints: the named config (added when missing and requested)
   then carries exactly the keypoints; other names are untouched. *)
Theorem C18_set_feature_keypoints : forall add fcs name kps,
  has_fc fcs name = true \/ add = true ->
  fc_spec (fc_by_name (set_feature_keypoints_one add fcs name kps) name) = KGiven kps.
Proof. exact set_feature_keypoints_one_spec. Qed.
Print Assumptions C18_set_feature_keypoints.

Theorem C18_set_feature_keypoints_other : forall add fcs name kps name', name' <> name ->
  fc_by_name (set_feature_keypoints_one add fcs name kps) name' = fc_by_name fcs name'.
Proof. exact set_feature_keypoints_one_other. Qed.
Print Assumptions C18_set_feature_keypoints_other.

(* compute_label_keypoints: user-given passthrough, logits => linspace(-2, 2, k),
   otherwise compute_keypoints on the labels (string labels: arange(#classes),
   weights dropped) with output_min / output_max as clip bounds. *)
Theorem C18_label_keypoints : forall rnd strict lc labels logits ws red,
  (forall g, lc_spec lc = KGiven g -> compute_label_keypoints rnd strict lc labels logits ws red = FKeypoints g) /\
  (forall m, lc_spec lc = KMode m -> logits = true ->
     compute_label_keypoints rnd strict lc labels logits ws red =
     FKeypoints (linspace (-2#1) (2#1) (lc_num_keypoints lc))) /\
  (forall m, lc_spec lc = KMode m -> logits = false ->
     compute_label_keypoints rnd strict lc labels logits ws red =
     match compute_keypoints rnd strict (label_values labels) (lc_num_keypoints lc) m (lc_output_min lc)
                             (lc_output_max lc) None (label_weights labels ws) red with
     | Some kps => FKeypoints kps | None => FError end).
Proof. exact label_keypoints_cases. Qed.
Print Assumptions C18_label_keypoints.

Theorem C18_logits_keypoints_valid : forall k, (2 <= k)%nat ->
  pwl_keypoints_ok (linspace (-2#1) (2#1) k) = true /\ length (linspace (-2#1) (2#1) k) = k.
Proof. exact logits_keypoints_valid. Qed.
Print Assumptions C18_logits_keypoints_valid.

(* ---- the hypotheses are satisfiable (concrete instances) ---- *)
(* weighted quantiles with a clip bound, zero weights on the two smallest values *)
Example C18_ex_weighted :
  let vs := [1; 2; 3; 4; 5; 6] in let w := [0; 0; 1; 1; 1; 1] in
  wlen_ok vs (Some w) /\ weights_ok vs (Some w) None /\ clipped vs (Some 0) None None <> [] /\
  two_distinct (clipped vs (Some 0) None None) /\
  compute_keypoints rnd_he false vs 3 Quantiles (Some 0) None None (Some w) RMean = Some [0; 4; 6].
Proof.
  cbv zeta. split; [reflexivity|]. split.
  - split; [intros x Hx; cbn in Hx; intuition (subst; lra)|].
    exists (3, 1). split; [cbn; tauto|cbn; lra].
  - split; [discriminate|]. split; [exists 0, 6; cbn; intuition lra|vm_compute; reflexivity].
Qed.

(* unweighted quantiles with heavy duplicates and a default value; uniform mode *)
Example C18_ex_unweighted :
  let vs := [5; 1; 1; 2; 1; 9; 2; 2; 7; 1; 3] in
  wlen_ok vs None /\ weights_ok vs None (Some 9) /\ two_distinct (clipped vs None (Some 6) (Some 9)) /\
  compute_keypoints rnd_he false vs 4 Quantiles None (Some 6) (Some 9) None RMean = Some [1; 2; 5; 6] /\
  compute_keypoints rnd_he false vs 4 Uniform None (Some 6) (Some 9) None RMean = Some [1; 8#3; 13#3; 6] /\
  compute_keypoints rnd_he false vs 9 Quantiles None (Some 6) (Some 9) None RMean = Some [1; 2; 3; 5; 6].
Proof.
  cbv zeta. split; [exact I|]. split; [exact I|]. split; [exists 1, 6; cbn; intuition lra|].
  split; [vm_compute; reflexivity|]. split; vm_compute; reflexivity.
Qed.

(* the repair loop on a heavily repeated index vector *)
Example C18_ex_repair :
  (length [0; 3; 3; 3; 3; 6]%Z <= 7)%nat /\ (forall v, In v [0; 3; 3; 3; 3; 6]%Z -> in_range 7 v) /\
  zsort (repair 7 [0; 3; 3; 3; 3; 6]%Z) = [0; 1; 2; 3; 4; 6]%Z.
Proof.
  split; [cbn; lia|]. split; [|vm_compute; reflexivity].
  intros v Hv. unfold in_range. cbn in Hv. intuition (subst; lia).
Qed.

(* a feature helper call: one configured feature, one categorical, one without a config *)
Example C18_ex_feature :
  let fcs := [mkfc 0 0 (KMode Uniform) 3 (Some 0) None None; mkfc 1 3 (KMode Quantiles) 5 None None None] in
  let feats := [(0%nat, [1; 2; 4]); (1%nat, [0; 1; 2]); (2%nat, [3; 1; 2])] in
  compute_feature_keypoints rnd_he false fcs feats None RMean =
  [(0%nat, FKeypoints [0; 2; 4]); (1%nat, FSkip); (2%nat, FKeypoints [1; 2; 3])].
Proof. vm_compute. reflexivity. Qed.
