(* C09 — units never interact.  Property theorems only; proofs live in
   Proofs/LatticeUnits.v (Lattice), Proofs/LinearProject.v (Linear,
   CategoricalCalibration) and Proofs/PWLProject.v (PWLCalibration).

   Lattice.  The models (Model/LatticeFinalize.v, Model/LatticeDykstra.v) work on
   the kernel as a tensor of shape  sizes ++ [units]  and perform explicit
   per-unit reductions over all axes but the last (unit_viols, unit_vals).
     slice sizes u W   = fun x => W (upd x (length sizes) u)      column u of W
     lat1 c / dyk1 c   = the configuration c with units := 1       (Harness/H_C09.v)
     teq sh f g        = f and g agree on every valid index of shape sh
   The column theorems say: the multi-unit result restricted to unit u IS the
   single-unit model run on unit u's column alone.  This is exactly the pair the
   run-time tie compares (H_C09.check: single-unit model on column u against
   column u of the implementation's multi-unit result).

   Hypotheses  lat_units_wf / dyk_units_wf : no constrained dimension (monotone
   dimension, trust / dominance / joint pair, joint-unimodality dimension) is the
   unit axis.  They hold for every configuration accepted by
   verify_hyperparameters (C09_accepted_configs_wf) and they are necessary: with
   a trust or monotonicity flag on the unit axis the statement is false (cummax /
   the behind set would run across units).  Satisfiable: Examples exu_lat_wf,
   exu_dyk_wf, exu_hyps, exu_not_vacuous in Proofs/LatticeUnits.v (2 x 3 lattice,
   3 units with columns of magnitude 1 / 100 / 1000, all constraint kinds on; the
   three result columns are pairwise different and differ from the input).

   Statement form.  sim sizes u A W  :=  forall x, uix sizes x -> A x == W (upd x ud u)
   (A is column u of W on every index of the kernel's rank with unit coordinate 0).
   Every pass maps sim-related kernels to sim-related kernels (.._simulation);
   the _column theorems are the instances A := slice sizes u W.  With units = 1,
   u = 0 the same statements say that each single-unit pass respects pointwise
   equality of kernels, which is what lets the passes compose. *)
From TFL Require Import Proofs.LatticeSpecFacts Model.LatticeDykstra Harness.H_C09 Proofs.LatticeUnits.
From TFL Require Import Model.LinearProject Proofs.LinearProject Model.PWLProject Proofs.PWLProject.
Open Scope Q_scope.

(* ---------------- Lattice: finalize_constraints ---------------- *)
Theorem C09_lattice_finalize_column : forall (c : lat_cfg) (u : nat),
  (u < l_units c)%nat -> lat_units_wf c -> forall W : tens,
  teq (l_shape (lat1 c)) (finalize (lat1 c) (slice (l_sizes c) u W)) (slice (l_sizes c) u (finalize c W)).
Proof. exact lattice_finalize_column. Qed.
Print Assumptions C09_lattice_finalize_column.

(* strict LatticeConstraints.__call__ after the Dykstra stage: finalize (if the
   block ran) and the final clip *)
Theorem C09_lattice_constraint_after_dykstra_column : forall (c : lat_cfg) (u : nat),
  (u < l_units c)%nat -> lat_units_wf c -> forall (ran : bool) (W : tens),
  teq (l_shape (lat1 c)) (lattice_constraint_after_dykstra (lat1 c) ran (slice (l_sizes c) u W))
                         (slice (l_sizes c) u (lattice_constraint_after_dykstra c ran W)).
Proof. exact lattice_constraint_after_dykstra_column. Qed.
Print Assumptions C09_lattice_constraint_after_dykstra_column.

Theorem C09_lattice_finalize_simulation : forall (c : lat_cfg) (u : nat),
  (u < l_units c)%nat -> lat_units_wf c -> forall A W : tens,
  sim (l_sizes c) u A W -> sim (l_sizes c) u (finalize (lat1 c) A) (finalize c W).
Proof. exact sim_finalize. Qed.
Print Assumptions C09_lattice_finalize_simulation.

(* the single passes (any monotone-dimension list / trust lists off the unit axis) *)
Theorem C09_lattice_monotonicity_pass_column : forall (sizes : list nat) (units u : nat), (u < units)%nat ->
  forall (monos : list nat) (W : tens), ~ In (ud sizes) monos ->
  teq (sh1 sizes) (approx_mono (sh1 sizes) monos (slice sizes u W)) (slice sizes u (approx_mono (sh sizes units) monos W)).
Proof. exact approx_mono_column. Qed.
Print Assumptions C09_lattice_monotonicity_pass_column.

Theorem C09_lattice_bounds_pass_column : forall (sizes : list nat) (units u : nat), (u < units)%nat ->
  forall (omin omax : option Q) (W : tens),
  teq (sh1 sizes) (approx_bounds (sh1 sizes) (ud sizes) 1 omin omax (slice sizes u W))
                  (slice sizes u (approx_bounds (sh sizes units) (ud sizes) units omin omax W)).
Proof. exact approx_bounds_column. Qed.
Print Assumptions C09_lattice_bounds_pass_column.

Theorem C09_lattice_clip_column : forall (sizes : list nat) (units u : nat), (u < units)%nat ->
  forall (omin omax : option Q) (W : tens),
  teq (sh1 sizes) (clip_bounds (sh1 sizes) omin omax (slice sizes u W)) (slice sizes u (clip_bounds (sh sizes units) omin omax W)).
Proof. exact clip_bounds_column. Qed.
Print Assumptions C09_lattice_clip_column.

Theorem C09_lattice_edgeworth_pass_column : forall (sizes : list nat) (units u : nat), (u < units)%nat ->
  forall (ts : list trust) (W : tens), (forall t, In t ts -> trust_off_unit sizes t) ->
  teq (sh1 sizes) (approx_edgeworth (sh1 sizes) (ud sizes) 1 ts (slice sizes u W))
                  (slice sizes u (approx_edgeworth (sh sizes units) (ud sizes) units ts W)).
Proof. exact approx_edgeworth_column. Qed.
Print Assumptions C09_lattice_edgeworth_pass_column.

(* both modes: per-unit scalar corrections (Edgeworth trusts present; the prior
   violation lists ts_l / ts_r are per unit) and element-wise corrections *)
Theorem C09_lattice_trapezoid_pass_column : forall (sizes : list nat) (units u : nat), (u < units)%nat ->
  forall (trap edge : list trust) (W : tens), (forall t, In t trap -> trust_off_unit sizes t) ->
  teq (sh1 sizes) (approx_trapezoid (sh1 sizes) (ud sizes) 1 trap edge (slice sizes u W))
                  (slice sizes u (approx_trapezoid (sh sizes units) (ud sizes) units trap edge W)).
Proof. exact approx_trapezoid_column. Qed.
Print Assumptions C09_lattice_trapezoid_pass_column.

(* the per-unit reduction itself (tf.reduce_max over all axes but the last):
   entry u of the multi-unit violation vector is the single entry of the
   single-unit vector computed from column u *)
Theorem C09_lattice_unit_violation_column : forall (sizes : list nat) (units u : nat), (u < units)%nat ->
  forall (B : list idx) (g : idx -> Q), (forall b, In b B -> length b = S (ud sizes)) ->
  nth 0 (unit_viols (ud sizes) 1 B (fun y => g (lift sizes u y))) 0 == nth u (unit_viols (ud sizes) units B g) 0.
Proof. exact unit_viols_column. Qed.
Print Assumptions C09_lattice_unit_violation_column.

(* ---------------- Lattice: project_by_dykstra ---------------- *)
Theorem C09_lattice_dykstra_column : forall (c : dyk_cfg) (u : nat),
  (u < k_units c)%nat -> dyk_units_wf c -> forall W : tens,
  teq (k_shape (dyk1 c)) (project_by_dykstra (dyk1 c) (slice (k_sizes c) u W)) (slice (k_sizes c) u (project_by_dykstra c W)).
Proof. exact lattice_dykstra_column. Qed.
Print Assumptions C09_lattice_dykstra_column.

Theorem C09_lattice_dykstra_simulation : forall (c : dyk_cfg) (u : nat),
  (u < k_units c)%nat -> dyk_units_wf c -> forall A W : tens,
  sim (k_sizes c) u A W -> sim (k_sizes c) u (project_by_dykstra (dyk1 c) A) (project_by_dykstra c W).
Proof. exact sim_project_by_dykstra. Qed.
Print Assumptions C09_lattice_dykstra_simulation.

(* the single-unit and the multi-unit sweep consist of the same constraint
   groups in the same order (the skip rules depend on lattice sizes only) *)
Theorem C09_lattice_dykstra_same_groups : forall (c : dyk_cfg) (u : nat),
  (u < k_units c)%nat -> dyk_units_wf c -> map fst (group_ops (dyk1 c)) = map fst (group_ops c).
Proof. exact group_ops_keys. Qed.
Print Assumptions C09_lattice_dykstra_same_groups.

(* ---------------- Lattice: the whole constraint, flat kernels ---------------- *)
(* lattice_constraint_model (Harness/H_C09.v) = Dykstra stage, finalize, clip
   on row-major flat lists, strict and non-strict.  W is the (vertices x units)
   kernel given by rows; flat_column sizes units u r = entries v * units + u of r. *)
Theorem C09_lattice_constraint_column : forall (dc : dyk_cfg) (lc : lat_cfg) (ran strict : bool) (W : list (list Q)) (u : nat),
  k_sizes dc = l_sizes lc -> k_units dc = l_units lc -> dyk_units_wf dc -> lat_units_wf lc ->
  (u < l_units lc)%nat -> (forall r, In r W -> length r = l_units lc) ->
  qleq (lattice_constraint_model (dyk1 dc) (lat1 lc) ran strict (column u W))
       (flat_column (l_sizes lc) (l_units lc) u (lattice_constraint_model dc lc ran strict (concat W))).
Proof. exact lattice_constraint_column. Qed.
Print Assumptions C09_lattice_constraint_column.

(* flat_column of a matrix given by rows is the matrix column *)
Theorem C09_flat_column_is_matrix_column : forall (sizes : list nat) (units u : nat) (R : list (list Q)),
  (u < units)%nat -> length R = nprod sizes -> (forall r, In r R -> length r = units) ->
  flat_column sizes units u (concat R) = column u R.
Proof. exact flat_column_concat. Qed.
Print Assumptions C09_flat_column_is_matrix_column.

(* permuting (more generally: selecting, s need not be a bijection) the unit
   columns of the kernel permutes the result columns *)
Theorem C09_lattice_permutation : forall (dc : dyk_cfg) (lc : lat_cfg) (ran strict : bool) (W : list (list Q)) (s : nat -> nat) (u : nat),
  k_sizes dc = l_sizes lc -> k_units dc = l_units lc -> dyk_units_wf dc -> lat_units_wf lc ->
  (u < l_units lc)%nat -> (s u < l_units lc)%nat -> (forall r, In r W -> length r = l_units lc) ->
  qleq (flat_column (l_sizes lc) (l_units lc) u
          (lattice_constraint_model dc lc ran strict (concat (permute_columns (l_units lc) s W))))
       (flat_column (l_sizes lc) (l_units lc) (s u) (lattice_constraint_model dc lc ran strict (concat W))).
Proof. exact lattice_permutation. Qed.
Print Assumptions C09_lattice_permutation.

(* every configuration accepted by verify_hyperparameters keeps its constraints
   off the unit axis *)
Theorem C09_accepted_configs_wf : forall c : lat_cfg, cfg_valid c -> lat_units_wf c.
Proof. exact cfg_valid_units_wf. Qed.
Print Assumptions C09_accepted_configs_wf.

(* ---------------- Linear, CategoricalCalibration, PWLCalibration ---------------- *)
Theorem C09_linear_column : forall rt c units W R u,
  lin_valid c (length W) -> lin_project rt c units W = Some R -> (u < units)%nat ->
  exists r, lin_project_col rt c (column u W) = Some r /\ column u R = r.
Proof. exact lin_per_unit. Qed.
Print Assumptions C09_linear_column.

Theorem C09_categorical_column : forall ps lo hi units W R u,
  cat_project ps lo hi units W = Some R -> (u < units)%nat ->
  exists r, cat_project_col ps lo hi (column u W) = Some r /\ column u R = r.
Proof. exact cat_per_unit. Qed.
Print Assumptions C09_categorical_column.

Theorem C09_pwl_column : forall c units W u, (u < units)%nat ->
  column u (pwl_project c units W) = pwl_project_col c (column u W).
Proof. exact pwl_project_per_unit. Qed.
Print Assumptions C09_pwl_column.

(* ======================================================================
   KroneckerFactoredLattice (Model/KFL.v; proofs in Proofs/UnitsKFL.v).
     unit_params p u = the one-unit parameters [kernel_u], [scale_u], [bias_u]
     has_unit p u    = u < length (p_kern p) /\ u < length (p_scale p)
   root = tf.pow(., 1/dims), arbitrary.  The statements are equalities of the
   computed values (no tolerance, no hypothesis on the configuration).
   ====================================================================== *)
From TFL Require Import Model.KFL Model.KFLUnits Proofs.UnitsKFL.
From TFL Require Model.PWLEval Model.CategoricalEval Model.LatticeInterp Proofs.LatticeInterp Model.LinearEval.
From TFL Require Import Proofs.UnitsOutputs.

(* one application of kernel.constraint (StepK), scale.constraint (StepS) or
   finalize_constraints (StepF): restricting the result to unit u = applying
   the step to unit u's parameters alone (and unit u still exists) *)
Theorem C09_kfl_step_unit : forall root c p st u, has_unit p u ->
  unit_params (apply_step root c p st) u = apply_step root c (unit_params p u) st /\ has_unit (apply_step root c p st) u.
Proof. exact apply_step_unit. Qed.
Print Assumptions C09_kfl_step_unit.

(* every history of constraint applications *)
Theorem C09_kfl_run_unit : forall root c steps p u, has_unit p u ->
  unit_params (run root c steps p) u = run root c steps (unit_params p u).
Proof. exact run_unit. Qed.
Print Assumptions C09_kfl_run_unit.

(* the single functions, with their gates *)
Theorem C09_kfl_kernel_constraint_unit : forall root c scale k u, (u < length scale)%nat -> (u < length k)%nat ->
  [nth u (kernel_variable_constraint root c scale k) []] = kernel_variable_constraint root c [nth u scale []] [nth u k []].
Proof. exact kernel_variable_constraint_unit. Qed.
Print Assumptions C09_kfl_kernel_constraint_unit.

Theorem C09_kfl_constraints_call_unit : forall root c scale k u, (u < length scale)%nat -> (u < length k)%nat ->
  [nth u (kfl_constraints_call root c scale k) []] = kfl_constraints_call root c [nth u scale []] [nth u k []].
Proof. exact kfl_constraints_call_unit. Qed.
Print Assumptions C09_kfl_constraints_call_unit.

(* finalize_weight_constraints itself (no gate) *)
Theorem C09_kfl_finalize_weights_unit : forall root ms omin omax scale k u, (u < length scale)%nat -> (u < length k)%nat ->
  [nth u (finalize_weights root ms omin omax scale k) []] = finalize_weights root ms omin omax [nth u scale []] [nth u k []].
Proof. exact finalize_weights_unit. Qed.
Print Assumptions C09_kfl_finalize_weights_unit.

Theorem C09_kfl_scale_constraint_unit : forall c scale u,
  [nth u (scale_variable_constraint c scale) []] = scale_variable_constraint c [nth u scale []] /\
  [nth u (scale_constraints_call c scale) []] = scale_constraints_call c [nth u scale []].
Proof. exact scale_constraints_unit. Qed.
Print Assumptions C09_kfl_scale_constraint_unit.

(* permuting units permutes the results; s is any map of unit indices
   (selection / duplication / reordering) *)
Theorem C09_kfl_permutation : forall root c steps p s n u, (u < n)%nat -> has_unit p (s u) ->
  unit_params (run root c steps (select_units s n p)) u = unit_params (run root c steps p) (s u).
Proof. exact run_select_units. Qed.
Print Assumptions C09_kfl_permutation.

(* implementation layout (L, units*dims, terms) -> (unit, term, dim, vertex):
   unpacking the dims rows of unit u as a one-unit kernel = unit u of the
   unpacked multi-unit kernel; and the tie's pair (Harness/H_C09.v, CKfl) *)
Theorem C09_kfl_layout_unit : forall L units dims terms k u, (u < units)%nat ->
  [nth u (unpack L units dims terms k) []] = unpack L 1 dims terms (slice_unit dims u k).
Proof. exact unpack_unit. Qed.
Print Assumptions C09_kfl_layout_unit.

Theorem C09_kfl_run_on_slice : forall root c steps L units dims terms k s b u, (u < units)%nat -> (u < length s)%nat ->
  run root c steps (mkPar (unpack L 1 dims terms (slice_unit dims u k)) [nth u s []] [nth u b 0]) =
  unit_params (run root c steps (mkPar (unpack L units dims terms k) s b)) u.
Proof. exact run_on_slice. Qed.
Print Assumptions C09_kfl_run_on_slice.

(* output of unit u: unit u's kernel, scale and bias only *)
Theorem C09_kfl_output_unit_local : forall c p p' u xs,
  nth u (p_kern p) [] = nth u (p_kern p') [] -> nth u (p_scale p) [] = nth u (p_scale p') [] ->
  nth u (p_bias p) 0 = nth u (p_bias p') 0 -> unit_out c p u xs = unit_out c p' u xs.
Proof. exact unit_out_local. Qed.
Print Assumptions C09_kfl_output_unit_local.

(* entry u of the layer output = unit u's function of row u of the input *)
Theorem C09_kfl_layer_output_unit : forall c p xss u, (u < length (p_scale p))%nat ->
  nth u (layer_out c p xss) 0 = unit_out c p u (nth u xss []).
Proof. exact layer_out_unit. Qed.
Print Assumptions C09_kfl_layer_output_unit.

(* constraints, then output: two multi-unit layers whose INITIAL parameters
   agree on unit u, after the same constraint history, on inputs that agree on
   row u, give the same output of unit u; and it is the output of the
   constrained one-unit layer made of unit u *)
Theorem C09_kfl_constrained_output_local : forall root c steps p p' xss xss' u, has_unit p u -> has_unit p' u ->
  unit_params p u = unit_params p' u -> nth u xss [] = nth u xss' [] ->
  nth u (layer_out c (run root c steps p) xss) 0 = nth u (layer_out c (run root c steps p') xss') 0.
Proof. exact constrained_layer_out_local. Qed.
Print Assumptions C09_kfl_constrained_output_local.

Theorem C09_kfl_constrained_output_unit : forall root c steps p u xs, has_unit p u ->
  unit_out c (run root c steps p) u xs = unit_out c (run root c steps (unit_params p u)) 0 xs.
Proof. exact constrained_unit_out. Qed.
Print Assumptions C09_kfl_constrained_output_unit.

(* batch rows: batch_out c p X = map (layer_out c p) X is the only place the
   batch enters the model, so these are consequences of the model's form; that
   the implementation has this form is what the run-time batch checks test *)
Theorem C09_kfl_batch_rows : forall c p X (sel : list nat), (forall i, In i sel -> (i < length X)%nat) ->
  batch_out c p (map (fun i => nth i X []) sel) = map (fun i => nth i (batch_out c p X) []) sel.
Proof. exact batch_out_select. Qed.
Print Assumptions C09_kfl_batch_rows.

(* ======================================================================
   Output of unit u depends only on unit u's parameters and inputs: the other
   layer kinds (proofs in Proofs/UnitsOutputs.v).  Two layers of the same
   shape that agree on unit u and differ arbitrarily elsewhere.
   ====================================================================== *)
Theorem C09_linear_output_unit_local : forall units units' K K' bias bias' bs xs xs' u, (u < units)%nat -> (u < units')%nat ->
  column u K = column u K' -> nth u bias 0 = nth u bias' 0 -> nth u xs [] = nth u xs' [] ->
  nth u (LinearEval.linear_eval units K bias bs xs) 0 = nth u (LinearEval.linear_eval units' K' bias' bs xs') 0.
Proof. exact linear_unit_local. Qed.
Print Assumptions C09_linear_output_unit_local.

(* in_col cols u = the input column unit u reads (the only column when cols = 1) *)
Theorem C09_categorical_output_unit_local : forall (L L' : CategoricalEval.cat_layer) row row' u,
  CategoricalEval.c_buckets L = CategoricalEval.c_buckets L' -> CategoricalEval.c_units L = CategoricalEval.c_units L' ->
  CategoricalEval.c_default L = CategoricalEval.c_default L' ->
  column u (CategoricalEval.c_kernel L) = column u (CategoricalEval.c_kernel L') -> (u < CategoricalEval.c_units L)%nat ->
  length row = length row' -> nth (in_col (length row) u) row 0 = nth (in_col (length row) u) row' 0 ->
  nth u (CategoricalEval.cat_row L row) 0 = nth u (CategoricalEval.cat_row L' row') 0.
Proof. exact cat_unit_local. Qed.
Print Assumptions C09_categorical_output_unit_local.

(* pwl_same_shape: units, keypoint type, cyclic, impute flag, missing input value equal;
   pwl_agree_unit L L' u: kernel column u, unit u's keypoint tables, unit u's missing output equal *)
Theorem C09_pwl_output_unit_local : forall (L L' : PWLEval.pwl_layer) u row given,
  pwl_same_shape L L' -> pwl_agree_unit L L' u -> (u < PWLEval.p_units L)%nat ->
  nth u (PWLEval.call_row L row given) 0 = nth u (PWLEval.call_row L' row given) 0.
Proof. exact pwl_unit_local. Qed.
Print Assumptions C09_pwl_output_unit_local.

Theorem C09_pwl_output_input_local : forall (L : PWLEval.pwl_layer) u row row',
  (u < PWLEval.p_units L)%nat -> length row = length row' ->
  nth (if (length row =? 1)%nat then 0%nat else u) row 0 = nth (if (length row =? 1)%nat then 0%nat else u) row' 0 ->
  nth u (PWLEval.call_row L row None) 0 = nth u (PWLEval.call_row L row' None) 0.
Proof. exact pwl_unit_input_local. Qed.
Print Assumptions C09_pwl_output_input_local.

(* Lattice, hypercube and simplex: wfK units K u = u < units and every kernel row has units entries *)
Theorem C09_lattice_output_unit_local : forall sc tensor clip units sizes (K K' : list (list Q)) u x,
  Proofs.LatticeInterp.wfK units K u -> Proofs.LatticeInterp.wfK units K' u -> column u K = column u K' ->
  LatticeInterp.unit_fn sc tensor clip units sizes K u x = LatticeInterp.unit_fn sc tensor clip units sizes K' u x.
Proof. exact lattice_unit_local. Qed.
Print Assumptions C09_lattice_output_unit_local.

Theorem C09_lattice_eval_local : forall sc tensor clip units sizes (K K' : list (list Q)) pts pts' p u,
  (p < length pts)%nat -> (p < length pts')%nat ->
  Proofs.LatticeInterp.wfK units K u -> Proofs.LatticeInterp.wfK units K' u -> column u K = column u K' ->
  nth u (nth p pts []) [] = nth u (nth p pts' []) [] ->
  (u < length (nth p pts []))%nat -> (u < length (nth p pts' []))%nat ->
  nth u (nth p (LatticeInterp.lattice_eval sc tensor clip units sizes K pts) []) 0 =
  nth u (nth p (LatticeInterp.lattice_eval sc tensor clip units sizes K' pts') []) 0.
Proof. exact lattice_eval_local. Qed.
Print Assumptions C09_lattice_eval_local.
