(* C09 — units never interact.  Property theorems only; proofs live in
   Proofs/LatticeUnits.v (Lattice), Proofs/LinearProject.v (Linear,
   CategoricalCalibration) and Proofs/PWLProject.v (PWLCalibration).

   Lattice.  The models (Model/LatticeFinalize.v, Model/LatticeDykstra.v) work on
   the kernel as a tensor of shape  sizes ++ [units]  and perform explicit
   per-unit reductions over all axes but the last (unit_viols, unit_vals).
     slice sizes u W   = fun x => W (upd x (length sizes) u)      column u of W
     lat1 c / dyk1 c   = the configuration c with units := 1       (Harness/H_C09.v)
     teq sh f g        = f and g agree on every valid index of shape sh
   The column theorems say: the multi-unit result restricted to unit u IS the
   single-unit model run on unit u's column alone.  This is exactly the pair the
   run-time tie compares (H_C09.check: single-unit model on column u against
   column u of the implementation's multi-unit result).

   Hypotheses  lat_units_wf / dyk_units_wf : no constrained dimension (monotone
   dimension, trust / dominance / joint pair, joint-unimodality dimension) is the
   unit axis.  They hold for every configuration accepted by
   verify_hyperparameters (C09_accepted_configs_wf) and they are necessary: with
   a trust or monotonicity flag on the unit axis the statement is false (cummax /
   the behind set would run across units).  Satisfiable: Examples exu_lat_wf,
   exu_dyk_wf, exu_hyps, exu_not_vacuous in Proofs/LatticeUnits.v (2 x 3 lattice,
   3 units with columns of magnitude 1 / 100 / 1000, all constraint kinds on; the
   three result columns are pairwise different and differ from the input).

   Statement form.  sim sizes u A W  :=  forall x, uix sizes x -> A x == W (upd x ud u)
   (A is column u of W on every index of the kernel's rank with unit coordinate 0).
   Every pass maps sim-related kernels to sim-related kernels (.._simulation);
   the _column theorems are the instances A := slice sizes u W.  With units = 1,
   u = 0 the same statements say that each single-unit pass respects pointwise
   equality of kernels, which is what lets the passes compose. *)
From TFL Require Import Proofs.LatticeSpecFacts Model.LatticeDykstra Harness.H_C09 Proofs.LatticeUnits.
From TFL Require Import Model.LinearProject Proofs.LinearProject Model.PWLProject Proofs.PWLProject.
Open Scope Q_scope.

(* ---------------- Lattice: finalize_constraints ---------------- *)
Theorem C09_lattice_finalize_column : forall (c : lat_cfg) (u : nat),
  (u < l_units c)%nat -> lat_units_wf c -> forall W : tens,
  teq (l_shape (lat1 c)) (finalize (lat1 c) (slice (l_sizes c) u W)) (slice (l_sizes c) u (finalize c W)).
Proof. exact lattice_finalize_column. Qed.
Print Assumptions C09_lattice_finalize_column.

(* strict LatticeConstraints.__call__ after the Dykstra stage: finalize (if the
   block ran) and the final clip *)
Theorem C09_lattice_constraint_after_dykstra_column : forall (c : lat_cfg) (u : nat),
  (u < l_units c)%nat -> lat_units_wf c -> forall (ran : bool) (W : tens),
  teq (l_shape (lat1 c)) (lattice_constraint_after_dykstra (lat1 c) ran (slice (l_sizes c) u W))
                         (slice (l_sizes c) u (lattice_constraint_after_dykstra c ran W)).
Proof. exact lattice_constraint_after_dykstra_column. Qed.
Print Assumptions C09_lattice_constraint_after_dykstra_column.

Theorem C09_lattice_finalize_simulation : forall (c : lat_cfg) (u : nat),
  (u < l_units c)%nat -> lat_units_wf c -> forall A W : tens,
  sim (l_sizes c) u A W -> sim (l_sizes c) u (finalize (lat1 c) A) (finalize c W).
Proof. exact sim_finalize. Qed.
Print Assumptions C09_lattice_finalize_simulation.

(* the single passes (any monotone-dimension list / trust lists off the unit axis) *)
Theorem C09_lattice_monotonicity_pass_column : forall (sizes : list nat) (units u : nat), (u < units)%nat ->
  forall (monos : list nat) (W : tens), ~ In (ud sizes) monos ->
  teq (sh1 sizes) (approx_mono (sh1 sizes) monos (slice sizes u W)) (slice sizes u (approx_mono (sh sizes units) monos W)).
Proof. exact approx_mono_column. Qed.
Print Assumptions C09_lattice_monotonicity_pass_column.

Theorem C09_lattice_bounds_pass_column : forall (sizes : list nat) (units u : nat), (u < units)%nat ->
  forall (omin omax : option Q) (W : tens),
  teq (sh1 sizes) (approx_bounds (sh1 sizes) (ud sizes) 1 omin omax (slice sizes u W))
                  (slice sizes u (approx_bounds (sh sizes units) (ud sizes) units omin omax W)).
Proof. exact approx_bounds_column. Qed.
Print Assumptions C09_lattice_bounds_pass_column.

Theorem C09_lattice_clip_column : forall (sizes : list nat) (units u : nat), (u < units)%nat ->
  forall (omin omax : option Q) (W : tens),
  teq (sh1 sizes) (clip_bounds (sh1 sizes) omin omax (slice sizes u W)) (slice sizes u (clip_bounds (sh sizes units) omin omax W)).
Proof. exact clip_bounds_column. Qed.
Print Assumptions C09_lattice_clip_column.

Theorem C09_lattice_edgeworth_pass_column : forall (sizes : list nat) (units u : nat), (u < units)%nat ->
  forall (ts : list trust) (W : tens), (forall t, In t ts -> trust_off_unit sizes t) ->
  teq (sh1 sizes) (approx_edgeworth (sh1 sizes) (ud sizes) 1 ts (slice sizes u W))
                  (slice sizes u (approx_edgeworth (sh sizes units) (ud sizes) units ts W)).
Proof. exact approx_edgeworth_column. Qed.
Print Assumptions C09_lattice_edgeworth_pass_column.

(* both modes: per-unit scalar corrections (Edgeworth trusts present; the prior
   violation lists ts_l / ts_r are per unit) and element-wise corrections *)
Theorem C09_lattice_trapezoid_pass_column : forall (sizes : list nat) (units u : nat), (u < units)%nat ->
  forall (trap edge : list trust) (W : tens), (forall t, In t trap -> trust_off_unit sizes t) ->
  teq (sh1 sizes) (approx_trapezoid (sh1 sizes) (ud sizes) 1 trap edge (slice sizes u W))
                  (slice sizes u (approx_trapezoid (sh sizes units) (ud sizes) units trap edge W)).
Proof. exact approx_trapezoid_column. Qed.
Print Assumptions C09_lattice_trapezoid_pass_column.

(* the per-unit reduction itself (tf.reduce_max over all axes but the last):
   entry u of the multi-unit violation vector is the single entry of the
   single-unit vector computed from column u *)
Theorem C09_lattice_unit_violation_column : forall (sizes : list nat) (units u : nat), (u < units)%nat ->
  forall (B : list idx) (g : idx -> Q), (forall b, In b B -> length b = S (ud sizes)) ->
  nth 0 (unit_viols (ud sizes) 1 B (fun y => g (lift sizes u y))) 0 == nth u (unit_viols (ud sizes) units B g) 0.
Proof. exact unit_viols_column. Qed.
Print Assumptions C09_lattice_unit_violation_column.

(* ---------------- Lattice: project_by_dykstra ---------------- *)
Theorem C09_lattice_dykstra_column : forall (c : dyk_cfg) (u : nat),
  (u < k_units c)%nat -> dyk_units_wf c -> forall W : tens,
  teq (k_shape (dyk1 c)) (project_by_dykstra (dyk1 c) (slice (k_sizes c) u W)) (slice (k_sizes c) u (project_by_dykstra c W)).
Proof. exact lattice_dykstra_column. Qed.
Print Assumptions C09_lattice_dykstra_column.

Theorem C09_lattice_dykstra_simulation : forall (c : dyk_cfg) (u : nat),
  (u < k_units c)%nat -> dyk_units_wf c -> forall A W : tens,
  sim (k_sizes c) u A W -> sim (k_sizes c) u (project_by_dykstra (dyk1 c) A) (project_by_dykstra c W).
Proof. exact sim_project_by_dykstra. Qed.
Print Assumptions C09_lattice_dykstra_simulation.

(* the single-unit and the multi-unit sweep consist of the same constraint
   groups in the same order (the skip rules depend on lattice sizes only) *)
Theorem C09_lattice_dykstra_same_groups : forall (c : dyk_cfg) (u : nat),
  (u < k_units c)%nat -> dyk_units_wf c -> map fst (group_ops (dyk1 c)) = map fst (group_ops c).
Proof. exact group_ops_keys. Qed.
Print Assumptions C09_lattice_dykstra_same_groups.

(* ---------------- Lattice: the whole constraint, flat kernels ---------------- *)
(* lattice_constraint_model (Harness/H_C09.v) = Dykstra stage, finalize, clip
   on row-major flat lists, strict and non-strict.  W is the (vertices x units)
   kernel given by rows; flat_column sizes units u r = entries v * units + u of r. *)
Theorem C09_lattice_constraint_column : forall (dc : dyk_cfg) (lc : lat_cfg) (ran strict : bool) (W : list (list Q)) (u : nat),
  k_sizes dc = l_sizes lc -> k_units dc = l_units lc -> dyk_units_wf dc -> lat_units_wf lc ->
  (u < l_units lc)%nat -> (forall r, In r W -> length r = l_units lc) ->
  qleq (lattice_constraint_model (dyk1 dc) (lat1 lc) ran strict (column u W))
       (flat_column (l_sizes lc) (l_units lc) u (lattice_constraint_model dc lc ran strict (concat W))).
Proof. exact lattice_constraint_column. Qed.
Print Assumptions C09_lattice_constraint_column.

(* flat_column of a matrix given by rows is the matrix column *)
Theorem C09_flat_column_is_matrix_column : forall (sizes : list nat) (units u : nat) (R : list (list Q)),
  (u < units)%nat -> length R = nprod sizes -> (forall r, In r R -> length r = units) ->
  flat_column sizes units u (concat R) = column u R.
Proof. exact flat_column_concat. Qed.
Print Assumptions C09_flat_column_is_matrix_column.

(* permuting (more generally: selecting, s need not be a bijection) the unit
   columns of the kernel permutes the result columns *)
Theorem C09_lattice_permutation : forall (dc : dyk_cfg) (lc : lat_cfg) (ran strict : bool) (W : list (list Q)) (s : nat -> nat) (u : nat),
  k_sizes dc = l_sizes lc -> k_units dc = l_units lc -> dyk_units_wf dc -> lat_units_wf lc ->
  (u < l_units lc)%nat -> (s u < l_units lc)%nat -> (forall r, In r W -> length r = l_units lc) ->
  qleq (flat_column (l_sizes lc) (l_units lc) u
          (lattice_constraint_model dc lc ran strict (concat (permute_columns (l_units lc) s W))))
       (flat_column (l_sizes lc) (l_units lc) (s u) (lattice_constraint_model dc lc ran strict (concat W))).
Proof. exact lattice_permutation. Qed.
Print Assumptions C09_lattice_permutation.

(* every configuration accepted by verify_hyperparameters keeps its constraints
   off the unit axis *)
Theorem C09_accepted_configs_wf : forall c : lat_cfg, cfg_valid c -> lat_units_wf c.
Proof. exact cfg_valid_units_wf. Qed.
Print Assumptions C09_accepted_configs_wf.

(* ---------------- Linear, CategoricalCalibration, PWLCalibration ---------------- *)
Theorem C09_linear_column : forall rt c units W R u,
  lin_valid c (length W) -> lin_project rt c units W = Some R -> (u < units)%nat ->
  exists r, lin_project_col rt c (column u W) = Some r /\ column u R = r.
Proof. exact lin_per_unit. Qed.
Print Assumptions C09_linear_column.

Theorem C09_categorical_column : forall ps lo hi units W R u,
  cat_project ps lo hi units W = Some R -> (u < units)%nat ->
  exists r, cat_project_col ps lo hi (column u W) = Some r /\ column u R = r.
Proof. exact cat_per_unit. Qed.
Print Assumptions C09_categorical_column.

Theorem C09_pwl_column : forall c units W u, (u < units)%nat ->
  column u (pwl_project c units W) = pwl_project_col c (column u W).
Proof. exact pwl_project_per_unit. Qed.
Print Assumptions C09_pwl_column.
