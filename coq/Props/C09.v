(* C09 — placeholder until the per-unit theorems land *)
From TFL Require Import Model.LatticeDykstra.
