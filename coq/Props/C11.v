(* C11 - Config and weight round-trips reproduce the same function.
   GENERATED on every run by harness/translators/gen_config.py: one instantiation of each
   generic statement of Proofs/ConfigRoundTrip.v per class description of Gen/GenConfig.v.
   The statements (keys_cover_init, keys_are_params, reads_are_set, no_dropped_params,
   roundtrip_for, config_stable_for) are hand-written there; the round-trip theorems hold for
   EVERY keyword dictionary kw and every oracle meeting the three stated hypotheses.  The
   side condition discharged here by `vm_compute; reflexivity` is a decidable check of the
   class description (a finite list of parameters, stores and keys exactly as written in
   the source and fully enumerated in Gen/GenConfig.v), so proof by computation is a
   complete proof of it. *)
From Coq Require Import String List.
From TFL Require Import Model.ConfigModel Gen.GenConfig Proofs.ConfigRoundTrip.
Import ListNotations.
Open Scope string_scope.

(* ---- aggregation_layer.Aggregation *)
Theorem C11_Aggregation_keys_cover_init : keys_cover_init desc_Aggregation.
Proof. apply keys_cover_init_spec; vm_compute; reflexivity. Qed.
Print Assumptions C11_Aggregation_keys_cover_init.
Theorem C11_Aggregation_keys_are_params : keys_are_params desc_Aggregation.
Proof. apply keys_are_params_spec; vm_compute; reflexivity. Qed.
Print Assumptions C11_Aggregation_keys_are_params.
Theorem C11_Aggregation_reads_are_set : reads_are_set desc_Aggregation.
Proof. apply reads_are_set_spec; vm_compute; reflexivity. Qed.
Print Assumptions C11_Aggregation_reads_are_set.
Theorem C11_Aggregation_no_dropped_params : no_dropped_params desc_Aggregation.
Proof. apply no_dropped_params_spec; vm_compute; reflexivity. Qed.
Print Assumptions C11_Aggregation_no_dropped_params.
Theorem C11_Aggregation_roundtrip : roundtrip_for desc_Aggregation.
Proof. apply roundtrip_generic; vm_compute; reflexivity. Qed.
Print Assumptions C11_Aggregation_roundtrip.
Theorem C11_Aggregation_config_stable : config_stable_for desc_Aggregation.
Proof. apply config_stable_generic; vm_compute; reflexivity. Qed.
Print Assumptions C11_Aggregation_config_stable.

(* ---- categorical_calibration_layer.CategoricalCalibration *)
Theorem C11_CategoricalCalibration_keys_cover_init : keys_cover_init desc_CategoricalCalibration.
Proof. apply keys_cover_init_spec; vm_compute; reflexivity. Qed.
Print Assumptions C11_CategoricalCalibration_keys_cover_init.
Theorem C11_CategoricalCalibration_keys_are_params : keys_are_params desc_CategoricalCalibration.
Proof. apply keys_are_params_spec; vm_compute; reflexivity. Qed.
Print Assumptions C11_CategoricalCalibration_keys_are_params.
Theorem C11_CategoricalCalibration_reads_are_set : reads_are_set desc_CategoricalCalibration.
Proof. apply reads_are_set_spec; vm_compute; reflexivity. Qed.
Print Assumptions C11_CategoricalCalibration_reads_are_set.
Theorem C11_CategoricalCalibration_no_dropped_params : no_dropped_params desc_CategoricalCalibration.
Proof. apply no_dropped_params_spec; vm_compute; reflexivity. Qed.
Print Assumptions C11_CategoricalCalibration_no_dropped_params.
Theorem C11_CategoricalCalibration_roundtrip : roundtrip_for desc_CategoricalCalibration.
Proof. apply roundtrip_generic; vm_compute; reflexivity. Qed.
Print Assumptions C11_CategoricalCalibration_roundtrip.
Theorem C11_CategoricalCalibration_config_stable : config_stable_for desc_CategoricalCalibration.
Proof. apply config_stable_generic; vm_compute; reflexivity. Qed.
Print Assumptions C11_CategoricalCalibration_config_stable.

(* ---- categorical_calibration_layer.CategoricalCalibrationConstraints *)
Theorem C11_CategoricalCalibrationConstraints_keys_cover_init : keys_cover_init desc_CategoricalCalibrationConstraints.
Proof. apply keys_cover_init_spec; vm_compute; reflexivity. Qed.
Print Assumptions C11_CategoricalCalibrationConstraints_keys_cover_init.
Theorem C11_CategoricalCalibrationConstraints_keys_are_params : keys_are_params desc_CategoricalCalibrationConstraints.
Proof. apply keys_are_params_spec; vm_compute; reflexivity. Qed.
Print Assumptions C11_CategoricalCalibrationConstraints_keys_are_params.
Theorem C11_CategoricalCalibrationConstraints_reads_are_set : reads_are_set desc_CategoricalCalibrationConstraints.
Proof. apply reads_are_set_spec; vm_compute; reflexivity. Qed.
Print Assumptions C11_CategoricalCalibrationConstraints_reads_are_set.
Theorem C11_CategoricalCalibrationConstraints_no_dropped_params : no_dropped_params desc_CategoricalCalibrationConstraints.
Proof. apply no_dropped_params_spec; vm_compute; reflexivity. Qed.
Print Assumptions C11_CategoricalCalibrationConstraints_no_dropped_params.
Theorem C11_CategoricalCalibrationConstraints_roundtrip : roundtrip_for desc_CategoricalCalibrationConstraints.
Proof. apply roundtrip_generic; vm_compute; reflexivity. Qed.
Print Assumptions C11_CategoricalCalibrationConstraints_roundtrip.
Theorem C11_CategoricalCalibrationConstraints_config_stable : config_stable_for desc_CategoricalCalibrationConstraints.
Proof. apply config_stable_generic; vm_compute; reflexivity. Qed.
Print Assumptions C11_CategoricalCalibrationConstraints_config_stable.

(* ---- cdf_layer.CDF *)
Theorem C11_CDF_keys_cover_init : keys_cover_init desc_CDF.
Proof. apply keys_cover_init_spec; vm_compute; reflexivity. Qed.
Print Assumptions C11_CDF_keys_cover_init.
Theorem C11_CDF_keys_are_params : keys_are_params desc_CDF.
Proof. apply keys_are_params_spec; vm_compute; reflexivity. Qed.
Print Assumptions C11_CDF_keys_are_params.
Theorem C11_CDF_reads_are_set : reads_are_set desc_CDF.
Proof. apply reads_are_set_spec; vm_compute; reflexivity. Qed.
Print Assumptions C11_CDF_reads_are_set.
Theorem C11_CDF_no_dropped_params : no_dropped_params desc_CDF.
Proof. apply no_dropped_params_spec; vm_compute; reflexivity. Qed.
Print Assumptions C11_CDF_no_dropped_params.
Theorem C11_CDF_roundtrip : roundtrip_for desc_CDF.
Proof. apply roundtrip_generic; vm_compute; reflexivity. Qed.
Print Assumptions C11_CDF_roundtrip.
Theorem C11_CDF_config_stable : config_stable_for desc_CDF.
Proof. apply config_stable_generic; vm_compute; reflexivity. Qed.
Print Assumptions C11_CDF_config_stable.

(* ---- configs.CalibratedLatticeEnsembleConfig *)
Theorem C11_CalibratedLatticeEnsembleConfig_keys_cover_init : keys_cover_init desc_CalibratedLatticeEnsembleConfig.
Proof. apply keys_cover_init_spec; vm_compute; reflexivity. Qed.
Print Assumptions C11_CalibratedLatticeEnsembleConfig_keys_cover_init.
Theorem C11_CalibratedLatticeEnsembleConfig_keys_are_params : keys_are_params desc_CalibratedLatticeEnsembleConfig.
Proof. apply keys_are_params_spec; vm_compute; reflexivity. Qed.
Print Assumptions C11_CalibratedLatticeEnsembleConfig_keys_are_params.
Theorem C11_CalibratedLatticeEnsembleConfig_reads_are_set : reads_are_set desc_CalibratedLatticeEnsembleConfig.
Proof. apply reads_are_set_spec; vm_compute; reflexivity. Qed.
Print Assumptions C11_CalibratedLatticeEnsembleConfig_reads_are_set.
Theorem C11_CalibratedLatticeEnsembleConfig_no_dropped_params : no_dropped_params desc_CalibratedLatticeEnsembleConfig.
Proof. apply no_dropped_params_spec; vm_compute; reflexivity. Qed.
Print Assumptions C11_CalibratedLatticeEnsembleConfig_no_dropped_params.
Theorem C11_CalibratedLatticeEnsembleConfig_roundtrip : roundtrip_for desc_CalibratedLatticeEnsembleConfig.
Proof. apply roundtrip_generic; vm_compute; reflexivity. Qed.
Print Assumptions C11_CalibratedLatticeEnsembleConfig_roundtrip.
Theorem C11_CalibratedLatticeEnsembleConfig_config_stable : config_stable_for desc_CalibratedLatticeEnsembleConfig.
Proof. apply config_stable_generic; vm_compute; reflexivity. Qed.
Print Assumptions C11_CalibratedLatticeEnsembleConfig_config_stable.

(* ---- configs.CalibratedLatticeConfig *)
Theorem C11_CalibratedLatticeConfig_keys_cover_init : keys_cover_init desc_CalibratedLatticeConfig.
Proof. apply keys_cover_init_spec; vm_compute; reflexivity. Qed.
Print Assumptions C11_CalibratedLatticeConfig_keys_cover_init.
Theorem C11_CalibratedLatticeConfig_keys_are_params : keys_are_params desc_CalibratedLatticeConfig.
Proof. apply keys_are_params_spec; vm_compute; reflexivity. Qed.
Print Assumptions C11_CalibratedLatticeConfig_keys_are_params.
Theorem C11_CalibratedLatticeConfig_reads_are_set : reads_are_set desc_CalibratedLatticeConfig.
Proof. apply reads_are_set_spec; vm_compute; reflexivity. Qed.
Print Assumptions C11_CalibratedLatticeConfig_reads_are_set.
Theorem C11_CalibratedLatticeConfig_no_dropped_params : no_dropped_params desc_CalibratedLatticeConfig.
Proof. apply no_dropped_params_spec; vm_compute; reflexivity. Qed.
Print Assumptions C11_CalibratedLatticeConfig_no_dropped_params.
Theorem C11_CalibratedLatticeConfig_roundtrip : roundtrip_for desc_CalibratedLatticeConfig.
Proof. apply roundtrip_generic; vm_compute; reflexivity. Qed.
Print Assumptions C11_CalibratedLatticeConfig_roundtrip.
Theorem C11_CalibratedLatticeConfig_config_stable : config_stable_for desc_CalibratedLatticeConfig.
Proof. apply config_stable_generic; vm_compute; reflexivity. Qed.
Print Assumptions C11_CalibratedLatticeConfig_config_stable.

(* ---- configs.CalibratedLinearConfig *)
Theorem C11_CalibratedLinearConfig_keys_cover_init : keys_cover_init desc_CalibratedLinearConfig.
Proof. apply keys_cover_init_spec; vm_compute; reflexivity. Qed.
Print Assumptions C11_CalibratedLinearConfig_keys_cover_init.
Theorem C11_CalibratedLinearConfig_keys_are_params : keys_are_params desc_CalibratedLinearConfig.
Proof. apply keys_are_params_spec; vm_compute; reflexivity. Qed.
Print Assumptions C11_CalibratedLinearConfig_keys_are_params.
Theorem C11_CalibratedLinearConfig_reads_are_set : reads_are_set desc_CalibratedLinearConfig.
Proof. apply reads_are_set_spec; vm_compute; reflexivity. Qed.
Print Assumptions C11_CalibratedLinearConfig_reads_are_set.
Theorem C11_CalibratedLinearConfig_no_dropped_params : no_dropped_params desc_CalibratedLinearConfig.
Proof. apply no_dropped_params_spec; vm_compute; reflexivity. Qed.
Print Assumptions C11_CalibratedLinearConfig_no_dropped_params.
Theorem C11_CalibratedLinearConfig_roundtrip : roundtrip_for desc_CalibratedLinearConfig.
Proof. apply roundtrip_generic; vm_compute; reflexivity. Qed.
Print Assumptions C11_CalibratedLinearConfig_roundtrip.
Theorem C11_CalibratedLinearConfig_config_stable : config_stable_for desc_CalibratedLinearConfig.
Proof. apply config_stable_generic; vm_compute; reflexivity. Qed.
Print Assumptions C11_CalibratedLinearConfig_config_stable.

(* ---- configs.AggregateFunctionConfig *)
Theorem C11_AggregateFunctionConfig_keys_cover_init : keys_cover_init desc_AggregateFunctionConfig.
Proof. apply keys_cover_init_spec; vm_compute; reflexivity. Qed.
Print Assumptions C11_AggregateFunctionConfig_keys_cover_init.
Theorem C11_AggregateFunctionConfig_keys_are_params : keys_are_params desc_AggregateFunctionConfig.
Proof. apply keys_are_params_spec; vm_compute; reflexivity. Qed.
Print Assumptions C11_AggregateFunctionConfig_keys_are_params.
Theorem C11_AggregateFunctionConfig_reads_are_set : reads_are_set desc_AggregateFunctionConfig.
Proof. apply reads_are_set_spec; vm_compute; reflexivity. Qed.
Print Assumptions C11_AggregateFunctionConfig_reads_are_set.
Theorem C11_AggregateFunctionConfig_no_dropped_params : no_dropped_params desc_AggregateFunctionConfig.
Proof. apply no_dropped_params_spec; vm_compute; reflexivity. Qed.
Print Assumptions C11_AggregateFunctionConfig_no_dropped_params.
Theorem C11_AggregateFunctionConfig_roundtrip : roundtrip_for desc_AggregateFunctionConfig.
Proof. apply roundtrip_generic; vm_compute; reflexivity. Qed.
Print Assumptions C11_AggregateFunctionConfig_roundtrip.
Theorem C11_AggregateFunctionConfig_config_stable : config_stable_for desc_AggregateFunctionConfig.
Proof. apply config_stable_generic; vm_compute; reflexivity. Qed.
Print Assumptions C11_AggregateFunctionConfig_config_stable.

(* ---- configs.FeatureConfig *)
Theorem C11_FeatureConfig_keys_cover_init : keys_cover_init desc_FeatureConfig.
Proof. apply keys_cover_init_spec; vm_compute; reflexivity. Qed.
Print Assumptions C11_FeatureConfig_keys_cover_init.
Theorem C11_FeatureConfig_keys_are_params : keys_are_params desc_FeatureConfig.
Proof. apply keys_are_params_spec; vm_compute; reflexivity. Qed.
Print Assumptions C11_FeatureConfig_keys_are_params.
Theorem C11_FeatureConfig_reads_are_set : reads_are_set desc_FeatureConfig.
Proof. apply reads_are_set_spec; vm_compute; reflexivity. Qed.
Print Assumptions C11_FeatureConfig_reads_are_set.
Theorem C11_FeatureConfig_no_dropped_params : no_dropped_params desc_FeatureConfig.
Proof. apply no_dropped_params_spec; vm_compute; reflexivity. Qed.
Print Assumptions C11_FeatureConfig_no_dropped_params.
Theorem C11_FeatureConfig_roundtrip : roundtrip_for desc_FeatureConfig.
Proof. apply roundtrip_generic; vm_compute; reflexivity. Qed.
Print Assumptions C11_FeatureConfig_roundtrip.
Theorem C11_FeatureConfig_config_stable : config_stable_for desc_FeatureConfig.
Proof. apply config_stable_generic; vm_compute; reflexivity. Qed.
Print Assumptions C11_FeatureConfig_config_stable.

(* ---- configs.RegularizerConfig *)
Theorem C11_RegularizerConfig_keys_cover_init : keys_cover_init desc_RegularizerConfig.
Proof. apply keys_cover_init_spec; vm_compute; reflexivity. Qed.
Print Assumptions C11_RegularizerConfig_keys_cover_init.
Theorem C11_RegularizerConfig_keys_are_params : keys_are_params desc_RegularizerConfig.
Proof. apply keys_are_params_spec; vm_compute; reflexivity. Qed.
Print Assumptions C11_RegularizerConfig_keys_are_params.
Theorem C11_RegularizerConfig_reads_are_set : reads_are_set desc_RegularizerConfig.
Proof. apply reads_are_set_spec; vm_compute; reflexivity. Qed.
Print Assumptions C11_RegularizerConfig_reads_are_set.
Theorem C11_RegularizerConfig_no_dropped_params : no_dropped_params desc_RegularizerConfig.
Proof. apply no_dropped_params_spec; vm_compute; reflexivity. Qed.
Print Assumptions C11_RegularizerConfig_no_dropped_params.
Theorem C11_RegularizerConfig_roundtrip : roundtrip_for desc_RegularizerConfig.
Proof. apply roundtrip_generic; vm_compute; reflexivity. Qed.
Print Assumptions C11_RegularizerConfig_roundtrip.
Theorem C11_RegularizerConfig_config_stable : config_stable_for desc_RegularizerConfig.
Proof. apply config_stable_generic; vm_compute; reflexivity. Qed.
Print Assumptions C11_RegularizerConfig_config_stable.

(* ---- configs.TrustConfig *)
Theorem C11_TrustConfig_keys_cover_init : keys_cover_init desc_TrustConfig.
Proof. apply keys_cover_init_spec; vm_compute; reflexivity. Qed.
Print Assumptions C11_TrustConfig_keys_cover_init.
Theorem C11_TrustConfig_keys_are_params : keys_are_params desc_TrustConfig.
Proof. apply keys_are_params_spec; vm_compute; reflexivity. Qed.
Print Assumptions C11_TrustConfig_keys_are_params.
Theorem C11_TrustConfig_reads_are_set : reads_are_set desc_TrustConfig.
Proof. apply reads_are_set_spec; vm_compute; reflexivity. Qed.
Print Assumptions C11_TrustConfig_reads_are_set.
Theorem C11_TrustConfig_no_dropped_params : no_dropped_params desc_TrustConfig.
Proof. apply no_dropped_params_spec; vm_compute; reflexivity. Qed.
Print Assumptions C11_TrustConfig_no_dropped_params.
Theorem C11_TrustConfig_roundtrip : roundtrip_for desc_TrustConfig.
Proof. apply roundtrip_generic; vm_compute; reflexivity. Qed.
Print Assumptions C11_TrustConfig_roundtrip.
Theorem C11_TrustConfig_config_stable : config_stable_for desc_TrustConfig.
Proof. apply config_stable_generic; vm_compute; reflexivity. Qed.
Print Assumptions C11_TrustConfig_config_stable.

(* ---- configs.DominanceConfig *)
Theorem C11_DominanceConfig_keys_cover_init : keys_cover_init desc_DominanceConfig.
Proof. apply keys_cover_init_spec; vm_compute; reflexivity. Qed.
Print Assumptions C11_DominanceConfig_keys_cover_init.
Theorem C11_DominanceConfig_keys_are_params : keys_are_params desc_DominanceConfig.
Proof. apply keys_are_params_spec; vm_compute; reflexivity. Qed.
Print Assumptions C11_DominanceConfig_keys_are_params.
Theorem C11_DominanceConfig_reads_are_set : reads_are_set desc_DominanceConfig.
Proof. apply reads_are_set_spec; vm_compute; reflexivity. Qed.
Print Assumptions C11_DominanceConfig_reads_are_set.
Theorem C11_DominanceConfig_no_dropped_params : no_dropped_params desc_DominanceConfig.
Proof. apply no_dropped_params_spec; vm_compute; reflexivity. Qed.
Print Assumptions C11_DominanceConfig_no_dropped_params.
Theorem C11_DominanceConfig_roundtrip : roundtrip_for desc_DominanceConfig.
Proof. apply roundtrip_generic; vm_compute; reflexivity. Qed.
Print Assumptions C11_DominanceConfig_roundtrip.
Theorem C11_DominanceConfig_config_stable : config_stable_for desc_DominanceConfig.
Proof. apply config_stable_generic; vm_compute; reflexivity. Qed.
Print Assumptions C11_DominanceConfig_config_stable.

(* ---- kronecker_factored_lattice_layer.KroneckerFactoredLattice *)
Theorem C11_KroneckerFactoredLattice_keys_cover_init : keys_cover_init desc_KroneckerFactoredLattice.
Proof. apply keys_cover_init_spec; vm_compute; reflexivity. Qed.
Print Assumptions C11_KroneckerFactoredLattice_keys_cover_init.
Theorem C11_KroneckerFactoredLattice_keys_are_params : keys_are_params desc_KroneckerFactoredLattice.
Proof. apply keys_are_params_spec; vm_compute; reflexivity. Qed.
Print Assumptions C11_KroneckerFactoredLattice_keys_are_params.
Theorem C11_KroneckerFactoredLattice_reads_are_set : reads_are_set desc_KroneckerFactoredLattice.
Proof. apply reads_are_set_spec; vm_compute; reflexivity. Qed.
Print Assumptions C11_KroneckerFactoredLattice_reads_are_set.
Theorem C11_KroneckerFactoredLattice_no_dropped_params : no_dropped_params desc_KroneckerFactoredLattice.
Proof. apply no_dropped_params_spec; vm_compute; reflexivity. Qed.
Print Assumptions C11_KroneckerFactoredLattice_no_dropped_params.
Theorem C11_KroneckerFactoredLattice_roundtrip : roundtrip_for desc_KroneckerFactoredLattice.
Proof. apply roundtrip_generic; vm_compute; reflexivity. Qed.
Print Assumptions C11_KroneckerFactoredLattice_roundtrip.
Theorem C11_KroneckerFactoredLattice_config_stable : config_stable_for desc_KroneckerFactoredLattice.
Proof. apply config_stable_generic; vm_compute; reflexivity. Qed.
Print Assumptions C11_KroneckerFactoredLattice_config_stable.

(* ---- kronecker_factored_lattice_layer.KFLRandomMonotonicInitializer *)
Theorem C11_KFLRandomMonotonicInitializer_keys_cover_init : keys_cover_init desc_KFLRandomMonotonicInitializer.
Proof. apply keys_cover_init_spec; vm_compute; reflexivity. Qed.
Print Assumptions C11_KFLRandomMonotonicInitializer_keys_cover_init.
Theorem C11_KFLRandomMonotonicInitializer_keys_are_params : keys_are_params desc_KFLRandomMonotonicInitializer.
Proof. apply keys_are_params_spec; vm_compute; reflexivity. Qed.
Print Assumptions C11_KFLRandomMonotonicInitializer_keys_are_params.
Theorem C11_KFLRandomMonotonicInitializer_reads_are_set : reads_are_set desc_KFLRandomMonotonicInitializer.
Proof. apply reads_are_set_spec; vm_compute; reflexivity. Qed.
Print Assumptions C11_KFLRandomMonotonicInitializer_reads_are_set.
Theorem C11_KFLRandomMonotonicInitializer_no_dropped_params : no_dropped_params desc_KFLRandomMonotonicInitializer.
Proof. apply no_dropped_params_spec; vm_compute; reflexivity. Qed.
Print Assumptions C11_KFLRandomMonotonicInitializer_no_dropped_params.
Theorem C11_KFLRandomMonotonicInitializer_roundtrip : roundtrip_for desc_KFLRandomMonotonicInitializer.
Proof. apply roundtrip_generic; vm_compute; reflexivity. Qed.
Print Assumptions C11_KFLRandomMonotonicInitializer_roundtrip.
Theorem C11_KFLRandomMonotonicInitializer_config_stable : config_stable_for desc_KFLRandomMonotonicInitializer.
Proof. apply config_stable_generic; vm_compute; reflexivity. Qed.
Print Assumptions C11_KFLRandomMonotonicInitializer_config_stable.

(* ---- kronecker_factored_lattice_layer.ScaleInitializer *)
Theorem C11_ScaleInitializer_keys_cover_init : keys_cover_init desc_ScaleInitializer.
Proof. apply keys_cover_init_spec; vm_compute; reflexivity. Qed.
Print Assumptions C11_ScaleInitializer_keys_cover_init.
Theorem C11_ScaleInitializer_keys_are_params : keys_are_params desc_ScaleInitializer.
Proof. apply keys_are_params_spec; vm_compute; reflexivity. Qed.
Print Assumptions C11_ScaleInitializer_keys_are_params.
Theorem C11_ScaleInitializer_reads_are_set : reads_are_set desc_ScaleInitializer.
Proof. apply reads_are_set_spec; vm_compute; reflexivity. Qed.
Print Assumptions C11_ScaleInitializer_reads_are_set.
Theorem C11_ScaleInitializer_no_dropped_params : no_dropped_params desc_ScaleInitializer.
Proof. apply no_dropped_params_spec; vm_compute; reflexivity. Qed.
Print Assumptions C11_ScaleInitializer_no_dropped_params.
Theorem C11_ScaleInitializer_roundtrip : roundtrip_for desc_ScaleInitializer.
Proof. apply roundtrip_generic; vm_compute; reflexivity. Qed.
Print Assumptions C11_ScaleInitializer_roundtrip.
Theorem C11_ScaleInitializer_config_stable : config_stable_for desc_ScaleInitializer.
Proof. apply config_stable_generic; vm_compute; reflexivity. Qed.
Print Assumptions C11_ScaleInitializer_config_stable.

(* ---- kronecker_factored_lattice_layer.BiasInitializer *)
Theorem C11_BiasInitializer_keys_cover_init : keys_cover_init desc_BiasInitializer.
Proof. apply keys_cover_init_spec; vm_compute; reflexivity. Qed.
Print Assumptions C11_BiasInitializer_keys_cover_init.
Theorem C11_BiasInitializer_keys_are_params : keys_are_params desc_BiasInitializer.
Proof. apply keys_are_params_spec; vm_compute; reflexivity. Qed.
Print Assumptions C11_BiasInitializer_keys_are_params.
Theorem C11_BiasInitializer_reads_are_set : reads_are_set desc_BiasInitializer.
Proof. apply reads_are_set_spec; vm_compute; reflexivity. Qed.
Print Assumptions C11_BiasInitializer_reads_are_set.
Theorem C11_BiasInitializer_no_dropped_params : no_dropped_params desc_BiasInitializer.
Proof. apply no_dropped_params_spec; vm_compute; reflexivity. Qed.
Print Assumptions C11_BiasInitializer_no_dropped_params.
Theorem C11_BiasInitializer_roundtrip : roundtrip_for desc_BiasInitializer.
Proof. apply roundtrip_generic; vm_compute; reflexivity. Qed.
Print Assumptions C11_BiasInitializer_roundtrip.
Theorem C11_BiasInitializer_config_stable : config_stable_for desc_BiasInitializer.
Proof. apply config_stable_generic; vm_compute; reflexivity. Qed.
Print Assumptions C11_BiasInitializer_config_stable.

(* ---- kronecker_factored_lattice_layer.KroneckerFactoredLatticeConstraints *)
Theorem C11_KroneckerFactoredLatticeConstraints_keys_cover_init : keys_cover_init desc_KroneckerFactoredLatticeConstraints.
Proof. apply keys_cover_init_spec; vm_compute; reflexivity. Qed.
Print Assumptions C11_KroneckerFactoredLatticeConstraints_keys_cover_init.
Theorem C11_KroneckerFactoredLatticeConstraints_keys_are_params : keys_are_params desc_KroneckerFactoredLatticeConstraints.
Proof. apply keys_are_params_spec; vm_compute; reflexivity. Qed.
Print Assumptions C11_KroneckerFactoredLatticeConstraints_keys_are_params.
Theorem C11_KroneckerFactoredLatticeConstraints_reads_are_set : reads_are_set desc_KroneckerFactoredLatticeConstraints.
Proof. apply reads_are_set_spec; vm_compute; reflexivity. Qed.
Print Assumptions C11_KroneckerFactoredLatticeConstraints_reads_are_set.
Theorem C11_KroneckerFactoredLatticeConstraints_no_dropped_params : no_dropped_params desc_KroneckerFactoredLatticeConstraints.
Proof. apply no_dropped_params_spec; vm_compute; reflexivity. Qed.
Print Assumptions C11_KroneckerFactoredLatticeConstraints_no_dropped_params.
Theorem C11_KroneckerFactoredLatticeConstraints_roundtrip : roundtrip_for desc_KroneckerFactoredLatticeConstraints.
Proof. apply roundtrip_generic; vm_compute; reflexivity. Qed.
Print Assumptions C11_KroneckerFactoredLatticeConstraints_roundtrip.
Theorem C11_KroneckerFactoredLatticeConstraints_config_stable : config_stable_for desc_KroneckerFactoredLatticeConstraints.
Proof. apply config_stable_generic; vm_compute; reflexivity. Qed.
Print Assumptions C11_KroneckerFactoredLatticeConstraints_config_stable.

(* ---- kronecker_factored_lattice_layer.ScaleConstraints *)
Theorem C11_ScaleConstraints_keys_cover_init : keys_cover_init desc_ScaleConstraints.
Proof. apply keys_cover_init_spec; vm_compute; reflexivity. Qed.
Print Assumptions C11_ScaleConstraints_keys_cover_init.
Theorem C11_ScaleConstraints_keys_are_params : keys_are_params desc_ScaleConstraints.
Proof. apply keys_are_params_spec; vm_compute; reflexivity. Qed.
Print Assumptions C11_ScaleConstraints_keys_are_params.
Theorem C11_ScaleConstraints_reads_are_set : reads_are_set desc_ScaleConstraints.
Proof. apply reads_are_set_spec; vm_compute; reflexivity. Qed.
Print Assumptions C11_ScaleConstraints_reads_are_set.
Theorem C11_ScaleConstraints_no_dropped_params : no_dropped_params desc_ScaleConstraints.
Proof. apply no_dropped_params_spec; vm_compute; reflexivity. Qed.
Print Assumptions C11_ScaleConstraints_no_dropped_params.
Theorem C11_ScaleConstraints_roundtrip : roundtrip_for desc_ScaleConstraints.
Proof. apply roundtrip_generic; vm_compute; reflexivity. Qed.
Print Assumptions C11_ScaleConstraints_roundtrip.
Theorem C11_ScaleConstraints_config_stable : config_stable_for desc_ScaleConstraints.
Proof. apply config_stable_generic; vm_compute; reflexivity. Qed.
Print Assumptions C11_ScaleConstraints_config_stable.

(* ---- lattice_layer.Lattice *)
Theorem C11_Lattice_keys_cover_init : keys_cover_init desc_Lattice.
Proof. apply keys_cover_init_spec; vm_compute; reflexivity. Qed.
Print Assumptions C11_Lattice_keys_cover_init.
Theorem C11_Lattice_keys_are_params : keys_are_params desc_Lattice.
Proof. apply keys_are_params_spec; vm_compute; reflexivity. Qed.
Print Assumptions C11_Lattice_keys_are_params.
Theorem C11_Lattice_reads_are_set : reads_are_set desc_Lattice.
Proof. apply reads_are_set_spec; vm_compute; reflexivity. Qed.
Print Assumptions C11_Lattice_reads_are_set.
Theorem C11_Lattice_no_dropped_params : no_dropped_params desc_Lattice.
Proof. apply no_dropped_params_spec; vm_compute; reflexivity. Qed.
Print Assumptions C11_Lattice_no_dropped_params.
Theorem C11_Lattice_roundtrip : roundtrip_for desc_Lattice.
Proof. apply roundtrip_generic; vm_compute; reflexivity. Qed.
Print Assumptions C11_Lattice_roundtrip.
Theorem C11_Lattice_config_stable : config_stable_for desc_Lattice.
Proof. apply config_stable_generic; vm_compute; reflexivity. Qed.
Print Assumptions C11_Lattice_config_stable.

(* ---- lattice_layer.LinearInitializer *)
Theorem C11_LinearInitializer_keys_cover_init : keys_cover_init desc_LinearInitializer.
Proof. apply keys_cover_init_spec; vm_compute; reflexivity. Qed.
Print Assumptions C11_LinearInitializer_keys_cover_init.
Theorem C11_LinearInitializer_keys_are_params : keys_are_params desc_LinearInitializer.
Proof. apply keys_are_params_spec; vm_compute; reflexivity. Qed.
Print Assumptions C11_LinearInitializer_keys_are_params.
Theorem C11_LinearInitializer_reads_are_set : reads_are_set desc_LinearInitializer.
Proof. apply reads_are_set_spec; vm_compute; reflexivity. Qed.
Print Assumptions C11_LinearInitializer_reads_are_set.
Theorem C11_LinearInitializer_no_dropped_params : no_dropped_params desc_LinearInitializer.
Proof. apply no_dropped_params_spec; vm_compute; reflexivity. Qed.
Print Assumptions C11_LinearInitializer_no_dropped_params.
Theorem C11_LinearInitializer_roundtrip : roundtrip_for desc_LinearInitializer.
Proof. apply roundtrip_generic; vm_compute; reflexivity. Qed.
Print Assumptions C11_LinearInitializer_roundtrip.
Theorem C11_LinearInitializer_config_stable : config_stable_for desc_LinearInitializer.
Proof. apply config_stable_generic; vm_compute; reflexivity. Qed.
Print Assumptions C11_LinearInitializer_config_stable.

(* ---- lattice_layer.RandomMonotonicInitializer *)
Theorem C11_RandomMonotonicInitializer_keys_cover_init : keys_cover_init desc_RandomMonotonicInitializer.
Proof. apply keys_cover_init_spec; vm_compute; reflexivity. Qed.
Print Assumptions C11_RandomMonotonicInitializer_keys_cover_init.
Theorem C11_RandomMonotonicInitializer_keys_are_params : keys_are_params desc_RandomMonotonicInitializer.
Proof. apply keys_are_params_spec; vm_compute; reflexivity. Qed.
Print Assumptions C11_RandomMonotonicInitializer_keys_are_params.
Theorem C11_RandomMonotonicInitializer_reads_are_set : reads_are_set desc_RandomMonotonicInitializer.
Proof. apply reads_are_set_spec; vm_compute; reflexivity. Qed.
Print Assumptions C11_RandomMonotonicInitializer_reads_are_set.
Theorem C11_RandomMonotonicInitializer_no_dropped_params : no_dropped_params desc_RandomMonotonicInitializer.
Proof. apply no_dropped_params_spec; vm_compute; reflexivity. Qed.
Print Assumptions C11_RandomMonotonicInitializer_no_dropped_params.
Theorem C11_RandomMonotonicInitializer_roundtrip : roundtrip_for desc_RandomMonotonicInitializer.
Proof. apply roundtrip_generic; vm_compute; reflexivity. Qed.
Print Assumptions C11_RandomMonotonicInitializer_roundtrip.
Theorem C11_RandomMonotonicInitializer_config_stable : config_stable_for desc_RandomMonotonicInitializer.
Proof. apply config_stable_generic; vm_compute; reflexivity. Qed.
Print Assumptions C11_RandomMonotonicInitializer_config_stable.

(* ---- lattice_layer.LatticeConstraints *)
Theorem C11_LatticeConstraints_keys_cover_init : keys_cover_init desc_LatticeConstraints.
Proof. apply keys_cover_init_spec; vm_compute; reflexivity. Qed.
Print Assumptions C11_LatticeConstraints_keys_cover_init.
Theorem C11_LatticeConstraints_keys_are_params : keys_are_params desc_LatticeConstraints.
Proof. apply keys_are_params_spec; vm_compute; reflexivity. Qed.
Print Assumptions C11_LatticeConstraints_keys_are_params.
Theorem C11_LatticeConstraints_reads_are_set : reads_are_set desc_LatticeConstraints.
Proof. apply reads_are_set_spec; vm_compute; reflexivity. Qed.
Print Assumptions C11_LatticeConstraints_reads_are_set.
Theorem C11_LatticeConstraints_no_dropped_params : no_dropped_params desc_LatticeConstraints.
Proof. apply no_dropped_params_spec; vm_compute; reflexivity. Qed.
Print Assumptions C11_LatticeConstraints_no_dropped_params.
Theorem C11_LatticeConstraints_roundtrip : roundtrip_for desc_LatticeConstraints.
Proof. apply roundtrip_generic; vm_compute; reflexivity. Qed.
Print Assumptions C11_LatticeConstraints_roundtrip.
Theorem C11_LatticeConstraints_config_stable : config_stable_for desc_LatticeConstraints.
Proof. apply config_stable_generic; vm_compute; reflexivity. Qed.
Print Assumptions C11_LatticeConstraints_config_stable.

(* ---- lattice_layer.TorsionRegularizer *)
Theorem C11_TorsionRegularizer_keys_cover_init : keys_cover_init desc_TorsionRegularizer.
Proof. apply keys_cover_init_spec; vm_compute; reflexivity. Qed.
Print Assumptions C11_TorsionRegularizer_keys_cover_init.
Theorem C11_TorsionRegularizer_keys_are_params : keys_are_params desc_TorsionRegularizer.
Proof. apply keys_are_params_spec; vm_compute; reflexivity. Qed.
Print Assumptions C11_TorsionRegularizer_keys_are_params.
Theorem C11_TorsionRegularizer_reads_are_set : reads_are_set desc_TorsionRegularizer.
Proof. apply reads_are_set_spec; vm_compute; reflexivity. Qed.
Print Assumptions C11_TorsionRegularizer_reads_are_set.
Theorem C11_TorsionRegularizer_no_dropped_params : no_dropped_params desc_TorsionRegularizer.
Proof. apply no_dropped_params_spec; vm_compute; reflexivity. Qed.
Print Assumptions C11_TorsionRegularizer_no_dropped_params.
Theorem C11_TorsionRegularizer_roundtrip : roundtrip_for desc_TorsionRegularizer.
Proof. apply roundtrip_generic; vm_compute; reflexivity. Qed.
Print Assumptions C11_TorsionRegularizer_roundtrip.
Theorem C11_TorsionRegularizer_config_stable : config_stable_for desc_TorsionRegularizer.
Proof. apply config_stable_generic; vm_compute; reflexivity. Qed.
Print Assumptions C11_TorsionRegularizer_config_stable.

(* ---- lattice_layer.LaplacianRegularizer *)
Theorem C11_lattice_layer_LaplacianRegularizer_keys_cover_init : keys_cover_init desc_lattice_layer_LaplacianRegularizer.
Proof. apply keys_cover_init_spec; vm_compute; reflexivity. Qed.
Print Assumptions C11_lattice_layer_LaplacianRegularizer_keys_cover_init.
Theorem C11_lattice_layer_LaplacianRegularizer_keys_are_params : keys_are_params desc_lattice_layer_LaplacianRegularizer.
Proof. apply keys_are_params_spec; vm_compute; reflexivity. Qed.
Print Assumptions C11_lattice_layer_LaplacianRegularizer_keys_are_params.
Theorem C11_lattice_layer_LaplacianRegularizer_reads_are_set : reads_are_set desc_lattice_layer_LaplacianRegularizer.
Proof. apply reads_are_set_spec; vm_compute; reflexivity. Qed.
Print Assumptions C11_lattice_layer_LaplacianRegularizer_reads_are_set.
Theorem C11_lattice_layer_LaplacianRegularizer_no_dropped_params : no_dropped_params desc_lattice_layer_LaplacianRegularizer.
Proof. apply no_dropped_params_spec; vm_compute; reflexivity. Qed.
Print Assumptions C11_lattice_layer_LaplacianRegularizer_no_dropped_params.
Theorem C11_lattice_layer_LaplacianRegularizer_roundtrip : roundtrip_for desc_lattice_layer_LaplacianRegularizer.
Proof. apply roundtrip_generic; vm_compute; reflexivity. Qed.
Print Assumptions C11_lattice_layer_LaplacianRegularizer_roundtrip.
Theorem C11_lattice_layer_LaplacianRegularizer_config_stable : config_stable_for desc_lattice_layer_LaplacianRegularizer.
Proof. apply config_stable_generic; vm_compute; reflexivity. Qed.
Print Assumptions C11_lattice_layer_LaplacianRegularizer_config_stable.

(* ---- linear_layer.Linear *)
(* [('bias_regularizer', 'use_bias')]: always stored, reported only when the second parameter is true; the state round trip
   is stated under the guard visible_args (reported, or left at its default). *)
Theorem C11_Linear_hidden_params : hidden_pairs desc_Linear = [("bias_regularizer", "use_bias")].
Proof. vm_compute; reflexivity. Qed.
Print Assumptions C11_Linear_hidden_params.
Theorem C11_Linear_keys_cover_init : keys_cover_init desc_Linear.
Proof. apply keys_cover_init_spec; vm_compute; reflexivity. Qed.
Print Assumptions C11_Linear_keys_cover_init.
Theorem C11_Linear_keys_are_params : keys_are_params desc_Linear.
Proof. apply keys_are_params_spec; vm_compute; reflexivity. Qed.
Print Assumptions C11_Linear_keys_are_params.
Theorem C11_Linear_reads_are_set : reads_are_set desc_Linear.
Proof. apply reads_are_set_spec; vm_compute; reflexivity. Qed.
Print Assumptions C11_Linear_reads_are_set.
Theorem C11_Linear_no_dropped_params : no_dropped_params desc_Linear.
Proof. apply no_dropped_params_spec; vm_compute; reflexivity. Qed.
Print Assumptions C11_Linear_no_dropped_params.
Theorem C11_Linear_roundtrip_guarded : roundtrip_guarded_for desc_Linear.
Proof. apply roundtrip_guarded_generic; vm_compute; reflexivity. Qed.
Print Assumptions C11_Linear_roundtrip_guarded.
Theorem C11_Linear_config_stable : config_stable_for desc_Linear.
Proof. apply config_stable_unguarded_generic; vm_compute; reflexivity. Qed.
Print Assumptions C11_Linear_config_stable.

(* ---- linear_layer.LinearConstraints *)
Theorem C11_LinearConstraints_keys_cover_init : keys_cover_init desc_LinearConstraints.
Proof. apply keys_cover_init_spec; vm_compute; reflexivity. Qed.
Print Assumptions C11_LinearConstraints_keys_cover_init.
Theorem C11_LinearConstraints_keys_are_params : keys_are_params desc_LinearConstraints.
Proof. apply keys_are_params_spec; vm_compute; reflexivity. Qed.
Print Assumptions C11_LinearConstraints_keys_are_params.
Theorem C11_LinearConstraints_reads_are_set : reads_are_set desc_LinearConstraints.
Proof. apply reads_are_set_spec; vm_compute; reflexivity. Qed.
Print Assumptions C11_LinearConstraints_reads_are_set.
Theorem C11_LinearConstraints_no_dropped_params : no_dropped_params desc_LinearConstraints.
Proof. apply no_dropped_params_spec; vm_compute; reflexivity. Qed.
Print Assumptions C11_LinearConstraints_no_dropped_params.
Theorem C11_LinearConstraints_roundtrip : roundtrip_for desc_LinearConstraints.
Proof. apply roundtrip_generic; vm_compute; reflexivity. Qed.
Print Assumptions C11_LinearConstraints_roundtrip.
Theorem C11_LinearConstraints_config_stable : config_stable_for desc_LinearConstraints.
Proof. apply config_stable_generic; vm_compute; reflexivity. Qed.
Print Assumptions C11_LinearConstraints_config_stable.

(* ---- parallel_combination_layer.ParallelCombination *)
Theorem C11_ParallelCombination_keys_cover_init : keys_cover_init desc_ParallelCombination.
Proof. apply keys_cover_init_spec; vm_compute; reflexivity. Qed.
Print Assumptions C11_ParallelCombination_keys_cover_init.
Theorem C11_ParallelCombination_keys_are_params : keys_are_params desc_ParallelCombination.
Proof. apply keys_are_params_spec; vm_compute; reflexivity. Qed.
Print Assumptions C11_ParallelCombination_keys_are_params.
Theorem C11_ParallelCombination_reads_are_set : reads_are_set desc_ParallelCombination.
Proof. apply reads_are_set_spec; vm_compute; reflexivity. Qed.
Print Assumptions C11_ParallelCombination_reads_are_set.
Theorem C11_ParallelCombination_no_dropped_params : no_dropped_params desc_ParallelCombination.
Proof. apply no_dropped_params_spec; vm_compute; reflexivity. Qed.
Print Assumptions C11_ParallelCombination_no_dropped_params.
Theorem C11_ParallelCombination_roundtrip : roundtrip_for desc_ParallelCombination.
Proof. apply roundtrip_generic; vm_compute; reflexivity. Qed.
Print Assumptions C11_ParallelCombination_roundtrip.
Theorem C11_ParallelCombination_config_stable : config_stable_for desc_ParallelCombination.
Proof. apply config_stable_generic; vm_compute; reflexivity. Qed.
Print Assumptions C11_ParallelCombination_config_stable.

(* ---- premade.CalibratedLatticeEnsemble *)
Theorem C11_CalibratedLatticeEnsemble_keys_cover_init : keys_cover_init desc_CalibratedLatticeEnsemble.
Proof. apply keys_cover_init_spec; vm_compute; reflexivity. Qed.
Print Assumptions C11_CalibratedLatticeEnsemble_keys_cover_init.
Theorem C11_CalibratedLatticeEnsemble_keys_are_params : keys_are_params desc_CalibratedLatticeEnsemble.
Proof. apply keys_are_params_spec; vm_compute; reflexivity. Qed.
Print Assumptions C11_CalibratedLatticeEnsemble_keys_are_params.
Theorem C11_CalibratedLatticeEnsemble_reads_are_set : reads_are_set desc_CalibratedLatticeEnsemble.
Proof. apply reads_are_set_spec; vm_compute; reflexivity. Qed.
Print Assumptions C11_CalibratedLatticeEnsemble_reads_are_set.
Theorem C11_CalibratedLatticeEnsemble_no_dropped_params : no_dropped_params desc_CalibratedLatticeEnsemble.
Proof. apply no_dropped_params_spec; vm_compute; reflexivity. Qed.
Print Assumptions C11_CalibratedLatticeEnsemble_no_dropped_params.
Theorem C11_CalibratedLatticeEnsemble_roundtrip : roundtrip_for desc_CalibratedLatticeEnsemble.
Proof. apply roundtrip_generic; vm_compute; reflexivity. Qed.
Print Assumptions C11_CalibratedLatticeEnsemble_roundtrip.
Theorem C11_CalibratedLatticeEnsemble_config_stable : config_stable_for desc_CalibratedLatticeEnsemble.
Proof. apply config_stable_generic; vm_compute; reflexivity. Qed.
Print Assumptions C11_CalibratedLatticeEnsemble_config_stable.

(* ---- premade.CalibratedLattice *)
Theorem C11_CalibratedLattice_keys_cover_init : keys_cover_init desc_CalibratedLattice.
Proof. apply keys_cover_init_spec; vm_compute; reflexivity. Qed.
Print Assumptions C11_CalibratedLattice_keys_cover_init.
Theorem C11_CalibratedLattice_keys_are_params : keys_are_params desc_CalibratedLattice.
Proof. apply keys_are_params_spec; vm_compute; reflexivity. Qed.
Print Assumptions C11_CalibratedLattice_keys_are_params.
Theorem C11_CalibratedLattice_reads_are_set : reads_are_set desc_CalibratedLattice.
Proof. apply reads_are_set_spec; vm_compute; reflexivity. Qed.
Print Assumptions C11_CalibratedLattice_reads_are_set.
Theorem C11_CalibratedLattice_no_dropped_params : no_dropped_params desc_CalibratedLattice.
Proof. apply no_dropped_params_spec; vm_compute; reflexivity. Qed.
Print Assumptions C11_CalibratedLattice_no_dropped_params.
Theorem C11_CalibratedLattice_roundtrip : roundtrip_for desc_CalibratedLattice.
Proof. apply roundtrip_generic; vm_compute; reflexivity. Qed.
Print Assumptions C11_CalibratedLattice_roundtrip.
Theorem C11_CalibratedLattice_config_stable : config_stable_for desc_CalibratedLattice.
Proof. apply config_stable_generic; vm_compute; reflexivity. Qed.
Print Assumptions C11_CalibratedLattice_config_stable.

(* ---- premade.CalibratedLinear *)
Theorem C11_CalibratedLinear_keys_cover_init : keys_cover_init desc_CalibratedLinear.
Proof. apply keys_cover_init_spec; vm_compute; reflexivity. Qed.
Print Assumptions C11_CalibratedLinear_keys_cover_init.
Theorem C11_CalibratedLinear_keys_are_params : keys_are_params desc_CalibratedLinear.
Proof. apply keys_are_params_spec; vm_compute; reflexivity. Qed.
Print Assumptions C11_CalibratedLinear_keys_are_params.
Theorem C11_CalibratedLinear_reads_are_set : reads_are_set desc_CalibratedLinear.
Proof. apply reads_are_set_spec; vm_compute; reflexivity. Qed.
Print Assumptions C11_CalibratedLinear_reads_are_set.
Theorem C11_CalibratedLinear_no_dropped_params : no_dropped_params desc_CalibratedLinear.
Proof. apply no_dropped_params_spec; vm_compute; reflexivity. Qed.
Print Assumptions C11_CalibratedLinear_no_dropped_params.
Theorem C11_CalibratedLinear_roundtrip : roundtrip_for desc_CalibratedLinear.
Proof. apply roundtrip_generic; vm_compute; reflexivity. Qed.
Print Assumptions C11_CalibratedLinear_roundtrip.
Theorem C11_CalibratedLinear_config_stable : config_stable_for desc_CalibratedLinear.
Proof. apply config_stable_generic; vm_compute; reflexivity. Qed.
Print Assumptions C11_CalibratedLinear_config_stable.

(* ---- premade.AggregateFunction *)
Theorem C11_AggregateFunction_keys_cover_init : keys_cover_init desc_AggregateFunction.
Proof. apply keys_cover_init_spec; vm_compute; reflexivity. Qed.
Print Assumptions C11_AggregateFunction_keys_cover_init.
Theorem C11_AggregateFunction_keys_are_params : keys_are_params desc_AggregateFunction.
Proof. apply keys_are_params_spec; vm_compute; reflexivity. Qed.
Print Assumptions C11_AggregateFunction_keys_are_params.
Theorem C11_AggregateFunction_reads_are_set : reads_are_set desc_AggregateFunction.
Proof. apply reads_are_set_spec; vm_compute; reflexivity. Qed.
Print Assumptions C11_AggregateFunction_reads_are_set.
Theorem C11_AggregateFunction_no_dropped_params : no_dropped_params desc_AggregateFunction.
Proof. apply no_dropped_params_spec; vm_compute; reflexivity. Qed.
Print Assumptions C11_AggregateFunction_no_dropped_params.
Theorem C11_AggregateFunction_roundtrip : roundtrip_for desc_AggregateFunction.
Proof. apply roundtrip_generic; vm_compute; reflexivity. Qed.
Print Assumptions C11_AggregateFunction_roundtrip.
Theorem C11_AggregateFunction_config_stable : config_stable_for desc_AggregateFunction.
Proof. apply config_stable_generic; vm_compute; reflexivity. Qed.
Print Assumptions C11_AggregateFunction_config_stable.

(* ---- pwl_calibration_layer.PWLCalibration *)
Theorem C11_PWLCalibration_keys_cover_init : keys_cover_init desc_PWLCalibration.
Proof. apply keys_cover_init_spec; vm_compute; reflexivity. Qed.
Print Assumptions C11_PWLCalibration_keys_cover_init.
Theorem C11_PWLCalibration_keys_are_params : keys_are_params desc_PWLCalibration.
Proof. apply keys_are_params_spec; vm_compute; reflexivity. Qed.
Print Assumptions C11_PWLCalibration_keys_are_params.
Theorem C11_PWLCalibration_reads_are_set : reads_are_set desc_PWLCalibration.
Proof. apply reads_are_set_spec; vm_compute; reflexivity. Qed.
Print Assumptions C11_PWLCalibration_reads_are_set.
Theorem C11_PWLCalibration_no_dropped_params : no_dropped_params desc_PWLCalibration.
Proof. apply no_dropped_params_spec; vm_compute; reflexivity. Qed.
Print Assumptions C11_PWLCalibration_no_dropped_params.
Theorem C11_PWLCalibration_roundtrip : roundtrip_for desc_PWLCalibration.
Proof. apply roundtrip_generic; vm_compute; reflexivity. Qed.
Print Assumptions C11_PWLCalibration_roundtrip.
Theorem C11_PWLCalibration_config_stable : config_stable_for desc_PWLCalibration.
Proof. apply config_stable_generic; vm_compute; reflexivity. Qed.
Print Assumptions C11_PWLCalibration_config_stable.

(* ---- pwl_calibration_layer.UniformOutputInitializer *)
Theorem C11_UniformOutputInitializer_keys_cover_init : keys_cover_init desc_UniformOutputInitializer.
Proof. apply keys_cover_init_spec; vm_compute; reflexivity. Qed.
Print Assumptions C11_UniformOutputInitializer_keys_cover_init.
Theorem C11_UniformOutputInitializer_keys_are_params : keys_are_params desc_UniformOutputInitializer.
Proof. apply keys_are_params_spec; vm_compute; reflexivity. Qed.
Print Assumptions C11_UniformOutputInitializer_keys_are_params.
Theorem C11_UniformOutputInitializer_reads_are_set : reads_are_set desc_UniformOutputInitializer.
Proof. apply reads_are_set_spec; vm_compute; reflexivity. Qed.
Print Assumptions C11_UniformOutputInitializer_reads_are_set.
Theorem C11_UniformOutputInitializer_no_dropped_params : no_dropped_params desc_UniformOutputInitializer.
Proof. apply no_dropped_params_spec; vm_compute; reflexivity. Qed.
Print Assumptions C11_UniformOutputInitializer_no_dropped_params.
Theorem C11_UniformOutputInitializer_roundtrip : roundtrip_for desc_UniformOutputInitializer.
Proof. apply roundtrip_generic; vm_compute; reflexivity. Qed.
Print Assumptions C11_UniformOutputInitializer_roundtrip.
Theorem C11_UniformOutputInitializer_config_stable : config_stable_for desc_UniformOutputInitializer.
Proof. apply config_stable_generic; vm_compute; reflexivity. Qed.
Print Assumptions C11_UniformOutputInitializer_config_stable.

(* ---- pwl_calibration_layer.PWLCalibrationConstraints *)
Theorem C11_PWLCalibrationConstraints_keys_cover_init : keys_cover_init desc_PWLCalibrationConstraints.
Proof. apply keys_cover_init_spec; vm_compute; reflexivity. Qed.
Print Assumptions C11_PWLCalibrationConstraints_keys_cover_init.
Theorem C11_PWLCalibrationConstraints_keys_are_params : keys_are_params desc_PWLCalibrationConstraints.
Proof. apply keys_are_params_spec; vm_compute; reflexivity. Qed.
Print Assumptions C11_PWLCalibrationConstraints_keys_are_params.
Theorem C11_PWLCalibrationConstraints_reads_are_set : reads_are_set desc_PWLCalibrationConstraints.
Proof. apply reads_are_set_spec; vm_compute; reflexivity. Qed.
Print Assumptions C11_PWLCalibrationConstraints_reads_are_set.
Theorem C11_PWLCalibrationConstraints_no_dropped_params : no_dropped_params desc_PWLCalibrationConstraints.
Proof. apply no_dropped_params_spec; vm_compute; reflexivity. Qed.
Print Assumptions C11_PWLCalibrationConstraints_no_dropped_params.
Theorem C11_PWLCalibrationConstraints_roundtrip : roundtrip_for desc_PWLCalibrationConstraints.
Proof. apply roundtrip_generic; vm_compute; reflexivity. Qed.
Print Assumptions C11_PWLCalibrationConstraints_roundtrip.
Theorem C11_PWLCalibrationConstraints_config_stable : config_stable_for desc_PWLCalibrationConstraints.
Proof. apply config_stable_generic; vm_compute; reflexivity. Qed.
Print Assumptions C11_PWLCalibrationConstraints_config_stable.

(* ---- pwl_calibration_layer.NaiveBoundsConstraints *)
Theorem C11_NaiveBoundsConstraints_keys_cover_init : keys_cover_init desc_NaiveBoundsConstraints.
Proof. apply keys_cover_init_spec; vm_compute; reflexivity. Qed.
Print Assumptions C11_NaiveBoundsConstraints_keys_cover_init.
Theorem C11_NaiveBoundsConstraints_keys_are_params : keys_are_params desc_NaiveBoundsConstraints.
Proof. apply keys_are_params_spec; vm_compute; reflexivity. Qed.
Print Assumptions C11_NaiveBoundsConstraints_keys_are_params.
Theorem C11_NaiveBoundsConstraints_reads_are_set : reads_are_set desc_NaiveBoundsConstraints.
Proof. apply reads_are_set_spec; vm_compute; reflexivity. Qed.
Print Assumptions C11_NaiveBoundsConstraints_reads_are_set.
Theorem C11_NaiveBoundsConstraints_no_dropped_params : no_dropped_params desc_NaiveBoundsConstraints.
Proof. apply no_dropped_params_spec; vm_compute; reflexivity. Qed.
Print Assumptions C11_NaiveBoundsConstraints_no_dropped_params.
Theorem C11_NaiveBoundsConstraints_roundtrip : roundtrip_for desc_NaiveBoundsConstraints.
Proof. apply roundtrip_generic; vm_compute; reflexivity. Qed.
Print Assumptions C11_NaiveBoundsConstraints_roundtrip.
Theorem C11_NaiveBoundsConstraints_config_stable : config_stable_for desc_NaiveBoundsConstraints.
Proof. apply config_stable_generic; vm_compute; reflexivity. Qed.
Print Assumptions C11_NaiveBoundsConstraints_config_stable.

(* ---- pwl_calibration_layer.LaplacianRegularizer *)
Theorem C11_pwl_calibration_layer_LaplacianRegularizer_keys_cover_init : keys_cover_init desc_pwl_calibration_layer_LaplacianRegularizer.
Proof. apply keys_cover_init_spec; vm_compute; reflexivity. Qed.
Print Assumptions C11_pwl_calibration_layer_LaplacianRegularizer_keys_cover_init.
Theorem C11_pwl_calibration_layer_LaplacianRegularizer_keys_are_params : keys_are_params desc_pwl_calibration_layer_LaplacianRegularizer.
Proof. apply keys_are_params_spec; vm_compute; reflexivity. Qed.
Print Assumptions C11_pwl_calibration_layer_LaplacianRegularizer_keys_are_params.
Theorem C11_pwl_calibration_layer_LaplacianRegularizer_reads_are_set : reads_are_set desc_pwl_calibration_layer_LaplacianRegularizer.
Proof. apply reads_are_set_spec; vm_compute; reflexivity. Qed.
Print Assumptions C11_pwl_calibration_layer_LaplacianRegularizer_reads_are_set.
Theorem C11_pwl_calibration_layer_LaplacianRegularizer_no_dropped_params : no_dropped_params desc_pwl_calibration_layer_LaplacianRegularizer.
Proof. apply no_dropped_params_spec; vm_compute; reflexivity. Qed.
Print Assumptions C11_pwl_calibration_layer_LaplacianRegularizer_no_dropped_params.
Theorem C11_pwl_calibration_layer_LaplacianRegularizer_roundtrip : roundtrip_for desc_pwl_calibration_layer_LaplacianRegularizer.
Proof. apply roundtrip_generic; vm_compute; reflexivity. Qed.
Print Assumptions C11_pwl_calibration_layer_LaplacianRegularizer_roundtrip.
Theorem C11_pwl_calibration_layer_LaplacianRegularizer_config_stable : config_stable_for desc_pwl_calibration_layer_LaplacianRegularizer.
Proof. apply config_stable_generic; vm_compute; reflexivity. Qed.
Print Assumptions C11_pwl_calibration_layer_LaplacianRegularizer_config_stable.

(* ---- pwl_calibration_layer.HessianRegularizer *)
Theorem C11_HessianRegularizer_keys_cover_init : keys_cover_init desc_HessianRegularizer.
Proof. apply keys_cover_init_spec; vm_compute; reflexivity. Qed.
Print Assumptions C11_HessianRegularizer_keys_cover_init.
Theorem C11_HessianRegularizer_keys_are_params : keys_are_params desc_HessianRegularizer.
Proof. apply keys_are_params_spec; vm_compute; reflexivity. Qed.
Print Assumptions C11_HessianRegularizer_keys_are_params.
Theorem C11_HessianRegularizer_reads_are_set : reads_are_set desc_HessianRegularizer.
Proof. apply reads_are_set_spec; vm_compute; reflexivity. Qed.
Print Assumptions C11_HessianRegularizer_reads_are_set.
Theorem C11_HessianRegularizer_no_dropped_params : no_dropped_params desc_HessianRegularizer.
Proof. apply no_dropped_params_spec; vm_compute; reflexivity. Qed.
Print Assumptions C11_HessianRegularizer_no_dropped_params.
Theorem C11_HessianRegularizer_roundtrip : roundtrip_for desc_HessianRegularizer.
Proof. apply roundtrip_generic; vm_compute; reflexivity. Qed.
Print Assumptions C11_HessianRegularizer_roundtrip.
Theorem C11_HessianRegularizer_config_stable : config_stable_for desc_HessianRegularizer.
Proof. apply config_stable_generic; vm_compute; reflexivity. Qed.
Print Assumptions C11_HessianRegularizer_config_stable.

(* ---- pwl_calibration_layer.WrinkleRegularizer *)
Theorem C11_WrinkleRegularizer_keys_cover_init : keys_cover_init desc_WrinkleRegularizer.
Proof. apply keys_cover_init_spec; vm_compute; reflexivity. Qed.
Print Assumptions C11_WrinkleRegularizer_keys_cover_init.
Theorem C11_WrinkleRegularizer_keys_are_params : keys_are_params desc_WrinkleRegularizer.
Proof. apply keys_are_params_spec; vm_compute; reflexivity. Qed.
Print Assumptions C11_WrinkleRegularizer_keys_are_params.
Theorem C11_WrinkleRegularizer_reads_are_set : reads_are_set desc_WrinkleRegularizer.
Proof. apply reads_are_set_spec; vm_compute; reflexivity. Qed.
Print Assumptions C11_WrinkleRegularizer_reads_are_set.
Theorem C11_WrinkleRegularizer_no_dropped_params : no_dropped_params desc_WrinkleRegularizer.
Proof. apply no_dropped_params_spec; vm_compute; reflexivity. Qed.
Print Assumptions C11_WrinkleRegularizer_no_dropped_params.
Theorem C11_WrinkleRegularizer_roundtrip : roundtrip_for desc_WrinkleRegularizer.
Proof. apply roundtrip_generic; vm_compute; reflexivity. Qed.
Print Assumptions C11_WrinkleRegularizer_roundtrip.
Theorem C11_WrinkleRegularizer_config_stable : config_stable_for desc_WrinkleRegularizer.
Proof. apply config_stable_generic; vm_compute; reflexivity. Qed.
Print Assumptions C11_WrinkleRegularizer_config_stable.

(* ---- rtl_layer.RTL *)
Theorem C11_RTL_keys_cover_init : keys_cover_init desc_RTL.
Proof. apply keys_cover_init_spec; vm_compute; reflexivity. Qed.
Print Assumptions C11_RTL_keys_cover_init.
Theorem C11_RTL_keys_are_params : keys_are_params desc_RTL.
Proof. apply keys_are_params_spec; vm_compute; reflexivity. Qed.
Print Assumptions C11_RTL_keys_are_params.
Theorem C11_RTL_reads_are_set : reads_are_set desc_RTL.
Proof. apply reads_are_set_spec; vm_compute; reflexivity. Qed.
Print Assumptions C11_RTL_reads_are_set.
Theorem C11_RTL_no_dropped_params : no_dropped_params desc_RTL.
Proof. apply no_dropped_params_spec; vm_compute; reflexivity. Qed.
Print Assumptions C11_RTL_no_dropped_params.
Theorem C11_RTL_roundtrip : roundtrip_for desc_RTL.
Proof. apply roundtrip_generic; vm_compute; reflexivity. Qed.
Print Assumptions C11_RTL_roundtrip.
Theorem C11_RTL_config_stable : config_stable_for desc_RTL.
Proof. apply config_stable_generic; vm_compute; reflexivity. Qed.
Print Assumptions C11_RTL_config_stable.

(* the constructor arguments from which the seed-derived structure of CalibratedLatticeEnsembleConfig is computed
   (attributes read by premade_lib.set_random_lattice_ensemble) are stored verbatim and survive the round trip; the structure is a
   function of them (C17 model), hence equal after rebuilding *)
Theorem C11_random_ensemble_deterministic : attrs_survive desc_CalibratedLatticeEnsembleConfig ["lattice_rank"; "lattices"; "num_lattices"; "random_seed"].
Proof. apply attrs_survive_generic; vm_compute; reflexivity. Qed.
Print Assumptions C11_random_ensemble_deterministic.

(* the constructor arguments from which the seed-derived structure of RTL is computed
   (attributes read by RTL._get_rtl_structure) are stored verbatim and survive the round trip; the structure is a
   function of them (C17 model), hence equal after rebuilding *)
Theorem C11_rtl_structure_deterministic : attrs_survive desc_RTL ["avoid_intragroup_interaction"; "lattice_rank"; "num_lattices"; "random_seed"].
Proof. apply attrs_survive_generic; vm_compute; reflexivity. Qed.
Print Assumptions C11_rtl_structure_deterministic.

(* every layer, model and model-config class is registered under its own name in
   premade.get_custom_objects (needed by keras.models.load_model) *)
Theorem C11_registry_covers_layers : registry_covers_layers custom_objects all_classes.
Proof. apply registry_covers_layers_spec; vm_compute; reflexivity. Qed.
Print Assumptions C11_registry_covers_layers.
(* ... and every other class too, except regularizers / initializers of pwl_calibration_layer,
   which PWLCalibration.__init__ resolves in its own custom_object_scope *)
Theorem C11_registry_covers_all_but_pwl_scoped : registry_covers_but_pwl custom_objects all_classes.
Proof. apply registry_covers_but_pwl_spec; vm_compute; reflexivity. Qed.
Print Assumptions C11_registry_covers_all_but_pwl_scoped.

(* Known finding D23: a constructor parameter that reaches no attribute and no config key
   (the unguarded statement `c_dropped d = []` is false of the source as written). *)
Theorem C11_no_dropped_params_refuted :
  exists d p, In d all_classes /\ In p (param_names d) /\ In p (c_dropped d) /\ ~ In p (emit_keys d).
Proof.
  exists desc_CalibratedLatticeEnsemble, "dtype". split.
  { unfold all_classes. do 27 apply in_cons. apply in_eq. }
  split; [apply mem_In; vm_compute; reflexivity|]. split; [apply mem_In; vm_compute; reflexivity|].
  apply mem_false_not_In. vm_compute. reflexivity.
Qed.
Print Assumptions C11_no_dropped_params_refuted.
