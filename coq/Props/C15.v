(* C15 — Conditional calibration and CDF functions are bounded, monotone by
   construction.  Property theorems only; proofs live in Proofs/CondPWL.v and
   Proofs/CDF.v.  softmax / sigmoid / exp / log are universally quantified
   oracles constrained only by the stated hypotheses:
     softmax_ok  : same length, entries >= 0 (zeros allowed: float underflow), sum 1
     softmax_pos : entries > 0 (mathematical softmax)
     sigmoid_ok  : values in [0,1];  sigmoid_mono_ok : additionally non-decreasing
     explog_ok   : exp, log non-decreasing, exp (log a) == a for a > 0
   pwl_row is one (example, unit) slice of pwl_calibration_fn; pwl_fn is the whole
   function with the size check and broadcasting (C15_pwl_fn_entry connects them). *)
From TFL Require Import Model.CondPWL Model.CDF Proofs.CondPWL Proofs.CDF.
Open Scope Q_scope.

(* ---- pwl_calibration_fn ------------------------------------------------------ *)

(* Every entry of the output of an accepted call is pwl_row of the broadcast slices. *)
Theorem C15_pwl_fn_entry : forall sm sg c inputs kip kop out b u,
  pwl_fn sm sg c inputs kip kop = Some out -> (b < length out)%nat -> (u < p_units c)%nat ->
  nth u (nth b out []) 0 =
  pwl_row sm sg c (slice_kip c kip b u) (slice_kop c kop b u) (slice_x c inputs b u).
Proof. exact pwl_fn_entry. Qed.
Print Assumptions C15_pwl_fn_entry.

(* Output in [keypoint_output_min, keypoint_output_max] for every input (inside,
   outside the keypoints, missing with a derived missing output), both
   monotonicity modes, any parameters, zero gaps allowed.  With a GIVEN
   missing_output_value the missing input maps to that value (C15_pwl_missing). *)
Theorem C15_pwl_bounds : forall sm sg c kip kop x,
  softmax_ok sm -> sigmoid_ok sg -> p_imin c <= p_imax c -> p_omin c <= p_omax c ->
  kos_of sm sg c kop <> [] -> (p_mout c = None \/ not_missing c x) ->
  p_omin c <= pwl_row sm sg c kip kop x <= p_omax c.
Proof. exact T_pwl_bounds. Qed.
Print Assumptions C15_pwl_bounds.

(* The same for every entry of the whole function: acceptance by the size check
   supplies the hypotheses on the configuration and the sizes. *)
Theorem C15_pwl_fn_bounds : forall sm sg c inputs kip kop out b u,
  softmax_ok sm -> sigmoid_ok sg -> rect_kop kop ->
  pwl_fn sm sg c inputs kip kop = Some out -> (b < length out)%nat -> (u < p_units c)%nat ->
  (p_mout c = None \/ not_missing c (slice_x c inputs b u)) ->
  p_omin c <= nth u (nth b out []) 0 <= p_omax c.
Proof. exact pwl_fn_bounds. Qed.
Print Assumptions C15_pwl_fn_bounds.

(* 'increasing' (anything but 'none'): non-decreasing for EVERY pair x <= y. *)
Theorem C15_pwl_monotone : forall sm sg c kip kop x y,
  softmax_ok sm -> sigmoid_ok sg -> p_imin c <= p_imax c -> p_omin c <= p_omax c ->
  is_none c = false -> not_missing c x -> not_missing c y -> x <= y ->
  pwl_row sm sg c kip kop x <= pwl_row sm sg c kip kop y.
Proof. exact T_pwl_monotone. Qed.
Print Assumptions C15_pwl_monotone.

(* Clamps, parameter level: the derived [y0, delta_1, ...] start at output_min
   (clamp_min) and sum to exactly output_max (clamp_max): sum softmax = 1. *)
Theorem C15_pwl_clamps_params : forall sm sg c kop,
  softmax_ok sm -> sigmoid_ok sg -> p_omin c <= p_omax c -> is_none c = false -> kos_of sm sg c kop <> [] ->
  (p_cmin c = true -> hd 0 (kos_of sm sg c kop) == p_omin c) /\
  (p_cmax c = true -> qsum (kos_of sm sg c kop) == p_omax c).
Proof. exact T_pwl_clamps_params. Qed.
Print Assumptions C15_pwl_clamps_params.

(* Clamps, function level.  clamp_min: f(x) = output_min for every x <= input_min.
   clamp_max: f(x) = output_max for every x > input_max, and AT input_max when
   the gaps are strictly positive (a zero last gap is a step that is
   left-continuous in the code: LIMITS). *)
Theorem C15_pwl_clamps : forall sm sg c kip kop x,
  softmax_ok sm -> sigmoid_ok sg -> p_imin c <= p_imax c -> p_omin c <= p_omax c ->
  is_none c = false -> row_sized sm sg c kip kop -> not_missing c x ->
  (p_cmin c = true -> x <= p_imin c -> pwl_row sm sg c kip kop x == p_omin c) /\
  (p_cmax c = true -> right_of sm c x -> pwl_row sm sg c kip kop x == p_omax c).
Proof. exact T_pwl_clamps. Qed.
Print Assumptions C15_pwl_clamps.

(* Cyclic: the first and the last keypoint output are equal, and so are the
   function values at (or beyond) both ends. *)
Theorem C15_pwl_cyclic : forall sm sg c kip kop x y,
  softmax_ok sm -> sigmoid_ok sg -> p_imin c <= p_imax c -> p_omin c <= p_omax c ->
  is_none c = true -> p_cyc c = true ->
  qsum (kos_of sm sg c kop) == hd 0 (kos_of sm sg c kop) /\
  (row_sized sm sg c kip kop -> not_missing c x -> not_missing c y -> x <= p_imin c -> right_of sm c y ->
   pwl_row sm sg c kip kop x == pwl_row sm sg c kip kop y).
Proof. exact T_pwl_cyclic. Qed.
Print Assumptions C15_pwl_cyclic.

(* The missing input maps to the missing output: the given value, or
   output_min + sigmoid(last parameter) * range. *)
Theorem C15_pwl_missing : forall sm sg c kip kop x m,
  p_min c = Some m -> x == m ->
  pwl_row sm sg c kip kop x =
  match p_mout c with Some v => v | None => p_omin c + sg (last kop 0) * rng_out c end.
Proof. exact pwl_row_missing. Qed.
Print Assumptions C15_pwl_missing.

(* The size check accepts exactly the documented output_param_size, for every
   form of keypoint_input_parameters including None (2 keypoints), every valid
   flag combination, and the forms of keypoint_output_parameters it lets through
   (rank 2 only for units <= 1; rank 3 with second dimension = units). *)
Theorem C15_param_sizes : forall c inputs kip kop,
  cfg_valid c -> kop_form_ok c kop -> inputs_form_ok c inputs ->
  (verify c inputs kip kop = true <->
   (Z.of_nat (plast kop) = doc_output_size c (num_keypoints kip) /\ (0 < doc_output_size c (num_keypoints kip))%Z)).
Proof. exact verify_sizes. Qed.
Print Assumptions C15_param_sizes.

(* ... and an accepted call has, in every slice, as many derived outputs as keypoints. *)
Theorem C15_param_sizes_slices : forall sm sg c inputs kip kop out b u,
  softmax_ok sm -> rect_kip kip -> rect_kop kop ->
  pwl_fn sm sg c inputs kip kop = Some out -> (b < length out)%nat -> (u < p_units c)%nat ->
  row_sized sm sg c (slice_kip c kip b u) (slice_kop c kop b u).
Proof. exact pwl_fn_row_sized. Qed.
Print Assumptions C15_param_sizes_slices.

(* The docstring also lists (batch, 1, output_param_size) ("1 or units") for
   units > 1; the check rejects it (the tile branch for it is dead code). *)
Theorem C15_param_forms_refuted : exists c inputs kip kop,
  cfg_valid c /\ p_units c = 2%nat /\ kop = P3 [[[0; 0]]] /\ kip = None
  /\ Z.of_nat (plast kop) = doc_output_size c (num_keypoints kip)
  /\ verify c inputs kip kop = false.
Proof. exact T_param_forms_refuted. Qed.
Print Assumptions C15_param_forms_refuted.

(* ---- cdf_fn -------------------------------------------------------------------- *)
(* reductions 'mean' and 'none': every output in [0, 1], any parameters, any
   scaling (also negative), both activations *)
Theorem C15_cdf_range : forall sg ex lg a r units sf expm x loc scal out,
  sigmoid_mono_ok sg -> red_plain r ->
  cdf_fn sg ex lg a r units sf expm x loc scal = Some out -> all_in 0 1 out.
Proof. exact T_cdf_range. Qed.
Print Assumptions C15_cdf_range.

(* 'geometric_mean': what the code guarantees is [eps, 1 + eps], eps = 1e-8 *)
Theorem C15_cdf_range_geometric : forall sg ex lg a units sf expm x loc scal out,
  sigmoid_mono_ok sg -> explog_ok ex lg -> x <> [] ->
  cdf_fn sg ex lg a RGeo units sf expm x loc scal = Some out -> all_in eps_fn (1 + eps_fn) out.
Proof. exact T_cdf_range_geometric. Qed.
Print Assumptions C15_cdf_range_geometric.

(* non-negative effective scaling (none given, all entries >= 0, or the exp
   transform): non-decreasing in every input, for every pair of points, every
   reduction, every sparsity factor *)
Theorem C15_cdf_monotone : forall sg ex lg a r units sf expm x x' loc scal out out',
  sigmoid_mono_ok sg -> explog_ok ex lg -> scal_nonneg ex expm scal -> vle x x' ->
  cdf_fn sg ex lg a r units sf expm x loc scal = Some out ->
  cdf_fn sg ex lg a r units sf expm x' loc scal = Some out' -> mle out out'.
Proof. exact T_cdf_monotone. Qed.
Print Assumptions C15_cdf_monotone.

(* ---- tfl.layers.CDF -------------------------------------------------------------- *)
Theorem C15_cdf_layer_range : forall sg ex lg a r units sf kernel scaling x out,
  sigmoid_mono_ok sg -> red_plain r ->
  cdf_layer sg ex lg a r units sf kernel scaling x = Some out -> all_in 0 1 out.
Proof. exact T_cdf_layer_range. Qed.
Print Assumptions C15_cdf_layer_range.

(* eps = 1e-3 in the layer; for an input as wide as the kernel *)
Theorem C15_cdf_layer_range_geometric : forall sg ex lg a units sf kernel scaling x out,
  sigmoid_mono_ok sg -> explog_ok ex lg -> length x = length kernel -> x <> [] ->
  cdf_layer sg ex lg a RGeo units sf kernel scaling x = Some out -> all_in eps_layer (1 + eps_layer) out.
Proof. exact T_cdf_layer_range_geometric. Qed.
Print Assumptions C15_cdf_layer_range_geometric.

Theorem C15_cdf_layer_monotone : forall sg ex lg a r units sf kernel scaling x x' out out',
  sigmoid_mono_ok sg -> explog_ok ex lg -> (forall v, In v scaling -> 0 <= v) -> vle x x' ->
  cdf_layer sg ex lg a r units sf kernel scaling x = Some out ->
  cdf_layer sg ex lg a r units sf kernel scaling x' = Some out' -> mle out out'.
Proof. exact T_cdf_layer_monotone. Qed.
Print Assumptions C15_cdf_layer_monotone.

(* the NonNeg constraint of the learned input scaling yields such a scaling *)
Theorem C15_cdf_nonneg_constraint : forall w v, In v (nonneg w) -> 0 <= v.
Proof. exact nonneg_all. Qed.
Print Assumptions C15_cdf_nonneg_constraint.

(* ---- the hypotheses are satisfiable ---------------------------------------------- *)
Example C15_ex_softmax : softmax_ok ex_softmax /\ softmax_pos ex_softmax.
Proof. exact ex_softmax_ok. Qed.
Example C15_ex_sigmoid : sigmoid_ok (fun _ => 1 # 2) /\ sigmoid_mono_ok (fun _ => 1 # 2).
Proof. exact T_ex_sigmoid. Qed.
Example C15_ex_explog : explog_ok (fun z => z) (fun z => z) /\ exp_pos (fun _ => 1).
Proof. exact T_ex_explog. Qed.
(* an accepted 3-keypoint increasing call with both clamps: sizes, bounds, clamps *)
Example C15_ex_call :
  let c := mkP 0 1 0 1 1 MonoInc true true false None None in
  cfg_valid c /\ verify c [[1 # 2]] (Some (P2 [[0]])) (P2 [[0]]) = true /\
  row_sized ex_softmax (fun _ => 1 # 2) c (Some [0]) [0] /\
  pwl_fn ex_softmax (fun _ => 1 # 2) c [[1 # 2]; [1]; [-1 # 1]] (Some (P2 [[0]])) (P2 [[0]])
    = Some [[4 # 8]; [8 # 8]; [0 # 4]].
Proof. exact T_ex_call. Qed.
Example C15_ex_cdf : cdf_fn (fun _ => 1 # 2) (fun z => z) (fun z => z) Relu6 RMean 1 1 None [1; 1 # 2]
    [[[0]; [1]]; [[0]; [0]]] (Some [[[2]]; [[2]]]) = Some [[192 # 1152]].
Proof. exact T_ex_cdf. Qed.

(* ---- pwl_calibration_fn: totality at the function level ------------------------------ *)
(* C15_param_sizes is about the size check only; pwl_fn has one more way to return
   None, the broadcasting test.  For tensors of the documented shapes
     inputs (batch, 1) or (batch, units);
     keypoint_input_parameters None, rank 2, or (1 or batch, 1 or units, size);
     keypoint_output_parameters in a form the size check lets through;
     every batch axis non-empty and equal to 1 or to a common B
   the WHOLE function returns a value exactly for the documented output_param_size. *)
From TFL Require Import Proofs.CondPWLTotal.

Theorem C15_pwl_fn_total : forall sm sg c inputs kip kop,
  cfg_valid c -> kop_form_ok c kop -> kip_doc_form c kip -> inputs_doc_form c inputs ->
  nonempty_batch inputs kip kop -> batch_bcast inputs kip kop ->
  ((exists out, pwl_fn sm sg c inputs kip kop = Some out) <->
   (Z.of_nat (plast kop) = doc_output_size c (num_keypoints kip) /\ (0 < doc_output_size c (num_keypoints kip))%Z)).
Proof. exact T_pwl_fn_total. Qed.
Print Assumptions C15_pwl_fn_total.

(* The exact domain of the function (no hypothesis on the configuration or the
   forms): a value is returned iff the size check accepts AND the shapes are the
   documented broadcastable ones; nothing else makes the model return None. *)
Theorem C15_pwl_fn_total_iff : forall sm sg c inputs kip kop, nonempty_batch inputs kip kop ->
  ((exists out, pwl_fn sm sg c inputs kip kop = Some out) <->
   (verify c inputs kip kop = true /\ batch_bcast inputs kip kop
    /\ kip_doc_form c kip /\ inputs_doc_form c inputs)).
Proof. exact T_pwl_fn_total_iff. Qed.
Print Assumptions C15_pwl_fn_total_iff.

(* ... and the value has the documented shape (broadcast batch, units). *)
Theorem C15_pwl_fn_shape : forall sm sg c inputs kip kop out, pwl_fn sm sg c inputs kip kop = Some out ->
  length out = Nat.max (length inputs) (Nat.max (kip_blen kip) (blen kop))
  /\ forall row, In row out -> length row = p_units c.
Proof. exact T_pwl_fn_shape. Qed.
Print Assumptions C15_pwl_fn_shape.

(* hypotheses of C15_pwl_fn_total are satisfiable: units = 2, batch 3, inputs (3,1),
   keypoint_input_parameters (1,1,1), keypoint_output_parameters (3,2,2), cyclic *)
Example C15_ex_total :
  cfg_valid ex_total_c /\ kop_form_ok ex_total_c ex_total_kop /\ kip_doc_form ex_total_c ex_total_kip
  /\ inputs_doc_form ex_total_c ex_total_inputs /\ nonempty_batch ex_total_inputs ex_total_kip ex_total_kop
  /\ batch_bcast ex_total_inputs ex_total_kip ex_total_kop
  /\ Z.of_nat (plast ex_total_kop) = doc_output_size ex_total_c (num_keypoints ex_total_kip)
  /\ rect_kip ex_total_kip /\ rect_kop ex_total_kop
  /\ exists out, pwl_fn ex_softmax (fun _ => 1 # 2) ex_total_c ex_total_inputs ex_total_kip ex_total_kop = Some out
       /\ length out = 3%nat.
Proof. exact T_ex_total. Qed.
