(* C16 — Configurations are rejected up front or handled totally and finitely;
   synonymous spellings configure identical behaviour.

   Property theorems only.  They are about the functions of Gen/GenCanon.v,
   which harness/translators/gen_canon.py regenerates from /repo's utils.py on
   every run, over the Python value universe of Model/PyVal.v
   (None | bool | int | finite float | ASCII str | list | tuple, nested).
   A canonicaliser's outcome is  Ok v | ValueError | OtherError <class>;
   "total" means the third outcome is impossible.  Proofs: Proofs/Canon.v.

   The accept/reject decision functions of Model/Verify.v and the cross product
   of constructor arguments are tied to the implementation by the
   correspondence check (Harness/H_C16.v, harness/props/c16.py), not proved. *)
From TFL Require Import Model.PyVal Gen.GenCanon Proofs.Canon.
Open Scope string_scope.

(* ---- synonymous spellings ------------------------------------------------ *)
(* any case spelling of 'increasing' is 1, of 'decreasing' is -1, of 'none' is 0,
   for either value of allow_decreasing *)
Theorem C16_monotonicity_synonyms : forall s ad,
  (lower s = "increasing" -> canonicalize_monotonicity (VStr s) ad = canonicalize_monotonicity (VInt 1) ad) /\
  (lower s = "decreasing" -> canonicalize_monotonicity (VStr s) ad = canonicalize_monotonicity (VInt (-1)) ad) /\
  (lower s = "none" -> canonicalize_monotonicity (VStr s) ad = canonicalize_monotonicity (VInt 0) ad).
Proof. exact gen_monotonicity_synonyms. Qed.
Print Assumptions C16_monotonicity_synonyms.
Example C16_spellings_exist :
  lower "Increasing" = "increasing" /\ lower "INCREASING" = "increasing" /\ lower "increasing" = "increasing" /\
  lower "Peak" = "peak" /\ lower "POSITIVE" = "positive".
Proof. repeat split. Qed.

(* the canonical values themselves, the rejected ones, and allow_decreasing *)
Theorem C16_monotonicity_values :
  canonicalize_monotonicity (VInt 1) (VBool true) = Ok (VInt 1) /\
  canonicalize_monotonicity (VInt (-1)) (VBool true) = Ok (VInt (-1)) /\
  canonicalize_monotonicity (VInt 0) (VBool true) = Ok (VInt 0) /\
  canonicalize_monotonicity VNone (VBool true) = Ok VNone /\
  canonicalize_monotonicity (VInt (-1)) (VBool false) = ValueError /\
  canonicalize_monotonicity (VStr "Decreasing") (VBool false) = ValueError /\
  canonicalize_monotonicity (VInt 2) (VBool true) = ValueError /\
  canonicalize_monotonicity (VStr "up") (VBool true) = ValueError.
Proof. exact gen_monotonicity_values. Qed.
Print Assumptions C16_monotonicity_values.

(* element-wise synonymous lists canonicalise identically; a tuple of
   monotonicities behaves as the list *)
Theorem C16_monotonicities_synonyms : forall l1 l2 ad,
  Forall2 syn_monotonicity l1 l2 ->
  canonicalize_monotonicities (VList l1) ad = canonicalize_monotonicities (VList l2) ad /\
  canonicalize_monotonicities (VTuple l1) ad = canonicalize_monotonicities (VList l2) ad.
Proof. exact gen_monotonicities_synonyms. Qed.
Print Assumptions C16_monotonicities_synonyms.
Example C16_syn_monotonicity_exists :
  Forall2 syn_monotonicity [VStr "Increasing"; VStr "none"; VInt 1] [VInt 1; VInt 0; VInt 1].
Proof.
  constructor; [|constructor; [|constructor; [|constructor]]].
  - right. left. split; [exists "Increasing"; split; reflexivity|reflexivity].
  - right. right. right. split; [exists "none"; split; reflexivity|reflexivity].
  - left. reflexivity.
Qed.

Theorem C16_convexity_synonyms : forall s,
  (lower s = "convex" -> canonicalize_convexity (VStr s) = canonicalize_convexity (VInt 1)) /\
  (lower s = "concave" -> canonicalize_convexity (VStr s) = canonicalize_convexity (VInt (-1))) /\
  (lower s = "none" -> canonicalize_convexity (VStr s) = canonicalize_convexity (VInt 0)).
Proof. exact gen_convexity_synonyms. Qed.
Print Assumptions C16_convexity_synonyms.

(* 'valley' / 1, 'peak' / -1, 'none' / 0 *)
Theorem C16_unimodalities_synonyms : forall l1 l2,
  Forall2 syn_unimodality l1 l2 ->
  canonicalize_unimodalities (VList l1) = canonicalize_unimodalities (VList l2) /\
  canonicalize_unimodalities (VTuple l1) = canonicalize_unimodalities (VList l2).
Proof. exact gen_unimodalities_synonyms. Qed.
Print Assumptions C16_unimodalities_synonyms.

(* 'positive' / 1, 'negative' / -1; an entry written as a list (JSON round trip)
   or as a tuple; the collection of entries written as a list or as a tuple *)
Theorem C16_trust_synonyms : forall l1 l2,
  Forall2 syn_trust l1 l2 ->
  canonicalize_trust (VList l1) = canonicalize_trust (VList l2) /\
  canonicalize_trust (VTuple l1) = canonicalize_trust (VList l2).
Proof. exact gen_trust_synonyms. Qed.
Print Assumptions C16_trust_synonyms.
Example C16_syn_trust_exists :
  Forall2 syn_trust [VList [VInt 0; VInt 1; VStr "Positive"]] [VTuple [VInt 0; VInt 1; VInt 1]].
Proof.
  constructor; [|constructor]. exists (VInt 0), (VInt 1), (VStr "Positive"), (VInt 1).
  split; [left; reflexivity|]. split; [right; reflexivity|].
  right. left. split; [exists "Positive"; split; reflexivity|reflexivity].
Qed.

(* ---- idempotence: canonicalising a canonical value returns it ------------- *)
Theorem C16_monotonicity_idempotent : forall v ad w,
  canonicalize_monotonicity v ad = Ok w -> canonicalize_monotonicity w ad = Ok w.
Proof. exact gen_monotonicity_idempotent. Qed.
Print Assumptions C16_monotonicity_idempotent.

Theorem C16_convexity_idempotent : forall v w,
  canonicalize_convexity v = Ok w -> canonicalize_convexity w = Ok w.
Proof. exact gen_convexity_idempotent. Qed.
Print Assumptions C16_convexity_idempotent.

Theorem C16_monotonicities_idempotent : forall v ad w,
  canonicalize_monotonicities v ad = Ok w -> canonicalize_monotonicities w ad = Ok w.
Proof. exact gen_monotonicities_idempotent. Qed.
Print Assumptions C16_monotonicities_idempotent.

Theorem C16_unimodalities_idempotent : forall v w,
  canonicalize_unimodalities v = Ok w -> canonicalize_unimodalities w = Ok w.
Proof. exact gen_unimodalities_idempotent. Qed.
Print Assumptions C16_unimodalities_idempotent.

Theorem C16_trust_idempotent : forall v w,
  canonicalize_trust v = Ok w -> canonicalize_trust w = Ok w.
Proof. exact gen_trust_idempotent. Qed.
Print Assumptions C16_trust_idempotent.

Theorem C16_input_bounds_idempotent : forall v w,
  canonicalize_input_bounds v = Ok w -> canonicalize_input_bounds w = Ok w.
Proof. exact gen_input_bounds_idempotent. Qed.
Print Assumptions C16_input_bounds_idempotent.

(* ---- totality inside the universe ----------------------------------------- *)
(* The scalar canonicalisers return or raise ValueError on EVERY value of the
   universe (no AttributeError from .lower() on a non-string, no TypeError):
   the outcome OtherError is unreachable. *)
Theorem C16_monotonicity_total : forall v ad,
  (exists w, canonicalize_monotonicity v ad = Ok w) \/ canonicalize_monotonicity v ad = ValueError.
Proof. exact gen_monotonicity_total. Qed.
Print Assumptions C16_monotonicity_total.

Theorem C16_convexity_total : forall v,
  (exists w, canonicalize_convexity v = Ok w) \/ canonicalize_convexity v = ValueError.
Proof. exact gen_convexity_total. Qed.
Print Assumptions C16_convexity_total.

(* The list canonicalisers are total on arguments of the documented type: None,
   or a list / tuple (a string is iterated character-wise and rejected) with
   ARBITRARY elements of the universe. *)
Theorem C16_monotonicities_total : forall v ad, listlike v ->
  (exists w, canonicalize_monotonicities v ad = Ok w) \/ canonicalize_monotonicities v ad = ValueError.
Proof. exact gen_monotonicities_total. Qed.
Print Assumptions C16_monotonicities_total.

Theorem C16_unimodalities_total : forall v, listlike v ->
  (exists w, canonicalize_unimodalities v = Ok w) \/ canonicalize_unimodalities v = ValueError.
Proof. exact gen_unimodalities_total. Qed.
Print Assumptions C16_unimodalities_total.

Theorem C16_input_bounds_total : forall v, listlike v ->
  (exists w, canonicalize_input_bounds v = Ok w) \/ canonicalize_input_bounds v = ValueError.
Proof. exact gen_input_bounds_total. Qed.
Print Assumptions C16_input_bounds_total.

(* trusts: every entry must be a sized container (list, tuple or string) *)
Theorem C16_trust_total : forall v, listlike v ->
  (forall l, py_iter v = Ok l -> Forall sized l) ->
  (exists w, canonicalize_trust v = Ok w) \/ canonicalize_trust v = ValueError.
Proof. exact gen_trust_total. Qed.
Print Assumptions C16_trust_total.
Example C16_trust_total_hyp : listlike (VList [VList [VInt 0; VInt 1; VInt 1]; VTuple []]) /\
  (forall l, py_iter (VList [VList [VInt 0; VInt 1; VInt 1]; VTuple []]) = Ok l -> Forall sized l).
Proof. split; [exact I|]. intros l H. inversion H. repeat constructor. Qed.

(* Where the universe of the totality theorems ends (NOT findings: arguments of
   an undocumented Python type): a scalar where a list is documented, and a
   single trust written as a LIST of three ints (only the tuple form is
   documented) raise TypeError. *)
Theorem C16_total_boundary_refuted :
  canonicalize_monotonicities (VInt 1) (VBool true) = OtherError "TypeError" /\
  canonicalize_unimodalities (VBool true) = OtherError "TypeError" /\
  canonicalize_trust (VList [VInt 0; VInt 1; VInt 1]) = OtherError "TypeError" /\
  canonicalize_trust (VList [VNone]) = OtherError "TypeError".
Proof. exact gen_total_boundary. Qed.
Print Assumptions C16_total_boundary_refuted.

(* ---- canonical ranges ------------------------------------------------------ *)
(* Ok results are None or (numerically) one of -1, 0, 1; with
   allow_decreasing = False never -1; strings give exactly the ints *)
Theorem C16_canonical_range_monotonicity : forall v ad w, canonicalize_monotonicity v ad = Ok w ->
  (w = VNone \/ in3 w = true) /\ (py_truthy ad = false -> py_eq w (VInt (-1)) = false).
Proof. exact gen_monotonicity_range. Qed.
Print Assumptions C16_canonical_range_monotonicity.

Theorem C16_canonical_range_monotonicity_str : forall s ad w, canonicalize_monotonicity (VStr s) ad = Ok w ->
  w = VInt (-1) \/ w = VInt 0 \/ w = VInt 1.
Proof. exact gen_monotonicity_range_str. Qed.
Print Assumptions C16_canonical_range_monotonicity_str.

Theorem C16_canonical_range_convexity : forall v w, canonicalize_convexity v = Ok w ->
  w = VNone \/ in3 w = true.
Proof. exact gen_convexity_range. Qed.
Print Assumptions C16_canonical_range_convexity.

Theorem C16_canonical_range_monotonicities : forall v ad w, canonicalize_monotonicities v ad = Ok w ->
  w = VNone \/ exists ys, w = VList ys /\ ys <> [] /\
    Forall (fun y => (y = VNone \/ in3 y = true) /\ (py_truthy ad = false -> py_eq y (VInt (-1)) = false)) ys.
Proof. exact gen_monotonicities_range. Qed.
Print Assumptions C16_canonical_range_monotonicities.

Theorem C16_canonical_range_unimodalities : forall v w, canonicalize_unimodalities v = Ok w ->
  w = VNone \/ exists ys, w = VList ys /\ ys <> [] /\ Forall (fun y => in3 y = true) ys.
Proof. exact gen_unimodalities_range. Qed.
Print Assumptions C16_canonical_range_unimodalities.

(* trust: a list of TUPLES (a, b, d) with d (numerically) in {-1, 1} *)
Theorem C16_canonical_range_trust : forall v w, canonicalize_trust v = Ok w ->
  w = VNone \/ exists ys, w = VList ys /\ ys <> [] /\ Forall canonical_trust_entry ys.
Proof. exact gen_trust_range. Qed.
Print Assumptions C16_canonical_range_trust.

Theorem C16_canonical_range_input_bounds : forall v w, canonicalize_input_bounds v = Ok w ->
  w = VNone \/ exists ys, w = VList ys /\ ys <> [] /\ Forall (fun y => is_float y = true \/ y = VNone) ys.
Proof. exact gen_input_bounds_range. Qed.
Print Assumptions C16_canonical_range_input_bounds.

(* ---- D12: canonical trust entries are tuples (hashable) -------------------- *)
Theorem C16_trust_canonical_is_tuple : forall v ys,
  canonicalize_trust v = Ok (VList ys) -> Forall (fun e => is_tuple e = true) ys.
Proof. exact gen_trust_is_tuple. Qed.
Print Assumptions C16_trust_canonical_is_tuple.

(* ... in particular when the entry was given as a list with an integer
   direction (the case that used to stay a list) *)
Theorem C16_trust_list_entry_becomes_tuple :
  canonicalize_trust (VList [VList [VInt 0; VInt 1; VInt 1]]) = Ok (VList [VTuple [VInt 0; VInt 1; VInt 1]]) /\
  canonicalize_trust (VList [VList [VInt 0; VInt 1; VStr "Negative"]]) = Ok (VList [VTuple [VInt 0; VInt 1; VInt (-1)]]).
Proof. exact gen_trust_list_entry. Qed.
Print Assumptions C16_trust_list_entry_becomes_tuple.

(* ---- count_non_zeros on canonical lists ------------------------------------ *)
Theorem C16_count_non_zeros : forall os : list (option (list Z)),
  count_non_zeros (VTuple (map opt_zlist os)) =
  Ok (VInt (fold_right (fun o s => match o with None => 0 | Some l => count_nz l end + s) 0 os))%Z.
Proof. exact gen_count_ints. Qed.
Print Assumptions C16_count_non_zeros.
