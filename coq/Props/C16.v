(* C16 — Configurations are rejected up front or handled totally and finitely;
   synonymous spellings configure identical behaviour.

   Property theorems only.  They are about the functions of Gen/GenCanon.v,
   which harness/translators/gen_canon.py regenerates from /repo's utils.py on
   every run, over the Python value universe of Model/PyVal.v
   (None | bool | int | finite float | ASCII str | list | tuple, nested).
   A canonicaliser's outcome is  Ok v | ValueError | OtherError <class>;
   "total" means the third outcome is impossible.  Proofs: Proofs/Canon.v.

   The accept/reject decision functions of Model/Verify.v (hand-written mirrors
   of the five verify_hyperparameters functions and the layer __init__ / build
   checks) are tied to the implementation by the correspondence check
   (Harness/H_C16.v, harness/props/c16.py).  The second half of this file
   proves ABOUT them (Proofs/VerifyFacts.v): every invalid class named by the
   property is rejected for all configurations, and an accepted configuration
   satisfies the "valid configuration" premises of the other properties'
   theorems (C01/C08/C10/C12 cfg_valid, C07/C14 cfg_ok, C04 pwl_valid, C06
   lin_valid / pairs_in_range). *)
From TFL Require Import Model.PyVal Gen.GenCanon Proofs.Canon.
Open Scope string_scope.

(* ---- synonymous spellings ------------------------------------------------ *)
(* any case spelling of 'increasing' is 1, of 'decreasing' is -1, of 'none' is 0,
   for either value of allow_decreasing *)
Theorem C16_monotonicity_synonyms : forall s ad,
  (lower s = "increasing" -> canonicalize_monotonicity (VStr s) ad = canonicalize_monotonicity (VInt 1) ad) /\
  (lower s = "decreasing" -> canonicalize_monotonicity (VStr s) ad = canonicalize_monotonicity (VInt (-1)) ad) /\
  (lower s = "none" -> canonicalize_monotonicity (VStr s) ad = canonicalize_monotonicity (VInt 0) ad).
Proof. exact gen_monotonicity_synonyms. Qed.
Print Assumptions C16_monotonicity_synonyms.
Example C16_spellings_exist :
  lower "Increasing" = "increasing" /\ lower "INCREASING" = "increasing" /\ lower "increasing" = "increasing" /\
  lower "Peak" = "peak" /\ lower "POSITIVE" = "positive".
Proof. repeat split. Qed.

(* the canonical values themselves, the rejected ones, and allow_decreasing *)
Theorem C16_monotonicity_values :
  canonicalize_monotonicity (VInt 1) (VBool true) = Ok (VInt 1) /\
  canonicalize_monotonicity (VInt (-1)) (VBool true) = Ok (VInt (-1)) /\
  canonicalize_monotonicity (VInt 0) (VBool true) = Ok (VInt 0) /\
  canonicalize_monotonicity VNone (VBool true) = Ok VNone /\
  canonicalize_monotonicity (VInt (-1)) (VBool false) = ValueError /\
  canonicalize_monotonicity (VStr "Decreasing") (VBool false) = ValueError /\
  canonicalize_monotonicity (VInt 2) (VBool true) = ValueError /\
  canonicalize_monotonicity (VStr "up") (VBool true) = ValueError.
Proof. exact gen_monotonicity_values. Qed.
Print Assumptions C16_monotonicity_values.

(* element-wise synonymous lists canonicalise identically; a tuple of
   monotonicities behaves as the list *)
Theorem C16_monotonicities_synonyms : forall l1 l2 ad,
  Forall2 syn_monotonicity l1 l2 ->
  canonicalize_monotonicities (VList l1) ad = canonicalize_monotonicities (VList l2) ad /\
  canonicalize_monotonicities (VTuple l1) ad = canonicalize_monotonicities (VList l2) ad.
Proof. exact gen_monotonicities_synonyms. Qed.
Print Assumptions C16_monotonicities_synonyms.
Example C16_syn_monotonicity_exists :
  Forall2 syn_monotonicity [VStr "Increasing"; VStr "none"; VInt 1] [VInt 1; VInt 0; VInt 1].
Proof.
  constructor; [|constructor; [|constructor; [|constructor]]].
  - right. left. split; [exists "Increasing"; split; reflexivity|reflexivity].
  - right. right. right. split; [exists "none"; split; reflexivity|reflexivity].
  - left. reflexivity.
Qed.

Theorem C16_convexity_synonyms : forall s,
  (lower s = "convex" -> canonicalize_convexity (VStr s) = canonicalize_convexity (VInt 1)) /\
  (lower s = "concave" -> canonicalize_convexity (VStr s) = canonicalize_convexity (VInt (-1))) /\
  (lower s = "none" -> canonicalize_convexity (VStr s) = canonicalize_convexity (VInt 0)).
Proof. exact gen_convexity_synonyms. Qed.
Print Assumptions C16_convexity_synonyms.

(* 'valley' / 1, 'peak' / -1, 'none' / 0 *)
Theorem C16_unimodalities_synonyms : forall l1 l2,
  Forall2 syn_unimodality l1 l2 ->
  canonicalize_unimodalities (VList l1) = canonicalize_unimodalities (VList l2) /\
  canonicalize_unimodalities (VTuple l1) = canonicalize_unimodalities (VList l2).
Proof. exact gen_unimodalities_synonyms. Qed.
Print Assumptions C16_unimodalities_synonyms.

(* 'positive' / 1, 'negative' / -1; an entry written as a list (JSON round trip)
   or as a tuple; the collection of entries written as a list or as a tuple *)
Theorem C16_trust_synonyms : forall l1 l2,
  Forall2 syn_trust l1 l2 ->
  canonicalize_trust (VList l1) = canonicalize_trust (VList l2) /\
  canonicalize_trust (VTuple l1) = canonicalize_trust (VList l2).
Proof. exact gen_trust_synonyms. Qed.
Print Assumptions C16_trust_synonyms.
Example C16_syn_trust_exists :
  Forall2 syn_trust [VList [VInt 0; VInt 1; VStr "Positive"]] [VTuple [VInt 0; VInt 1; VInt 1]].
Proof.
  constructor; [|constructor]. exists (VInt 0), (VInt 1), (VStr "Positive"), (VInt 1).
  split; [left; reflexivity|]. split; [right; reflexivity|].
  right. left. split; [exists "Positive"; split; reflexivity|reflexivity].
Qed.

(* ---- idempotence: canonicalising a canonical value returns it ------------- *)
Theorem C16_monotonicity_idempotent : forall v ad w,
  canonicalize_monotonicity v ad = Ok w -> canonicalize_monotonicity w ad = Ok w.
Proof. exact gen_monotonicity_idempotent. Qed.
Print Assumptions C16_monotonicity_idempotent.

Theorem C16_convexity_idempotent : forall v w,
  canonicalize_convexity v = Ok w -> canonicalize_convexity w = Ok w.
Proof. exact gen_convexity_idempotent. Qed.
Print Assumptions C16_convexity_idempotent.

Theorem C16_monotonicities_idempotent : forall v ad w,
  canonicalize_monotonicities v ad = Ok w -> canonicalize_monotonicities w ad = Ok w.
Proof. exact gen_monotonicities_idempotent. Qed.
Print Assumptions C16_monotonicities_idempotent.

Theorem C16_unimodalities_idempotent : forall v w,
  canonicalize_unimodalities v = Ok w -> canonicalize_unimodalities w = Ok w.
Proof. exact gen_unimodalities_idempotent. Qed.
Print Assumptions C16_unimodalities_idempotent.

Theorem C16_trust_idempotent : forall v w,
  canonicalize_trust v = Ok w -> canonicalize_trust w = Ok w.
Proof. exact gen_trust_idempotent. Qed.
Print Assumptions C16_trust_idempotent.

Theorem C16_input_bounds_idempotent : forall v w,
  canonicalize_input_bounds v = Ok w -> canonicalize_input_bounds w = Ok w.
Proof. exact gen_input_bounds_idempotent. Qed.
Print Assumptions C16_input_bounds_idempotent.

(* ---- totality inside the universe ----------------------------------------- *)
(* The scalar canonicalisers return or raise ValueError on EVERY value of the
   universe (no AttributeError from .lower() on a non-string, no TypeError):
   the outcome OtherError is unreachable. *)
Theorem C16_monotonicity_total : forall v ad,
  (exists w, canonicalize_monotonicity v ad = Ok w) \/ canonicalize_monotonicity v ad = ValueError.
Proof. exact gen_monotonicity_total. Qed.
Print Assumptions C16_monotonicity_total.

Theorem C16_convexity_total : forall v,
  (exists w, canonicalize_convexity v = Ok w) \/ canonicalize_convexity v = ValueError.
Proof. exact gen_convexity_total. Qed.
Print Assumptions C16_convexity_total.

(* The list canonicalisers are total on arguments of the documented type: None,
   or a list / tuple (a string is iterated character-wise and rejected) with
   ARBITRARY elements of the universe. *)
Theorem C16_monotonicities_total : forall v ad, listlike v ->
  (exists w, canonicalize_monotonicities v ad = Ok w) \/ canonicalize_monotonicities v ad = ValueError.
Proof. exact gen_monotonicities_total. Qed.
Print Assumptions C16_monotonicities_total.

Theorem C16_unimodalities_total : forall v, listlike v ->
  (exists w, canonicalize_unimodalities v = Ok w) \/ canonicalize_unimodalities v = ValueError.
Proof. exact gen_unimodalities_total. Qed.
Print Assumptions C16_unimodalities_total.

Theorem C16_input_bounds_total : forall v, listlike v ->
  (exists w, canonicalize_input_bounds v = Ok w) \/ canonicalize_input_bounds v = ValueError.
Proof. exact gen_input_bounds_total. Qed.
Print Assumptions C16_input_bounds_total.

(* trusts: every entry must be a sized container (list, tuple or string) *)
Theorem C16_trust_total : forall v, listlike v ->
  (forall l, py_iter v = Ok l -> Forall sized l) ->
  (exists w, canonicalize_trust v = Ok w) \/ canonicalize_trust v = ValueError.
Proof. exact gen_trust_total. Qed.
Print Assumptions C16_trust_total.
Example C16_trust_total_hyp : listlike (VList [VList [VInt 0; VInt 1; VInt 1]; VTuple []]) /\
  (forall l, py_iter (VList [VList [VInt 0; VInt 1; VInt 1]; VTuple []]) = Ok l -> Forall sized l).
Proof. split; [exact I|]. intros l H. inversion H. repeat constructor. Qed.

(* Where the universe of the totality theorems ends (NOT findings: arguments of
   an undocumented Python type): a scalar where a list is documented, and a
   single trust written as a LIST of three ints (only the tuple form is
   documented) raise TypeError. *)
Theorem C16_total_boundary_refuted :
  canonicalize_monotonicities (VInt 1) (VBool true) = OtherError "TypeError" /\
  canonicalize_unimodalities (VBool true) = OtherError "TypeError" /\
  canonicalize_trust (VList [VInt 0; VInt 1; VInt 1]) = OtherError "TypeError" /\
  canonicalize_trust (VList [VNone]) = OtherError "TypeError".
Proof. exact gen_total_boundary. Qed.
Print Assumptions C16_total_boundary_refuted.

(* ---- canonical ranges ------------------------------------------------------ *)
(* Ok results are None or (numerically) one of -1, 0, 1; with
   allow_decreasing = False never -1; strings give exactly the ints *)
Theorem C16_canonical_range_monotonicity : forall v ad w, canonicalize_monotonicity v ad = Ok w ->
  (w = VNone \/ in3 w = true) /\ (py_truthy ad = false -> py_eq w (VInt (-1)) = false).
Proof. exact gen_monotonicity_range. Qed.
Print Assumptions C16_canonical_range_monotonicity.

Theorem C16_canonical_range_monotonicity_str : forall s ad w, canonicalize_monotonicity (VStr s) ad = Ok w ->
  w = VInt (-1) \/ w = VInt 0 \/ w = VInt 1.
Proof. exact gen_monotonicity_range_str. Qed.
Print Assumptions C16_canonical_range_monotonicity_str.

Theorem C16_canonical_range_convexity : forall v w, canonicalize_convexity v = Ok w ->
  w = VNone \/ in3 w = true.
Proof. exact gen_convexity_range. Qed.
Print Assumptions C16_canonical_range_convexity.

Theorem C16_canonical_range_monotonicities : forall v ad w, canonicalize_monotonicities v ad = Ok w ->
  w = VNone \/ exists ys, w = VList ys /\ ys <> [] /\
    Forall (fun y => (y = VNone \/ in3 y = true) /\ (py_truthy ad = false -> py_eq y (VInt (-1)) = false)) ys.
Proof. exact gen_monotonicities_range. Qed.
Print Assumptions C16_canonical_range_monotonicities.

Theorem C16_canonical_range_unimodalities : forall v w, canonicalize_unimodalities v = Ok w ->
  w = VNone \/ exists ys, w = VList ys /\ ys <> [] /\ Forall (fun y => in3 y = true) ys.
Proof. exact gen_unimodalities_range. Qed.
Print Assumptions C16_canonical_range_unimodalities.

(* trust: a list of TUPLES (a, b, d) with d (numerically) in {-1, 1} *)
Theorem C16_canonical_range_trust : forall v w, canonicalize_trust v = Ok w ->
  w = VNone \/ exists ys, w = VList ys /\ ys <> [] /\ Forall canonical_trust_entry ys.
Proof. exact gen_trust_range. Qed.
Print Assumptions C16_canonical_range_trust.

Theorem C16_canonical_range_input_bounds : forall v w, canonicalize_input_bounds v = Ok w ->
  w = VNone \/ exists ys, w = VList ys /\ ys <> [] /\ Forall (fun y => is_float y = true \/ y = VNone) ys.
Proof. exact gen_input_bounds_range. Qed.
Print Assumptions C16_canonical_range_input_bounds.

(* ---- D12: canonical trust entries are tuples (hashable) -------------------- *)
Theorem C16_trust_canonical_is_tuple : forall v ys,
  canonicalize_trust v = Ok (VList ys) -> Forall (fun e => is_tuple e = true) ys.
Proof. exact gen_trust_is_tuple. Qed.
Print Assumptions C16_trust_canonical_is_tuple.

(* ... in particular when the entry was given as a list with an integer
   direction (the case that used to stay a list) *)
Theorem C16_trust_list_entry_becomes_tuple :
  canonicalize_trust (VList [VList [VInt 0; VInt 1; VInt 1]]) = Ok (VList [VTuple [VInt 0; VInt 1; VInt 1]]) /\
  canonicalize_trust (VList [VList [VInt 0; VInt 1; VStr "Negative"]]) = Ok (VList [VTuple [VInt 0; VInt 1; VInt (-1)]]).
Proof. exact gen_trust_list_entry. Qed.
Print Assumptions C16_trust_list_entry_becomes_tuple.

(* ---- count_non_zeros on canonical lists ------------------------------------ *)
Theorem C16_count_non_zeros : forall os : list (option (list Z)),
  count_non_zeros (VTuple (map opt_zlist os)) =
  Ok (VInt (fold_right (fun o s => match o with None => 0 | Some l => count_nz l end + s) 0 os))%Z.
Proof. exact gen_count_ints. Qed.
Print Assumptions C16_count_non_zeros.

(* ========================================================================== *)
(* The accept/reject decisions of Model/Verify.v                               *)
(* ========================================================================== *)
From TFL Require Proofs.LatticeSpec Proofs.KFL Proofs.PWLProject Proofs.LinearProject
  Proofs.PartialOrder Proofs.TopoSort.
From TFL Require Import Model.Verify Proofs.VerifyFacts.
Open Scope Z_scope.

(* Vocabulary.  Indices are Python ints (Z); znth l i = l[i];
   zlen l = len(l); mono_at (l_monos c) d = Some 1 reads "monotonicities is
   given and monotonicities[d] == 1"; trusts are canonical (main, conditional,
   direction) triples, l_edge c ++ l_trap c is the list all_trusts of
   verify_hyperparameters (Edgeworth first, then trapezoid); a dominance /
   joint constraint is the list of ints the user gave.
   accepts_lattice_constraints = every check LatticeConstraints makes,
   accepts_lattice = all of lattice_lib.verify_hyperparameters,
   accepts_lattice_layer = Lattice(...) + build with the default initialiser. *)

(* ---- Lattice: one rejection theorem per invalid class ---------------------- *)
Theorem C16_reject_lattice_size_below_2 : forall c s,
  In s (l_sizes c) -> s < 2 -> accepts_lattice_constraints c = false.
Proof. exact reject_lattice_size_below_2. Qed.
Print Assumptions C16_reject_lattice_size_below_2.

Theorem C16_reject_lattice_monotonicities_length : forall c ms,
  l_monos c = Some ms -> zlen ms <> zlen (l_sizes c) -> accepts_lattice_constraints c = false.
Proof. exact reject_lattice_monotonicities_length. Qed.
Print Assumptions C16_reject_lattice_monotonicities_length.

Theorem C16_reject_lattice_unimodalities_length : forall c us,
  l_unimods c = Some us -> zlen us <> zlen (l_sizes c) -> accepts_lattice_constraints c = false.
Proof. exact reject_lattice_unimodalities_length. Qed.
Print Assumptions C16_reject_lattice_unimodalities_length.

(* a unimodal dimension needs lattice size >= 3 *)
Theorem C16_reject_lattice_unimodal_size_below_3 : forall c us i,
  l_unimods c = Some us -> (i < List.length us)%nat -> (i < List.length (l_sizes c))%nat ->
  nth i us 0 <> 0 -> nth i (l_sizes c) 0 < 3 -> accepts_lattice_constraints c = false.
Proof. exact reject_lattice_unimodal_size_below_3. Qed.
Print Assumptions C16_reject_lattice_unimodal_size_below_3.

(* a dimension both monotone and unimodal *)
Theorem C16_reject_lattice_monotone_and_unimodal : forall c ms us i,
  l_monos c = Some ms -> l_unimods c = Some us -> (i < List.length ms)%nat -> (i < List.length us)%nat ->
  nth i ms 0 <> 0 -> nth i us 0 <> 0 -> accepts_lattice_constraints c = false.
Proof. exact reject_lattice_monotone_and_unimodal. Qed.
Print Assumptions C16_reject_lattice_monotone_and_unimodal.

(* a trust (Edgeworth or trapezoid) whose main feature is not monotone:
   monotonicities not given, or monotonicities[main] <> 1 *)
Theorem C16_reject_lattice_trust_main_not_monotone : forall c main cond dir,
  In (main, cond, dir) (l_edge c ++ l_trap c) -> mono_at (l_monos c) main <> Some 1 ->
  accepts_lattice_constraints c = false.
Proof. exact reject_lattice_trust_main_not_monotone. Qed.
Print Assumptions C16_reject_lattice_trust_main_not_monotone.

Theorem C16_reject_lattice_trust_out_of_range : forall c main cond dir,
  In (main, cond, dir) (l_edge c ++ l_trap c) ->
  main < 0 \/ zlen (l_sizes c) <= main \/ cond < 0 \/ zlen (l_sizes c) <= cond ->
  accepts_lattice_constraints c = false.
Proof. exact reject_lattice_trust_out_of_range. Qed.
Print Assumptions C16_reject_lattice_trust_out_of_range.

(* a feature that is the main feature of one trust and the conditional feature
   of another (both Edgeworth, both trapezoid, or one of each) *)
Theorem C16_reject_lattice_trust_main_and_conditional : forall c f cond dir main' dir',
  In (f, cond, dir) (l_edge c ++ l_trap c) -> In (main', f, dir') (l_edge c ++ l_trap c) ->
  accepts_lattice_constraints c = false.
Proof. exact reject_lattice_trust_main_and_conditional. Qed.
Print Assumptions C16_reject_lattice_trust_main_and_conditional.

Theorem C16_reject_lattice_trust_across_kinds : forall c f cond dir main' dir',
  (In (f, cond, dir) (l_edge c) /\ In (main', f, dir') (l_trap c)) \/
  (In (f, cond, dir) (l_trap c) /\ In (main', f, dir') (l_edge c)) ->
  accepts_lattice_constraints c = false.
Proof. exact reject_lattice_trust_across_kinds. Qed.
Print Assumptions C16_reject_lattice_trust_across_kinds.

(* the same (main, conditional) pair with two directions *)
Theorem C16_reject_lattice_trust_two_directions : forall c main cond d d',
  In (main, cond, d) (l_edge c ++ l_trap c) -> In (main, cond, d') (l_edge c ++ l_trap c) -> d <> d' ->
  accepts_lattice_constraints c = false.
Proof. exact reject_lattice_trust_two_directions. Qed.
Print Assumptions C16_reject_lattice_trust_two_directions.

(* monotonic or range dominance between features that are not both monotone *)
Theorem C16_reject_lattice_dominance_not_monotone : forall c cs a b,
  l_mdom c = Some cs \/ l_rdom c = Some cs -> In [a; b] cs ->
  mono_at (l_monos c) a <> Some 1 \/ mono_at (l_monos c) b <> Some 1 ->
  accepts_lattice_constraints c = false.
Proof. exact reject_lattice_dominance_not_monotone. Qed.
Print Assumptions C16_reject_lattice_dominance_not_monotone.

(* dominance (a, b) together with (b, a) *)
Theorem C16_reject_lattice_dominance_both_ways : forall c cs a b,
  l_mdom c = Some cs \/ l_rdom c = Some cs -> In [a; b] cs -> In [b; a] cs ->
  accepts_lattice_constraints c = false.
Proof. exact reject_lattice_dominance_both_ways. Qed.
Print Assumptions C16_reject_lattice_dominance_both_ways.

Theorem C16_reject_lattice_dominance_self : forall c cs a,
  l_mdom c = Some cs \/ l_rdom c = Some cs -> In [a; a] cs -> accepts_lattice_constraints c = false.
Proof. exact reject_lattice_dominance_self. Qed.
Print Assumptions C16_reject_lattice_dominance_self.

Theorem C16_reject_lattice_dominance_out_of_range : forall c cs a b,
  l_mdom c = Some cs \/ l_rdom c = Some cs -> In [a; b] cs ->
  a < 0 \/ zlen (l_sizes c) <= a \/ b < 0 \/ zlen (l_sizes c) <= b ->
  accepts_lattice_constraints c = false.
Proof. exact reject_lattice_dominance_out_of_range. Qed.
Print Assumptions C16_reject_lattice_dominance_out_of_range.

Theorem C16_reject_lattice_dominance_not_a_pair : forall c cs cst,
  l_mdom c = Some cs \/ l_rdom c = Some cs -> In cst cs -> List.length cst <> 2%nat ->
  accepts_lattice_constraints c = false.
Proof. exact reject_lattice_dominance_not_a_pair. Qed.
Print Assumptions C16_reject_lattice_dominance_not_a_pair.

(* joint monotonicity: not a pair, an index out of range, or a dimension with itself *)
Theorem C16_reject_lattice_joint_monotonicity_bad : forall c cs cst,
  l_jmono c = Some cs -> In cst cs ->
  List.length cst <> 2%nat \/ (exists d, In d cst /\ (d < 0 \/ zlen (l_sizes c) <= d)) \/ (exists a, cst = [a; a]) ->
  accepts_lattice_constraints c = false.
Proof. exact reject_lattice_joint_monotonicity_bad. Qed.
Print Assumptions C16_reject_lattice_joint_monotonicity_bad.

(* joint monotonicity between a dimension and itself (rejected up front since
   /repo commit ae9551b; the projection used to raise IndexError) *)
Theorem C16_reject_lattice_joint_monotonicity_self : forall c cs a,
  l_jmono c = Some cs -> In [a; a] cs -> accepts_lattice_constraints c = false.
Proof. exact reject_lattice_joint_monotonicity_self. Qed.
Print Assumptions C16_reject_lattice_joint_monotonicity_self.

(* joint unimodality (dimensions, direction): direction not 'valley'/'peak'
   (dir_ok = false), repeated dimensions, an index out of range, a dimension of
   size < 3, or a dimension that is also monotone *)
Theorem C16_reject_lattice_joint_unimodality_bad : forall c cs dims dir_ok,
  l_junimod c = Some cs -> In (dims, dir_ok) cs ->
  dir_ok = false \/ ~ NoDup dims \/
  (exists d, In d dims /\ (d < 0 \/ zlen (l_sizes c) <= d \/ znth (l_sizes c) d < 3 \/
                           exists ms, l_monos c = Some ms /\ znth ms d <> 0)) ->
  accepts_lattice_constraints c = false.
Proof. exact reject_lattice_joint_unimodality_bad. Qed.
Print Assumptions C16_reject_lattice_joint_unimodality_bad.

(* whatever LatticeConstraints rejects, verify_hyperparameters and the Lattice
   layer reject *)
Theorem C16_reject_lattice_constraints_invalid : forall c,
  accepts_lattice_constraints c = false -> accepts_lattice c = false /\ accepts_lattice_layer c = false.
Proof. exact reject_lattice_constraints_invalid. Qed.
Print Assumptions C16_reject_lattice_constraints_invalid.

(* output_min >= output_max (the Lattice check is strict) *)
Theorem C16_reject_lattice_output_min_ge_max : forall c lo hi,
  l_omin c = Some lo -> l_omax c = Some hi -> (hi <= lo)%Q ->
  accepts_lattice c = false /\ accepts_lattice_layer c = false.
Proof. exact reject_lattice_output_min_ge_max. Qed.
Print Assumptions C16_reject_lattice_output_min_ge_max.

(* the standalone LatticeConstraints object (no interpolation argument): every rejection above carries over, and
   output_min >= output_max is rejected at construction too *)
Theorem C16_reject_lattice_constraints_object : forall c,
  accepts_lattice_constraints c = false \/
  (exists lo hi, l_omin c = Some lo /\ l_omax c = Some hi /\ (hi <= lo)%Q) ->
  accepts_lattice_constraints_obj c = false.
Proof. exact reject_lattice_constraints_obj. Qed.
Print Assumptions C16_reject_lattice_constraints_object.

Theorem C16_accepted_lattice_constraints_object : forall c,
  accepts_lattice_constraints_obj c = true ->
  accepts_lattice_constraints c = true /\
  (forall lo hi, l_omin c = Some lo -> l_omax c = Some hi -> (lo < hi)%Q).
Proof. exact accepted_lattice_constraints_obj. Qed.
Print Assumptions C16_accepted_lattice_constraints_object.

Theorem C16_reject_lattice_unknown_interpolation : forall c,
  l_interp_ok c = false -> accepts_lattice c = false /\ accepts_lattice_layer c = false.
Proof. exact reject_lattice_unknown_interpolation. Qed.
Print Assumptions C16_reject_lattice_unknown_interpolation.

(* As is: the Lattice LAYER with its default initialiser verifies the range of
   lattice_lib.default_init_params, so output_min >= 1 without output_max (range
   [output_min, max(1, output_min)]) or output_max <= 0 without output_min is
   rejected, unless one joint unimodality covers all features. *)
Theorem C16_reject_lattice_layer_empty_init_range : forall c,
  joint_covers_all (zlen (l_sizes c)) (l_junimod c) = false ->
  (exists lo, l_omin c = Some lo /\ l_omax c = None /\ (1 <= lo)%Q) \/
  (exists hi, l_omin c = None /\ l_omax c = Some hi /\ (hi <= 0)%Q) ->
  accepts_lattice_layer c = false.
Proof. exact reject_lattice_layer_empty_init_range. Qed.
Print Assumptions C16_reject_lattice_layer_empty_init_range.

(* the converse reading: EVERYTHING an accepted configuration guarantees
   (record lattice_constraints_accepted of Proofs/VerifyFacts.v: sizes >= 2,
   lengths, unimodal sizes >= 3, monotone/unimodal disjoint, trusts in range
   with monotone main feature, one direction per pair, main/conditional sets
   disjoint, dominances well-formed pairs of distinct in-range monotone
   features without (a,b)+(b,a), joint monotonicities pairs of distinct
   in-range dimensions, joint unimodalities well-formed) *)
Theorem C16_accepted_lattice_constraints_wellformed : forall c,
  accepts_lattice_constraints c = true -> lattice_constraints_accepted c.
Proof. exact accepts_lattice_constraints_sound. Qed.
Print Assumptions C16_accepted_lattice_constraints_wellformed.

(* ... and nothing else is checked: the classes above are exhaustive, a
   configuration is rejected by LatticeConstraints iff one of them applies *)
Theorem C16_lattice_constraints_accepted_iff : forall c,
  accepts_lattice_constraints c = true <-> lattice_constraints_accepted c.
Proof. exact accepts_lattice_constraints_iff. Qed.
Print Assumptions C16_lattice_constraints_accepted_iff.

(* units of the Lattice LAYER (accepts_lattice_layer_units = accepts_lattice_layer plus the add_weight
   of build(): kernel of shape (prod(lattice_sizes), units)): a negative units is TensorFlow's ValueError
   'Dimension -1 must be >= 0'; units = 0 is a ValueError too (the LinearInitializer's one column does not
   fit a variable with zero columns) unless ONE joint unimodality covers all features (Keras random_uniform
   fall-back); for units >= 1 nothing is added to accepts_lattice_layer. *)
Theorem C16_reject_lattice_layer_negative_units : forall c u,
  u < 0 -> accepts_lattice_layer_units c u = false.
Proof. exact reject_lattice_layer_negative_units. Qed.
Print Assumptions C16_reject_lattice_layer_negative_units.
Theorem C16_reject_lattice_layer_zero_units : forall c,
  joint_covers_all (zlen (l_sizes c)) (l_junimod c) = false -> accepts_lattice_layer_units c 0 = false.
Proof. exact reject_lattice_layer_zero_units. Qed.
Print Assumptions C16_reject_lattice_layer_zero_units.
Theorem C16_lattice_layer_positive_units : forall c u,
  1 <= u -> accepts_lattice_layer_units c u = accepts_lattice_layer c.
Proof. exact lattice_layer_units_positive. Qed.
Print Assumptions C16_lattice_layer_positive_units.
Theorem C16_accepted_lattice_layer_units_wellformed : forall c u,
  accepts_lattice_layer_units c u = true ->
  accepts_lattice_layer c = true /\ 0 <= u /\
  (joint_covers_all (zlen (l_sizes c)) (l_junimod c) = true \/ 1 <= u).
Proof. exact accepts_lattice_layer_units_sound. Qed.
Print Assumptions C16_accepted_lattice_layer_units_wellformed.
(* as is (reported; same family as known finding D48): units = 0 is built when one joint unimodality covers
   all features - the first projection then fails with InvalidArgumentError *)
Theorem C16_reject_lattice_layer_zero_units_refuted : exists c, accepts_lattice_layer_units c 0 = true.
Proof. exact lattice_layer_zero_units_accepted. Qed.
Print Assumptions C16_reject_lattice_layer_zero_units_refuted.

(* ---- Linear ---------------------------------------------------------------- *)
Theorem C16_reject_linear_monotonicities_length : forall c m n,
  n_monos c = Some m -> n_num_input_dims c = Some n -> zlen m <> n -> accepts_linear c = false.
Proof. exact reject_linear_monotonicities_length. Qed.
Print Assumptions C16_reject_linear_monotonicities_length.

(* the Linear layer (num_input_dims given): input_min / input_max of another length *)
Theorem C16_reject_linear_bounds_length : forall c n,
  n_num_input_dims c = Some n ->
  (exists ls, n_imin c = Some ls /\ zlen ls <> n) \/ (exists hs, n_imax c = Some hs /\ zlen hs <> n) ->
  accepts_linear c = false.
Proof. exact reject_linear_bounds_length. Qed.
Print Assumptions C16_reject_linear_bounds_length.

Theorem C16_reject_linear_input_min_above_max : forall c ls hs i a b,
  n_imin c = Some ls -> n_imax c = Some hs -> nth i ls None = Some a -> nth i hs None = Some b ->
  (b < a)%Q -> accepts_linear c = false.
Proof. exact reject_linear_input_min_above_max. Qed.
Print Assumptions C16_reject_linear_input_min_above_max.

(* dominances given (even empty) while monotonicities is None / empty *)
Theorem C16_reject_linear_dominance_without_monotonicities : forall c,
  n_monos c = None -> n_mdom c <> None \/ n_rdom c <> None -> accepts_linear c = false.
Proof. exact reject_linear_dominance_without_monotonicities. Qed.
Print Assumptions C16_reject_linear_dominance_without_monotonicities.

(* monotonic dominance: not a pair, a feature with itself, out of range, a
   feature that is not increasing-monotone, or (a,b) together with (b,a) *)
Theorem C16_reject_linear_monotonic_dominance_bad : forall c m cs cst,
  n_monos c = Some m -> n_mdom c = Some cs -> In cst cs ->
  List.length cst <> 2%nat \/
  (exists a b, cst = [a; b] /\
     (a = b \/ a < 0 \/ zlen m <= a \/ b < 0 \/ zlen m <= b \/ znth m a <> 1 \/ znth m b <> 1 \/ In [b; a] cs)) ->
  accepts_linear c = false.
Proof. exact reject_linear_monotonic_dominance_bad. Qed.
Print Assumptions C16_reject_linear_monotonic_dominance_bad.

(* range dominance: as above with "same non-zero monotonicity" and
   range_given lo hi d := input_min[d], input_max[d] both given and different *)
Theorem C16_reject_linear_range_dominance_bad : forall c m cs cst,
  n_monos c = Some m -> n_rdom c = Some cs -> In cst cs ->
  List.length cst <> 2%nat \/
  (exists a b, cst = [a; b] /\
     (a = b \/ a < 0 \/ zlen m <= a \/ b < 0 \/ zlen m <= b \/ znth m a <> znth m b \/ znth m a = 0 \/
      ~ range_given (n_imin c) (n_imax c) a \/ ~ range_given (n_imin c) (n_imax c) b \/ In [b; a] cs)) ->
  accepts_linear c = false.
Proof. exact reject_linear_range_dominance_bad. Qed.
Print Assumptions C16_reject_linear_range_dominance_bad.

Theorem C16_reject_linear_dimension_in_both_dominances : forall c ms rs d,
  n_mdom c = Some ms -> n_rdom c = Some rs -> In d (List.concat ms) -> In d (List.concat rs) ->
  accepts_linear c = false.
Proof. exact reject_linear_dimension_in_both_dominances. Qed.
Print Assumptions C16_reject_linear_dimension_in_both_dominances.

Theorem C16_accepted_linear_wellformed : forall c, accepts_linear c = true -> linear_accepted c.
Proof. exact accepts_linear_sound. Qed.
Print Assumptions C16_accepted_linear_wellformed.

(* the Linear LAYER (accepts_linear_layer = accepts_linear plus add_weight(shape=[num_input_dims, units])):
   a negative units or num_input_dims is TensorFlow's ValueError; 0 is accepted (empty kernel) *)
Theorem C16_reject_linear_layer_negative_units : forall c u,
  u < 0 -> accepts_linear_layer c u = false.
Proof. exact reject_linear_layer_negative_units. Qed.
Print Assumptions C16_reject_linear_layer_negative_units.
Theorem C16_reject_linear_layer_negative_num_input_dims : forall c u n,
  n_num_input_dims c = Some n -> n < 0 -> accepts_linear_layer c u = false.
Proof. exact reject_linear_layer_negative_num_input_dims. Qed.
Print Assumptions C16_reject_linear_layer_negative_num_input_dims.
Theorem C16_linear_layer_nonnegative_sizes : forall c u n,
  0 <= u -> n_num_input_dims c = Some n -> 0 <= n -> accepts_linear_layer c u = accepts_linear c.
Proof. exact linear_layer_sizes_nonnegative. Qed.
Print Assumptions C16_linear_layer_nonnegative_sizes.
Theorem C16_accepted_linear_layer_wellformed : forall c u,
  accepts_linear_layer c u = true ->
  accepts_linear c = true /\ 0 <= u /\ (forall n, n_num_input_dims c = Some n -> 0 <= n).
Proof. exact accepts_linear_layer_sound. Qed.
Print Assumptions C16_accepted_linear_layer_wellformed.

(* ---- PWLCalibration -------------------------------------------------------- *)
Theorem C16_reject_pwl_too_few_keypoints : forall c ks,
  p_keypoints c = Some ks -> zlen ks < 2 -> accepts_pwl c = false.
Proof. exact reject_pwl_too_few_keypoints. Qed.
Print Assumptions C16_reject_pwl_too_few_keypoints.

(* unsorted or repeated keypoints *)
Theorem C16_reject_pwl_unsorted_keypoints : forall c ks i,
  p_keypoints c = Some ks -> (S i < List.length ks)%nat -> (nth (S i) ks 0 <= nth i ks 0)%Q -> accepts_pwl c = false.
Proof. exact reject_pwl_unsorted_keypoints. Qed.
Print Assumptions C16_reject_pwl_unsorted_keypoints.

(* output_min > output_max (equality is accepted by this layer) *)
Theorem C16_reject_pwl_output_min_above_max : forall c lo hi,
  p_omin c = Some lo -> p_omax c = Some hi -> (hi < lo)%Q -> accepts_pwl c = false.
Proof. exact reject_pwl_output_min_above_max. Qed.
Print Assumptions C16_reject_pwl_output_min_above_max.

Theorem C16_reject_pwl_cyclic_with_monotonicity_or_convexity : forall c z,
  p_cyclic c = true -> z <> 0 -> p_mono c = Some z \/ p_convex c = Some z -> accepts_pwl c = false.
Proof. exact reject_pwl_cyclic_with_monotonicity_or_convexity. Qed.
Print Assumptions C16_reject_pwl_cyclic_with_monotonicity_or_convexity.

Theorem C16_reject_pwl_unknown_keypoints_type : forall c, p_kp_type_ok c = false -> accepts_pwl c = false.
Proof. exact reject_pwl_unknown_keypoints_type. Qed.
Print Assumptions C16_reject_pwl_unknown_keypoints_type.

(* the layer's own __init__ / build checks: no keypoints; cyclic with fewer than
   3 keypoints; missing_input_value / missing_output_value without
   impute_missing; monotonicity None; learned_interior keypoints with a
   convexity not spelled "none" / 0 *)
Theorem C16_reject_pwl_layer_bad : forall c, p_layer c = true ->
  p_keypoints c = None \/
  (exists ks, p_keypoints c = Some ks /\ p_cyclic c = true /\ zlen ks < 3) \/
  (p_missing_in c = true /\ p_impute c = false) \/ (p_missing_out c = true /\ p_impute c = false) \/
  p_mono c = None \/ (p_learned c = true /\ p_convexity_is_none_spelling c = false) ->
  accepts_pwl c = false.
Proof. exact reject_pwl_layer_bad. Qed.
Print Assumptions C16_reject_pwl_layer_bad.

(* convexity=None: rejected by the layer's constructor since /repo commit adb1223 (it used to be accepted and
   read as a convexity constraint by the projection's `convexity != 0`; finding D64) *)
Theorem C16_reject_pwl_layer_convexity_none : forall c,
  p_layer c = true -> p_convex c = None -> accepts_pwl c = false.
Proof. exact reject_pwl_layer_convexity_none. Qed.
Print Assumptions C16_reject_pwl_layer_convexity_none.

Theorem C16_accepted_pwl_wellformed : forall c, accepts_pwl c = true -> pwl_accepted c.
Proof. exact accepts_pwl_sound. Qed.
Print Assumptions C16_accepted_pwl_wellformed.

(* units of the PWLCalibration LAYER (accepts_pwl_layer = accepts_pwl plus add_weight(shape=[.., units])):
   units < 0 is TensorFlow's ValueError; units = 0 raises InvalidArgumentError at build (decision "reject";
   the exception class is reported by the harness) *)
Theorem C16_reject_pwl_layer_units_below_1 : forall c u,
  p_layer c = true -> u < 1 -> accepts_pwl_layer c u = false.
Proof. exact reject_pwl_layer_units_below_1. Qed.
Print Assumptions C16_reject_pwl_layer_units_below_1.
Theorem C16_pwl_layer_positive_units : forall c u,
  1 <= u -> accepts_pwl_layer c u = accepts_pwl c.
Proof. exact pwl_layer_units_positive. Qed.
Print Assumptions C16_pwl_layer_positive_units.
Theorem C16_accepted_pwl_layer_wellformed : forall c u,
  accepts_pwl_layer c u = true -> accepts_pwl c = true /\ (p_layer c = true -> 1 <= u).
Proof. exact accepts_pwl_layer_sound. Qed.
Print Assumptions C16_accepted_pwl_layer_wellformed.

(* ---- CategoricalCalibration ------------------------------------------------ *)
Theorem C16_reject_categorical_output_min_above_max : forall c lo hi,
  c_omin c = Some lo -> c_omax c = Some hi -> (hi < lo)%Q -> accepts_categorical c = false.
Proof. exact reject_categorical_output_min_above_max. Qed.
Print Assumptions C16_reject_categorical_output_min_above_max.

Theorem C16_reject_categorical_pairs_not_a_list : forall c ps,
  c_pairs c = Some ps -> ps <> [] -> c_pairs_is_list c = false -> accepts_categorical c = false.
Proof. exact reject_categorical_pairs_not_a_list. Qed.
Print Assumptions C16_reject_categorical_pairs_not_a_list.

(* a monotonicity "pair" that is not a pair, or an index < 0 or >= num_buckets *)
Theorem C16_reject_categorical_pair_bad : forall c ps p,
  c_pairs c = Some ps -> In p ps ->
  List.length p <> 2%nat \/ (exists x, In x p /\ (x < 0 \/ exists n, c_buckets c = Some n /\ n <= x)) ->
  accepts_categorical c = false.
Proof. exact reject_categorical_pair_bad. Qed.
Print Assumptions C16_reject_categorical_pair_bad.

(* the cycles that ARE rejected (at build): every category with an outgoing pair
   also has an incoming one (e.g. a 2-cycle alone, a self pair alone) *)
Theorem C16_reject_categorical_no_source : forall c ps n,
  c_pairs c = Some ps -> ps <> [] -> c_buckets c = Some n ->
  (forall i j, In [i; j] ps -> exists k, In [k; i] ps) -> accepts_categorical c = false.
Proof. exact reject_categorical_no_source. Qed.
Print Assumptions C16_reject_categorical_no_source.

Theorem C16_accepted_categorical_wellformed : forall c, accepts_categorical c = true -> categorical_accepted c.
Proof. exact accepts_categorical_sound. Qed.
Print Assumptions C16_accepted_categorical_wellformed.

(* the CategoricalCalibration LAYER (accepts_categorical_layer = accepts_categorical plus
   add_weight(shape=[num_buckets, units])): a negative num_buckets or units is TensorFlow's ValueError;
   0 is accepted (num_buckets = 0: known finding D48) *)
Theorem C16_reject_categorical_layer_negative_units : forall c u,
  u < 0 -> accepts_categorical_layer c u = false.
Proof. exact reject_categorical_layer_negative_units. Qed.
Print Assumptions C16_reject_categorical_layer_negative_units.
Theorem C16_reject_categorical_layer_negative_num_buckets : forall c u n,
  c_buckets c = Some n -> n < 0 -> accepts_categorical_layer c u = false.
Proof. exact reject_categorical_layer_negative_num_buckets. Qed.
Print Assumptions C16_reject_categorical_layer_negative_num_buckets.
Theorem C16_categorical_layer_nonnegative_sizes : forall c u n,
  0 <= u -> c_buckets c = Some n -> 0 <= n -> accepts_categorical_layer c u = accepts_categorical c.
Proof. exact categorical_layer_sizes_nonnegative. Qed.
Print Assumptions C16_categorical_layer_nonnegative_sizes.
Theorem C16_accepted_categorical_layer_wellformed : forall c u,
  accepts_categorical_layer c u = true ->
  accepts_categorical c = true /\ 0 <= u /\ (forall n, c_buckets c = Some n -> 0 <= n).
Proof. exact accepts_categorical_layer_sound. Qed.
Print Assumptions C16_accepted_categorical_layer_wellformed.

(* ---- KroneckerFactoredLattice ---------------------------------------------- *)
Theorem C16_reject_kfl_size : forall c, k_size c <> 0 -> k_size c < 2 -> accepts_kfl c = false.
Proof. exact reject_kfl_size. Qed.
Print Assumptions C16_reject_kfl_size.
Theorem C16_reject_kfl_units : forall c, k_units c < 0 -> accepts_kfl c = false.
Proof. exact reject_kfl_units. Qed.
Print Assumptions C16_reject_kfl_units.
Theorem C16_reject_kfl_terms : forall c, k_terms c < 0 -> accepts_kfl c = false.
Proof. exact reject_kfl_terms. Qed.
Print Assumptions C16_reject_kfl_terms.
Theorem C16_reject_kfl_monotonicities_length : forall c m,
  k_monos c = Some m -> zlen m <> k_dims c -> accepts_kfl c = false.
Proof. exact reject_kfl_monotonicities_length. Qed.
Print Assumptions C16_reject_kfl_monotonicities_length.
Theorem C16_reject_kfl_output_min_ge_max : forall c lo hi,
  k_omin c = Some lo -> k_omax c = Some hi -> (hi <= lo)%Q -> accepts_kfl c = false.
Proof. exact reject_kfl_output_min_ge_max. Qed.
Print Assumptions C16_reject_kfl_output_min_ge_max.

(* as is (known finding D48): "lattice size < 2 is rejected" fails for 0,
   because the test is `if lattice_sizes and lattice_sizes < 2` *)
Theorem C16_reject_kfl_size_zero_refuted : exists c, k_size c = 0 /\ accepts_kfl c = true.
Proof. exact kfl_zero_size_accepted. Qed.
Print Assumptions C16_reject_kfl_size_zero_refuted.

(* ---- accepted => valid configuration of the other properties --------------- *)
(* Lattice -> LatticeSpec.cfg_valid, the premise of the C01 / C08 / C10 / C12
   theorems.  conv_lattice c units: sizes and trust indices as nat,
   monotonicities None read as all 0.  Extra hypotheses: units >= 1, and the
   canonical ranges (monotonicities in {0,1} because the Lattice canonicalises
   with allow_decreasing=False, trust directions in {-1,1}), which
   C16_canonical_range_monotonicities / C16_canonical_range_trust give for the
   canonicalisers' outputs. *)
Theorem C16_accepted_lattice_is_valid : forall c units,
  accepts_lattice c = true -> (1 <= units)%nat ->
  (forall ms m, l_monos c = Some ms -> In m ms -> m = 0 \/ m = 1) ->
  (forall a b d, In (a, b, d) (l_edge c ++ l_trap c) -> d = 1 \/ d = -1) ->
  LatticeSpec.cfg_valid (conv_lattice c units).
Proof. exact accepted_lattice_cfg_valid. Qed.
Print Assumptions C16_accepted_lattice_is_valid.
Example C16_accepted_lattice_example :
  let c := mkL [3; 2; 2] (Some [1; 0; 1]) (Some [0; 0; 0]) [(0, 1, 1)] [(2, 1, -1)]
               (Some [[0; 2]]) None (Some [[0; 1]]) None (Some (0#1)) (Some (1#1))%Q true in
  accepts_lattice c = true /\ accepts_lattice_layer c = true /\
  (forall ms m, l_monos c = Some ms -> In m ms -> m = 0 \/ m = 1) /\
  (forall a b d, In (a, b, d) (l_edge c ++ l_trap c) -> d = 1 \/ d = -1).
Proof. exact accepted_lattice_example. Qed.

(* KroneckerFactoredLattice -> KFL.cfg_ok, the premise of the C07 / C14
   theorems.  Extra hypotheses: lattice_sizes <> 0 (D48) and >= 1 input. *)
Theorem C16_accepted_kfl_is_valid : forall c clip,
  accepts_kfl c = true -> k_size c <> 0 -> 1 <= k_dims c ->
  Proofs.KFL.cfg_ok (conv_kfl c clip) (Z.to_nat (k_dims c)).
Proof. exact accepted_kfl_cfg_ok. Qed.
Print Assumptions C16_accepted_kfl_is_valid.
Example C16_accepted_kfl_example :
  let c := mkK 3 2 2 (Some [1; 0]) 2 (Some (0#1)) (Some (1#1))%Q in
  accepts_kfl c = true /\ k_size c <> 0 /\ 1 <= k_dims c.
Proof. exact accepted_kfl_example. Qed.

(* PWLCalibration -> pwl_valid, the premise of the C04 theorems, with
   n = number of keypoints - 1 heights and lengths = keypoint differences
   (non-cyclic reading; a cyclic layer has one weight less and, being neither
   monotone nor convex, no use for the lengths).  oz None = 0.  Extra
   hypotheses: canonical monotonicity / convexity, and a clamp only together
   with a monotonicity - the library does NOT check the latter up front (known
   finding D43: ValueError from the first projection). *)
Theorem C16_accepted_pwl_is_valid : forall c ks clamp_min clamp_max iters,
  accepts_pwl c = true -> p_keypoints c = Some ks ->
  (oz (p_mono c) = -1 \/ oz (p_mono c) = 0 \/ oz (p_mono c) = 1) ->
  (oz (p_convex c) = -1 \/ oz (p_convex c) = 0 \/ oz (p_convex c) = 1) ->
  ((p_omin c <> None /\ clamp_min = true) \/ (p_omax c <> None /\ clamp_max = true) -> oz (p_mono c) <> 0) ->
  Proofs.PWLProject.pwl_valid (conv_pwl c ks clamp_min clamp_max iters) (List.length ks - 1).
Proof. exact accepted_pwl_valid. Qed.
Print Assumptions C16_accepted_pwl_is_valid.
Example C16_accepted_pwl_example :
  let c := mkP (Some [0#1; 1#2; 2#1]%Q) (Some (0#1)%Q) (Some (1#1)%Q) (Some 1) (Some (-1)) false true false true
               false false false true in
  accepts_pwl c = true /\ oz (p_mono c) = 1 /\ oz (p_convex c) = -1.
Proof. exact accepted_pwl_example. Qed.

(* Linear -> lin_valid, the premise of the C06 linear theorems.  Extra
   hypotheses: canonical monotonicities; input_min / input_max as long as the
   monotonicities when range dominances are used (checked by the library only
   against the weights' shape at call time; shorter lists: known finding D45);
   and ACYCLIC dominance graphs, which verify_hyperparameters does not check
   beyond self pairs and 2-cycles (see the _refuted theorem below). *)
Theorem C16_accepted_linear_is_valid : forall c m norm,
  accepts_linear c = true -> n_monos c = Some m ->
  (forall x, In x m -> x = 0 \/ x = 1 \/ x = -1) ->
  (olist (n_rdom c) <> [] -> List.length (olist (n_imin c)) = List.length m /\ List.length (olist (n_imax c)) = List.length m) ->
  TopoSort.acyclic (Model.LinearProject.swap_pairs (zpairs (olist (n_mdom c)))) ->
  TopoSort.acyclic (Model.LinearProject.swap_pairs (zpairs (olist (n_rdom c)))) ->
  Proofs.LinearProject.lin_valid (conv_linear c norm) (List.length m).
Proof. exact accepted_linear_lin_valid. Qed.
Print Assumptions C16_accepted_linear_is_valid.
Example C16_accepted_linear_example :
  let c := mkLin (Some [1; 1; -1; -1; 0]) (Some 5) (Some [[0; 1]]) (Some [[2; 3]])
                 (Some [None; None; Some (0#1); Some (-1#1); None]%Q)
                 (Some [None; None; Some (2#1); Some (1#2); None]%Q) in
  accepts_linear c = true /\
  (forall x, In x [1; 1; -1; -1; 0] -> x = 0 \/ x = 1 \/ x = -1) /\
  (List.length (olist (n_imin c)) = 5%nat /\ List.length (olist (n_imax c)) = 5%nat) /\
  TopoSort.acyclic (Model.LinearProject.swap_pairs (zpairs (olist (n_mdom c)))) /\
  TopoSort.acyclic (Model.LinearProject.swap_pairs (zpairs (olist (n_rdom c)))).
Proof. exact accepted_linear_example. Qed.

(* a dominance cycle of List.length 3 is ACCEPTED by LinearConstraints; the first
   projection then raises ValueError 'Circular monotonicity constraints' *)
Theorem C16_linear_rejects_dominance_cycles_refuted : exists c cs,
  accepts_linear c = true /\ n_mdom c = Some cs /\
  ~ TopoSort.acyclic (Model.LinearProject.swap_pairs (zpairs cs)).
Proof. exact linear_accepts_dominance_cycle. Qed.
Print Assumptions C16_linear_rejects_dominance_cycles_refuted.

(* CategoricalCalibration -> pairs_in_range, one premise of the C06 categorical
   theorems ... *)
Theorem C16_accepted_categorical_pairs_in_range : forall c ps n (w : list Q),
  accepts_categorical c = true -> c_pairs c = Some ps -> c_buckets c = Some n -> List.length w = Z.to_nat n ->
  PartialOrder.pairs_in_range (zpairs ps) w.
Proof. exact accepted_categorical_pairs_in_range. Qed.
Print Assumptions C16_accepted_categorical_pairs_in_range.
Example C16_accepted_categorical_example :
  let c := mkC (Some 4) (Some (0#1)%Q) (Some (1#1)%Q) true (Some [[0; 1]; [1; 3]; [2; 3]]) in
  accepts_categorical c = true /\ TopoSort.acyclic (zpairs [[0; 1]; [1; 3]; [2; 3]]).
Proof. exact accepted_categorical_example. Qed.

(* ... but NOT the other one, acyclicity: the only cycle test is "some category
   has no incoming pair", so [(0,3),(1,2),(3,0)] is accepted (and the pairs on
   the cycle are then silently not enforced) *)
Theorem C16_categorical_rejects_cycles_refuted : exists c ps,
  accepts_categorical c = true /\ c_pairs c = Some ps /\ ~ TopoSort.acyclic (zpairs ps).
Proof. exact categorical_accepts_cycle. Qed.
Print Assumptions C16_categorical_rejects_cycles_refuted.

(* ---- the canonical-range hypotheses of the bridges, discharged -------------- *)
(* The typed hyperparameters of Model/Verify.v are obtained from canonicaliser
   outputs by the glue of Harness/H_C16.v: conv_zs / conv_trusts / conv_scalar
   read a canonical value as option (list Z) / list of triples / option Z
   (CVal), via num_z (an int, or a bool as 0/1).  For every argument of the
   universe, what the glue produces from the GENERATED canonicalisers lies in
   the canonical ranges the bridges above assume. *)
From TFL Require Import Harness.H_C16 Proofs.VerifyLink.
Open Scope Z_scope.

Theorem C16_canonical_monotonicities_typed : forall v ad ms,
  conv_zs (canonicalize_monotonicities v ad) = CVal (Some ms) ->
  (forall m, In m ms -> m = 0 \/ m = 1 \/ m = -1) /\
  (py_truthy ad = false -> forall m, In m ms -> m = 0 \/ m = 1).
Proof. exact link_monotonicities. Qed.
Print Assumptions C16_canonical_monotonicities_typed.

Theorem C16_canonical_trust_directions_typed : forall v ts,
  conv_trusts (canonicalize_trust v) = CVal ts -> forall a b d, In (a, b, d) ts -> d = 1 \/ d = -1.
Proof. exact link_trusts. Qed.
Print Assumptions C16_canonical_trust_directions_typed.

Theorem C16_canonical_monotonicity_typed : forall v ad o,
  conv_scalar (canonicalize_monotonicity v ad) = CVal o -> oz o = -1 \/ oz o = 0 \/ oz o = 1.
Proof. exact link_monotonicity. Qed.
Print Assumptions C16_canonical_monotonicity_typed.

Theorem C16_canonical_convexity_typed : forall v o,
  conv_scalar (canonicalize_convexity v) = CVal o -> oz o = -1 \/ oz o = 0 \/ oz o = 1.
Proof. exact link_convexity. Qed.
Print Assumptions C16_canonical_convexity_typed.

(* Lattice, end to end: monotonicities / Edgeworth / trapezoid trusts spelled in
   ANY way the canonicalisers accept (vm, ve, vt arbitrary values), configuration
   accepted by verify_hyperparameters  =>  valid configuration of the C01 / C08 /
   C10 / C12 theorems.  No canonical-range hypothesis left. *)
Theorem C16_canonical_accepted_lattice_is_valid : forall vm ve vt c units,
  conv_zs (canonicalize_monotonicities vm (VBool false)) = CVal (l_monos c) ->
  conv_trusts (canonicalize_trust ve) = CVal (l_edge c) ->
  conv_trusts (canonicalize_trust vt) = CVal (l_trap c) ->
  accepts_lattice c = true -> (1 <= units)%nat ->
  LatticeSpec.cfg_valid (conv_lattice c units).
Proof. exact canonical_accepted_lattice_cfg_valid. Qed.
Print Assumptions C16_canonical_accepted_lattice_is_valid.
Example C16_canonical_accepted_lattice_example :
  let c := mkL [3; 2; 2] (Some [1; 0; 1]) None [(0, 1, 1)] [(2, 1, -1)] None None None None
               (Some (0#1)) (Some (1#1))%Q true in
  conv_zs (canonicalize_monotonicities (VList [VStr "Increasing"; VStr "none"; VInt 1]) (VBool false)) = CVal (l_monos c) /\
  conv_trusts (canonicalize_trust (VList [VTuple [VInt 0; VInt 1; VStr "positive"]])) = CVal (l_edge c) /\
  conv_trusts (canonicalize_trust (VTuple [VList [VInt 2; VInt 1; VStr "Negative"]])) = CVal (l_trap c) /\
  accepts_lattice c = true.
Proof. cbv zeta. repeat split; vm_compute; reflexivity. Qed.

(* Integral floats.  The canonicalisers accept a float that == an accepted int and return it as it
   is (canonicalize_monotonicity(1.0) = 1.0): the decide_* functions of Harness/H_C16.v therefore
   read every canonicaliser output through norm_num / norm_nums / norm_trusts (an integral VFloat
   becomes the VInt it equals; trust DIMENSIONS are left alone, the code tests isinstance(dim, int))
   before typing it.  The normalisation changes no == test against an int, a canonical scalar is
   never stuck after it, and the canonical ranges above hold for this reading too. *)
From TFL Require Import Proofs.VerifyFacts3.
Theorem C16_float_normalisation_preserves_int_equality : forall w k,
  py_eq (norm_num w) (VInt k) = py_eq w (VInt k).
Proof. exact norm_num_py_eq_int. Qed.
Print Assumptions C16_float_normalisation_preserves_int_equality.
Theorem C16_canonical_monotonicity_never_stuck : forall v ad w,
  canonicalize_monotonicity v ad = Ok w ->
  exists o, conv_scalar (rmap norm_num (canonicalize_monotonicity v ad)) = CVal o.
Proof. exact monotonicity_never_stuck. Qed.
Print Assumptions C16_canonical_monotonicity_never_stuck.
Theorem C16_canonical_convexity_never_stuck : forall v w,
  canonicalize_convexity v = Ok w ->
  exists o, conv_scalar (rmap norm_num (canonicalize_convexity v)) = CVal o.
Proof. exact convexity_never_stuck. Qed.
Print Assumptions C16_canonical_convexity_never_stuck.
Theorem C16_canonical_monotonicity_typed_float : forall v ad o,
  conv_scalar (rmap norm_num (canonicalize_monotonicity v ad)) = CVal o -> oz o = -1 \/ oz o = 0 \/ oz o = 1.
Proof. exact link_monotonicity_norm. Qed.
Print Assumptions C16_canonical_monotonicity_typed_float.
Theorem C16_canonical_convexity_typed_float : forall v o,
  conv_scalar (rmap norm_num (canonicalize_convexity v)) = CVal o -> oz o = -1 \/ oz o = 0 \/ oz o = 1.
Proof. exact link_convexity_norm. Qed.
Print Assumptions C16_canonical_convexity_typed_float.
Theorem C16_canonical_monotonicities_typed_float : forall v ad ms,
  conv_zs (rmap norm_nums (canonicalize_monotonicities v ad)) = CVal (Some ms) ->
  (forall m, In m ms -> m = 0 \/ m = 1 \/ m = -1) /\
  (py_truthy ad = false -> forall m, In m ms -> m = 0 \/ m = 1).
Proof. exact link_monotonicities_norm. Qed.
Print Assumptions C16_canonical_monotonicities_typed_float.
Theorem C16_canonical_trust_directions_typed_float : forall v ts,
  conv_trusts (rmap norm_trusts (canonicalize_trust v)) = CVal ts -> forall a b d, In (a, b, d) ts -> d = 1 \/ d = -1.
Proof. exact link_trusts_norm. Qed.
Print Assumptions C16_canonical_trust_directions_typed_float.
Theorem C16_canonical_accepted_lattice_is_valid_float : forall vm ve vt c units,
  conv_zs (rmap norm_nums (canonicalize_monotonicities vm (VBool false))) = CVal (l_monos c) ->
  conv_trusts (rmap norm_trusts (canonicalize_trust ve)) = CVal (l_edge c) ->
  conv_trusts (rmap norm_trusts (canonicalize_trust vt)) = CVal (l_trap c) ->
  accepts_lattice c = true -> (1 <= units)%nat ->
  LatticeSpec.cfg_valid (conv_lattice c units).
Proof. exact canonical_accepted_lattice_cfg_valid_norm. Qed.
Print Assumptions C16_canonical_accepted_lattice_is_valid_float.
Example C16_float_spellings_example :
  conv_scalar (rmap norm_num (canonicalize_monotonicity (VFloat 1) (VBool true))) = CVal (Some 1) /\
  conv_scalar (rmap norm_num (canonicalize_convexity (VFloat 0))) = CVal (Some 0) /\
  conv_scalar (canonicalize_monotonicity (VFloat 1) (VBool true)) = CStuck.
Proof. exact float_spellings_typed. Qed.

(* ========================================================================== *)
(* Second part of Model/Verify.v: RTL, CDF, regulariser objects, premade       *)
(* verify_config (Proofs/VerifyFacts2.v).  Same reading: accepts_* = true means *)
(* constructed (+ built), false means ValueError (or the other exception class  *)
(* named in the comment).                                                       *)
(* ========================================================================== *)
From TFL Require Model.RTLStructure.
From TFL Require Import Proofs.VerifyFacts2.

(* ---- lattice regulariser objects (lattice_layer.LaplacianRegularizer / TorsionRegularizer):
   g_sizes = lattice_sizes, g_l1 / g_l2 = the amounts (AmtSeq n: a list / tuple of length n) *)
Theorem C16_reject_lattice_regularizer_size_below_2 : forall c s,
  In s (g_sizes c) -> s < 2 -> accepts_lattice_regularizer c = false.
Proof. exact reject_latreg_size. Qed.
Print Assumptions C16_reject_lattice_regularizer_size_below_2.
Theorem C16_reject_lattice_regularizer_l1_length : forall c n,
  g_l1 c = AmtSeq n -> n <> 0 -> n <> zlen (g_sizes c) -> accepts_lattice_regularizer c = false.
Proof. exact reject_latreg_l1_length. Qed.
Print Assumptions C16_reject_lattice_regularizer_l1_length.
Theorem C16_reject_lattice_regularizer_l2_length : forall c n,
  g_l2 c = AmtSeq n -> n <> 0 -> n <> zlen (g_sizes c) -> accepts_lattice_regularizer c = false.
Proof. exact reject_latreg_l2_length. Qed.
Print Assumptions C16_reject_lattice_regularizer_l2_length.
Theorem C16_accepted_lattice_regularizer_wellformed : forall c,
  accepts_lattice_regularizer c = true -> latreg_accepted c.
Proof. exact accepts_lattice_regularizer_sound. Qed.
Print Assumptions C16_accepted_lattice_regularizer_wellformed.
Theorem C16_wellformed_lattice_regularizer_accepted : forall c,
  latreg_accepted c -> accepts_lattice_regularizer c = true.
Proof. exact accepts_lattice_regularizer_complete. Qed.
Print Assumptions C16_wellformed_lattice_regularizer_accepted.
(* as is: an empty per-dimension list is falsy, hence not compared with the rank *)
Theorem C16_reject_lattice_regularizer_empty_list_refuted : exists c, g_l1 c = AmtSeq 0 /\ zlen (g_sizes c) <> 0 /\ accepts_lattice_regularizer c = true.
Proof. exact latreg_empty_list_accepted. Qed.
Print Assumptions C16_reject_lattice_regularizer_empty_list_refuted.
(* the PWL regularisers' constructors check nothing *)
Theorem C16_pwl_regularizer_always_accepted : forall l1 l2 cyc,
  accepts_pwl_regularizer l1 l2 cyc = true.
Proof. exact pwl_regularizer_always_accepted. Qed.
Print Assumptions C16_pwl_regularizer_always_accepted.

(* ---- RTL: rtl_lib.verify_hyperparameters + RTL.__init__ + RTL.build.
   t_num / t_rank / t_size = num_lattices / lattice_rank / lattice_size; rtl_n_inputs = number of
   inputs in the input-shape dict; t_param, t_init = parameterization and kernel_initializer as
   the code's membership tests classify them; t_regs = kernel_regularizer (RegTuple: one
   (name, l1, l2) tuple, not inspected by rtl_lib; RegList: the list form; RegTuples: a tuple OF
   regulariser tuples - the empty tuple included -, not inspected by rtl_lib either and iterated
   by the Lattice sub-layers).  The sub-layer checks
   (parameterization, initialiser, init range, regulariser names and per-dimension amounts,
   num_terms) are reached only when there is a lattice: 1 <= num_lattices. *)
Theorem C16_reject_rtl_lattice_size_below_2 : forall c,
  t_size c < 2 -> accepts_rtl c = false.
Proof. exact reject_rtl_size. Qed.
Print Assumptions C16_reject_rtl_lattice_size_below_2.
Theorem C16_reject_rtl_output_min_ge_max : forall c lo hi,
  t_omin c = Some lo -> t_omax c = Some hi -> (hi <= lo)%Q -> accepts_rtl c = false.
Proof. exact reject_rtl_output_min_ge_max. Qed.
Print Assumptions C16_reject_rtl_output_min_ge_max.
Theorem C16_reject_rtl_unknown_interpolation : forall c,
  t_interp_ok c = false -> accepts_rtl c = false.
Proof. exact reject_rtl_interpolation. Qed.
Print Assumptions C16_reject_rtl_unknown_interpolation.
Theorem C16_reject_rtl_kfl_linear_initializer : forall c,
  t_param c = ParamKfl -> t_init c = InitLinearExact -> accepts_rtl c = false.
Proof. exact reject_rtl_kfl_linear_initializer. Qed.
Print Assumptions C16_reject_rtl_kfl_linear_initializer.
Theorem C16_reject_rtl_kfl_regularizer : forall c,
  t_param c = ParamKfl -> t_regs c <> RegNone -> accepts_rtl c = false.
Proof. exact reject_rtl_kfl_regularizer. Qed.
Print Assumptions C16_reject_rtl_kfl_regularizer.
Theorem C16_reject_rtl_regularizer_list_entry_bad : forall c es e,
  t_regs c = RegList es -> In e es -> (re_len e <> 3 \/ re_l1 e <> AmtFloat \/ re_l2 e <> AmtFloat) ->
  accepts_rtl c = false.
Proof. exact reject_rtl_regularizer_list_entry. Qed.
Print Assumptions C16_reject_rtl_regularizer_list_entry_bad.
(* KeyError in the library, not ValueError (reported) *)
Theorem C16_reject_rtl_unknown_input_key : forall c,
  t_keys_ok c = false -> accepts_rtl c = false.
Proof. exact reject_rtl_input_key. Qed.
Print Assumptions C16_reject_rtl_unknown_input_key.
(* IndexError in the library, not ValueError (reported) *)
Theorem C16_reject_rtl_empty_regularizer_list : forall c,
  t_regs c = RegList [] -> accepts_rtl c = false.
Proof. exact reject_rtl_empty_regularizer_list. Qed.
Print Assumptions C16_reject_rtl_empty_regularizer_list.
Theorem C16_reject_rtl_too_small : forall c,
  t_num c * t_rank c < rtl_n_inputs c -> accepts_rtl c = false.
Proof. exact reject_rtl_too_small. Qed.
Print Assumptions C16_reject_rtl_too_small.
Theorem C16_reject_rtl_no_inputs : forall c,
  rtl_n_inputs c <= 0 -> accepts_rtl c = false.
Proof. exact reject_rtl_no_inputs. Qed.
Print Assumptions C16_reject_rtl_no_inputs.
Theorem C16_reject_rtl_unknown_parameterization : forall c,
  1 <= t_num c -> t_param c = ParamOther -> accepts_rtl c = false.
Proof. exact reject_rtl_parameterization. Qed.
Print Assumptions C16_reject_rtl_unknown_parameterization.
Theorem C16_reject_rtl_init_min_without_max : forall c,
  1 <= t_num c ->
  (t_init_min c = None /\ t_init_max c <> None) \/ (t_init_min c <> None /\ t_init_max c = None) ->
  accepts_rtl c = false.
Proof. exact reject_rtl_init_min_without_max. Qed.
Print Assumptions C16_reject_rtl_init_min_without_max.
Theorem C16_reject_rtl_unknown_initializer : forall c,
  1 <= t_num c -> t_init c = InitUnknown -> accepts_rtl c = false.
Proof. exact reject_rtl_unknown_initializer. Qed.
Print Assumptions C16_reject_rtl_unknown_initializer.
Theorem C16_reject_rtl_initializer_of_other_parameterization : forall c,
  1 <= t_num c ->
  (t_param c = ParamAll /\ t_init c = InitKfl) \/
  (t_param c = ParamKfl /\ (t_init c = InitLatticeRanged \/ t_init c = InitLinearExact)) ->
  accepts_rtl c = false.
Proof. exact reject_rtl_initializer_of_other_parameterization. Qed.
Print Assumptions C16_reject_rtl_initializer_of_other_parameterization.
Theorem C16_reject_rtl_empty_init_range : forall c,
  1 <= t_num c -> t_param c = ParamAll -> init_ranged (t_init c) ->
  (snd (rtl_init_range c) <= fst (rtl_init_range c))%Q -> accepts_rtl c = false.
Proof. exact reject_rtl_empty_init_range. Qed.
Print Assumptions C16_reject_rtl_empty_init_range.
Theorem C16_reject_rtl_lattice_regularizer_bad : forall c e,
  1 <= t_num c -> t_param c = ParamAll -> In e (regs_entries (t_regs c)) ->
  (re_len e <> 3 \/ re_name_known e = false \/
   (exists n, re_l1 e = AmtSeq n /\ n <> 0 /\ n <> t_rank c) \/
   (exists n, re_l2 e = AmtSeq n /\ n <> 0 /\ n <> t_rank c)) ->
  accepts_rtl c = false.
Proof. exact reject_rtl_lattice_regularizer. Qed.
Print Assumptions C16_reject_rtl_lattice_regularizer_bad.
Theorem C16_reject_rtl_kfl_num_terms_negative : forall c,
  1 <= t_num c -> t_param c = ParamKfl -> t_terms c < 0 -> accepts_rtl c = false.
Proof. exact reject_rtl_kfl_num_terms. Qed.
Print Assumptions C16_reject_rtl_kfl_num_terms_negative.
Theorem C16_accepted_rtl_wellformed : forall c,
  accepts_rtl c = true -> rtl_accepted c.
Proof. exact accepts_rtl_sound. Qed.
Print Assumptions C16_accepted_rtl_wellformed.
(* kernel_regularizer as a tuple of regulariser tuples: every entry must be a 3-tuple with a known name *)
Theorem C16_reject_rtl_tuple_of_tuples_entry_bad : forall c es e,
  1 <= t_num c -> t_param c = ParamAll ->
  t_regs c = RegTuples es -> In e es -> (re_len e <> 3 \/ re_name_known e = false) -> accepts_rtl c = false.
Proof. exact reject_rtl_tuple_of_tuples_entry. Qed.
Print Assumptions C16_reject_rtl_tuple_of_tuples_entry_bad.
(* as is: rtl_lib's "l1 / l2 must be a single float" applies to the list form only: the same int amount
   is accepted inside a tuple of tuples and rejected inside a list *)
Theorem C16_reject_rtl_tuple_of_tuples_int_amount_refuted : exists c e,
  t_regs c = RegTuples [e] /\ re_l1 e = AmtInt /\ 1 <= t_num c /\ accepts_rtl c = true /\
  accepts_rtl (mkRTL (t_num c) (t_rank c) (t_size c) (t_omin c) (t_omax c) (t_interp_ok c) (t_param c) (t_init c)
                     (RegList [e]) (t_init_min c) (t_init_max c) (t_terms c) (t_keys_ok c) (t_inc c) (t_unc c)) = false.
Proof. exact rtl_tuple_of_tuples_not_inspected. Qed.
Print Assumptions C16_reject_rtl_tuple_of_tuples_int_amount_refuted.
(* as is: num_lattices < 0 and lattice_rank < 0 pass the product test and nothing else is checked (reported) *)
Theorem C16_reject_rtl_negative_counts_refuted : exists c, t_num c < 0 /\ t_rank c < 0 /\ t_param c = ParamOther /\ accepts_rtl c = true.
Proof. exact rtl_negative_counts_accepted. Qed.
Print Assumptions C16_reject_rtl_negative_counts_refuted.
(* as is (known finding D48): num_terms = 0 passes `if num_terms and num_terms < 1` *)
Theorem C16_reject_rtl_zero_terms_refuted : exists c, t_param c = ParamKfl /\ t_terms c = 0 /\ 1 <= t_num c /\ accepts_rtl c = true.
Proof. exact rtl_zero_terms_accepted. Qed.
Print Assumptions C16_reject_rtl_zero_terms_refuted.
(* bridge to C17: an accepted RTL with num_lattices >= 0 has a lattice, rank >= 1, an input, enough slots *)
Theorem C16_accepted_rtl_counts : forall c,
  accepts_rtl c = true -> 0 <= t_num c ->
  1 <= t_num c /\ 1 <= t_rank c /\ 0 < rtl_n_inputs c <= t_num c * t_rank c.
Proof. exact accepted_rtl_counts. Qed.
Print Assumptions C16_accepted_rtl_counts.
(* bridge to C17: _get_rtl_structure (Model/RTLStructure.v) does not raise, for every shuffle; the
   result is the premise `rtl_structure cfg sh1 sh2 = Some s` of the C17_rtl_* theorems *)
Theorem C16_accepted_rtl_structure_exists : forall c avoid ms sh1 sh2,
  accepts_rtl c = true -> 0 <= t_num c ->
  (forall z, t_inc c = Some z -> 0 <= z) -> (forall z, t_unc c = Some z -> 0 <= z) ->
  exists s, RTLStructure.rtl_structure (conv_rtl c avoid ms) sh1 sh2 = Some s.
Proof. exact accepted_rtl_structure_exists. Qed.
Print Assumptions C16_accepted_rtl_structure_exists.
(* every Lattice the RTL creates (sizes [lattice_size] * lattice_rank, any monotonicity tuple of that
   length) passes lattice_lib.verify_hyperparameters; with C16_accepted_lattice_is_valid: cfg_valid *)
Theorem C16_accepted_rtl_sublattice_accepted : forall c ms,
  accepts_rtl c = true -> 0 <= t_rank c -> zlen ms = t_rank c ->
  accepts_lattice (sub_lattice_cfg c ms) = true.
Proof. exact accepted_rtl_sublattice_accepted. Qed.
Print Assumptions C16_accepted_rtl_sublattice_accepted.
(* every KroneckerFactoredLattice the RTL creates passes accepts_kfl *)
Theorem C16_accepted_rtl_subkfl_accepted : forall c units ms,
  accepts_rtl c = true -> 1 <= t_num c -> t_param c = ParamKfl ->
  1 <= units -> zlen ms = t_rank c -> accepts_kfl (sub_kfl_cfg c units ms) = true.
Proof. exact accepted_rtl_subkfl_accepted. Qed.
Print Assumptions C16_accepted_rtl_subkfl_accepted.

(* ---- CDF: __init__ + build; activation / reduction are only checked by call() (D49) *)
Theorem C16_reject_cdf_unknown_monotonicity : forall c,
  d_mono_ok c = false -> accepts_cdf c = false.
Proof. exact reject_cdf_monotonicity. Qed.
Print Assumptions C16_reject_cdf_unknown_monotonicity.
Theorem C16_reject_cdf_unknown_initializer : forall c,
  d_init_ok c = false -> accepts_cdf c = false.
Proof. exact reject_cdf_initializer. Qed.
Print Assumptions C16_reject_cdf_unknown_initializer.
(* ZeroDivisionError in the library (known finding D48) *)
Theorem C16_reject_cdf_sparsity_zero : forall c,
  d_sparsity c = 0 -> accepts_cdf c = false.
Proof. exact reject_cdf_sparsity_zero. Qed.
Print Assumptions C16_reject_cdf_sparsity_zero.
Theorem C16_reject_cdf_input_dim_not_multiple : forall c,
  d_dims c mod d_sparsity c <> 0 -> accepts_cdf c = false.
Proof. exact reject_cdf_input_dim_not_multiple. Qed.
Print Assumptions C16_reject_cdf_input_dim_not_multiple.
Theorem C16_reject_cdf_units_not_multiple : forall c,
  d_units c mod d_sparsity c <> 0 -> accepts_cdf c = false.
Proof. exact reject_cdf_units_not_multiple. Qed.
Print Assumptions C16_reject_cdf_units_not_multiple.
Theorem C16_reject_cdf_negative_keypoints : forall c,
  d_keypoints c < 0 -> accepts_cdf c = false.
Proof. exact reject_cdf_negative_keypoints. Qed.
Print Assumptions C16_reject_cdf_negative_keypoints.
Theorem C16_reject_cdf_negative_units_per_group : forall c,
  d_units c / d_sparsity c < 0 -> accepts_cdf c = false.
Proof. exact reject_cdf_negative_units. Qed.
Print Assumptions C16_reject_cdf_negative_units_per_group.
Theorem C16_reject_cdf_negative_units : forall c,
  0 < d_sparsity c -> d_units c < 0 -> accepts_cdf c = false.
Proof. exact reject_cdf_negative_units_pos. Qed.
Print Assumptions C16_reject_cdf_negative_units.
Theorem C16_reject_cdf_unknown_scaling_type : forall c,
  d_scaling_ok c = false -> accepts_cdf c = false.
Proof. exact reject_cdf_scaling_type. Qed.
Print Assumptions C16_reject_cdf_unknown_scaling_type.
Theorem C16_accepted_cdf_wellformed : forall c,
  accepts_cdf c = true -> cdf_accepted c.
Proof. exact accepts_cdf_sound. Qed.
Print Assumptions C16_accepted_cdf_wellformed.
Theorem C16_wellformed_cdf_accepted : forall c,
  cdf_accepted c -> accepts_cdf c = true.
Proof. exact accepts_cdf_complete. Qed.
Print Assumptions C16_wellformed_cdf_accepted.
(* as is (known finding D49) *)
Theorem C16_reject_cdf_unknown_activation_refuted : exists c, d_activation_ok c = false /\ accepts_cdf c = true /\ cdf_call_ok c = false.
Proof. exact cdf_unknown_activation_accepted. Qed.
Print Assumptions C16_reject_cdf_unknown_activation_refuted.
Theorem C16_reject_cdf_unknown_reduction_refuted : exists c, d_reduction_ok c = false /\ accepts_cdf c = true /\ cdf_call_ok c = false.
Proof. exact cdf_unknown_reduction_accepted. Qed.
Print Assumptions C16_reject_cdf_unknown_reduction_refuted.
(* as is (known finding D48) *)
Theorem C16_reject_cdf_zero_keypoints_refuted : exists c, d_keypoints c = 0 /\ accepts_cdf c = true.
Proof. exact cdf_zero_keypoints_accepted. Qed.
Print Assumptions C16_reject_cdf_zero_keypoints_refuted.
(* call() reshapes (batch, input_dim, units / factor) into (batch, input_dim / factor, units) *)
Theorem C16_accepted_cdf_reshape_consistent : forall c,
  accepts_cdf c = true ->
  d_dims c * (d_units c / d_sparsity c) = (d_dims c / d_sparsity c) * d_units c /\
  d_dims c = d_sparsity c * (d_dims c / d_sparsity c) /\
  d_units c = d_sparsity c * (d_units c / d_sparsity c).
Proof. exact accepted_cdf_reshape_consistent. Qed.
Print Assumptions C16_accepted_cdf_reshape_consistent.

(* ---- premade_lib.verify_config.  shape_constrained f = unimodality, reflects_trust_in or
   dominates set on feature f; f_regs_calib / m_regs_calib = per regulariser config, whether its
   name starts with 'calib_'; LatList oks = lattices given as a list, per lattice whether it is an
   iterable of str; f_cat_mono = the categorical monotonicity pairs as the code iterates them. *)
Theorem C16_reject_config_feature_configs_none : forall c,
  m_features c = None -> accepts_verify_config c = false.
Proof. exact reject_config_features_none. Qed.
Print Assumptions C16_reject_config_feature_configs_none.
Theorem C16_reject_config_output_initialization : forall c,
  m_output_init_ok c = false -> accepts_verify_config c = false.
Proof. exact reject_config_output_initialization. Qed.
Print Assumptions C16_reject_config_output_initialization.
Theorem C16_reject_config_ensemble_lattices_unspecified : forall c,
  m_kind c = MEnsemble -> m_lattices c = LatOther -> accepts_verify_config c = false.
Proof. exact reject_config_ensemble_lattices_unspecified. Qed.
Print Assumptions C16_reject_config_ensemble_lattices_unspecified.
Theorem C16_reject_config_rtl_num_lattices : forall c,
  m_kind c = MEnsemble -> m_lattices c = LatRtl ->
  (m_num_lattices c = None \/ exists n, m_num_lattices c = Some n /\ n < 2) -> accepts_verify_config c = false.
Proof. exact reject_config_rtl_num_lattices. Qed.
Print Assumptions C16_reject_config_rtl_num_lattices.
Theorem C16_reject_config_rtl_lattice_sizes_differ : forall c fs f g,
  m_kind c = MEnsemble -> m_lattices c = LatRtl ->
  m_features c = Some fs -> In f fs -> In g fs -> f_lattice_size f <> f_lattice_size g ->
  accepts_verify_config c = false.
Proof. exact reject_config_rtl_lattice_sizes_differ. Qed.
Print Assumptions C16_reject_config_rtl_lattice_sizes_differ.
Theorem C16_reject_config_rtl_shape_constraint : forall c fs f,
  m_kind c = MEnsemble -> m_lattices c = LatRtl ->
  m_features c = Some fs -> In f fs -> shape_constrained f -> accepts_verify_config c = false.
Proof. exact reject_config_rtl_shape_constraint. Qed.
Print Assumptions C16_reject_config_rtl_shape_constraint.
Theorem C16_reject_config_rtl_feature_regularizer : forall c fs f,
  m_kind c = MEnsemble -> m_lattices c = LatRtl ->
  m_features c = Some fs -> In f fs -> In false (f_regs_calib f) -> accepts_verify_config c = false.
Proof. exact reject_config_rtl_feature_regularizer. Qed.
Print Assumptions C16_reject_config_rtl_feature_regularizer.
Theorem C16_reject_config_ensemble_fewer_than_2_lattices : forall c oks,
  m_kind c = MEnsemble -> m_lattices c = LatList oks ->
  zlen oks < 2 -> accepts_verify_config c = false.
Proof. exact reject_config_ensemble_fewer_than_2_lattices. Qed.
Print Assumptions C16_reject_config_ensemble_fewer_than_2_lattices.
Theorem C16_reject_config_ensemble_lattice_not_names : forall c oks,
  m_kind c = MEnsemble -> m_lattices c = LatList oks ->
  In false oks -> accepts_verify_config c = false.
Proof. exact reject_config_ensemble_lattice_not_names. Qed.
Print Assumptions C16_reject_config_ensemble_lattice_not_names.
Theorem C16_reject_config_kfl_model_regularizer : forall c,
  (m_kind c = MLattice \/ m_kind c = MEnsemble) -> m_kfl c = true ->
  In false (m_regs_calib c) -> accepts_verify_config c = false.
Proof. exact reject_config_kfl_model_regularizer. Qed.
Print Assumptions C16_reject_config_kfl_model_regularizer.
Theorem C16_reject_config_kfl_feature_regularizer : forall c fs f,
  (m_kind c = MLattice \/ m_kind c = MEnsemble) -> m_kfl c = true ->
  m_features c = Some fs -> In f fs -> In false (f_regs_calib f) -> accepts_verify_config c = false.
Proof. exact reject_config_kfl_feature_regularizer. Qed.
Print Assumptions C16_reject_config_kfl_feature_regularizer.
Theorem C16_reject_config_kfl_lattice_sizes_differ : forall c fs f g,
  (m_kind c = MLattice \/ m_kind c = MEnsemble) -> m_kfl c = true ->
  m_features c = Some fs -> In f fs -> In g fs -> f_lattice_size f <> f_lattice_size g ->
  accepts_verify_config c = false.
Proof. exact reject_config_kfl_lattice_sizes_differ. Qed.
Print Assumptions C16_reject_config_kfl_lattice_sizes_differ.
Theorem C16_reject_config_kfl_shape_constraint : forall c fs f,
  (m_kind c = MLattice \/ m_kind c = MEnsemble) -> m_kfl c = true ->
  m_features c = Some fs -> In f fs -> shape_constrained f -> accepts_verify_config c = false.
Proof. exact reject_config_kfl_shape_constraint. Qed.
Print Assumptions C16_reject_config_kfl_shape_constraint.
Theorem C16_reject_config_aggregate_middle_dimension : forall c,
  m_kind c = MAggregate -> m_middle_dim c < 1 ->
  accepts_verify_config c = false.
Proof. exact reject_config_aggregate_middle_dimension. Qed.
Print Assumptions C16_reject_config_aggregate_middle_dimension.
Theorem C16_reject_config_aggregate_middle_monotonicity : forall c,
  m_kind c = MAggregate ->
  m_middle_mono c = true -> m_middle_calib c = false -> accepts_verify_config c = false.
Proof. exact reject_config_aggregate_middle_monotonicity. Qed.
Print Assumptions C16_reject_config_aggregate_middle_monotonicity.
Theorem C16_reject_config_feature_keypoints : forall c fs f,
  m_features c = Some fs -> In f fs ->
  f_buckets f = 0 -> f_keypoints_ok f = false -> accepts_verify_config c = false.
Proof. exact reject_config_feature_keypoints. Qed.
Print Assumptions C16_reject_config_feature_keypoints.
Theorem C16_reject_config_categorical_monotonicity_not_iterable : forall c fs f,
  m_features c = Some fs -> In f fs ->
  f_buckets f <> 0 -> f_cat_mono f = CmNotIterable -> accepts_verify_config c = false.
Proof. exact reject_config_categorical_monotonicity_not_iterable. Qed.
Print Assumptions C16_reject_config_categorical_monotonicity_not_iterable.
Theorem C16_reject_config_categorical_element_not_iterable : forall c fs f es,
  m_features c = Some fs -> In f fs ->
  f_buckets f <> 0 -> f_cat_mono f = CmElems es -> In ElemNotIterable es -> accepts_verify_config c = false.
Proof. exact reject_config_categorical_element_not_iterable. Qed.
Print Assumptions C16_reject_config_categorical_element_not_iterable.
Theorem C16_reject_config_categorical_value_not_int : forall c fs f es vs,
  m_features c = Some fs -> In f fs ->
  f_buckets f <> 0 -> f_cat_mono f = CmElems es -> In (ElemVals vs) es -> In None vs ->
  accepts_verify_config c = false.
Proof. exact reject_config_categorical_value_not_int. Qed.
Print Assumptions C16_reject_config_categorical_value_not_int.
Theorem C16_reject_config_categorical_value_out_of_range : forall c fs f es vs z,
  m_features c = Some fs -> In f fs ->
  f_buckets f <> 0 -> f_cat_mono f = CmElems es -> In (ElemVals vs) es -> In (Some z) vs ->
  (z < 0 \/ f_buckets f <= z) -> accepts_verify_config c = false.
Proof. exact reject_config_categorical_value_out_of_range. Qed.
Print Assumptions C16_reject_config_categorical_value_out_of_range.
Theorem C16_accepted_config_wellformed : forall c,
  accepts_verify_config c = true -> config_accepted c.
Proof. exact accepts_verify_config_sound. Qed.
Print Assumptions C16_accepted_config_wellformed.
(* as is (known finding D50): an empty feature list passes verify_config *)
Theorem C16_reject_config_empty_feature_list_refuted : exists c, m_features c = Some [] /\ accepts_verify_config c = true.
Proof. exact config_empty_features_accepted. Qed.
Print Assumptions C16_reject_config_empty_feature_list_refuted.

Example C16_accepted_rtl_example :
  accepts_rtl (mkRTL 2 2 2 (Some (0#1)) (Some (1#1))%Q true ParamAll InitLatticeRanged
                     (RegList [mkReg 3 true AmtFloat AmtFloat]) None None 2 true (Some 1) (Some 2)) = true.
Proof. exact rtl_accepted_example. Qed.
(* the empty tuple: no regulariser for 'all_vertices', but "is not None" for 'kronecker_factored' *)
Example C16_rtl_empty_tuple_regularizer_example :
  accepts_rtl (mkRTL 2 2 2 None None true ParamAll InitLatticeRanged (RegTuples []) None None 2 true None (Some 3)) = true /\
  accepts_rtl (mkRTL 2 2 2 None None true ParamKfl InitKfl (RegTuples []) None None 2 true None (Some 3)) = false.
Proof. exact rtl_empty_tuple_regularizer. Qed.
Example C16_accepted_cdf_example : accepts_cdf (mkCDF 5 4 2 6 true true true true true) = true.
Proof. exact cdf_accepted_example. Qed.
Example C16_lattice_regularizer_example : accepts_lattice_regularizer (mkLRg [2; 3] (AmtSeq 2) AmtFloat) = true /\
                         accepts_lattice_regularizer (mkLRg [2; 3] (AmtSeq 3) AmtFloat) = false.
Proof. exact latreg_example. Qed.
Example C16_accepted_config_example :
  accepts_verify_config
    (mkPM MEnsemble (Some [mkF 0 true CmFalsyOrNone 2 false false false [true];
                           mkF 3 false (CmElems [ElemVals [Some 0; Some 2]]) 2 false false false []])
          LatRtl (Some 2) true [true] 1 false false true) = true.
Proof. exact config_accepted_example. Qed.

(* ========================================================================== *)
(* "accepted => total": no silent totalisation.                                 *)
(*                                                                              *)
(* The Gallina models of weight projection and evaluation are total by          *)
(* construction (x / 0 = 0 in Q, nth out of range returns its default, map2     *)
(* truncates), so a ZeroDivisionError, a NaN or an out-of-range gather of the    *)
(* code would be invisible to the theorems about them.  The theorems below       *)
(* (Proofs/TotalityFacts.v) show, site by site, that for ACCEPTED                *)
(* configurations the totalised cases are never used - every denominator of the  *)
(* models is non-zero (or is the code's own guard), every index in range - and   *)
(* exhibit the accepted configurations for which they are (`_refuted`, with the  *)
(* known-finding id).  `_site` theorems tie the named denominator to the model:  *)
(* the model function IS "numerator / that denominator".  Finite results of the  *)
(* float code beyond this (overflow, underflow) are tested only.                 *)
(* ========================================================================== *)
From TFL Require Import Base.QNum Base.Lists Base.Tensor Proofs.TotalityFacts.
Local Open Scope Q_scope.

(* ---- Linear: linear_lib.project -------------------------------------------- *)
(* `weights /= scalings`: no scaling is ever 0, for any configuration (a range is
   used only `if upper > lower`) *)
Theorem C16_total_linear_scalings_nonzero : forall ms los his,
  Forall (fun s => ~ s == 0) (Model.LinearProject.scalings ms los his).
Proof. exact linear_scalings_nonzero. Qed.
Print Assumptions C16_total_linear_scalings_nonzero.
(* the division site of the model *)
Theorem C16_total_linear_rdom_division_site : forall rt c w,
  Model.LinearProject.lc_mdom c = [] -> Model.LinearProject.lc_rdom c <> [] ->
  Model.LinearProject.lin_project_col rt c w =
  match PartialOrder.po_project (Model.LinearProject.swap_pairs (Model.LinearProject.lc_rdom c))
          (map2 Qmult (Model.LinearProject.sign_clip (Model.LinearProject.lc_monos c) w)
             (Model.LinearProject.scalings (Model.LinearProject.lc_monos c) (Model.LinearProject.lc_min c)
                (Model.LinearProject.lc_max c))) with
  | Some p => Some (Model.LinearProject.normalize rt (Model.LinearProject.lc_norm c)
                      (map2 (fun x s => Qred (x / s)) p
                         (Model.LinearProject.scalings (Model.LinearProject.lc_monos c) (Model.LinearProject.lc_min c)
                            (Model.LinearProject.lc_max c))))
  | None => None
  end.
Proof. exact lin_rdom_site. Qed.
Print Assumptions C16_total_linear_rdom_division_site.
(* accepted: non-zero, and as many scalings as weights (no map2 truncation) when input_min / input_max
   have the length of the monotonicities *)
Theorem C16_total_linear_accepted_scalings : forall c m norm,
  accepts_linear c = true -> n_monos c = Some m ->
  let lc := conv_linear c norm in
  Forall (fun s => ~ s == 0)
    (Model.LinearProject.scalings (Model.LinearProject.lc_monos lc) (Model.LinearProject.lc_min lc) (Model.LinearProject.lc_max lc)) /\
  (List.length (olist (n_imin c)) = List.length m -> List.length (olist (n_imax c)) = List.length m ->
   List.length (Model.LinearProject.scalings (Model.LinearProject.lc_monos lc) (Model.LinearProject.lc_min lc)
                  (Model.LinearProject.lc_max lc)) = List.length m).
Proof. exact linear_accepted_scalings. Qed.
Print Assumptions C16_total_linear_accepted_scalings.
(* as is (known finding D45): shorter input_min / input_max are accepted; the model would silently
   truncate, the projection raises *)
Theorem C16_total_linear_scalings_length_refuted : exists c m,
  accepts_linear c = true /\ n_monos c = Some m /\
  (List.length (Model.LinearProject.scalings m (olist (n_imin c)) (olist (n_imax c))) < List.length m)%nat.
Proof. exact linear_short_bounds_accepted. Qed.
Print Assumptions C16_total_linear_scalings_length_refuted.
(* `weights / norm` with the code's guard `norm = tf.where(norm < 1e-8, 1.0, norm)` *)
Theorem C16_total_linear_norm_division_site : forall rt k w,
  Model.LinearProject.normalize rt (S k) w = map (fun x => Qred (x / lin_norm_den rt (S k) w)) w /\
  lin_norm_den rt (S k) w =
    (let n := Model.LinearProject.col_norm rt (S k) w in if qlt n Model.LinearProject.norm_eps then 1 else n).
Proof. intros rt k w. split; [exact (lin_normalize_site rt k w)|reflexivity]. Qed.
Print Assumptions C16_total_linear_norm_division_site.
Theorem C16_total_linear_norm_denominator_nonzero : forall rt order w,
  (1 # 100000000) <= lin_norm_den rt order w /\ ~ lin_norm_den rt order w == 0.
Proof. intros rt order w. split; [exact (lin_norm_den_ge_eps rt order w)|exact (lin_norm_den_nonzero rt order w)]. Qed.
Print Assumptions C16_total_linear_norm_denominator_nonzero.

(* ---- PWLCalibration: projection --------------------------------------------- *)
(* `/ num_heights`, `/ (num_heights + 1)` of the monotone bounds projection: every heights vector the
   Dykstra loop hands to it has n >= 1 entries *)
Theorem C16_total_pwl_bounds_denominators_nonzero : forall c n b h k,
  Proofs.PWLProject.pwl_valid c n -> List.length h = n ->
  let st := Model.PWLProject.dyk_iter c k (Model.PWLProject.dyk_init b h) in
  List.length (Proofs.PWLProject.bnd_rh st) = n /\
  List.length (Model.PWLProject.qneg_list (Proofs.PWLProject.bnd_rh st)) = n /\
  ~ Model.PWLProject.qn (List.length (Proofs.PWLProject.bnd_rh st)) == 0 /\
  ~ Model.PWLProject.qn (List.length (Proofs.PWLProject.bnd_rh st)) + 1 == 0.
Proof. exact pwl_dykstra_bounds_dens_nonzero. Qed.
Print Assumptions C16_total_pwl_bounds_denominators_nonzero.
(* `(h0 + h1) / (l0 + l1)` of _project_convexity and `lengths[i] / lengths[i-1]` of
   _approximately_project_convexity, and the two above, for an accepted configuration:
   the lengths are the keypoint gaps *)
Theorem C16_total_pwl_projection_denominators : forall c ks clamp_min clamp_max iters conv g hs,
  accepts_pwl c = true -> p_keypoints c = Some ks ->
  let pc := conv_pwl c ks clamp_min clamp_max iters in
  Forall (fun d => 0 < d) (project_convexity_dens conv g hs (Model.PWLProject.p_lengths pc)) /\
  Forall (fun d => 0 < d) (approx_convexity_dens conv hs (Model.PWLProject.p_lengths pc)) /\
  (List.length hs = (List.length ks - 1)%nat ->
   ~ Model.PWLProject.qn (List.length hs) == 0 /\ ~ Model.PWLProject.qn (List.length hs) + 1 == 0).
Proof. exact accepted_pwl_projection_dens. Qed.
Print Assumptions C16_total_pwl_projection_denominators.
(* _squeeze_by_scaling: `sum(heights) / delta` only under the code's own guard delta > 0.001, then
   `heights / max(scaling_factor, 1)` *)
Theorem C16_total_pwl_squeeze_division_site : forall bias heights omax cmax,
  cmax <> Model.PWLProject.BNone ->
  Model.PWLProject.squeeze_inc bias heights omax cmax =
  (bias, map (fun h => Qred (h / qmax (squeeze_sf bias heights omax) 1)) heights) /\
  squeeze_sf bias heights omax =
    (let delta := omax - bias in if qlt (1 # 1000) delta then qsum heights / delta else 1).
Proof. intros bias heights omax cmax H. split; [exact (squeeze_inc_site bias heights omax cmax H)|reflexivity]. Qed.
Print Assumptions C16_total_pwl_squeeze_division_site.
Theorem C16_total_pwl_squeeze_denominators_nonzero : forall bias heights omax,
  (qlt (1 # 1000) (omax - bias) = true -> ~ omax - bias == 0) /\
  ~ qmax (squeeze_sf bias heights omax) 1 == 0.
Proof. intros bias heights omax. split; [exact (squeeze_guarded_den_nonzero bias omax)|exact (squeeze_den_nonzero bias heights omax)]. Qed.
Print Assumptions C16_total_pwl_squeeze_denominators_nonzero.

(* ---- PWLCalibration: evaluation ---------------------------------------------- *)
(* `(inputs - keypoints) / lengths`, fixed keypoints: every gap > 0, keypoint and length tables of
   equal length, exactly len(input_keypoints) interpolation weights (one per kernel row) *)
Theorem C16_total_pwl_eval_fixed_keypoints : forall c ks x,
  accepts_pwl c = true -> p_keypoints c = Some ks ->
  Forall (fun l => 0 < l) (pwl_interp_dens (Model.PWLEval.kp_lefts ks) (Model.PWLEval.kp_diffs ks)) /\
  List.length (Model.PWLEval.kp_diffs ks) = List.length (Model.PWLEval.kp_lefts ks) /\
  List.length (Model.PWLEval.interpolation_weights x (Model.PWLEval.kp_lefts ks) (Model.PWLEval.kp_diffs ks)) = List.length ks.
Proof. exact accepted_pwl_eval_fixed. Qed.
Print Assumptions C16_total_pwl_eval_fixed_keypoints.
Theorem C16_total_pwl_eval_division_site : forall x k kps l lens,
  Model.PWLEval.interp_w x (k :: kps) (l :: lens) = qmax (qmin ((x - k) / l) 1) 0 :: Model.PWLEval.interp_w x kps lens.
Proof. exact pwl_interp_w_site. Qed.
Print Assumptions C16_total_pwl_eval_division_site.
(* learned_interior keypoints: lengths = softmax * keypoint range, > 0 when every softmax entry is
   (true of the exact softmax) *)
Theorem C16_total_pwl_eval_learned_keypoints : forall c ks sm,
  accepts_pwl c = true -> p_keypoints c = Some ks -> Forall (fun s => 0 < s) sm ->
  Forall (fun l => 0 < l) (Model.PWLEval.learned_lengths ks sm) /\
  List.length (Model.PWLEval.learned_lefts ks sm) = List.length (Model.PWLEval.learned_lengths ks sm).
Proof. exact accepted_pwl_eval_learned. Qed.
Print Assumptions C16_total_pwl_eval_learned_keypoints.
(* a softmax entry that is exactly 0 - float underflow of exp for finite logits - is a zero length:
   the code then returns NaN at the keypoint (0 / 0); not excluded by any check *)
Theorem C16_total_pwl_eval_learned_zero_softmax_refuted : forall ks,
  nth 1 (Model.PWLEval.learned_lengths ks [1; 0]) 1 == 0.
Proof. exact pwl_eval_learned_underflow_zero_length. Qed.
Print Assumptions C16_total_pwl_eval_learned_zero_softmax_refuted.
(* call(): the per-unit input column index is in range whenever call() does not raise *)
Theorem C16_total_pwl_call_column_index_in_range : forall L as_list inputs is_missing out,
  Model.PWLEval.pwl_call L as_list inputs is_missing = Some out ->
  forall row u, In row inputs -> (u < Model.PWLEval.p_units L)%nat ->
  ((if (List.length row =? 1)%nat then 0 else u) < List.length row)%nat.
Proof. exact pwl_call_column_index_in_range. Qed.
Print Assumptions C16_total_pwl_call_column_index_in_range.

(* ---- KroneckerFactoredLattice ------------------------------------------------ *)
Theorem C16_total_kfl_division_sites : forall root clip L su ku b xs lo hi vs,
  Model.KFL.unit_eval clip L su ku b xs =
    qsum (map2 (Model.KFL.term_out L (map (Model.KFL.clip_in clip L) xs)) su ku) /
      kfl_mean_den L (map (Model.KFL.clip_in clip L) xs) su ku + b /\
  Model.KFL.project_bounds_term root (Some lo) (Some hi) vs = map (map (fun w => w / kfl_bounds_den root vs)) vs.
Proof. intros. split; [apply kfl_unit_eval_site|apply kfl_project_bounds_site]. Qed.
Print Assumptions C16_total_kfl_division_sites.
(* accepted, >= 1 input dimension, >= 1 term, kernel / scale of the layer's shapes: the mean over the
   terms and `weights / pow(max(prod, 1), 1 / dims)` (for every root function with root_ok) divide by
   non-zero numbers *)
Theorem C16_total_kfl_denominators_nonzero : forall c root L xs su ku vs,
  accepts_kfl c = true -> (1 <= k_dims c)%Z -> (1 <= k_terms c)%Z -> Proofs.KFL.root_ok root ->
  List.length su = Z.to_nat (k_terms c) -> List.length ku = Z.to_nat (k_terms c) -> List.length vs = Z.to_nat (k_dims c) ->
  ~ kfl_mean_den L xs su ku == 0 /\ ~ kfl_bounds_den root vs == 0.
Proof. exact accepted_kfl_dens_nonzero. Qed.
Print Assumptions C16_total_kfl_denominators_nonzero.
(* as is (known finding D48): num_terms = 0 is accepted; the mean over the terms is 0 / 0 *)
Theorem C16_total_kfl_zero_terms_refuted : exists c, accepts_kfl c = true /\ k_terms c = 0%Z /\
  k_size c <> 0%Z /\ (1 <= k_dims c)%Z /\ (1 <= k_units c)%Z /\
  forall L xs su ku, List.length su = Z.to_nat (k_terms c) -> List.length ku = Z.to_nat (k_terms c) ->
                     kfl_mean_den L xs su ku == 0.
Proof. exact kfl_zero_terms_accepted_zero_den. Qed.
Print Assumptions C16_total_kfl_zero_terms_refuted.

(* ---- Lattice ------------------------------------------------------------------ *)
(* _approximately_project_bounds: `(max - min) / ((max + max_violation) - (min - min_violation))` *)
Theorem C16_total_lattice_bounds_division_site : forall sh ud units lo hi W,
  Model.LatticeFinalize.approx_bounds sh ud units (Some lo) (Some hi) W =
  memo sh (fun x => let u := nth ud x 0%nat in
                    Qred ((W x + (nth u (lat_bounds_minv sh ud units lo W) 0 - lo)) *
                          ((hi - lo) / lat_bounds_den sh ud units lo hi W u) + lo)).
Proof. exact lat_approx_bounds_site. Qed.
Print Assumptions C16_total_lattice_bounds_division_site.
Theorem C16_total_lattice_bounds_denominator_nonzero : forall c lo hi sh ud units W u,
  accepts_lattice_constraints_obj c = true -> l_omin c = Some lo -> l_omax c = Some hi ->
  hi - lo <= lat_bounds_den sh ud units lo hi W u /\ ~ lat_bounds_den sh ud units lo hi W u == 0.
Proof.
  intros c lo hi sh ud units W u H1 H2 H3.
  split; [exact (lat_bounds_den_ge sh ud units lo hi W u)|exact (accepted_lattice_bounds_den_nonzero c lo hi sh ud units W u H1 H2 H3)].
Qed.
Print Assumptions C16_total_lattice_bounds_denominator_nonzero.
Theorem C16_total_lattice_layer_is_constraints_object : forall c,
  accepts_lattice c = true -> accepts_lattice_constraints_obj c = true.
Proof. exact accepts_lattice_obj. Qed.
Print Assumptions C16_total_lattice_layer_is_constraints_object.
(* the 0 / 0 the strict test output_min < output_max excludes *)
Theorem C16_total_lattice_bounds_equal_bounds_rejected :
  let W : tens := fun _ => 1 in
  lat_bounds_den [2; 1]%nat 1 1 1 1 W 0 == 0 /\
  forall c, l_omin c = Some 1 -> l_omax c = Some 1 -> accepts_lattice_constraints_obj c = false.
Proof. exact lat_bounds_den_zero_equal_bounds. Qed.
Print Assumptions C16_total_lattice_bounds_equal_bounds_rejected.
(* project_by_dykstra, joint unimodalities: `violation / sum(hyperplane ** 2)`; every hyperplane the
   model (and the code) projects onto has a non-zero integer coefficient *)
Theorem C16_total_lattice_joint_unimodality_norm_nonzero : forall sizes centre vertex offs terms,
  Model.LatticeDykstra.ju_terms sizes centre vertex offs 0 = Some terms -> terms <> [] ->
  ~ ju_norm vertex terms == 0.
Proof. exact ju_norm_nonzero. Qed.
Print Assumptions C16_total_lattice_joint_unimodality_norm_nonzero.
(* simplex interpolation: gathered indices are vertex indices for clipped / in-range points
   (= C19_lattice_simplex_indices_in_range), flat kernel positions inside the kernel *)
Theorem C16_total_lattice_simplex_indices_in_range : forall clip sizes x,
  Proofs.Gradients.lattice_point_ok clip sizes x ->
  forall p, In p (Model.Gradients.simplex_sparse clip sizes x) ->
  (0 <= fst p < Z.of_nat (Model.Gradients.num_vertices sizes))%Z.
Proof. exact lattice_simplex_indices_in_range. Qed.
Print Assumptions C16_total_lattice_simplex_indices_in_range.
Theorem C16_total_lattice_simplex_is_gather_of_those_indices : forall tensor clip units sizes K u x,
  List.length x = List.length sizes ->
  Model.LatticeInterp.unit_fn Model.LatticeInterp.Simplex tensor clip units sizes K u x ==
  Model.Gradients.sp_eval (Model.Gradients.simplex_sparse clip sizes x) (Proofs.LatticeInterp.gather_of units K u).
Proof. exact lattice_simplex_is_sparse. Qed.
Print Assumptions C16_total_lattice_simplex_is_gather_of_those_indices.
Theorem C16_total_lattice_simplex_flat_index_in_range : forall units u n i,
  (u < units)%nat -> (0 <= i < Z.of_nat n)%Z ->
  (0 <= i * Z.of_nat units + Z.of_nat u < Z.of_nat (n * units))%Z.
Proof. exact lattice_simplex_flat_index_in_range. Qed.
Print Assumptions C16_total_lattice_simplex_flat_index_in_range.
(* clip_inputs=False and an input <= -1: a NEGATIVE gather index (the model's nthZ returns 0; the code
   raises InvalidArgumentError); inputs above the range keep the indices in range *)
Theorem C16_total_lattice_simplex_unclipped_negative_refuted :
  exists p, In p (Model.Gradients.simplex_sparse false [3; 3]%nat [-(3#2); 1#2]) /\ (fst p < 0)%Z.
Proof. exact lattice_simplex_negative_index_unclipped. Qed.
Print Assumptions C16_total_lattice_simplex_unclipped_negative_refuted.
Theorem C16_total_lattice_simplex_unclipped_above_range_example :
  forall p, In p (Model.Gradients.simplex_sparse false [3; 3]%nat [5#2; 5#2]) -> (0 <= fst p < 9)%Z.
Proof. exact lattice_simplex_above_range_unclipped. Qed.
Print Assumptions C16_total_lattice_simplex_unclipped_above_range_example.

(* ---- CDF ---------------------------------------------------------------------- *)
Theorem C16_total_cdf_division_sites : forall sg ex lg a zs eps nterms col l,
  Model.CDF.qmean l = qsum l / cdf_mean_den l /\
  Model.CDF.basis sg a zs = match a with
                            | Model.CDF.Sigmoid => qsum (map sg zs) / cdf_mean_den (map sg zs)
                            | _ => qsum (map Model.CDF.relu6 zs) / cdf_mean_den (map Model.CDF.relu6 zs) * (1 # 6)
                            end /\
  Model.CDF.geo ex lg eps nterms col = ex (qsum (map (fun v => lg (v + eps)) col) / inject_Z (Z.of_nat nterms)).
Proof. intros. split; [apply cdf_qmean_site|]. split; [apply cdf_basis_site|apply cdf_geo_site]. Qed.
Print Assumptions C16_total_cdf_division_sites.
(* accepted, sparsity_factor > 0, >= 1 input: input_dim / sparsity_factor >= 1 rows to average over *)
Theorem C16_total_cdf_reduction_denominators_nonzero : forall c,
  accepts_cdf c = true -> (0 < d_sparsity c)%Z -> (1 <= d_dims c)%Z ->
  Z.to_nat (d_sparsity c) <> 0%nat /\
  (1 <= Z.to_nat (d_dims c) / Z.to_nat (d_sparsity c))%nat /\
  ~ inject_Z (Z.of_nat (Z.to_nat (d_dims c) / Z.to_nat (d_sparsity c))) == 0 /\
  ~ inject_Z (Z.of_nat (Z.to_nat (d_dims c))) == 0.
Proof. exact accepted_cdf_rows. Qed.
Print Assumptions C16_total_cdf_reduction_denominators_nonzero.
Theorem C16_total_cdf_keypoint_mean_denominator_nonzero : forall c (f : Q -> Q) zs,
  accepts_cdf c = true -> (1 <= d_keypoints c)%Z -> List.length zs = Z.to_nat (d_keypoints c) ->
  ~ cdf_mean_den (map f zs) == 0.
Proof. exact accepted_cdf_keypoints_den. Qed.
Print Assumptions C16_total_cdf_keypoint_mean_denominator_nonzero.
(* as is: num_keypoints = 0 (known finding D48) and an input of width 0 are accepted; the means are 0 / 0 *)
Theorem C16_total_cdf_zero_keypoints_refuted : exists c, accepts_cdf c = true /\ d_keypoints c = 0%Z /\
  forall (f : Q -> Q) zs, List.length zs = Z.to_nat (d_keypoints c) -> cdf_mean_den (map f zs) == 0.
Proof. exact cdf_zero_keypoints_zero_den. Qed.
Print Assumptions C16_total_cdf_zero_keypoints_refuted.
Theorem C16_total_cdf_zero_inputs_refuted : exists c, accepts_cdf c = true /\ d_dims c = 0%Z /\ (1 <= d_keypoints c)%Z /\
  forall u (m : list (list Q)), List.length m = Z.to_nat (d_dims c) -> cdf_mean_den (column u m) == 0.
Proof. exact cdf_zero_inputs_zero_den. Qed.
Print Assumptions C16_total_cdf_zero_inputs_refuted.

(* ---- conditional PWL: the model computes the code's IEEE result at a zero length ---------- *)
Theorem C16_total_conditional_pwl_division_guard : forall x kp len,
  (~ len == 0 -> Model.CondPWL.wclip x kp len = qclip 0 1 ((x - kp) / len)) /\
  (len == 0 -> Model.CondPWL.wclip x kp len = if qlt kp x then 1 else 0).
Proof. exact condpwl_wclip_guard. Qed.
Print Assumptions C16_total_conditional_pwl_division_guard.

(* ---- CategoricalCalibration: one_hot indices ---------------------------------------------- *)
(* in range: that bucket's weight; out of vocabulary: the code does NOT raise, the output is 0.0 *)
Theorem C16_total_categorical_bucket_index : forall L x,
  Model.CategoricalEval.c_units L = 1%nat ->
  List.length (Model.CategoricalEval.c_kernel L) = Model.CategoricalEval.c_buckets L ->
  let i := Model.CategoricalEval.replace_default L (Model.CategoricalEval.cast_int x) in
  ((0 <= i < Z.of_nat (Model.CategoricalEval.c_buckets L))%Z ->
     qleq (Model.CategoricalEval.cat_row L [x]) [nth 0 (nth (Z.to_nat i) (Model.CategoricalEval.c_kernel L) []) 0]) /\
  ((i < 0 \/ Z.of_nat (Model.CategoricalEval.c_buckets L) <= i)%Z -> qleq (Model.CategoricalEval.cat_row L [x]) [0]).
Proof. exact cat_row_units1. Qed.
Print Assumptions C16_total_categorical_bucket_index.
Theorem C16_total_categorical_one_hot : forall depth i col,
  ((0 <= i < Z.of_nat depth)%Z -> List.length col = depth ->
     Model.PWLEval.dot (Model.CategoricalEval.one_hot depth i) col == nth (Z.to_nat i) col 0) /\
  ((i < 0 \/ Z.of_nat depth <= i)%Z -> Model.PWLEval.dot (Model.CategoricalEval.one_hot depth i) col == 0).
Proof. intros depth i col. split; [exact (cat_one_hot_in_range depth i col)|exact (cat_one_hot_out_of_range depth i col)]. Qed.
Print Assumptions C16_total_categorical_one_hot.
Theorem C16_total_categorical_default_bucket_in_range : forall L d,
  Model.CategoricalEval.c_default L = Some d -> (1 <= Model.CategoricalEval.c_buckets L)%nat ->
  (0 <= Model.CategoricalEval.replace_default L d < Z.of_nat (Model.CategoricalEval.c_buckets L))%Z.
Proof. exact cat_default_bucket_in_range. Qed.
Print Assumptions C16_total_categorical_default_bucket_in_range.
(* as is (known finding D48): num_buckets = 0 is accepted; the default bucket is index -1 *)
Theorem C16_total_categorical_zero_buckets_refuted : exists c u, accepts_categorical_layer c u = true /\
  Verify.c_buckets c = Some 0%Z /\
  forall L d, Model.CategoricalEval.c_buckets L = 0%nat -> Model.CategoricalEval.c_default L = Some d ->
              (Model.CategoricalEval.replace_default L d < 0)%Z.
Proof. exact cat_zero_buckets_default_out_of_range. Qed.
Print Assumptions C16_total_categorical_zero_buckets_refuted.

(* ---- RTL: gather indices --------------------------------------------------------------------- *)
Theorem C16_total_rtl_gather_indices_in_range : forall c avoid ms sh1 sh2,
  accepts_rtl c = true -> (0 <= t_num c)%Z ->
  (forall z, t_inc c = Some z -> (0 <= z)%Z) -> (forall z, t_unc c = Some z -> (0 <= z)%Z) ->
  Proofs.RTLStructure.perm_oracle sh1 -> Proofs.RTLStructure.perm_oracle sh2 ->
  let cfg := conv_rtl c avoid ms in
  let n := List.length (Model.RTLStructure.flatten (Model.RTLStructure.c_input cfg)) in
  n <> 0%nat /\ Z.of_nat n = rtl_n_inputs c /\
  exists s, Model.RTLStructure.rtl_structure cfg sh1 sh2 = Some s /\
            forall lat i, In lat (Model.RTLStructure.all_lattices s) -> In i lat -> (i < n)%nat.
Proof. exact accepted_rtl_gather_indices_in_range. Qed.
Print Assumptions C16_total_rtl_gather_indices_in_range.

(* hypotheses are satisfiable *)
Example C16_total_examples :
  accepts_pwl (mkP (Some [0#1; 1#2; 2#1]) (Some (0#1)) (Some (1#1)) (Some 1%Z) (Some (-1)%Z) false true false true
                   false false false true) = true /\
  accepts_kfl (mkK 3 2 2 (Some [1; 0]%Z) 2 (Some (0#1)) (Some (1#1))) = true /\
  accepts_cdf (mkCDF 5 4 2 6 true true true true true) = true /\
  accepts_lattice_constraints_obj (mkL [3; 2]%Z (Some [1; 0]%Z) None [] [] None None None None (Some (0#1)) (Some (1#1)) true) = true /\
  Proofs.Gradients.lattice_point_ok true [3; 3]%nat [5#2; -(7#1)].
Proof. exact totality_examples. Qed.

(* ---- further sites ------------------------------------------------------------------------------ *)
(* Lattice bounds projection: reduce_max / reduce_min run over a non-empty vertex set (the model's
   qmaxl [] = qminl [] = 0 is not used), and the per-unit violation table is indexed in range *)
Theorem C16_total_lattice_bounds_reductions_nonempty : forall c W u,
  Proofs.LatticeSpec.cfg_valid c ->
  Model.LatticeFinalize.unit_vals (Model.LatticeFinalize.l_shape c) (Model.LatticeFinalize.l_ud c) W u <> [].
Proof. exact lat_bounds_reductions_nonempty. Qed.
Print Assumptions C16_total_lattice_bounds_reductions_nonempty.
Theorem C16_total_lattice_bounds_unit_index_in_range : forall c lo hi W x,
  valid (Model.LatticeFinalize.l_shape c) x ->
  (nth (Model.LatticeFinalize.l_ud c) x 0 <
     List.length (lat_bounds_maxv (Model.LatticeFinalize.l_shape c) (Model.LatticeFinalize.l_ud c) (Model.LatticeFinalize.l_units c) hi W))%nat /\
  (nth (Model.LatticeFinalize.l_ud c) x 0 <
     List.length (lat_bounds_minv (Model.LatticeFinalize.l_shape c) (Model.LatticeFinalize.l_ud c) (Model.LatticeFinalize.l_units c) lo W))%nat.
Proof. exact lat_bounds_unit_index_in_range. Qed.
Print Assumptions C16_total_lattice_bounds_unit_index_in_range.
(* hypercube interpolation: the outer product of the per-dimension weights has prod(lattice_sizes)
   entries, one per kernel row (the model's dot would truncate); lattice_sizes = [] (known finding D60)
   is the degenerate case *)
Theorem C16_total_lattice_hypercube_weights_match_kernel : forall tensor clip sizes x,
  sizes <> [] -> List.length x = List.length sizes ->
  List.length (Model.LatticeInterp.batch_outer
                 (Model.LatticeInterp.weight_lists sizes (Model.LatticeInterp.hyper_weights tensor clip sizes x))) =
  Model.LatticeInterp.prodn sizes.
Proof. exact lattice_hypercube_no_truncation. Qed.
Print Assumptions C16_total_lattice_hypercube_weights_match_kernel.
(* as is: CDF(units=-2, sparsity_factor=-1) passes every build check; call() raises InvalidArgumentError *)
Theorem C16_total_cdf_negative_sparsity_refuted : exists c,
  accepts_cdf c = true /\ (d_sparsity c < 0)%Z /\ (d_units c < 0)%Z.
Proof. exact cdf_negative_sparsity_accepted. Qed.
Print Assumptions C16_total_cdf_negative_sparsity_refuted.
(* as is: a KroneckerFactoredLattice over an input of width 0 is accepted; `1.0 / dims` is a ZeroDivisionError *)
Theorem C16_total_kfl_zero_dims_refuted : exists c, accepts_kfl c = true /\ k_dims c = 0%Z /\ (1 <= k_terms c)%Z /\
  k_omin c <> None /\ k_omax c <> None.
Proof. exact kfl_zero_dims_accepted. Qed.
Print Assumptions C16_total_kfl_zero_dims_refuted.

(* ---- initialisers run by build() ------------------------------------------------------------------ *)
(* lattice linear_initializer: `dim_range = (output_max - output_min) / num_constraint_dims` (an
   unconstrained lattice counts all its dimensions) and _linspace's `i / (num - 1.0)` behind the code's
   own `if num == 1` *)
Theorem C16_total_lattice_init_division_sites : forall sizes omin omax monos unis start stop num k,
  Model.LatticeInit.lin_dim_range sizes omin omax monos unis =
    (omax - omin) / Model.LatticeInit.qnat (Model.LatticeInit.lin_num_constraint_dims sizes monos unis) /\
  (num <> 1%nat ->
   Model.LatticeInit.linspace_at start stop num k =
     Qred (start + (stop - start) * Model.LatticeInit.qnat k / (Model.LatticeInit.qnat num - 1))).
Proof. intros. split; [apply lattice_init_dim_range_site|apply lattice_init_linspace_site]. Qed.
Print Assumptions C16_total_lattice_init_division_sites.
Theorem C16_total_lattice_init_denominators_nonzero : forall sizes monos unis num,
  (sizes <> [] -> ~ Model.LatticeInit.qnat (Model.LatticeInit.lin_num_constraint_dims sizes monos unis) == 0) /\
  (num <> 1%nat -> ~ Model.LatticeInit.qnat num - 1 == 0).
Proof.
  intros sizes monos unis num.
  split; [exact (lattice_init_dim_range_den_nonzero sizes monos unis)|exact (lattice_init_linspace_den_nonzero num)].
Qed.
Print Assumptions C16_total_lattice_init_denominators_nonzero.
(* as is (known finding D60): lattice_sizes = [] is accepted; num_constraint_dims = 0: ZeroDivisionError at build *)
Theorem C16_total_lattice_init_empty_sizes_refuted : exists c, accepts_lattice_layer c = true /\ l_sizes c = [] /\
  Model.LatticeInit.qnat (Model.LatticeInit.lin_num_constraint_dims []
     (Model.LatticeInit.zeros_if_none 0 None) (Model.LatticeInit.zeros_if_none 0 None)) == 0.
Proof. exact lattice_init_empty_sizes_accepted. Qed.
Print Assumptions C16_total_lattice_init_empty_sizes_refuted.
(* PWL linear_initializer: `/ num_pieces` and `/ reduce_sum(lengths)` *)
Theorem C16_total_pwl_init_division_site : forall num_keypoints omin omax kps,
  Model.PWLInit.pwl_init_heights num_keypoints omin omax kps =
  match kps with
  | None => repeat (Qred ((omax - omin) / Model.PWLProject.qn (num_keypoints - 1))) (num_keypoints - 1)
  | Some k => map (fun l => Qred (l * ((omax - omin) / qsum (Model.PWLInit.kp_lengths k)))) (Model.PWLInit.kp_lengths k)
  end.
Proof. exact pwl_init_heights_site. Qed.
Print Assumptions C16_total_pwl_init_division_site.
Theorem C16_total_pwl_init_denominators_nonzero : forall c ks,
  accepts_pwl c = true -> p_keypoints c = Some ks ->
  ~ Model.PWLProject.qn (List.length ks - 1) == 0 /\ ~ qsum (Model.PWLInit.kp_lengths ks) == 0.
Proof. exact accepted_pwl_init_dens_nonzero. Qed.
Print Assumptions C16_total_pwl_init_denominators_nonzero.
