(* C04 — PWLCalibration weight constraint (project_all_constraints).  Property
   theorems only; proofs live in Proofs/PWLProject.v.  Every statement is per
   unit column  w = bias :: heights  with n = length heights, for a
   configuration accepted by the library (pwl_valid, below), for EVERY number
   of Dykstra iterations p_iters unless stated otherwise.
   keypoint_outputs w = cumsum w. *)
From TFL Require Import Model.PWLProject Proofs.PWLProject Proofs.PWLSqueezeRoom.
Open Scope Q_scope.

(* Vocabulary (defined in Proofs/PWLProject.v):
   pwl_valid c n :=  what verify_hyperparameters / canonicalize_* /
     convert_all_constraints / _approximately_project_bounds_only guarantee:
     (1 <= n) /\ length (p_lengths c) = n /\ Forall (fun l => 0 < l) (p_lengths c) /\
     (p_mono c = -1 \/ p_mono c = 0 \/ p_mono c = 1) /\ (p_conv c = -1 \/ p_conv c = 0 \/ p_conv c = 1) /\
     (p_cmin c <> BNone -> p_cmax c <> BNone -> p_min c <= p_max c) /\
     (p_cmin c = BClamped \/ p_cmax c = BClamped -> p_mono c <> 0).
   feasible c bias h :=  the column bias :: h meets every configured constraint:
     (p_mono c = 1 -> Forall (fun x => 0 <= x) h) /\ (p_mono c = -1 -> Forall (fun x => x <= 0) h) /\
     (p_cmin c <> BNone -> Forall (fun s => p_min c <= s) (keypoint_outputs (bias :: h))) /\
     (p_cmax c <> BNone -> Forall (fun s => s <= p_max c) (keypoint_outputs (bias :: h))) /\
     (p_conv c <> 0 -> chain (p_conv c) h (p_lengths c))     [consecutive slopes ordered, division-free] /\
     (p_cmin c = BClamped -> (p_mono c = 1 -> bias == p_min c) /\ (p_mono c = -1 -> bias + qsum h == p_min c)) /\
     (p_cmax c = BClamped -> (p_mono c = 1 -> bias + qsum h == p_max c) /\ (p_mono c = -1 -> bias == p_max c)).
   qleq := Forall2 Qeq (pointwise equality of rationals).
   Hypotheses are satisfiable: Examples pwl_valid_example, feasible_example,
   ex_hyp_clamp_inc, ex_hyp_clamp_dec, ex_hyp_convex_mono, ex_hyp_convex_unbounded,
   ex_hyp_bounds_convex in Proofs/PWLProject.v. *)

(* Monotonicity is exact: every height has the configured sign. *)
Theorem C04_monotone_exact : forall c n bias hs, pwl_valid c n -> length hs = n ->
  (p_mono c = 1%Z -> Forall (fun h => 0 <= h) (tl (pwl_project_col c (bias :: hs)))) /\
  (p_mono c = (-1)%Z -> Forall (fun h => h <= 0) (tl (pwl_project_col c (bias :: hs)))).
Proof. exact pwl_monotone_exact. Qed.
Print Assumptions C04_monotone_exact.

(* Bounds on every keypoint output, except for monotone + convex (finding D2). *)
Theorem C04_bounds : forall c n bias hs, pwl_valid c n -> length hs = n ->
  ~ (p_mono c <> 0%Z /\ p_conv c <> 0%Z) ->
  (p_cmin c <> BNone -> Forall (fun s => p_min c <= s) (keypoint_outputs (pwl_project_col c (bias :: hs)))) /\
  (p_cmax c <> BNone -> Forall (fun s => s <= p_max c) (keypoint_outputs (pwl_project_col c (bias :: hs)))).
Proof. exact pwl_bounds. Qed.
Print Assumptions C04_bounds.

(* Known finding D2: with monotonicity AND convexity the final
   _squeeze_by_scaling does not repair a bias outside the bounds. *)
Theorem C04_bounds_refuted_monotone_convex :
  exists c w, pwl_valid c (length w - 1) /\ p_mono c <> 0%Z /\ p_conv c <> 0%Z /\ p_cmin c <> BNone /\
    exists s, In s (keypoint_outputs (pwl_project_col c w)) /\ s < p_min c.
Proof. exact pwl_bounds_refuted_monotone_convex. Qed.
Print Assumptions C04_bounds_refuted_monotone_convex.

(* D2 characterised exactly.  Vocabulary (Proofs/PWLSqueezeRoom.v):
   pwl_loop_bias c bias hs := d_bias (dyk_iter c (p_iters c) (dyk_init bias hs))
     - the bias of the state that enters _finalize_constraints; the approximate
       monotonicity / convexity projections before the squeeze only touch heights,
       so this is the bias _squeeze_by_scaling sees (and returns unchanged).
   squeeze_bias_has_room c b :=
     (p_mono c = 1  -> (p_cmin c <> BNone -> p_min c <= b) /\
                       (p_cmax c <> BNone -> qlt (1#1000) (p_max c - b) = true)) /\
     (p_mono c = -1 -> (p_cmax c <> BNone -> b <= p_max c) /\
                       (p_cmin c <> BNone -> qlt (1#1000) (- p_min c - - b) = true))
     - the bias is inside the near bound and the squeeze's own test  delta > 0.001
       (delta exactly as the model's squeeze_inc computes it) succeeds.
   squeeze_bias_no_room c b := the explicit negation:
     (p_mono c = 1  /\ ((p_cmin c <> BNone /\ b < p_min c) \/ (p_cmax c <> BNone /\ p_max c - b <= 1#1000))) \/
     (p_mono c = -1 /\ ((p_cmax c <> BNone /\ p_max c < b) \/ (p_cmin c <> BNone /\ b - p_min c <= 1#1000))).
   squeeze_far_room c b := only the room towards the bound the function runs to. *)
Theorem C04_bounds_monotone_convex_when_bias_has_room : forall c n bias hs, pwl_valid c n -> length hs = n ->
  p_mono c <> 0%Z -> p_conv c <> 0%Z ->
  squeeze_bias_has_room c (pwl_loop_bias c bias hs) ->
  (p_cmin c <> BNone -> Forall (fun s => p_min c <= s) (keypoint_outputs (pwl_project_col c (bias :: hs)))) /\
  (p_cmax c <> BNone -> Forall (fun s => s <= p_max c) (keypoint_outputs (pwl_project_col c (bias :: hs)))).
Proof. exact pwl_bounds_monotone_convex_room. Qed.
Print Assumptions C04_bounds_monotone_convex_when_bias_has_room.

(* contrapositive: a keypoint output outside the bounds means the squeeze had no
   room (second conjunct: which inequality failed) *)
Theorem C04_bounds_monotone_convex_failure_needs_no_room : forall c n bias hs, pwl_valid c n -> length hs = n ->
  p_mono c <> 0%Z -> p_conv c <> 0%Z ->
  (exists s, In s (keypoint_outputs (pwl_project_col c (bias :: hs))) /\
             ((p_cmin c <> BNone /\ s < p_min c) \/ (p_cmax c <> BNone /\ p_max c < s))) ->
  ~ squeeze_bias_has_room c (pwl_loop_bias c bias hs) /\ squeeze_bias_no_room c (pwl_loop_bias c bias hs).
Proof. exact pwl_bounds_monotone_convex_failure. Qed.
Print Assumptions C04_bounds_monotone_convex_failure_needs_no_room.

(* with at least one Dykstra iteration the bounds step has already put the bias
   inside the near bound, so only the room towards the far bound matters *)
Theorem C04_bounds_monotone_convex_far_room_suffices : forall c n bias hs, pwl_valid c n -> length hs = n ->
  p_mono c <> 0%Z -> p_conv c <> 0%Z -> (1 <= p_iters c)%nat ->
  squeeze_far_room c (pwl_loop_bias c bias hs) ->
  (p_cmin c <> BNone -> Forall (fun s => p_min c <= s) (keypoint_outputs (pwl_project_col c (bias :: hs)))) /\
  (p_cmax c <> BNone -> Forall (fun s => s <= p_max c) (keypoint_outputs (pwl_project_col c (bias :: hs)))).
Proof. exact pwl_bounds_far_room. Qed.
Print Assumptions C04_bounds_monotone_convex_far_room_suffices.

(* C04_bounds without any class guard: for EVERY accepted configuration the
   bounds hold unless it is monotone + convex and the squeeze has no room *)
Theorem C04_bounds_unless_squeeze_has_no_room : forall c n bias hs, pwl_valid c n -> length hs = n ->
  (p_mono c <> 0%Z -> p_conv c <> 0%Z -> squeeze_bias_has_room c (pwl_loop_bias c bias hs)) ->
  (p_cmin c <> BNone -> Forall (fun s => p_min c <= s) (keypoint_outputs (pwl_project_col c (bias :: hs)))) /\
  (p_cmax c <> BNone -> Forall (fun s => s <= p_max c) (keypoint_outputs (pwl_project_col c (bias :: hs)))).
Proof. exact pwl_bounds_unless_no_room. Qed.
Print Assumptions C04_bounds_unless_squeeze_has_no_room.

(* hypotheses satisfiable: an increasing convex column in [0, 4] with room; the D2
   witness above is out of bounds and (hence) has no room *)
Example C04_room_hypotheses_satisfiable :
  pwl_valid room_cfg 2 /\ p_mono room_cfg <> 0%Z /\ p_conv room_cfg <> 0%Z /\
  squeeze_bias_has_room room_cfg (pwl_loop_bias room_cfg 1 [2; 3]).
Proof. exact room_example. Qed.
Example C04_no_room_hypotheses_satisfiable :
  pwl_valid d2_cfg 2 /\ p_mono d2_cfg <> 0%Z /\ p_conv d2_cfg <> 0%Z /\
  out_of_bounds d2_cfg (pwl_project_col d2_cfg [-129#4; -10; 55#4]) /\
  squeeze_bias_no_room d2_cfg (pwl_loop_bias d2_cfg (-129#4) [-10; 55#4]).
Proof. exact no_room_example. Qed.

(* Convexity (slopes h_i / l_i ordered), division-free. *)
Theorem C04_convex : forall c n bias hs, pwl_valid c n -> length hs = n ->
  p_conv c <> 0%Z -> (p_mono c <> 0%Z \/ has_bounds c = false) ->
  forall i, (S i < n)%nat ->
  let h := tl (pwl_project_col c (bias :: hs)) in let l := p_lengths c in
  (p_conv c = 1%Z -> nth i h 0 * nth (S i) l 0 <= nth (S i) h 0 * nth i l 0) /\
  (p_conv c = (-1)%Z -> nth (S i) h 0 * nth i l 0 <= nth i h 0 * nth (S i) l 0).
Proof. exact pwl_convex_nth. Qed.
Print Assumptions C04_convex.

Theorem C04_convex_slopes : forall c n bias hs, pwl_valid c n -> length hs = n ->
  p_conv c <> 0%Z -> (p_mono c <> 0%Z \/ has_bounds c = false) ->
  forall i, (S i < n)%nat ->
  let h := tl (pwl_project_col c (bias :: hs)) in let l := p_lengths c in
  (p_conv c = 1%Z -> nth i h 0 / nth i l 0 <= nth (S i) h 0 / nth (S i) l 0) /\
  (p_conv c = (-1)%Z -> nth (S i) h 0 / nth (S i) l 0 <= nth i h 0 / nth i l 0).
Proof. exact pwl_convex_slopes. Qed.
Print Assumptions C04_convex_slopes.

(* Clamps are hit exactly (no convexity, at least one Dykstra iteration):
   increasing: first keypoint output = output_min, last = output_max;
   decreasing: mirrored.  The far end rests on the Dykstra invariant
   cm_pre/cm_post of Proofs/PWLProject.v (after every MONOTONICITY step
   bias + sum heights >= output_max in increasing coordinates). *)
Theorem C04_clamp_min_exact : forall c n bias hs, pwl_valid c n -> length hs = n ->
  p_conv c = 0%Z -> (1 <= p_iters c)%nat -> p_cmin c = BClamped ->
  (p_mono c = 1%Z -> nth 0 (keypoint_outputs (pwl_project_col c (bias :: hs))) 0 == p_min c) /\
  (p_mono c = (-1)%Z -> last (keypoint_outputs (pwl_project_col c (bias :: hs))) 0 == p_min c).
Proof. exact pwl_clamp_min_exact. Qed.
Print Assumptions C04_clamp_min_exact.

Theorem C04_clamp_max_exact : forall c n bias hs, pwl_valid c n -> length hs = n ->
  p_conv c = 0%Z -> (1 <= p_iters c)%nat -> p_cmax c = BClamped ->
  (p_mono c = 1%Z -> last (keypoint_outputs (pwl_project_col c (bias :: hs))) 0 == p_max c) /\
  (p_mono c = (-1)%Z -> nth 0 (keypoint_outputs (pwl_project_col c (bias :: hs))) 0 == p_max c).
Proof. exact pwl_clamp_max_exact. Qed.
Print Assumptions C04_clamp_max_exact.

(* Known finding D3: num_projection_iterations = 0 skips the Dykstra loop and
   _finalize_constraints downgrades CLAMPED to BOUND, so the clamp is missed. *)
Theorem C04_clamp_refuted_zero_iterations :
  exists c w, pwl_valid c (length w - 1) /\ p_conv c = 0%Z /\ p_mono c = 1%Z /\ p_cmax c = BClamped /\ p_iters c = 0%nat /\
    ~ last (keypoint_outputs (pwl_project_col c w)) 0 == p_max c.
Proof. exact pwl_clamp_refuted_zero_iterations. Qed.
Print Assumptions C04_clamp_refuted_zero_iterations.

(* A kernel column that already meets every configured constraint (feasible:
   signs, bounds on every keypoint output, ordered slopes, clamped ends exact)
   is returned unchanged up to Qeq, for every number of iterations. *)
Theorem C04_feasible_fixed : forall c n bias h, pwl_valid c n -> length h = n -> feasible c bias h ->
  qleq (pwl_project_col c (bias :: h)) (bias :: h).
Proof. exact pwl_feasible_fixed. Qed.
Print Assumptions C04_feasible_fixed.

(* NaiveBoundsConstraints: the imputed missing-value output stays in range. *)
Theorem C04_missing_bounded : forall lo hi w, lo <= hi ->
  lo <= naive_bounds (Some lo) (Some hi) w /\ naive_bounds (Some lo) (Some hi) w <= hi.
Proof. exact naive_bounds_both. Qed.
Print Assumptions C04_missing_bounded.

Theorem C04_missing_bounded_one_sided : forall lo hi w,
  lo <= naive_bounds (Some lo) None w /\ naive_bounds None (Some hi) w <= hi.
Proof. exact naive_bounds_one_sided. Qed.
Print Assumptions C04_missing_bounded_one_sided.

(* Units are projected independently. *)
Theorem C04_per_unit : forall c units W u, (u < units)%nat ->
  column u (pwl_project c units W) = pwl_project_col c (column u W).
Proof. exact pwl_project_per_unit. Qed.
Print Assumptions C04_per_unit.
