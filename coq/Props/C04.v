(* C04 — placeholder until the proofs land *)
From TFL Require Import Model.PWLProject.
