(* C12 - assert_constraints accepts exactly the weights that meet the covered
   constraints.  Property theorems only; proofs live in Proofs/Asserts.v.

   [assert_K cfg w eps : bool] (Model/Asserts.v) is true when every tf.Assert of
   the layer kind K passes.  The covered constraints are stated independently of
   the assert's own slicing: for the Lattice as a type of inequality instances
   [lat_ineq] with membership [covered] (ALL valid index vectors, i.e. every
   vertex, pair, square and unit) and [slack] (>= 0 = satisfied, violation =
   - slack); for the other kinds as a predicate [K_feasible cfg w eps] = every
   covered inequality holds up to eps, quantified over all rows / units / pairs.
   Comparisons are the code's: non-strict (>= -eps, <= eps) everywhere except the
   Linear norm test (strict < eps) and the KFL sign / scale-range tests (no eps).

   Square roots: the model of the Linear L2 norm test compares the SUM OF
   SQUARES with squared thresholds and contains no root, so C12_linear_exact /
   _sound / _complete need none.  Only the two "meaning" theorems relate that
   test to the code's comparison of r = tf.norm(...): C12_linear_l2_norm_meaning
   and C12_linear_l2_zero_norm_meaning assume an EXACT root r * r == s
   (idealised: satisfiable only when s is a rational square); the
   ..._any_root versions hold for every r >= 0 (test on r == squared test on
   r * r) and the ..._approximate_root versions for r * r within relative error
   d of s (proofs in Proofs/SqrtRobust.v). *)
From TFL Require Import Model.Asserts Proofs.Asserts.
From TFL Require Proofs.SqrtRobust.
Open Scope Q_scope.

(* ---------------- Lattice (monotonicity, Edgeworth, trapezoid, monotonic and
   range dominance, joint monotonicity, bounds) ---------------- *)
Theorem C12_lattice_sound : forall c W eps q,
  la_ok c -> covered c q -> slack c W q < - eps -> assert_lattice c W eps = false.
Proof. exact lattice_sound. Qed.
Print Assumptions C12_lattice_sound.

Theorem C12_lattice_complete : forall c W eps,
  la_ok c -> 0 <= eps -> (forall q, covered c q -> - eps <= slack c W q) -> assert_lattice c W eps = true.
Proof. exact lattice_complete. Qed.
Print Assumptions C12_lattice_complete.

Theorem C12_lattice_exact : forall c W eps, la_ok c -> 0 <= eps ->
  (assert_lattice c W eps = true <-> forall q, covered c q -> - eps <= slack c W q).
Proof. exact lattice_exact. Qed.
Print Assumptions C12_lattice_exact.

(* the same for the flat (prod(sizes), units) kernel the layer stores *)
Theorem C12_lattice_flat_sound : forall c w eps q, la_ok c -> covered c q ->
  slack c (of_list (a_shape c) w) q < - eps -> assert_lattice_flat c w eps = false.
Proof. exact lattice_flat_sound. Qed.
Print Assumptions C12_lattice_flat_sound.

Theorem C12_lattice_flat_complete : forall c w eps, la_ok c -> 0 <= eps ->
  (forall q, covered c q -> - eps <= slack c (of_list (a_shape c) w) q) -> assert_lattice_flat c w eps = true.
Proof. exact lattice_flat_complete. Qed.
Print Assumptions C12_lattice_flat_complete.

(* link with C01: with eps = 0 the assert accepts exactly the kernels that are
   feasible in the sense of Proofs/LatticeSpec.v (what C01 proves about the
   strict projection), and with any eps >= 0 it accepts all of them *)
Theorem C12_lattice_zero_eps_is_C01_feasible : forall c f, cfg_valid c ->
  (assert_lattice (la_of c) f 0 = true <-> feasible_kernel c f).
Proof. exact assert_zero_iff_feasible. Qed.
Print Assumptions C12_lattice_zero_eps_is_C01_feasible.

Theorem C12_lattice_accepts_C01_feasible : forall c f eps, cfg_valid c -> feasible_kernel c f -> 0 <= eps ->
  assert_lattice (la_of c) f eps = true.
Proof. exact assert_accepts_feasible. Qed.
Print Assumptions C12_lattice_accepts_C01_feasible.

(* ---------------- RTL: conjunction over its lattice layers ---------------- *)
Theorem C12_rtl_conjunction : forall layers eps,
  assert_rtl layers eps = true <-> forall c w, In (c, w) layers -> assert_lattice_flat c w eps = true.
Proof. exact assert_rtl_iff. Qed.
Print Assumptions C12_rtl_conjunction.

Theorem C12_rtl_sound : forall layers eps c w q, In (c, w) layers -> la_ok c -> covered c q ->
  slack c (of_list (a_shape c) w) q < - eps -> assert_rtl layers eps = false.
Proof. exact rtl_sound. Qed.
Print Assumptions C12_rtl_sound.

Theorem C12_rtl_complete : forall layers eps, 0 <= eps ->
  (forall c w, In (c, w) layers -> la_ok c /\ forall q, covered c q -> - eps <= slack c (of_list (a_shape c) w) q) ->
  assert_rtl layers eps = true.
Proof. exact rtl_complete. Qed.
Print Assumptions C12_rtl_complete.

(* ---------------- PWL calibration (bounds, clamps per unit, monotonicity) ---------------- *)
Theorem C12_pwl_exact : forall c outs eps, outs <> [] -> 0 <= eps ->
  (assert_pwl_outputs c outs eps = true <-> pwl_feasible c outs eps).
Proof. exact pwl_exact. Qed.
Print Assumptions C12_pwl_exact.

Theorem C12_pwl_sound : forall c outs eps, outs <> [] -> 0 <= eps ->
  ~ pwl_feasible c outs eps -> assert_pwl_outputs c outs eps = false.
Proof. exact pwl_sound. Qed.
Print Assumptions C12_pwl_sound.

Theorem C12_pwl_complete : forall c outs eps, outs <> [] -> 0 <= eps ->
  pwl_feasible c outs eps -> assert_pwl_outputs c outs eps = true.
Proof. exact pwl_complete. Qed.
Print Assumptions C12_pwl_complete.

Theorem C12_pwl_sound_monotonicity : forall c outs eps k u, outs <> [] -> 0 <= eps -> pa_mono c <> 0%Z ->
  (S k < length outs)%nat -> (u < pa_units c)%nat ->
  (out_at outs (S k) u - out_at outs k u) * inject_Z (pa_mono c) < - eps -> assert_pwl_outputs c outs eps = false.
Proof. exact pwl_sound_mono. Qed.
Print Assumptions C12_pwl_sound_monotonicity.

Theorem C12_pwl_sound_lower_bound : forall c outs eps lo k u, outs <> [] -> 0 <= eps -> pa_min c = Some lo ->
  (k < length outs)%nat -> (u < pa_units c)%nat -> out_at outs k u < lo - eps -> assert_pwl_outputs c outs eps = false.
Proof. exact pwl_sound_lower. Qed.
Print Assumptions C12_pwl_sound_lower_bound.

Theorem C12_pwl_sound_upper_bound : forall c outs eps hi k u, outs <> [] -> 0 <= eps -> pa_max c = Some hi ->
  (k < length outs)%nat -> (u < pa_units c)%nat -> hi + eps < out_at outs k u -> assert_pwl_outputs c outs eps = false.
Proof. exact pwl_sound_upper. Qed.
Print Assumptions C12_pwl_sound_upper_bound.

(* a clamp is violated as soon as ONE unit stays away from the bound *)
Theorem C12_pwl_sound_clamp_min : forall c outs eps lo u, outs <> [] -> 0 <= eps -> pa_min c = Some lo ->
  pa_clamp_min c = true -> (u < pa_units c)%nat ->
  (forall k, (k < length outs)%nat -> lo + eps < out_at outs k u) -> assert_pwl_outputs c outs eps = false.
Proof. exact pwl_sound_clamp_min. Qed.
Print Assumptions C12_pwl_sound_clamp_min.

Theorem C12_pwl_sound_clamp_max : forall c outs eps hi u, outs <> [] -> 0 <= eps -> pa_max c = Some hi ->
  pa_clamp_max c = true -> (u < pa_units c)%nat ->
  (forall k, (k < length outs)%nat -> out_at outs k u < hi - eps) -> assert_pwl_outputs c outs eps = false.
Proof. exact pwl_sound_clamp_max. Qed.
Print Assumptions C12_pwl_sound_clamp_max.

(* the layer asserts on the prefix sums of its kernel (+ the closing point when
   cyclic) and on the learned missing output *)
Theorem C12_pwl_layer_exact : forall c kernel eps, kernel <> [] -> 0 <= eps ->
  (assert_pwl_layer c kernel eps = true <->
   pwl_feasible (pl_cfg c) (pwl_keypoint_outputs (pa_units (pl_cfg c)) (pl_cyclic c) kernel) eps /\
   missing_feasible c eps).
Proof. exact pwl_layer_exact. Qed.
Print Assumptions C12_pwl_layer_exact.

Theorem C12_pwl_layer_outputs_are_prefix_sums : forall units cyclic kernel k u,
  (k < length kernel)%nat -> (u < units)%nat ->
  out_at (pwl_keypoint_outputs units cyclic kernel) k u == qsum (firstn (S k) (column u kernel)).
Proof. exact keypoint_outputs_at. Qed.
Print Assumptions C12_pwl_layer_outputs_are_prefix_sums.

(* ---------------- Linear (signs, monotonic and range dominance, norm) ---------------- *)
Theorem C12_linear_exact : forall c K eps, 0 <= eps -> (assert_linear c K eps = true <-> lin_feasible c K eps).
Proof. exact lin_exact. Qed.
Print Assumptions C12_linear_exact.

Theorem C12_linear_sound : forall c K eps, 0 <= eps -> ~ lin_feasible c K eps -> assert_linear c K eps = false.
Proof. exact lin_sound. Qed.
Print Assumptions C12_linear_sound.

Theorem C12_linear_complete : forall c K eps, 0 <= eps -> lin_feasible c K eps -> assert_linear c K eps = true.
Proof. exact lin_complete. Qed.
Print Assumptions C12_linear_complete.

(* the model's comparison of squares is the comparison of the L2 norm, for any
   r >= 0 with r * r == sum of squares (the value tf.norm returns) *)
Theorem C12_linear_l2_norm_meaning : forall r s eps, 0 <= r -> r * r == s -> 0 <= eps ->
  (qabs (r - 1) < eps <-> s < (1 + eps) * (1 + eps) /\ (1 - eps < 0 \/ (1 - eps) * (1 - eps) < s)).
Proof. exact l2_check_meaning. Qed.
Print Assumptions C12_linear_l2_norm_meaning.

Theorem C12_linear_l2_zero_norm_meaning : forall r s ne, 0 <= r -> r * r == s -> 0 < ne ->
  (qabs r < ne <-> s < ne * ne).
Proof. exact l2_zero_meaning. Qed.
Print Assumptions C12_linear_l2_zero_norm_meaning.

(* without the exact-root idealisation: for EVERY r >= 0 the code's comparisons
   of r are the squared comparisons of r * r ... *)
Theorem C12_linear_l2_norm_meaning_any_root : forall r eps ne, 0 <= r -> 0 <= eps -> 0 < ne ->
  (qabs (r - 1) < eps <-> r * r < (1 + eps) * (1 + eps) /\ (1 - eps < 0 \/ (1 - eps) * (1 - eps) < r * r)) /\
  (qabs r < ne <-> r * r < ne * ne).
Proof. intros r eps ne Hr He Hn.
  exact (conj (SqrtRobust.l2_check_any_root r eps Hr He) (SqrtRobust.l2_zero_any_root r ne Hr Hn)). Qed.
Print Assumptions C12_linear_l2_norm_meaning_any_root.

(* ... and when r * r is within relative error d of the sum of squares s (what
   tf.norm guarantees), the model's test on s and the code's test on r agree
   unless s is within that relative error of a threshold: the model's test with
   the margins (1 +- d) implies the code's, the code's implies the model's with
   the margins relaxed *)
Theorem C12_linear_l2_norm_meaning_approximate_root : forall r s eps d, 0 <= r -> 0 <= eps ->
  (1 - d) * s <= r * r -> r * r <= (1 + d) * s ->
  ((1 + d) * s < (1 + eps) * (1 + eps) /\ (1 - eps < 0 \/ (1 - eps) * (1 - eps) < (1 - d) * s) -> qabs (r - 1) < eps) /\
  (qabs (r - 1) < eps -> (1 - d) * s < (1 + eps) * (1 + eps) /\ (1 - eps < 0 \/ (1 - eps) * (1 - eps) < (1 + d) * s)).
Proof. exact SqrtRobust.l2_check_approx_root. Qed.
Print Assumptions C12_linear_l2_norm_meaning_approximate_root.

Theorem C12_linear_l2_zero_norm_meaning_approximate_root : forall r s ne d, 0 <= r -> 0 < ne ->
  (1 - d) * s <= r * r -> r * r <= (1 + d) * s ->
  ((1 + d) * s < ne * ne -> qabs r < ne) /\ (qabs r < ne -> (1 - d) * s < ne * ne).
Proof. exact SqrtRobust.l2_zero_approx_root. Qed.
Print Assumptions C12_linear_l2_zero_norm_meaning_approximate_root.

(* satisfiable for the non-square s = 2 with r = 99/70, d = 1/9800, eps = 1/2 *)
Example C12_l2_root_two_example :
  let r := 99 # 70 in let d := 1 # 9800 in let eps := 1 # 2 in
  0 <= r /\ 0 <= eps /\ (1 - d) * 2 <= r * r /\ r * r <= (1 + d) * 2 /\ ~ r * r == 2 /\
  (1 + d) * 2 < (1 + eps) * (1 + eps) /\ (1 - eps) * (1 - eps) < (1 - d) * 2 /\ qabs (r - 1) < eps.
Proof. exact SqrtRobust.l2_check_root_two. Qed.

(* ---------------- Categorical (bounds, ordering pairs) ---------------- *)
Theorem C12_categorical_exact : forall c K eps, K <> [] -> (1 <= ca_units c)%nat -> 0 <= eps ->
  (assert_categorical c K eps = true <-> cat_feasible c K eps).
Proof. exact cat_exact. Qed.
Print Assumptions C12_categorical_exact.

Theorem C12_categorical_sound : forall c K eps, K <> [] -> (1 <= ca_units c)%nat -> 0 <= eps ->
  ~ cat_feasible c K eps -> assert_categorical c K eps = false.
Proof. exact cat_sound. Qed.
Print Assumptions C12_categorical_sound.

Theorem C12_categorical_complete : forall c K eps, K <> [] -> (1 <= ca_units c)%nat -> 0 <= eps ->
  cat_feasible c K eps -> assert_categorical c K eps = true.
Proof. exact cat_complete. Qed.
Print Assumptions C12_categorical_complete.

(* one violated pair fails the assert whatever the other pairs do (defect D9, fixed) *)
Theorem C12_categorical_sound_any_pair : forall c K eps i j u, K <> [] -> (1 <= ca_units c)%nat -> 0 <= eps ->
  In (i, j) (ca_pairs c) -> (u < ca_units c)%nat -> eps < kat K i u - kat K j u -> assert_categorical c K eps = false.
Proof. exact cat_sound_pair. Qed.
Print Assumptions C12_categorical_sound_any_pair.

(* ---------------- Kronecker-factored lattice (sign-aware monotonicity, |term| <= 1 + eps
   at every vertex, no negative weights, scale range) ---------------- *)
Theorem C12_kfl_exact : forall c Sc K eps, (1 <= k_L c)%nat -> 0 <= eps ->
  (assert_kfl c Sc K eps = true <-> kfl_feasible c Sc K eps).
Proof. exact kfl_exact. Qed.
Print Assumptions C12_kfl_exact.

Theorem C12_kfl_sound : forall c Sc K eps, (1 <= k_L c)%nat -> 0 <= eps ->
  ~ kfl_feasible c Sc K eps -> assert_kfl c Sc K eps = false.
Proof. exact kfl_sound. Qed.
Print Assumptions C12_kfl_sound.

Theorem C12_kfl_complete : forall c Sc K eps, (1 <= k_L c)%nat -> 0 <= eps ->
  kfl_feasible c Sc K eps -> assert_kfl c Sc K eps = true.
Proof. exact kfl_complete. Qed.
Print Assumptions C12_kfl_complete.

(* ====================================================================== *)
(* What a passing assert MEANS for the layer FUNCTION (proofs in
   Proofs/AssertMeaning.v).  The theorems above tie the verdict to predicates
   on the WEIGHTS; the ones below compose them with the forward-pass models of
   the other properties (module aliases: MLI = Model/LatticeInterp.v, PLH =
   Proofs/LatticeHyper.v [C02]; MK = Model/KFL.v, PK = Proofs/KFL.v [C07], PMK =
   Proofs/PremadeKFL.v [C03]; MLE / PLE = Model / Proofs LinearEval.v [C20];
   MPE / PPE = Model / Proofs PWLEval.v, MCE = Model/CategoricalEval.v [C05]).
   eps = 0 unless stated: with eps > 0 each kernel step may be negative by eps,
   so only the bounds have an "up to eps" function-level version here.
   ====================================================================== *)
From TFL Require Import Proofs.AssertMeaning.

(* ---------------- Lattice ---------------- *)
(* Kmat[vertex][unit] is the kernel matrix the layer stores; the assert sees its
   row-major flattening reshaped to sizes ++ [units].  A passing assert (eps = 0)
   means: the tensor is C01-feasible, and for BOTH interpolation schemes (sc),
   both input forms (tensor), clip_inputs on or off, EVERY unit u the output is
   non-decreasing in every monotone input d for every pair of admissible points
   (in range, or anything when clipped: PLH.ok_input) and lies inside
   [output_min, output_max]. *)
Theorem C12_lattice_assert_implies_monotone_function : forall c Kmat sc tensor clip u,
  cfg_valid c -> length Kmat = MLI.prodn (l_sizes c) ->
  Forall (fun r => length r = l_units c) Kmat -> (u < l_units c)%nat ->
  assert_lattice (la_of c) (of_list (l_shape c) (concat Kmat)) 0 = true ->
  feasible_kernel c (of_list (l_shape c) (concat Kmat)) /\
  (forall d x yd, In d (mono_dims (l_monos c)) ->
     PLH.ok_input clip (l_sizes c) x -> PLH.ok_input clip (l_sizes c) (set_nth d yd x) -> nth d x 0 <= yd ->
     MLI.unit_fn sc tensor clip (l_units c) (l_sizes c) Kmat u x <=
     MLI.unit_fn sc tensor clip (l_units c) (l_sizes c) Kmat u (set_nth d yd x)) /\
  (l_sizes c <> [] -> forall x, PLH.ok_input clip (l_sizes c) x ->
     (forall lo, l_min c = Some lo -> lo <= MLI.unit_fn sc tensor clip (l_units c) (l_sizes c) Kmat u x) /\
     (forall hi, l_max c = Some hi -> MLI.unit_fn sc tensor clip (l_units c) (l_sizes c) Kmat u x <= hi)).
Proof. exact lattice_assert_la_of_meaning. Qed.
Print Assumptions C12_lattice_assert_implies_monotone_function.

(* the same for ANY assert configuration (dominance / joint monotonicity
   included), without going through C01 *)
Theorem C12_lattice_assert_implies_monotone_function_any_config : forall c Kmat sc tensor clip u,
  la_ok c -> PLH.sizes_ok (a_sizes c) -> length Kmat = MLI.prodn (a_sizes c) ->
  Forall (fun r => length r = a_units c) Kmat -> (u < a_units c)%nat ->
  assert_lattice_flat c (concat Kmat) 0 = true ->
  (forall d x yd, (d < length (a_monos c))%nat -> nth d (a_monos c) 0%Z = 1%Z ->
     PLH.ok_input clip (a_sizes c) x -> PLH.ok_input clip (a_sizes c) (set_nth d yd x) -> nth d x 0 <= yd ->
     MLI.unit_fn sc tensor clip (a_units c) (a_sizes c) Kmat u x <=
     MLI.unit_fn sc tensor clip (a_units c) (a_sizes c) Kmat u (set_nth d yd x)) /\
  (a_sizes c <> [] -> forall x, PLH.ok_input clip (a_sizes c) x ->
     (forall lo, a_min c = Some lo -> lo <= MLI.unit_fn sc tensor clip (a_units c) (a_sizes c) Kmat u x) /\
     (forall hi, a_max c = Some hi -> MLI.unit_fn sc tensor clip (a_units c) (a_sizes c) Kmat u x <= hi)).
Proof. exact lattice_assert_meaning. Qed.
Print Assumptions C12_lattice_assert_implies_monotone_function_any_config.

(* Edgeworth trust (main m, conditional cd, direction +): the effect of raising
   the main input is non-decreasing in the conditional input, every pair of
   admissible points (hypercube interpolation: C02_hyper_edgeworth_effect) *)
Theorem C12_lattice_assert_implies_edgeworth_effect : forall c Kmat tensor clip u m cd x ym yc,
  la_ok c -> PLH.sizes_ok (a_sizes c) -> Forall (fun r => length r = a_units c) Kmat -> (u < a_units c)%nat ->
  assert_lattice_flat c (concat Kmat) 0 = true -> In (m, cd, 1%Z) (a_edge c) ->
  (m < length (a_sizes c))%nat -> (cd < length (a_sizes c))%nat ->
  PLH.ok_input clip (a_sizes c) x -> PLH.ok_input clip (a_sizes c) (set_nth m ym x) ->
  PLH.ok_input clip (a_sizes c) (set_nth cd yc x) -> PLH.ok_input clip (a_sizes c) (set_nth m ym (set_nth cd yc x)) ->
  nth m x 0 <= ym -> nth cd x 0 <= yc ->
  MLI.unit_fn MLI.Hypercube tensor clip (a_units c) (a_sizes c) Kmat u (set_nth m ym x) -
  MLI.unit_fn MLI.Hypercube tensor clip (a_units c) (a_sizes c) Kmat u x <=
  MLI.unit_fn MLI.Hypercube tensor clip (a_units c) (a_sizes c) Kmat u (set_nth m ym (set_nth cd yc x)) -
  MLI.unit_fn MLI.Hypercube tensor clip (a_units c) (a_sizes c) Kmat u (set_nth cd yc x).
Proof. exact lattice_assert_edgeworth_effect. Qed.
Print Assumptions C12_lattice_assert_implies_edgeworth_effect.

Example C12_lattice_edgeworth_example : la_ok ex_la /\ PLH.sizes_ok (a_sizes ex_la) /\
  Forall (fun r => length r = a_units ex_la) [[1; 1]; [1; 1]; [2; 2]; [3; 3]] /\
  assert_lattice_flat ex_la (concat [[1; 1]; [1; 1]; [2; 2]; [3; 3]]) 0 = true /\ In (0%nat, 1%nat, 1%Z) (a_edge ex_la).
Proof. split; [exact ex_la_ok|]. split; [repeat constructor|]. split; [repeat constructor|].
  split; [vm_compute; reflexivity|left; reflexivity]. Qed.

(* any eps >= 0: the output is inside [output_min - eps, output_max + eps] *)
Theorem C12_lattice_assert_eps_implies_bounded_function : forall c Kmat eps sc tensor clip u x,
  la_ok c -> PLH.sizes_ok (a_sizes c) -> a_sizes c <> [] -> length Kmat = MLI.prodn (a_sizes c) ->
  Forall (fun r => length r = a_units c) Kmat -> (u < a_units c)%nat -> 0 <= eps ->
  assert_lattice_flat c (concat Kmat) eps = true -> PLH.ok_input clip (a_sizes c) x ->
  (forall lo, a_min c = Some lo -> lo - eps <= MLI.unit_fn sc tensor clip (a_units c) (a_sizes c) Kmat u x) /\
  (forall hi, a_max c = Some hi -> MLI.unit_fn sc tensor clip (a_units c) (a_sizes c) Kmat u x <= hi + eps).
Proof. exact lattice_assert_eps_bounded. Qed.
Print Assumptions C12_lattice_assert_eps_implies_bounded_function.

(* satisfiable: 2 x 3 lattice, 2 units, both inputs monotone, bounds [0, 9] *)
Example C12_lattice_meaning_example : cfg_valid am_lat /\ length am_K = MLI.prodn (l_sizes am_lat) /\
  Forall (fun r => length r = l_units am_lat) am_K /\ (1 < l_units am_lat)%nat /\
  assert_lattice (la_of am_lat) (of_list (l_shape am_lat) (concat am_K)) 0 = true /\
  In 1%nat (mono_dims (l_monos am_lat)) /\
  PLH.ok_input false (l_sizes am_lat) [1#2; 1#2] /\ PLH.ok_input false (l_sizes am_lat) (set_nth 1 (3#2) [1#2; 1#2]) /\
  PLH.ok_input true (l_sizes am_lat) [5; -(1)].
Proof. exact am_lat_hyps. Qed.

(* ---------------- KroneckerFactoredLattice ---------------- *)
(* kfl_cfg_of / kfl_params_of: the assert's configuration, kernel tensor
   K [keypoint; unit; dim; term] and scale as the configuration and parameters
   of the C07 model (MK.unpack is the same re-indexing from the nested list).
   The assert does NOT check two things the function-level statements need:
     kfl_weights_nonneg  with no bound or two bounds: the 1-D factors of every
                         term with non-zero scale are >= 0 (with exactly one
                         bound, kfl_one_sided, the assert checks it itself);
     kfl_bias_fixed      the bias of a bounded layer has its fixed value.
   With them a passing assert is feasibility in the sense of C03 ... *)
Theorem C12_kfl_assert_implies_C03_feasible : forall c Sc K bias clip, kfl_cfg_ok c -> assert_kfl c Sc K 0 = true ->
  (k_monos c = [] \/ kfl_one_sided c \/ kfl_weights_nonneg c Sc K) -> kfl_bias_fixed c bias ->
  PMK.kfl_feasible (kfl_cfg_of c clip) (k_dims c) (kfl_params_of c Sc K bias).
Proof. exact kfl_assert_premade_feasible. Qed.
Print Assumptions C12_kfl_assert_implies_C03_feasible.

(* ... and the unit function is non-decreasing along the monotone inputs for
   every pair of in-range or clipped points (any bias), and within the bounds
   on every in-range or clipped point (any signs of the weights) *)
Theorem C12_kfl_assert_implies_monotone_bounded_function : forall c Sc K bias clip u,
  kfl_cfg_ok c -> assert_kfl c Sc K 0 = true ->
  (kfl_one_sided c \/ kfl_weights_nonneg c Sc K -> k_monos c <> [] ->
   forall xs ys, PK.coords_le (kfl_mono_flags c) xs ys ->
     clip = true \/ (PK.in_range (k_L c) xs /\ PK.in_range (k_L c) ys) ->
     MK.unit_out (kfl_cfg_of c clip) (kfl_params_of c Sc K bias) u xs <=
     MK.unit_out (kfl_cfg_of c clip) (kfl_params_of c Sc K bias) u ys) /\
  (kfl_bias_fixed c bias -> length bias = k_units c -> (u < k_units c)%nat ->
   forall xs, length xs = k_dims c -> clip = true \/ PK.in_range (k_L c) xs ->
     (forall lo, k_min c = Some lo -> lo <= MK.unit_out (kfl_cfg_of c clip) (kfl_params_of c Sc K bias) u xs) /\
     (forall hi, k_max c = Some hi -> MK.unit_out (kfl_cfg_of c clip) (kfl_params_of c Sc K bias) u xs <= hi)).
Proof. intros c Sc K bias clip u Hc Hp. split.
  - intros Hg Hn xs ys Hle Hr. exact (kfl_assert_monotone c Sc K bias clip u xs ys Hc Hp Hg Hn Hle Hr).
  - intros Hb Hl Hu xs Hx Hr. exact (kfl_assert_bounded c Sc K bias clip u xs Hc Hp Hb Hl Hu Hx Hr). Qed.
Print Assumptions C12_kfl_assert_implies_monotone_bounded_function.

(* one monotone coordinate moved up, the others fixed *)
Theorem C12_kfl_assert_implies_monotone_coordinate : forall c Sc K bias clip u xs d y,
  kfl_cfg_ok c -> assert_kfl c Sc K 0 = true -> kfl_one_sided c \/ kfl_weights_nonneg c Sc K ->
  (d < length (k_monos c))%nat -> nth d (k_monos c) 0%Z <> 0%Z -> length xs = k_dims c -> nth d xs 0 <= y ->
  clip = true \/ (PK.in_range (k_L c) xs /\ PK.in_range (k_L c) (set_nth d y xs)) ->
  MK.unit_out (kfl_cfg_of c clip) (kfl_params_of c Sc K bias) u xs <=
  MK.unit_out (kfl_cfg_of c clip) (kfl_params_of c Sc K bias) u (set_nth d y xs).
Proof. exact kfl_assert_monotone_coordinate. Qed.
Print Assumptions C12_kfl_assert_implies_monotone_coordinate.

(* the conversion is the C07 layout map, and the identity on a well-shaped scale *)
Theorem C12_kfl_params_are_the_layer_parameters : forall c,
  (forall k : list (list (list Q)),
     kfl_kernel_of c (fun i => match i with [i; u; d; t] => nth t (nth (u * k_dims c + d) (nth i k []) []) 0 | _ => 0 end) =
     MK.unpack (k_L c) (k_units c) (k_dims c) (k_terms c) k) /\
  (forall Sc, length Sc = k_units c -> Forall (fun r => length r = k_terms c) Sc -> kfl_scale_of c Sc = Sc).
Proof. intros c. split; [exact (kfl_kernel_of_unpack c)|exact (kfl_scale_of_id c)]. Qed.
Print Assumptions C12_kfl_params_are_the_layer_parameters.

(* FINDING (new, proposed number D72; reproduced on the implementation): without kfl_weights_nonneg
   the implication is FALSE.  monotonicities (1, 1), lattice_sizes 2, one term
   with scale 1 and 1-D factors (-1, 0), (-1, 0) - each increasing, but
   negative -, no bounds or bounds (-1, 1): assert_constraints(eps = 0) passes
   and f(0, 0) = 1 > 0 = f(1, 0).  The assert checks the order of the factors,
   not the sign that the projection establishes by clipping at 0 first. *)
Theorem C12_kfl_assert_alone_implies_monotone_refuted : forall b, b = (None, None) \/ b = (Some (-(1)), Some 1) ->
  let c := am_kfl_bad (fst b) (snd b) in
  kfl_cfg_ok c /\ assert_kfl c [[1]] am_kfl_bad_K 0 = true /\ kfl_bias_fixed c [0] /\
  PK.coords_le (kfl_mono_flags c) [0; 0] [1; 0] /\ PK.in_range (k_L c) [0; 0] /\ PK.in_range (k_L c) [1; 0] /\
  MK.unit_out (kfl_cfg_of c false) (kfl_params_of c [[1]] am_kfl_bad_K [0]) 0 [1; 0] <
  MK.unit_out (kfl_cfg_of c false) (kfl_params_of c [[1]] am_kfl_bad_K [0]) 0 [0; 0].
Proof. exact kfl_assert_not_monotone_refuted. Qed.
Print Assumptions C12_kfl_assert_alone_implies_monotone_refuted.

(* satisfiable: L = 2, two monotone inputs, terms with scales +1 / -1, bounds [0, 2] *)
Example C12_kfl_meaning_example : kfl_cfg_ok ex_kfl /\ assert_kfl ex_kfl [[1; - (1)]] am_kfl_K 0 = true /\
  kfl_weights_nonneg ex_kfl [[1; - (1)]] am_kfl_K /\ kfl_bias_fixed ex_kfl [1] /\
  PK.coords_le (kfl_mono_flags ex_kfl) [0; 1#2] [1#2; 1] /\ PK.in_range (k_L ex_kfl) [0; 1#2] /\ PK.in_range (k_L ex_kfl) [1#2; 1].
Proof. exact am_kfl_hyps. Qed.

(* ---------------- Linear ---------------- *)
(* unit u of the layer is MLE.lin_unit (column u K) bias_u bounds (C20_formula).
   A passing assert (eps = 0) gives the sign hypotheses of C20_monotone, hence:
   monotone for EVERY pair of points with y above x in the increasing inputs,
   below in the decreasing ones, equal in the others (lin_dir_le) ... *)
Theorem C12_linear_assert_implies_monotone_function : forall c K u, (u < li_units c)%nat -> assert_linear c K 0 = true ->
  forall b bs x y, length x = length K -> length y = length K -> lin_dir_le (li_monos c) (length K) x y ->
  MLE.lin_unit (column u K) b bs x <= MLE.lin_unit (column u K) b bs y.
Proof. exact lin_assert_monotone. Qed.
Print Assumptions C12_linear_assert_implies_monotone_function.

Theorem C12_linear_assert_implies_monotone_coordinate : forall c K u, (u < li_units c)%nat -> assert_linear c K 0 = true ->
  forall b bs x i v v', length x = length K -> (i < length K)%nat -> v <= v' ->
  (nth i (li_monos c) 0%Z = 1%Z ->
     MLE.lin_unit (column u K) b bs (set_nth i v x) <= MLE.lin_unit (column u K) b bs (set_nth i v' x)) /\
  (nth i (li_monos c) 0%Z = (-1)%Z ->
     MLE.lin_unit (column u K) b bs (set_nth i v' x) <= MLE.lin_unit (column u K) b bs (set_nth i v x)).
Proof. exact lin_assert_monotone_coordinate. Qed.
Print Assumptions C12_linear_assert_implies_monotone_coordinate.

(* ... the hypothesis and therefore the conclusion of C20_monotonic_dominance_effect
   for every configured pair (unclipped inputs) ... *)
Theorem C12_linear_assert_implies_monotonic_dominance_effect : forall c K u, (u < li_units c)%nat -> assert_linear c K 0 = true ->
  forall b bs x dom weak d, In (dom, weak) (li_mdom c) ->
  (dom < length K)%nat -> (weak < length K)%nat -> length bs = length K -> length x = length K ->
  nth dom bs PLE.nob = (None, None) -> nth weak bs PLE.nob = (None, None) -> 0 <= d ->
  kat K weak u <= kat K dom u /\
  MLE.lin_unit (column u K) b bs (set_nth weak (nth weak x 0 + d) x) - MLE.lin_unit (column u K) b bs x <=
  MLE.lin_unit (column u K) b bs (set_nth dom (nth dom x 0 + d) x) - MLE.lin_unit (column u K) b bs x.
Proof. exact lin_assert_mdom_effect. Qed.
Print Assumptions C12_linear_assert_implies_monotonic_dominance_effect.

(* ... and of C20_range_dominance_effect, signed by the direction of each input
   (lin_sign = -1 for a decreasing input, else 1; [ld, hd], [lw, hw] are the
   layer's own input bounds, the ones the assert scales by) *)
Theorem C12_linear_assert_implies_range_dominance_effect : forall c K u, (u < li_units c)%nat -> assert_linear c K 0 = true ->
  forall b bs x dom weak ld hd lw hw, In (dom, weak) (li_rdom c) ->
  (dom < length K)%nat -> (weak < length K)%nat -> length bs = length K -> length x = length K ->
  nth dom (zip_bounds (li_min c) (li_max c)) (None, None) = (Some ld, Some hd) ->
  nth weak (zip_bounds (li_min c) (li_max c)) (None, None) = (Some lw, Some hw) ->
  nth dom bs PLE.nob = (Some ld, Some hd) -> nth weak bs PLE.nob = (Some lw, Some hw) -> ld <= hd -> lw <= hw ->
  lin_sign c weak * ((hw - lw) * kat K weak u) <= lin_sign c dom * ((hd - ld) * kat K dom u) /\
  lin_sign c weak * (MLE.lin_unit (column u K) b bs (set_nth weak hw x) - MLE.lin_unit (column u K) b bs (set_nth weak lw x)) <=
  lin_sign c dom * (MLE.lin_unit (column u K) b bs (set_nth dom hd x) - MLE.lin_unit (column u K) b bs (set_nth dom ld x)).
Proof. exact lin_assert_rdom_effect. Qed.
Print Assumptions C12_linear_assert_implies_range_dominance_effect.

(* the norm test is strict (|norm - 1| < eps): at eps = 0 a normalised layer
   passes ONLY through the numerically-zero-column escape *)
Theorem C12_linear_assert_zero_eps_norm_only_zero_column : forall c K u, (u < li_units c)%nat -> assert_linear c K 0 = true ->
  forall ord, li_norm c = Some ord ->
  (ord = 1%nat -> qsum (map qabs (unit_col K u)) < norm_eps) /\
  (ord <> 1%nat -> qsum (map (fun w => w * w) (unit_col K u)) < norm_eps * norm_eps).
Proof. exact lin_assert_zero_eps_norm_escape. Qed.
Print Assumptions C12_linear_assert_zero_eps_norm_only_zero_column.

(* normalization order 1, all inputs increasing: the non-strict checks pass at
   eps = 0 (lin_without_norm), the whole assert at eps.  Then the weights are
   >= 0, their sum s is within eps of 1 - or below 1e-8: the zero-column escape
   of the assert, cf. C20_projected_weighted_average_zero_refuted - and
   output - bias is in [lo * s, hi * s] for any lo / hi bounding the clipped
   inputs; with s == 1 that is the weighted average of C20_weighted_average *)
Theorem C12_linear_assert_implies_weighted_average : forall c K eps u b bs x lo hi, (u < li_units c)%nat -> 0 <= eps ->
  li_norm c = Some 1%nat -> (forall i, (i < length K)%nat -> nth i (li_monos c) 0%Z = 1%Z) ->
  assert_linear (lin_without_norm c) K 0 = true -> assert_linear c K eps = true ->
  length bs = length K -> length x = length K -> (forall v, In v (PLE.clipped bs x) -> lo <= v /\ v <= hi) ->
  let k := column u K in let s := qsum k in
  (forall q, In q k -> 0 <= q) /\ (qabs (s - 1) < eps \/ s < norm_eps) /\
  lo * s <= MLE.lin_unit k b bs x - b /\ MLE.lin_unit k b bs x - b <= hi * s /\
  (s == 1 -> lo <= MLE.lin_unit k b bs x - b /\ MLE.lin_unit k b bs x - b <= hi).
Proof. exact lin_assert_weighted_average. Qed.
Print Assumptions C12_linear_assert_implies_weighted_average.

(* satisfiable (and at eps = 0 the same exactly-normalised layer is rejected) *)
Example C12_linear_meaning_example : assert_linear (lin_without_norm am_lin) am_lin_K 0 = true /\
  assert_linear am_lin am_lin_K (1#1000) = true /\ assert_linear am_lin am_lin_K 0 = false /\
  (forall i, (i < length am_lin_K)%nat -> nth i (li_monos am_lin) 0%Z = 1%Z) /\
  lin_dir_le (li_monos am_lin) (length am_lin_K) [0; 3; 1] [1; 3; 2] /\
  nth 0 (zip_bounds (li_min am_lin) (li_max am_lin)) (None, None) = (Some 0, Some 2) /\
  nth 1 (zip_bounds (li_min am_lin) (li_max am_lin)) (None, None) = (Some 0, Some 1) /\
  qsum (column 1 am_lin_K) == 1.
Proof. destruct am_lin_hyps as (H1 & H2 & H3). split; [exact H1|]. split; [exact H2|]. split; [exact am_lin_zero_eps_rejected|exact H3]. Qed.

(* ---------------- PWLCalibration ---------------- *)
(* L: the built layer (fixed or learned keypoints, cyclic or not) with the
   asserted kernel; PPE.unit_fn L u is what call() computes for unit u (C05).
   A passing assert (eps = 0) means: monotone for EVERY pair of inputs, inside
   the bounds at EVERY input, constant outside the keypoint range, a clamped
   bound is attained, the learned missing output is inside the bounds. *)
Theorem C12_pwl_assert_implies_monotone_bounded_function : forall c L e u,
  MPE.p_kernel L <> [] -> MPE.p_units L = pa_units (pl_cfg c) ->
  MPE.p_cyclic L = pl_cyclic c -> (u < MPE.p_units L)%nat ->
  PPE.segments (MPE.unit_lefts L u) (MPE.unit_lens L u) e ->
  length (column u (MPE.bias_and_heights L)) = S (length (MPE.unit_lefts L u)) ->
  assert_pwl_layer c (MPE.p_kernel L) 0 = true ->
  (pa_mono (pl_cfg c) = 1%Z -> forall x y, x <= y -> PPE.unit_fn L u x <= PPE.unit_fn L u y) /\
  (pa_mono (pl_cfg c) = (-1)%Z -> forall x y, x <= y -> PPE.unit_fn L u y <= PPE.unit_fn L u x) /\
  (forall x, (forall lo, pa_min (pl_cfg c) = Some lo -> lo <= PPE.unit_fn L u x) /\
             (forall hi, pa_max (pl_cfg c) = Some hi -> PPE.unit_fn L u x <= hi)) /\
  (forall x, (x <= hd e (MPE.unit_lefts L u) -> PPE.unit_fn L u x == PPE.unit_fn L u (hd e (MPE.unit_lefts L u))) /\
             (e <= x -> PPE.unit_fn L u x == PPE.unit_fn L u e)) /\
  (forall lo, pa_min (pl_cfg c) = Some lo -> pa_clamp_min (pl_cfg c) = true -> exists x, PPE.unit_fn L u x <= lo) /\
  (forall hi, pa_max (pl_cfg c) = Some hi -> pa_clamp_max (pl_cfg c) = true -> exists x, hi <= PPE.unit_fn L u x) /\
  (forall mo, pl_missing c = Some mo ->
     (forall lo, pa_min (pl_cfg c) = Some lo -> lo <= nth u mo 0) /\ (forall hi, pa_max (pl_cfg c) = Some hi -> nth u mo 0 <= hi)).
Proof. exact pwl_assert_meaning. Qed.
Print Assumptions C12_pwl_assert_implies_monotone_bounded_function.

Theorem C12_pwl_assert_eps_implies_bounded_function : forall c L eps e u x,
  MPE.p_kernel L <> [] -> MPE.p_units L = pa_units (pl_cfg c) ->
  MPE.p_cyclic L = pl_cyclic c -> (u < MPE.p_units L)%nat -> 0 <= eps ->
  PPE.segments (MPE.unit_lefts L u) (MPE.unit_lens L u) e ->
  length (column u (MPE.bias_and_heights L)) = S (length (MPE.unit_lefts L u)) ->
  assert_pwl_layer c (MPE.p_kernel L) eps = true ->
  (forall lo, pa_min (pl_cfg c) = Some lo -> lo - eps <= PPE.unit_fn L u x) /\
  (forall hi, pa_max (pl_cfg c) = Some hi -> PPE.unit_fn L u x <= hi + eps).
Proof. exact pwl_assert_eps_bounded. Qed.
Print Assumptions C12_pwl_assert_eps_implies_bounded_function.

Example C12_pwl_meaning_example : MPE.p_kernel am_pwl_layer <> [] /\ MPE.p_units am_pwl_layer = pa_units (pl_cfg am_pwl_cfg) /\
  MPE.p_cyclic am_pwl_layer = pl_cyclic am_pwl_cfg /\ (1 < MPE.p_units am_pwl_layer)%nat /\
  PPE.segments (MPE.unit_lefts am_pwl_layer 1) (MPE.unit_lens am_pwl_layer 1) 3 /\
  length (column 1 (MPE.bias_and_heights am_pwl_layer)) = S (length (MPE.unit_lefts am_pwl_layer 1)) /\
  assert_pwl_layer am_pwl_cfg (MPE.p_kernel am_pwl_layer) 0 = true /\ pa_mono (pl_cfg am_pwl_cfg) = 1%Z.
Proof. exact am_pwl_hyps. Qed.

(* ---------------- CategoricalCalibration ---------------- *)
(* PPE.cat_index L row u: the (default-replaced) category unit u looks up.  Every
   bucket's output is inside the bounds, and for every configured pair (i, j)
   the output on category i is <= the output on category j. *)
Theorem C12_categorical_assert_implies_ordered_bounded_function : forall c L u,
  MCE.c_kernel L <> [] -> MCE.c_units L = ca_units c ->
  MCE.c_buckets L = length (MCE.c_kernel L) -> (u < ca_units c)%nat ->
  assert_categorical c (MCE.c_kernel L) 0 = true ->
  (forall row b, (PPE.col_of (length row) u < length row)%nat -> (MCE.c_units L = 1%nat -> length row = 1%nat) ->
     PPE.cat_index L row u = Z.of_nat b -> (b < MCE.c_buckets L)%nat ->
     (forall lo, ca_min c = Some lo -> lo <= nth u (MCE.cat_row L row) 0) /\
     (forall hi, ca_max c = Some hi -> nth u (MCE.cat_row L row) 0 <= hi)) /\
  (forall i j row row', In (i, j) (ca_pairs c) -> (i < MCE.c_buckets L)%nat -> (j < MCE.c_buckets L)%nat ->
     (PPE.col_of (length row) u < length row)%nat -> (MCE.c_units L = 1%nat -> length row = 1%nat) ->
     (PPE.col_of (length row') u < length row')%nat -> (MCE.c_units L = 1%nat -> length row' = 1%nat) ->
     PPE.cat_index L row u = Z.of_nat i -> PPE.cat_index L row' u = Z.of_nat j ->
     nth u (MCE.cat_row L row) 0 <= nth u (MCE.cat_row L row') 0).
Proof. exact cat_assert_meaning. Qed.
Print Assumptions C12_categorical_assert_implies_ordered_bounded_function.

Example C12_categorical_meaning_example : MCE.c_kernel am_cat_layer <> [] /\ MCE.c_units am_cat_layer = ca_units ex_cat /\
  MCE.c_buckets am_cat_layer = length (MCE.c_kernel am_cat_layer) /\ (0 < ca_units ex_cat)%nat /\
  assert_categorical ex_cat (MCE.c_kernel am_cat_layer) 0 = true /\ In (1%nat, 2%nat) (ca_pairs ex_cat) /\
  PPE.cat_index am_cat_layer [1] 0 = Z.of_nat 1 /\ PPE.cat_index am_cat_layer [-(1)] 0 = Z.of_nat 2.
Proof. exact am_cat_hyps. Qed.
