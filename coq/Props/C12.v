(* C12 - assert_constraints accepts exactly the weights that meet the covered
   constraints.  Property theorems only; proofs live in Proofs/Asserts.v.

   [assert_K cfg w eps : bool] (Model/Asserts.v) is true when every tf.Assert of
   the layer kind K passes.  The covered constraints are stated independently of
   the assert's own slicing: for the Lattice as a type of inequality instances
   [lat_ineq] with membership [covered] (ALL valid index vectors, i.e. every
   vertex, pair, square and unit) and [slack] (>= 0 = satisfied, violation =
   - slack); for the other kinds as a predicate [K_feasible cfg w eps] = every
   covered inequality holds up to eps, quantified over all rows / units / pairs.
   Comparisons are the code's: non-strict (>= -eps, <= eps) everywhere except the
   Linear norm test (strict < eps) and the KFL sign / scale-range tests (no eps).

   Square roots: the model of the Linear L2 norm test compares the SUM OF
   SQUARES with squared thresholds and contains no root, so C12_linear_exact /
   _sound / _complete need none.  Only the two "meaning" theorems relate that
   test to the code's comparison of r = tf.norm(...): C12_linear_l2_norm_meaning
   and C12_linear_l2_zero_norm_meaning assume an EXACT root r * r == s
   (idealised: satisfiable only when s is a rational square); the
   ..._any_root versions hold for every r >= 0 (test on r == squared test on
   r * r) and the ..._approximate_root versions for r * r within relative error
   d of s (proofs in Proofs/SqrtRobust.v). *)
From TFL Require Import Model.Asserts Proofs.Asserts.
From TFL Require Proofs.SqrtRobust.
Open Scope Q_scope.

(* ---------------- Lattice (monotonicity, Edgeworth, trapezoid, monotonic and
   range dominance, joint monotonicity, bounds) ---------------- *)
Theorem C12_lattice_sound : forall c W eps q,
  la_ok c -> covered c q -> slack c W q < - eps -> assert_lattice c W eps = false.
Proof. exact lattice_sound. Qed.
Print Assumptions C12_lattice_sound.

Theorem C12_lattice_complete : forall c W eps,
  la_ok c -> 0 <= eps -> (forall q, covered c q -> - eps <= slack c W q) -> assert_lattice c W eps = true.
Proof. exact lattice_complete. Qed.
Print Assumptions C12_lattice_complete.

Theorem C12_lattice_exact : forall c W eps, la_ok c -> 0 <= eps ->
  (assert_lattice c W eps = true <-> forall q, covered c q -> - eps <= slack c W q).
Proof. exact lattice_exact. Qed.
Print Assumptions C12_lattice_exact.

(* the same for the flat (prod(sizes), units) kernel the layer stores *)
Theorem C12_lattice_flat_sound : forall c w eps q, la_ok c -> covered c q ->
  slack c (of_list (a_shape c) w) q < - eps -> assert_lattice_flat c w eps = false.
Proof. exact lattice_flat_sound. Qed.
Print Assumptions C12_lattice_flat_sound.

Theorem C12_lattice_flat_complete : forall c w eps, la_ok c -> 0 <= eps ->
  (forall q, covered c q -> - eps <= slack c (of_list (a_shape c) w) q) -> assert_lattice_flat c w eps = true.
Proof. exact lattice_flat_complete. Qed.
Print Assumptions C12_lattice_flat_complete.

(* link with C01: with eps = 0 the assert accepts exactly the kernels that are
   feasible in the sense of Proofs/LatticeSpec.v (what C01 proves about the
   strict projection), and with any eps >= 0 it accepts all of them *)
Theorem C12_lattice_zero_eps_is_C01_feasible : forall c f, cfg_valid c ->
  (assert_lattice (la_of c) f 0 = true <-> feasible_kernel c f).
Proof. exact assert_zero_iff_feasible. Qed.
Print Assumptions C12_lattice_zero_eps_is_C01_feasible.

Theorem C12_lattice_accepts_C01_feasible : forall c f eps, cfg_valid c -> feasible_kernel c f -> 0 <= eps ->
  assert_lattice (la_of c) f eps = true.
Proof. exact assert_accepts_feasible. Qed.
Print Assumptions C12_lattice_accepts_C01_feasible.

(* ---------------- RTL: conjunction over its lattice layers ---------------- *)
Theorem C12_rtl_conjunction : forall layers eps,
  assert_rtl layers eps = true <-> forall c w, In (c, w) layers -> assert_lattice_flat c w eps = true.
Proof. exact assert_rtl_iff. Qed.
Print Assumptions C12_rtl_conjunction.

Theorem C12_rtl_sound : forall layers eps c w q, In (c, w) layers -> la_ok c -> covered c q ->
  slack c (of_list (a_shape c) w) q < - eps -> assert_rtl layers eps = false.
Proof. exact rtl_sound. Qed.
Print Assumptions C12_rtl_sound.

Theorem C12_rtl_complete : forall layers eps, 0 <= eps ->
  (forall c w, In (c, w) layers -> la_ok c /\ forall q, covered c q -> - eps <= slack c (of_list (a_shape c) w) q) ->
  assert_rtl layers eps = true.
Proof. exact rtl_complete. Qed.
Print Assumptions C12_rtl_complete.

(* ---------------- PWL calibration (bounds, clamps per unit, monotonicity) ---------------- *)
Theorem C12_pwl_exact : forall c outs eps, outs <> [] -> 0 <= eps ->
  (assert_pwl_outputs c outs eps = true <-> pwl_feasible c outs eps).
Proof. exact pwl_exact. Qed.
Print Assumptions C12_pwl_exact.

Theorem C12_pwl_sound : forall c outs eps, outs <> [] -> 0 <= eps ->
  ~ pwl_feasible c outs eps -> assert_pwl_outputs c outs eps = false.
Proof. exact pwl_sound. Qed.
Print Assumptions C12_pwl_sound.

Theorem C12_pwl_complete : forall c outs eps, outs <> [] -> 0 <= eps ->
  pwl_feasible c outs eps -> assert_pwl_outputs c outs eps = true.
Proof. exact pwl_complete. Qed.
Print Assumptions C12_pwl_complete.

Theorem C12_pwl_sound_monotonicity : forall c outs eps k u, outs <> [] -> 0 <= eps -> pa_mono c <> 0%Z ->
  (S k < length outs)%nat -> (u < pa_units c)%nat ->
  (out_at outs (S k) u - out_at outs k u) * inject_Z (pa_mono c) < - eps -> assert_pwl_outputs c outs eps = false.
Proof. exact pwl_sound_mono. Qed.
Print Assumptions C12_pwl_sound_monotonicity.

Theorem C12_pwl_sound_lower_bound : forall c outs eps lo k u, outs <> [] -> 0 <= eps -> pa_min c = Some lo ->
  (k < length outs)%nat -> (u < pa_units c)%nat -> out_at outs k u < lo - eps -> assert_pwl_outputs c outs eps = false.
Proof. exact pwl_sound_lower. Qed.
Print Assumptions C12_pwl_sound_lower_bound.

Theorem C12_pwl_sound_upper_bound : forall c outs eps hi k u, outs <> [] -> 0 <= eps -> pa_max c = Some hi ->
  (k < length outs)%nat -> (u < pa_units c)%nat -> hi + eps < out_at outs k u -> assert_pwl_outputs c outs eps = false.
Proof. exact pwl_sound_upper. Qed.
Print Assumptions C12_pwl_sound_upper_bound.

(* a clamp is violated as soon as ONE unit stays away from the bound *)
Theorem C12_pwl_sound_clamp_min : forall c outs eps lo u, outs <> [] -> 0 <= eps -> pa_min c = Some lo ->
  pa_clamp_min c = true -> (u < pa_units c)%nat ->
  (forall k, (k < length outs)%nat -> lo + eps < out_at outs k u) -> assert_pwl_outputs c outs eps = false.
Proof. exact pwl_sound_clamp_min. Qed.
Print Assumptions C12_pwl_sound_clamp_min.

Theorem C12_pwl_sound_clamp_max : forall c outs eps hi u, outs <> [] -> 0 <= eps -> pa_max c = Some hi ->
  pa_clamp_max c = true -> (u < pa_units c)%nat ->
  (forall k, (k < length outs)%nat -> out_at outs k u < hi - eps) -> assert_pwl_outputs c outs eps = false.
Proof. exact pwl_sound_clamp_max. Qed.
Print Assumptions C12_pwl_sound_clamp_max.

(* the layer asserts on the prefix sums of its kernel (+ the closing point when
   cyclic) and on the learned missing output *)
Theorem C12_pwl_layer_exact : forall c kernel eps, kernel <> [] -> 0 <= eps ->
  (assert_pwl_layer c kernel eps = true <->
   pwl_feasible (pl_cfg c) (pwl_keypoint_outputs (pa_units (pl_cfg c)) (pl_cyclic c) kernel) eps /\
   missing_feasible c eps).
Proof. exact pwl_layer_exact. Qed.
Print Assumptions C12_pwl_layer_exact.

Theorem C12_pwl_layer_outputs_are_prefix_sums : forall units cyclic kernel k u,
  (k < length kernel)%nat -> (u < units)%nat ->
  out_at (pwl_keypoint_outputs units cyclic kernel) k u == qsum (firstn (S k) (column u kernel)).
Proof. exact keypoint_outputs_at. Qed.
Print Assumptions C12_pwl_layer_outputs_are_prefix_sums.

(* ---------------- Linear (signs, monotonic and range dominance, norm) ---------------- *)
Theorem C12_linear_exact : forall c K eps, 0 <= eps -> (assert_linear c K eps = true <-> lin_feasible c K eps).
Proof. exact lin_exact. Qed.
Print Assumptions C12_linear_exact.

Theorem C12_linear_sound : forall c K eps, 0 <= eps -> ~ lin_feasible c K eps -> assert_linear c K eps = false.
Proof. exact lin_sound. Qed.
Print Assumptions C12_linear_sound.

Theorem C12_linear_complete : forall c K eps, 0 <= eps -> lin_feasible c K eps -> assert_linear c K eps = true.
Proof. exact lin_complete. Qed.
Print Assumptions C12_linear_complete.

(* the model's comparison of squares is the comparison of the L2 norm, for any
   r >= 0 with r * r == sum of squares (the value tf.norm returns) *)
Theorem C12_linear_l2_norm_meaning : forall r s eps, 0 <= r -> r * r == s -> 0 <= eps ->
  (qabs (r - 1) < eps <-> s < (1 + eps) * (1 + eps) /\ (1 - eps < 0 \/ (1 - eps) * (1 - eps) < s)).
Proof. exact l2_check_meaning. Qed.
Print Assumptions C12_linear_l2_norm_meaning.

Theorem C12_linear_l2_zero_norm_meaning : forall r s ne, 0 <= r -> r * r == s -> 0 < ne ->
  (qabs r < ne <-> s < ne * ne).
Proof. exact l2_zero_meaning. Qed.
Print Assumptions C12_linear_l2_zero_norm_meaning.

(* without the exact-root idealisation: for EVERY r >= 0 the code's comparisons
   of r are the squared comparisons of r * r ... *)
Theorem C12_linear_l2_norm_meaning_any_root : forall r eps ne, 0 <= r -> 0 <= eps -> 0 < ne ->
  (qabs (r - 1) < eps <-> r * r < (1 + eps) * (1 + eps) /\ (1 - eps < 0 \/ (1 - eps) * (1 - eps) < r * r)) /\
  (qabs r < ne <-> r * r < ne * ne).
Proof. intros r eps ne Hr He Hn.
  exact (conj (SqrtRobust.l2_check_any_root r eps Hr He) (SqrtRobust.l2_zero_any_root r ne Hr Hn)). Qed.
Print Assumptions C12_linear_l2_norm_meaning_any_root.

(* ... and when r * r is within relative error d of the sum of squares s (what
   tf.norm guarantees), the model's test on s and the code's test on r agree
   unless s is within that relative error of a threshold: the model's test with
   the margins (1 +- d) implies the code's, the code's implies the model's with
   the margins relaxed *)
Theorem C12_linear_l2_norm_meaning_approximate_root : forall r s eps d, 0 <= r -> 0 <= eps ->
  (1 - d) * s <= r * r -> r * r <= (1 + d) * s ->
  ((1 + d) * s < (1 + eps) * (1 + eps) /\ (1 - eps < 0 \/ (1 - eps) * (1 - eps) < (1 - d) * s) -> qabs (r - 1) < eps) /\
  (qabs (r - 1) < eps -> (1 - d) * s < (1 + eps) * (1 + eps) /\ (1 - eps < 0 \/ (1 - eps) * (1 - eps) < (1 + d) * s)).
Proof. exact SqrtRobust.l2_check_approx_root. Qed.
Print Assumptions C12_linear_l2_norm_meaning_approximate_root.

Theorem C12_linear_l2_zero_norm_meaning_approximate_root : forall r s ne d, 0 <= r -> 0 < ne ->
  (1 - d) * s <= r * r -> r * r <= (1 + d) * s ->
  ((1 + d) * s < ne * ne -> qabs r < ne) /\ (qabs r < ne -> (1 - d) * s < ne * ne).
Proof. exact SqrtRobust.l2_zero_approx_root. Qed.
Print Assumptions C12_linear_l2_zero_norm_meaning_approximate_root.

(* satisfiable for the non-square s = 2 with r = 99/70, d = 1/9800, eps = 1/2 *)
Example C12_l2_root_two_example :
  let r := 99 # 70 in let d := 1 # 9800 in let eps := 1 # 2 in
  0 <= r /\ 0 <= eps /\ (1 - d) * 2 <= r * r /\ r * r <= (1 + d) * 2 /\ ~ r * r == 2 /\
  (1 + d) * 2 < (1 + eps) * (1 + eps) /\ (1 - eps) * (1 - eps) < (1 - d) * 2 /\ qabs (r - 1) < eps.
Proof. exact SqrtRobust.l2_check_root_two. Qed.

(* ---------------- Categorical (bounds, ordering pairs) ---------------- *)
Theorem C12_categorical_exact : forall c K eps, K <> [] -> (1 <= ca_units c)%nat -> 0 <= eps ->
  (assert_categorical c K eps = true <-> cat_feasible c K eps).
Proof. exact cat_exact. Qed.
Print Assumptions C12_categorical_exact.

Theorem C12_categorical_sound : forall c K eps, K <> [] -> (1 <= ca_units c)%nat -> 0 <= eps ->
  ~ cat_feasible c K eps -> assert_categorical c K eps = false.
Proof. exact cat_sound. Qed.
Print Assumptions C12_categorical_sound.

Theorem C12_categorical_complete : forall c K eps, K <> [] -> (1 <= ca_units c)%nat -> 0 <= eps ->
  cat_feasible c K eps -> assert_categorical c K eps = true.
Proof. exact cat_complete. Qed.
Print Assumptions C12_categorical_complete.

(* one violated pair fails the assert whatever the other pairs do (defect D9, fixed) *)
Theorem C12_categorical_sound_any_pair : forall c K eps i j u, K <> [] -> (1 <= ca_units c)%nat -> 0 <= eps ->
  In (i, j) (ca_pairs c) -> (u < ca_units c)%nat -> eps < kat K i u - kat K j u -> assert_categorical c K eps = false.
Proof. exact cat_sound_pair. Qed.
Print Assumptions C12_categorical_sound_any_pair.

(* ---------------- Kronecker-factored lattice (sign-aware monotonicity, |term| <= 1 + eps
   at every vertex, no negative weights, scale range) ---------------- *)
Theorem C12_kfl_exact : forall c Sc K eps, (1 <= k_L c)%nat -> 0 <= eps ->
  (assert_kfl c Sc K eps = true <-> kfl_feasible c Sc K eps).
Proof. exact kfl_exact. Qed.
Print Assumptions C12_kfl_exact.

Theorem C12_kfl_sound : forall c Sc K eps, (1 <= k_L c)%nat -> 0 <= eps ->
  ~ kfl_feasible c Sc K eps -> assert_kfl c Sc K eps = false.
Proof. exact kfl_sound. Qed.
Print Assumptions C12_kfl_sound.

Theorem C12_kfl_complete : forall c Sc K eps, (1 <= k_L c)%nat -> 0 <= eps ->
  kfl_feasible c Sc K eps -> assert_kfl c Sc K eps = true.
Proof. exact kfl_complete. Qed.
Print Assumptions C12_kfl_complete.
