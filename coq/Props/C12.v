(* C12 - assert_constraints accepts exactly the weights that meet the covered
   constraints.  Property theorems only; proofs live in Proofs/Asserts.v. *)
From TFL Require Import Model.Asserts Proofs.Asserts.
Open Scope Q_scope.

Theorem C12_rtl_conjunction : forall layers eps,
  assert_rtl layers eps = true <-> forall c w, In (c, w) layers -> assert_lattice_flat c w eps = true.
Proof. exact assert_rtl_iff. Qed.
Print Assumptions C12_rtl_conjunction.
