(* C20 — Linear layer computes the clipped affine function.  Property
   theorems only; proofs live in Proofs/LinearEval.v. *)
From TFL Require Import Model.LinearEval Proofs.LinearEval.
Open Scope Q_scope.

(* Output of unit u = bias_u + sum_i K[i,u] * clip_i(x_i). *)
Theorem C20_formula : forall units K bias bs xs u, (u < units)%nat ->
  nth u (linear_eval units K bias bs xs) 0 = lin_unit (column u K) (nth u bias 0) bs (nth u xs []).
Proof. exact linear_eval_unit. Qed.
Print Assumptions C20_formula.

(* Sign-constrained weights give a monotone function for EVERY pair of points
   (inside, on or outside the clip bounds). *)
Theorem C20_monotone : forall ms k b bs x y,
  length ms = length k -> length x = length k -> length y = length k ->
  coords_ok ms k x y -> lin_unit k b bs x <= lin_unit k b bs y.
Proof. exact lin_unit_monotone. Qed.
Print Assumptions C20_monotone.

Theorem C20_monotonic_dominance_effect : forall k b bs x dom weak d,
  (dom < length k)%nat -> (weak < length k)%nat -> length bs = length k -> length x = length k ->
  nth dom bs nob = (None, None) -> nth weak bs nob = (None, None) ->
  0 <= d -> nth weak k 0 <= nth dom k 0 ->
  lin_unit k b bs (set_nth weak (nth weak x 0 + d) x) - lin_unit k b bs x <=
  lin_unit k b bs (set_nth dom (nth dom x 0 + d) x) - lin_unit k b bs x.
Proof. exact lin_dominance_effect. Qed.
Print Assumptions C20_monotonic_dominance_effect.

Theorem C20_range_dominance_effect : forall k b bs x dom weak ld hd lw hw,
  (dom < length k)%nat -> (weak < length k)%nat -> length bs = length k -> length x = length k ->
  nth dom bs nob = (Some ld, Some hd) -> nth weak bs nob = (Some lw, Some hw) ->
  ld <= hd -> lw <= hw ->
  (hw - lw) * nth weak k 0 <= (hd - ld) * nth dom k 0 ->
  lin_unit k b bs (set_nth weak hw x) - lin_unit k b bs (set_nth weak lw x) <=
  lin_unit k b bs (set_nth dom hd x) - lin_unit k b bs (set_nth dom ld x).
Proof. exact lin_range_dominance_effect. Qed.
Print Assumptions C20_range_dominance_effect.

Theorem C20_weighted_average : forall k bs x lo hi,
  length bs = length k -> length x = length k ->
  (forall q, In q k -> 0 <= q) -> qsum k == 1 ->
  (forall c, In c (clipped bs x) -> lo <= c /\ c <= hi) ->
  lo <= lin_unit k 0 bs x /\ lin_unit k 0 bs x <= hi.
Proof. exact lin_weighted_average. Qed.
Print Assumptions C20_weighted_average.
