(* C20 — Linear layer computes the clipped affine function.  Property
   theorems only; proofs live in Proofs/LinearEval.v, Proofs/LinearComposed.v,
   Proofs/SqrtRobust.v.

   The square root of the order-2 normalisation (rt : Q -> Q): every
   C20_projected_* theorem below is quantified over ALL functions rt with NO
   hypothesis -- not exactness, not even positivity (the guard `norm < 1e-8 ->
   divide by 1` of the constraint makes the divisor positive whatever rt
   returns) -- so none of them is idealised; C20_projected_executed_root spells
   out the instance rt := qsqrt (the executed truncated Newton root).  The
   weighted-average statements are about order 1 (no root).  The L2 analogue
   (|output - bias| <= ||clipped input||_2 up to the root's relative error) is
   C20_projected_l2_output_approximate_root (root with relative error e) and
   C20_projected_l2_output_executed_root (executed root). *)
From TFL Require Import Model.LinearEval Proofs.LinearEval.
From TFL Require Import Model.LinearLayer Proofs.PartialOrder Proofs.LinearProject Proofs.LinearComposed.
From TFL Require Import Proofs.SqrtRobust.
Open Scope Q_scope.

(* Output of unit u = bias_u + sum_i K[i,u] * clip_i(x_i). *)
Theorem C20_formula : forall units K bias bs xs u, (u < units)%nat ->
  nth u (linear_eval units K bias bs xs) 0 = lin_unit (column u K) (nth u bias 0) bs (nth u xs []).
Proof. exact linear_eval_unit. Qed.
Print Assumptions C20_formula.

(* Sign-constrained weights give a monotone function for EVERY pair of points
   (inside, on or outside the clip bounds). *)
Theorem C20_monotone : forall ms k b bs x y,
  length ms = length k -> length x = length k -> length y = length k ->
  coords_ok ms k x y -> lin_unit k b bs x <= lin_unit k b bs y.
Proof. exact lin_unit_monotone. Qed.
Print Assumptions C20_monotone.

Theorem C20_monotonic_dominance_effect : forall k b bs x dom weak d,
  (dom < length k)%nat -> (weak < length k)%nat -> length bs = length k -> length x = length k ->
  nth dom bs nob = (None, None) -> nth weak bs nob = (None, None) ->
  0 <= d -> nth weak k 0 <= nth dom k 0 ->
  lin_unit k b bs (set_nth weak (nth weak x 0 + d) x) - lin_unit k b bs x <=
  lin_unit k b bs (set_nth dom (nth dom x 0 + d) x) - lin_unit k b bs x.
Proof. exact lin_dominance_effect. Qed.
Print Assumptions C20_monotonic_dominance_effect.

Theorem C20_range_dominance_effect : forall k b bs x dom weak ld hd lw hw,
  (dom < length k)%nat -> (weak < length k)%nat -> length bs = length k -> length x = length k ->
  nth dom bs nob = (Some ld, Some hd) -> nth weak bs nob = (Some lw, Some hw) ->
  ld <= hd -> lw <= hw ->
  (hw - lw) * nth weak k 0 <= (hd - ld) * nth dom k 0 ->
  lin_unit k b bs (set_nth weak hw x) - lin_unit k b bs (set_nth weak lw x) <=
  lin_unit k b bs (set_nth dom hd x) - lin_unit k b bs (set_nth dom ld x).
Proof. exact lin_range_dominance_effect. Qed.
Print Assumptions C20_range_dominance_effect.

Theorem C20_weighted_average : forall k bs x lo hi,
  length bs = length k -> length x = length k ->
  (forall q, In q k -> 0 <= q) -> qsum k == 1 ->
  (forall c, In c (clipped bs x) -> lo <= c /\ c <= hi) ->
  lo <= lin_unit k 0 bs x /\ lin_unit k 0 bs x <= hi.
Proof. exact lin_weighted_average. Qed.
Print Assumptions C20_weighted_average.

(* ======================================================================
   The second sentence of the property, closed over the constraint (C06):
   r is what the layer's kernel constraint linear_lib.project returns for an
   ARBITRARY kernel column w under an arbitrary valid configuration c
   (lin_valid: what verify_hyperparameters checks + acyclic dominance graphs;
   the projection uses the code's own topological sort), and the layer clips by
   the bounds of the same configuration (layer_bounds c n).  No hypothesis on
   the weights remains.  Proofs in Proofs/LinearComposed.v.
   ====================================================================== *)

(* (1) monotone: dir_le c x y = y is >= x in every increasing input, <= x in
   every decreasing input, equal in the unconstrained ones *)
Theorem C20_projected_monotone : forall rt c n w r b x y,
  lin_valid c n -> length w = n -> lin_project_col rt c w = Some r ->
  length x = n -> length y = n -> dir_le c x y ->
  lin_unit r b (layer_bounds c n) x <= lin_unit r b (layer_bounds c n) y.
Proof. exact projected_monotone. Qed.
Print Assumptions C20_projected_monotone.

(* every pair of values v <= v' of one constrained input, all other inputs fixed *)
Theorem C20_projected_monotone_coordinate : forall rt c n w r b x i v v',
  lin_valid c n -> length w = n -> lin_project_col rt c w = Some r -> length x = n -> (i < n)%nat -> v <= v' ->
  (mono c i = 1%Z -> lin_unit r b (layer_bounds c n) (set_nth i v x) <= lin_unit r b (layer_bounds c n) (set_nth i v' x)) /\
  (mono c i = (-1)%Z -> lin_unit r b (layer_bounds c n) (set_nth i v' x) <= lin_unit r b (layer_bounds c n) (set_nth i v x)).
Proof. exact projected_monotone_coordinate. Qed.
Print Assumptions C20_projected_monotone_coordinate.

(* (2) every configured monotonic dominance pair, every step d >= 0, wherever
   the DOMINANT input is not clipped at x_dom and x_dom + d (unclipped b v :=
   clip_opt (fst b) (snd b) v == v; a saturated dominant input cannot move the
   output at all, so that guard is necessary); the weak input may be clipped *)
Theorem C20_projected_monotonic_dominance_effect : forall rt c n w r b x dom weak d,
  lin_valid c n -> length w = n -> lin_project_col rt c w = Some r -> length x = n ->
  In (dom, weak) (lc_mdom c) -> 0 <= d ->
  unclipped (nth dom (layer_bounds c n) nob) (nth dom x 0) ->
  unclipped (nth dom (layer_bounds c n) nob) (nth dom x 0 + d) ->
  lin_unit r b (layer_bounds c n) (set_nth weak (nth weak x 0 + d) x) - lin_unit r b (layer_bounds c n) x <=
  lin_unit r b (layer_bounds c n) (set_nth dom (nth dom x 0 + d) x) - lin_unit r b (layer_bounds c n) x.
Proof. exact projected_mdom_effect. Qed.
Print Assumptions C20_projected_monotonic_dominance_effect.

(* (3) every configured range dominance pair: both inputs have proper ranges in
   the layer's own bounds, and sweeping the dominant input across its range
   moves the output at least as much as sweeping the weak input across its
   range, from every base point x (signed for increasing / decreasing pairs,
   and in absolute value) *)
Theorem C20_projected_range_dominance_effect : forall rt c n w r b x dom weak,
  lin_valid c n -> length w = n -> lin_project_col rt c w = Some r -> length x = n ->
  In (dom, weak) (lc_rdom c) ->
  exists ld hd lw hw,
    nth dom (layer_bounds c n) nob = (Some ld, Some hd) /\ nth weak (layer_bounds c n) nob = (Some lw, Some hw) /\
    ld < hd /\ lw < hw /\
    (mono c dom = 1%Z ->
       lin_unit r b (layer_bounds c n) (set_nth weak hw x) - lin_unit r b (layer_bounds c n) (set_nth weak lw x) <=
       lin_unit r b (layer_bounds c n) (set_nth dom hd x) - lin_unit r b (layer_bounds c n) (set_nth dom ld x)) /\
    (mono c dom = (-1)%Z ->
       lin_unit r b (layer_bounds c n) (set_nth weak lw x) - lin_unit r b (layer_bounds c n) (set_nth weak hw x) <=
       lin_unit r b (layer_bounds c n) (set_nth dom ld x) - lin_unit r b (layer_bounds c n) (set_nth dom hd x)) /\
    qabs (lin_unit r b (layer_bounds c n) (set_nth weak hw x) - lin_unit r b (layer_bounds c n) (set_nth weak lw x)) <=
    qabs (lin_unit r b (layer_bounds c n) (set_nth dom hd x) - lin_unit r b (layer_bounds c n) (set_nth dom ld x)).
Proof. exact projected_rdom_effect. Qed.
Print Assumptions C20_projected_range_dominance_effect.

(* (4) normalization order 1, all inputs increasing: the weights are >= 0, sum
   to one and the output minus the bias lies between any lo/hi that bound the
   clipped inputs -- PROVIDED the un-normalized projection w3 of the column has
   L1 norm >= _NORMALIZATION_EPS (1e-8).  The guard is necessary, see
   C20_projected_weighted_average_zero_refuted. *)
Theorem C20_projected_weighted_average : forall rt c n w w3 r b x lo hi,
  lin_valid c n -> length w = n -> lc_norm c = 1%nat -> all_increasing c n ->
  lin_project_col rt c w = Some r -> lin_project_col rt (with_norm c 0) w = Some w3 ->
  norm_eps <= qsum (map qabs w3) -> length x = n ->
  (forall v, In v (clipped (layer_bounds c n) x) -> lo <= v /\ v <= hi) ->
  (forall q, In q r -> 0 <= q) /\ qsum r == 1 /\
  lo <= lin_unit r b (layer_bounds c n) x - b /\ lin_unit r b (layer_bounds c n) x - b <= hi.
Proof. exact projected_weighted_average. Qed.
Print Assumptions C20_projected_weighted_average.

(* the same with a guard on the RAW weights when no dominance is configured:
   one raw weight of at least 1e-8 suffices *)
Theorem C20_projected_weighted_average_plain : forall rt c n w r b x lo hi i,
  lin_valid c n -> length w = n -> lc_norm c = 1%nat -> all_increasing c n ->
  lc_mdom c = [] -> lc_rdom c = [] -> (i < n)%nat -> norm_eps <= nth i w 0 ->
  lin_project_col rt c w = Some r -> length x = n ->
  (forall v, In v (clipped (layer_bounds c n) x) -> lo <= v /\ v <= hi) ->
  (forall q, In q r -> 0 <= q) /\ qsum r == 1 /\
  lo <= lin_unit r b (layer_bounds c n) x - b /\ lin_unit r b (layer_bounds c n) x - b <= hi.
Proof. exact projected_weighted_average_plain. Qed.
Print Assumptions C20_projected_weighted_average_plain.

(* below the guard: the constraint returns the numerically-zero column as it is
   (C06_norm_one_or_zero), the weights sum to s < 1e-8 and the output minus the
   bias is only between lo * s and hi * s *)
Theorem C20_projected_weighted_average_degenerate : forall rt c n w w3 r b x lo hi,
  lin_valid c n -> length w = n -> lc_norm c = 1%nat -> all_increasing c n ->
  lin_project_col rt c w = Some r -> lin_project_col rt (with_norm c 0) w = Some w3 ->
  qsum (map qabs w3) < norm_eps -> length x = n ->
  (forall v, In v (clipped (layer_bounds c n) x) -> lo <= v /\ v <= hi) ->
  peq r w3 /\ 0 <= qsum r /\ qsum r < norm_eps /\
  lo * qsum r <= lin_unit r b (layer_bounds c n) x - b /\ lin_unit r b (layer_bounds c n) x - b <= hi * qsum r.
Proof. exact projected_weighted_average_degenerate. Qed.
Print Assumptions C20_projected_weighted_average_degenerate.

(* without the guard the weighted-average claim is FALSE (known finding D32):
   monotonicities (1, 1), normalization order 1, raw column (-1, -2) -> the
   constraint returns (0, 0); input (1, 2), no bias: output 0, not in [1, 2] *)
Theorem C20_projected_weighted_average_zero_refuted :
  exists rt c n w r x lo hi,
    lin_valid c n /\ length w = n /\ lc_norm c = 1%nat /\ all_increasing c n /\
    lin_project_col rt c w = Some r /\ length x = n /\
    (forall v, In v (clipped (layer_bounds c n) x) -> lo <= v /\ v <= hi) /\
    ~ (lo <= lin_unit r 0 (layer_bounds c n) x).
Proof. exact weighted_average_zero_refuted. Qed.
Print Assumptions C20_projected_weighted_average_zero_refuted.

(* (5) Linear.call with its two branches (units == 1: one row, tf.matmul;
   units > 1: one row per unit, reduce_sum(inputs * transpose(kernel))) and the
   optional bias (None = use_bias off): whenever defined, entry u is the clipped
   affine function of kernel column u.  bias_of None u = 0; row_of (In1 x) u = x,
   row_of (InN xs) u = nth u xs []. *)
Theorem C20_call_formula : forall units K bias bs inp out, linear_call units K bias bs inp = Some out ->
  length out = units /\
  forall u, (u < units)%nat -> nth u out 0 == lin_unit (column u K) (bias_of bias u) bs (row_of inp u).
Proof. exact linear_call_spec. Qed.
Print Assumptions C20_call_formula.

(* use_bias off = a bias of zeros *)
Theorem C20_no_bias : forall units K bs inp zs, (forall u, nth u zs 0 == 0) ->
  oqeq (linear_call units K None bs inp) (linear_call units K (Some zs) bs inp).
Proof. exact linear_call_no_bias. Qed.
Print Assumptions C20_no_bias.

(* unit u of a units > 1 layer = the units == 1 layer with kernel column u and
   bias_u on unit u's row: both input forms compute the same per-unit function *)
Theorem C20_unit_forms : forall units K bias bs xs out u, (u < units)%nat ->
  linear_call units K bias bs (InN xs) = Some out ->
  exists v, linear_call 1 (col_matrix (column u K)) (option_map (fun b => [nth u b 0]) bias) bs (In1 (nth u xs [])) = Some [v] /\
            nth u out 0 == v.
Proof. exact linear_call_unit_forms. Qed.
Print Assumptions C20_unit_forms.

(* the whole layer after its constraint (linear_constrained = project the
   (n, units) kernel, then call): unit u is the clipped affine function of the
   PROJECTED column u, so every C20_projected_* theorem applies to every unit *)
Theorem C20_projected_layer : forall rt c units W bias inp out u,
  lin_valid c (length W) -> linear_constrained rt c units W bias inp = Some out -> (u < units)%nat ->
  exists r, lin_project_col rt c (column u W) = Some r /\
    nth u out 0 == lin_unit r (bias_of bias u) (layer_bounds c (length W)) (row_of inp u).
Proof. exact projected_layer. Qed.
Print Assumptions C20_projected_layer.

Theorem C20_projected_layer_defined : forall rt c units W bias inp, lin_valid c (length W) ->
  (match inp with In1 _ => units = 1%nat | InN _ => units <> 1%nat end) ->
  exists out, linear_constrained rt c units W bias inp = Some out.
Proof. exact projected_layer_defined. Qed.
Print Assumptions C20_projected_layer_defined.

(* end to end for one unit of the constrained layer *)
Theorem C20_projected_layer_monotone : forall rt c units W bias inp inp' out out' u,
  lin_valid c (length W) -> (u < units)%nat ->
  linear_constrained rt c units W bias inp = Some out -> linear_constrained rt c units W bias inp' = Some out' ->
  length (row_of inp u) = length W -> length (row_of inp' u) = length W -> dir_le c (row_of inp u) (row_of inp' u) ->
  nth u out 0 <= nth u out' 0.
Proof. exact projected_layer_monotone. Qed.
Print Assumptions C20_projected_layer_monotone.

(* ---------------- order-2 normalisation and the square root ---------------- *)
(* the theorems above at the executed root (rt := qsqrt, what the
   correspondence check runs), any normalisation order: monotone, monotonic
   dominance effect; they need nothing about the root *)
Theorem C20_projected_executed_root : forall c n w r b,
  lin_valid c n -> length w = n -> lin_project_col qsqrt c w = Some r ->
  (forall x y, length x = n -> length y = n -> dir_le c x y ->
     lin_unit r b (layer_bounds c n) x <= lin_unit r b (layer_bounds c n) y) /\
  (forall x dom weak d, length x = n -> In (dom, weak) (lc_mdom c) -> 0 <= d ->
     unclipped (nth dom (layer_bounds c n) nob) (nth dom x 0) ->
     unclipped (nth dom (layer_bounds c n) nob) (nth dom x 0 + d) ->
     lin_unit r b (layer_bounds c n) (set_nth weak (nth weak x 0 + d) x) - lin_unit r b (layer_bounds c n) x <=
     lin_unit r b (layer_bounds c n) (set_nth dom (nth dom x 0 + d) x) - lin_unit r b (layer_bounds c n) x).
Proof. intros c n w r b V L E. split.
  - intros x y Lx Ly D. exact (projected_monotone qsqrt c n w r b x y V L E Lx Ly D).
  - intros x dom weak d Lx Hin Hd U1 U2. exact (projected_mdom_effect qsqrt c n w r b x dom weak d V L E Lx Hin Hd U1 U2). Qed.
Print Assumptions C20_projected_executed_root.

(* Cauchy-Schwarz, any kernel: (output - bias)^2 <= ||kernel||_2^2 * ||clipped input||_2^2 *)
Theorem C20_l2_output_bound : forall k b bs x,
  (lin_unit k b bs x - b) * (lin_unit k b bs x - b) <= sumsq k * sumsq (clipped bs x).
Proof. exact lin_unit_cs. Qed.
Print Assumptions C20_l2_output_bound.

(* order 2, root with relative error e in the square, norm guard passed:
   (1 - e) (output - bias)^2 <= ||clipped input||_2^2 *)
Theorem C20_projected_l2_output_approximate_root : forall rt c n w r b x,
  lin_valid c n -> length w = n -> lc_norm c = 2%nat -> lin_project_col rt c w = Some r ->
  exists w3, lin_project_col rt (with_norm c 0) w = Some w3 /\
    let S := sumsq w3 in let out := lin_unit r b (layer_bounds c n) x in
    forall e, e < 1 -> (1 - e) * S <= rt S * rt S -> rt S * rt S <= (1 + e) * S -> norm_eps <= rt S ->
    (1 - e) * ((out - b) * (out - b)) <= sumsq (clipped (layer_bounds c n) x).
Proof. exact projected_l2_output_approx. Qed.
Print Assumptions C20_projected_l2_output_approximate_root.

(* the executed root, no hypothesis on it left *)
Theorem C20_projected_l2_output_executed_root : forall c n w r b x,
  lin_valid c n -> length w = n -> lc_norm c = 2%nat -> lin_project_col qsqrt c w = Some r ->
  exists w3, lin_project_col qsqrt (with_norm c 0) w = Some w3 /\
    let out := lin_unit r b (layer_bounds c n) x in
    (norm_eps <= qsqrt (sumsq w3) ->
     (out - b) * (out - b) <= (1 + (1 # 2 ^ 51)) * sumsq (clipped (layer_bounds c n) x)).
Proof. exact projected_l2_output_executed. Qed.
Print Assumptions C20_projected_l2_output_executed_root.

(* satisfiable: column (1, 1) (sum of squares 2, not a square), input (3, 4), bias 5 *)
Example C20_projected_l2_example : exists r,
  lin_project_col qsqrt rt2_cfg [1; 1] = Some r /\ norm_eps <= qsqrt (sumsq [1; 1]) /\
  let out := lin_unit r 5 (layer_bounds rt2_cfg 2) [3; 4] in
  sumsq (clipped (layer_bounds rt2_cfg 2) [3; 4]) == 25 /\
  (out - 5) * (out - 5) <= (1 + (1 # 2 ^ 51)) * 25.
Proof. exact projected_l2_applies. Qed.

(* ======================================================================
   Dominance effects for BOUNDED inputs at weights level, and the guard of the
   monotonic-dominance effect (Proofs/LinearDominanceGuards.v).
   ====================================================================== *)
From TFL Require Import Proofs.LinearDominanceGuards.

(* ANY weights with k_weak <= k_dom and 0 <= k_dom (what the monotonic-dominance
   constraint asks of an increasing pair), ANY bounds on both inputs: the effect
   clause holds wherever the DOMINANT input is unclipped at x_dom and x_dom + d
   (the weak input may be clipped).  Generalises C20_monotonic_dominance_effect
   (both inputs unbounded) and, for weights not produced by the projection,
   C20_projected_monotonic_dominance_effect. *)
Theorem C20_monotonic_dominance_effect_unclipped : forall k b bs x dom weak d,
  (dom < length k)%nat -> (weak < length k)%nat -> length bs = length k -> length x = length k ->
  0 <= d -> nth weak k 0 <= nth dom k 0 -> 0 <= nth dom k 0 ->
  unclipped (nth dom bs nob) (nth dom x 0) -> unclipped (nth dom bs nob) (nth dom x 0 + d) ->
  lin_unit k b bs (set_nth weak (nth weak x 0 + d) x) - lin_unit k b bs x <=
  lin_unit k b bs (set_nth dom (nth dom x 0 + d) x) - lin_unit k b bs x.
Proof. exact mdom_effect_unclipped. Qed.
Print Assumptions C20_monotonic_dominance_effect_unclipped.

(* what holds at EVERY point (dominant input inside, on or outside its bounds): the weak
   step moves the output by at most k_dom * d; the dominant step moves it by
   k_dom * (clip(x_dom + d) - clip(x_dom)), which lies between 0 and k_dom * d *)
Theorem C20_monotonic_dominance_effect_general : forall k b bs x dom weak d,
  (dom < length k)%nat -> (weak < length k)%nat -> length bs = length k -> length x = length k ->
  0 <= d -> nth weak k 0 <= nth dom k 0 -> 0 <= nth dom k 0 ->
  let cd v := clip_opt (fst (nth dom bs nob)) (snd (nth dom bs nob)) v in
  lin_unit k b bs (set_nth weak (nth weak x 0 + d) x) - lin_unit k b bs x <= nth dom k 0 * d /\
  lin_unit k b bs (set_nth dom (nth dom x 0 + d) x) - lin_unit k b bs x ==
    nth dom k 0 * (cd (nth dom x 0 + d) - cd (nth dom x 0)) /\
  0 <= lin_unit k b bs (set_nth dom (nth dom x 0 + d) x) - lin_unit k b bs x /\
  lin_unit k b bs (set_nth dom (nth dom x 0 + d) x) - lin_unit k b bs x <= nth dom k 0 * d.
Proof. exact mdom_effect_general. Qed.
Print Assumptions C20_monotonic_dominance_effect_general.

(* the guard `unclipped` is NECESSARY: the property's clause "changes at least as much
   along a dominant input as along its weak partner per unit step" is FALSE where the
   dominant input is saturated.  Witness (reproduced on the real layer):
   Linear(num_input_dims=2, monotonicities=[1, 1], monotonic_dominances=[(0, 1)],
   input_min=[0, None], input_max=[1, None], use_bias=False), kernel (1, 1) = its own
   projection, x = (1, 0), d = 1: dominant step 0, weak step 1. *)
Theorem C20_monotonic_dominance_effect_clipped_refuted :
  exists rt c n w r b x dom weak d,
    lin_valid c n /\ length w = n /\ lin_project_col rt c w = Some r /\ length x = n /\
    In (dom, weak) (lc_mdom c) /\ 0 <= d /\
    unclipped (nth dom (layer_bounds c n) nob) (nth dom x 0) /\
    ~ unclipped (nth dom (layer_bounds c n) nob) (nth dom x 0 + d) /\
    ~ (lin_unit r b (layer_bounds c n) (set_nth weak (nth weak x 0 + d) x) - lin_unit r b (layer_bounds c n) x <=
       lin_unit r b (layer_bounds c n) (set_nth dom (nth dom x 0 + d) x) - lin_unit r b (layer_bounds c n) x).
Proof. exact mdom_effect_clipped_refuted. Qed.
Print Assumptions C20_monotonic_dominance_effect_clipped_refuted.

(* range dominance at weights level, DECREASING orientation (C20_range_dominance_effect is
   the increasing one): (hd - ld) * k_dom <= (hw - lw) * k_weak, both typically <= 0 *)
Theorem C20_range_dominance_effect_decreasing : forall k b bs x dom weak ld hd lw hw,
  (dom < length k)%nat -> (weak < length k)%nat -> length bs = length k -> length x = length k ->
  nth dom bs nob = (Some ld, Some hd) -> nth weak bs nob = (Some lw, Some hw) ->
  ld <= hd -> lw <= hw ->
  (hd - ld) * nth dom k 0 <= (hw - lw) * nth weak k 0 ->
  lin_unit k b bs (set_nth weak lw x) - lin_unit k b bs (set_nth weak hw x) <=
  lin_unit k b bs (set_nth dom ld x) - lin_unit k b bs (set_nth dom hd x).
Proof. exact rdom_effect_decreasing. Qed.
Print Assumptions C20_range_dominance_effect_decreasing.

(* both orientations in absolute value *)
Theorem C20_range_dominance_effect_abs : forall k b bs x dom weak ld hd lw hw,
  (dom < length k)%nat -> (weak < length k)%nat -> length bs = length k -> length x = length k ->
  nth dom bs nob = (Some ld, Some hd) -> nth weak bs nob = (Some lw, Some hw) ->
  ld <= hd -> lw <= hw ->
  qabs (nth weak k 0) * (hw - lw) <= qabs (nth dom k 0) * (hd - ld) ->
  qabs (lin_unit k b bs (set_nth weak hw x) - lin_unit k b bs (set_nth weak lw x)) <=
  qabs (lin_unit k b bs (set_nth dom hd x) - lin_unit k b bs (set_nth dom ld x)).
Proof. exact rdom_effect_abs. Qed.
Print Assumptions C20_range_dominance_effect_abs.

(* satisfiable: kernel (2, 1), bounds [0, 4] and [0, 1], x = (1, 1/2), d = 1 (weak input clipped,
   dominant not): weak step 1/2, dominant step 2; decreasing pair (-2, -1) on [0, 1]^2: sweeps 1 and 2 *)
Example C20_monotonic_dominance_unclipped_example :
  let k := [2; 1] in let bs := [(Some 0, Some 4); (Some 0, Some 1)] in let x := [1; 1#2] in
  nth 1 k 0 <= nth 0 k 0 /\ 0 <= nth 0 k 0 /\
  unclipped (nth 0 bs nob) (nth 0 x 0) /\ unclipped (nth 0 bs nob) (nth 0 x 0 + 1) /\
  lin_unit k 0 bs (set_nth 1 (nth 1 x 0 + 1) x) - lin_unit k 0 bs x == 1#2 /\
  lin_unit k 0 bs (set_nth 0 (nth 0 x 0 + 1) x) - lin_unit k 0 bs x == 2.
Proof. exact mdom_unclipped_applies. Qed.
Example C20_range_dominance_decreasing_example :
  let k := [-(2); -(1)] in let bs := [(Some 0, Some 1); (Some 0, Some 1)] in
  (1 - 0) * nth 0 k 0 <= (1 - 0) * nth 1 k 0 /\
  qabs (nth 1 k 0) * (1 - 0) <= qabs (nth 0 k 0) * (1 - 0) /\
  lin_unit k 0 bs (set_nth 1 0 [0; 0]) - lin_unit k 0 bs (set_nth 1 1 [0; 0]) == 1 /\
  lin_unit k 0 bs (set_nth 0 0 [0; 0]) - lin_unit k 0 bs (set_nth 0 1 [0; 0]) == 2.
Proof. exact rdom_decreasing_applies. Qed.
