(* C19 - Gradients delivered to training equal the true derivatives of layer
   functions.  Property theorems only; proofs live in Proofs/Gradients.v.

   A derivative is characterised here without limits: the functions concerned
   are AFFINE in the variable that is differentiated (a product in one of its
   factors, an interpolation in one kernel entry), so "g is the partial
   derivative" is the exact identity  f(v + h) - f(v) == h * g  for ALL h. *)
From TFL Require Import Model.Gradients Proofs.Gradients.
Open Scope Q_scope.

(* custom_reduce_prod's grad_fn (zero mask, divide_no_nan, single-zero branch):
   for every length, every position and EVERY zero pattern (no zero, one zero,
   several zeros, all zero) the delivered number is the slope of the product in
   that coordinate. *)
Theorem C19_prod_gradient : forall t i h, (i < length t)%nat ->
  prod (set_nth i (nth i t 0 + h) t) - prod t == h * nth i (grad_prod t) 0.
Proof. exact prod_gradient. Qed.
Print Assumptions C19_prod_gradient.

(* ... and equals the plain "product of all the other entries". *)
Theorem C19_grad_matches_plain : forall t i, (i < length t)%nat ->
  nth i (grad_prod t) 0 == prod (remove_nth i t).
Proof. exact grad_prod_others. Qed.
Print Assumptions C19_grad_matches_plain.

(* with the upstream gradient dy, as grad_fn returns it *)
Theorem C19_prod_gradient_upstream : forall dy t i h, (i < length t)%nat ->
  dy * (prod (set_nth i (nth i t 0 + h) t) - prod t) == h * nth i (grad_prod_dy dy t) 0.
Proof. exact prod_gradient_dy. Qed.
Print Assumptions C19_prod_gradient_upstream.

(* the slope is unique: no other number satisfies the identity *)
Theorem C19_prod_gradient_unique : forall t i g, (i < length t)%nat ->
  (forall h, prod (set_nth i (nth i t 0 + h) t) - prod t == h * g) -> g == nth i (grad_prod t) 0.
Proof. exact prod_gradient_unique. Qed.
Print Assumptions C19_prod_gradient_unique.

(* Every evaluation of the form out = sum_v weight_v(x) * K_v (Lattice with
   both interpolations, PWLCalibration, CategoricalCalibration) has the weight
   as its derivative w.r.t. kernel entry v; the right-hand side does not
   mention K. *)
Theorem C19_kernel_gradient_is_weights : forall w K v h, (v < length K)%nat ->
  lin_eval w (set_nth v (nth v K 0 + h) K) - lin_eval w K == h * nth v w 0.
Proof. exact lin_eval_gradient. Qed.
Print Assumptions C19_kernel_gradient_is_weights.

(* Lattice, hypercube interpolation: the weights are non-negative and sum to
   one for every rank and all sizes >= 2, for clipped inputs anywhere and for
   unclipped inputs inside the lattice range (both code paths: the 2^d
   shortcut and the general hat-function path). *)
Theorem C19_lattice_hypercube_weights_convex : forall clip as_list sizes x,
  lattice_point_ok clip sizes x ->
  (forall a, In a (hyper_weights clip as_list sizes x) -> 0 <= a) /\
  qsum (hyper_weights clip as_list sizes x) == 1.
Proof. exact hyper_weights_convex. Qed.
Print Assumptions C19_lattice_hypercube_weights_convex.

Theorem C19_kernel_gradient_unique : forall w K v g, (v < length K)%nat ->
  (forall h, lin_eval w (set_nth v (nth v K 0 + h) K) - lin_eval w K == h * g) -> g == nth v w 0.
Proof. exact lin_eval_gradient_unique. Qed.
Print Assumptions C19_kernel_gradient_unique.

(* Lattice, simplex interpolation: gather of the d+1 simplex vertices and a
   weighted sum.  The kernel is any function of the flat index; the derivative
   w.r.t. entry v is the total weight of the terms that gather v (which is what
   the dense vector compared with TensorFlow contains), independent of K. *)
Theorem C19_lattice_simplex_gradient_is_weights : forall clip sizes x K v h,
  sp_eval (simplex_sparse clip sizes x) (fun u => K u + (if Z.eqb u v then h else 0))
  - sp_eval (simplex_sparse clip sizes x) K == h * sp_weight (simplex_sparse clip sizes x) v.
Proof. exact (fun clip sizes x => sp_eval_gradient (simplex_sparse clip sizes x)). Qed.
Print Assumptions C19_lattice_simplex_gradient_is_weights.

Theorem C19_lattice_simplex_dense_weights : forall clip sizes x v, (v < num_vertices sizes)%nat ->
  nth v (simplex_weights clip sizes x) 0 == sp_weight (simplex_sparse clip sizes x) (Z.of_nat v).
Proof. exact simplex_weights_nth. Qed.
Print Assumptions C19_lattice_simplex_dense_weights.

(* simplex weights are non-negative and sum to one (every rank, sizes >= 2,
   clipped inputs anywhere / unclipped inputs in range; ties in the sort included) *)
Theorem C19_lattice_simplex_weights_convex : forall clip sizes x, lattice_point_ok clip sizes x ->
  (forall p, In p (simplex_sparse clip sizes x) -> 0 <= snd p) /\
  qsum (map snd (simplex_sparse clip sizes x)) == 1.
Proof. exact simplex_sparse_convex. Qed.
Print Assumptions C19_lattice_simplex_weights_convex.

(* PWLCalibration (fixed keypoints), including the cyclic fold-back of the last
   height and missing-value imputation: the derivative of the output w.r.t.
   kernel entry v is the model's weight vector entry, independent of K. *)
Theorem C19_pwl_kernel_gradient : forall (cyclic : bool) m mo kps lens (K : list Q) x v h,
  length kps = length lens -> K <> [] ->
  length K = (if cyclic then length kps else S (length kps)) -> (v < length K)%nat ->
  pwl_eval cyclic m mo kps lens (set_nth v (nth v K 0 + h) K) x - pwl_eval cyclic m mo kps lens K x
  == h * nth v (pwl_kernel_weights cyclic m kps lens x) 0.
Proof. exact pwl_kernel_gradient. Qed.
Print Assumptions C19_pwl_kernel_gradient.

(* CategoricalCalibration: the derivative w.r.t. bucket b is the indicator of
   the (default-replaced) input index; zero everywhere for out-of-range input. *)
Theorem C19_categorical_kernel_gradient : forall nb default i K b h, (b < nb)%nat -> (b < length K)%nat ->
  lin_eval (cat_weights nb default i) (set_nth b (nth b K 0 + h) K) - lin_eval (cat_weights nb default i) K
  == h * (if Z.eqb (Z.of_nat b) (cat_index nb default i) then 1 else 0).
Proof. exact cat_kernel_gradient. Qed.
Print Assumptions C19_categorical_kernel_gradient.

(* Chain rule through grad_fn for the Kronecker-factored lattice output
   bias + mean_t scale_t * prod_d <w_d(x_d), K_t[d]>: the gradients that
   back-propagation delivers for a kernel entry and for a scale (the functions
   compared with tf.GradientTape on every run) are the exact slopes of the
   output, for every zero pattern among the factors. *)
Theorem C19_chain_kernel : forall ws bias scales Ks t d k h,
  (t < length scales)%nat -> (t < length Ks)%nat -> (d < length (nth t Ks []))%nat -> (d < length ws)%nat ->
  (k < length (nth d (nth t Ks []) []))%nat -> (k < length (nth d ws []))%nat ->
  kfl_out ws bias scales
    (set_nth_g t (set_nth_g d (set_nth k (nth k (nth d (nth t Ks []) []) 0 + h) (nth d (nth t Ks []) [])) (nth t Ks [])) Ks)
  - kfl_out ws bias scales Ks
  == h * nth k (nth d (kfl_grad_kernel ws (length scales) (nth t scales 0) (nth t Ks [])) []) 0.
Proof. exact kfl_out_kernel_gradient. Qed.
Print Assumptions C19_chain_kernel.

Theorem C19_chain_scale : forall ws bias scales Ks t h, (t < length scales)%nat -> (t < length Ks)%nat ->
  kfl_out ws bias (set_nth t (nth t scales 0 + h) scales) Ks - kfl_out ws bias scales Ks
  == h * kfl_grad_scale ws (length scales) (nth t Ks []).
Proof. exact kfl_out_scale_gradient. Qed.
Print Assumptions C19_chain_scale.

(* inputs: if the interpolation weights of dimension d move affinely with the
   input (w_d(x+h) = w_d(x) + h*dw, true inside a cell by C19_hat_slope), one
   term of the output moves with slope scale * grad_fn_d * <dw, K[d]>. *)
Theorem C19_chain_inputs : forall ws scale K d dw h,
  (d < length K)%nat -> (d < length ws)%nat -> length (nth d ws []) = length dw ->
  kfl_term (set_nth_g d (map2 (fun a s => a + h * s) (nth d ws []) dw) ws) scale K - kfl_term ws scale K
  == h * (scale * nth d (grad_prod (kfl_dots ws K)) 0 * dot dw (nth d K [])).
Proof. exact kfl_term_input_gradient. Qed.
Print Assumptions C19_chain_inputs.

Theorem C19_hat_slope : forall j x h k,
  qnat j <= x -> x <= qnat j + 1 -> qnat j <= x + h -> x + h <= qnat j + 1 ->
  hat (x + h) k - hat x k == h * hat_slope j k.
Proof. exact hat_affine_in_cell. Qed.
Print Assumptions C19_hat_slope.

(* Boundary of the Lattice clause: the guard of the two *_weights_convex
   theorems cannot be dropped.  With clip_inputs = False and an input outside
   [0, size-1] the kernel gradient is still the weight vector
   (C19_kernel_gradient_is_weights), but it is not a convex combination:
   sizes [2], x = 3/2 gives weights [-1/2, 3/2]; sizes [3], x = 5/2 gives
   weights summing to 1/2.  Both witnesses are replayed on the real layer by
   the correspondence classes "*_noclip_outside". *)
Theorem C19_lattice_unclipped_outside_nonneg_refuted :
  exists sizes x, ~ lattice_point_ok false sizes x /\
    exists a, In a (hyper_weights false false sizes x) /\ a < 0.
Proof. exact unclipped_outside_negative. Qed.
Print Assumptions C19_lattice_unclipped_outside_nonneg_refuted.

Theorem C19_lattice_unclipped_outside_sum_refuted :
  exists sizes x, ~ lattice_point_ok false sizes x /\
    forall as_list, qsum (hyper_weights false as_list sizes x) == 1#2.
Proof. exact unclipped_outside_mass_lost. Qed.
Print Assumptions C19_lattice_unclipped_outside_sum_refuted.
