(* C19 - Gradients delivered to training equal the true derivatives of layer
   functions.  Property theorems only; proofs live in Proofs/Gradients.v.

   A derivative is characterised here without limits: the functions concerned
   are AFFINE in the variable that is differentiated (a product in one of its
   factors, an interpolation in one kernel entry), so "g is the partial
   derivative" is the exact identity  f(v + h) - f(v) == h * g  for ALL h. *)
From TFL Require Import Model.Gradients Proofs.Gradients.
Open Scope Q_scope.

(* custom_reduce_prod's grad_fn (zero mask, divide_no_nan, single-zero branch):
   for every length, every position and EVERY zero pattern (no zero, one zero,
   several zeros, all zero) the delivered number is the slope of the product in
   that coordinate. *)
Theorem C19_prod_gradient : forall t i h, (i < length t)%nat ->
  prod (set_nth i (nth i t 0 + h) t) - prod t == h * nth i (grad_prod t) 0.
Proof. exact prod_gradient. Qed.
Print Assumptions C19_prod_gradient.

(* ... and equals the plain "product of all the other entries". *)
Theorem C19_grad_matches_plain : forall t i, (i < length t)%nat ->
  nth i (grad_prod t) 0 == prod (remove_nth i t).
Proof. exact grad_prod_others. Qed.
Print Assumptions C19_grad_matches_plain.

(* with the upstream gradient dy, as grad_fn returns it *)
Theorem C19_prod_gradient_upstream : forall dy t i h, (i < length t)%nat ->
  dy * (prod (set_nth i (nth i t 0 + h) t) - prod t) == h * nth i (grad_prod_dy dy t) 0.
Proof. exact prod_gradient_dy. Qed.
Print Assumptions C19_prod_gradient_upstream.

(* the slope is unique: no other number satisfies the identity *)
Theorem C19_prod_gradient_unique : forall t i g, (i < length t)%nat ->
  (forall h, prod (set_nth i (nth i t 0 + h) t) - prod t == h * g) -> g == nth i (grad_prod t) 0.
Proof. exact prod_gradient_unique. Qed.
Print Assumptions C19_prod_gradient_unique.

(* Every evaluation of the form out = sum_v weight_v(x) * K_v (Lattice with
   both interpolations, PWLCalibration, CategoricalCalibration) has the weight
   as its derivative w.r.t. kernel entry v; the right-hand side does not
   mention K. *)
Theorem C19_kernel_gradient_is_weights : forall w K v h, (v < length K)%nat ->
  lin_eval w (set_nth v (nth v K 0 + h) K) - lin_eval w K == h * nth v w 0.
Proof. exact lin_eval_gradient. Qed.
Print Assumptions C19_kernel_gradient_is_weights.

(* Lattice, hypercube interpolation: the weights are non-negative and sum to
   one for every rank and all sizes >= 2, for clipped inputs anywhere and for
   unclipped inputs inside the lattice range (both code paths: the 2^d
   shortcut and the general hat-function path). *)
Theorem C19_lattice_hypercube_weights_convex : forall clip as_list sizes x,
  lattice_point_ok clip sizes x ->
  (forall a, In a (hyper_weights clip as_list sizes x) -> 0 <= a) /\
  qsum (hyper_weights clip as_list sizes x) == 1.
Proof. exact hyper_weights_convex. Qed.
Print Assumptions C19_lattice_hypercube_weights_convex.
