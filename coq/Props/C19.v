(* C19 - Gradients delivered to training equal the true derivatives of layer
   functions.  Property theorems only; proofs live in Proofs/Gradients.v.

   A derivative is characterised here without limits: the functions concerned
   are AFFINE in the variable that is differentiated (a product in one of its
   factors, an interpolation in one kernel entry), so "g is the partial
   derivative" is the exact identity  f(v + h) - f(v) == h * g  for ALL h. *)
From TFL Require Import Model.Gradients Proofs.Gradients.
Open Scope Q_scope.

(* custom_reduce_prod's grad_fn (zero mask, divide_no_nan, single-zero branch):
   for every length, every position and EVERY zero pattern (no zero, one zero,
   several zeros, all zero) the delivered number is the slope of the product in
   that coordinate. *)
Theorem C19_prod_gradient : forall t i h, (i < length t)%nat ->
  prod (set_nth i (nth i t 0 + h) t) - prod t == h * nth i (grad_prod t) 0.
Proof. exact prod_gradient. Qed.
Print Assumptions C19_prod_gradient.

(* ... and equals the plain "product of all the other entries". *)
Theorem C19_grad_matches_plain : forall t i, (i < length t)%nat ->
  nth i (grad_prod t) 0 == prod (remove_nth i t).
Proof. exact grad_prod_others. Qed.
Print Assumptions C19_grad_matches_plain.

(* with the upstream gradient dy, as grad_fn returns it *)
Theorem C19_prod_gradient_upstream : forall dy t i h, (i < length t)%nat ->
  dy * (prod (set_nth i (nth i t 0 + h) t) - prod t) == h * nth i (grad_prod_dy dy t) 0.
Proof. exact prod_gradient_dy. Qed.
Print Assumptions C19_prod_gradient_upstream.

(* the slope is unique: no other number satisfies the identity *)
Theorem C19_prod_gradient_unique : forall t i g, (i < length t)%nat ->
  (forall h, prod (set_nth i (nth i t 0 + h) t) - prod t == h * g) -> g == nth i (grad_prod t) 0.
Proof. exact prod_gradient_unique. Qed.
Print Assumptions C19_prod_gradient_unique.

(* Every evaluation of the form out = sum_v weight_v(x) * K_v (Lattice with
   both interpolations, PWLCalibration, CategoricalCalibration) has the weight
   as its derivative w.r.t. kernel entry v; the right-hand side does not
   mention K. *)
Theorem C19_kernel_gradient_is_weights : forall w K v h, (v < length K)%nat ->
  lin_eval w (set_nth v (nth v K 0 + h) K) - lin_eval w K == h * nth v w 0.
Proof. exact lin_eval_gradient. Qed.
Print Assumptions C19_kernel_gradient_is_weights.

(* Lattice, hypercube interpolation: the weights are non-negative and sum to
   one for every rank and all sizes >= 2, for clipped inputs anywhere and for
   unclipped inputs inside the lattice range (both code paths: the 2^d
   shortcut and the general hat-function path). *)
Theorem C19_lattice_hypercube_weights_convex : forall clip as_list sizes x,
  lattice_point_ok clip sizes x ->
  (forall a, In a (hyper_weights clip as_list sizes x) -> 0 <= a) /\
  qsum (hyper_weights clip as_list sizes x) == 1.
Proof. exact hyper_weights_convex. Qed.
Print Assumptions C19_lattice_hypercube_weights_convex.

Theorem C19_kernel_gradient_unique : forall w K v g, (v < length K)%nat ->
  (forall h, lin_eval w (set_nth v (nth v K 0 + h) K) - lin_eval w K == h * g) -> g == nth v w 0.
Proof. exact lin_eval_gradient_unique. Qed.
Print Assumptions C19_kernel_gradient_unique.

(* Lattice, simplex interpolation: gather of the d+1 simplex vertices and a
   weighted sum.  The kernel is any function of the flat index; the derivative
   w.r.t. entry v is the total weight of the terms that gather v (which is what
   the dense vector compared with TensorFlow contains), independent of K. *)
Theorem C19_lattice_simplex_gradient_is_weights : forall clip sizes x K v h,
  sp_eval (simplex_sparse clip sizes x) (fun u => K u + (if Z.eqb u v then h else 0))
  - sp_eval (simplex_sparse clip sizes x) K == h * sp_weight (simplex_sparse clip sizes x) v.
Proof. exact (fun clip sizes x => sp_eval_gradient (simplex_sparse clip sizes x)). Qed.
Print Assumptions C19_lattice_simplex_gradient_is_weights.

Theorem C19_lattice_simplex_dense_weights : forall clip sizes x v, (v < num_vertices sizes)%nat ->
  nth v (simplex_weights clip sizes x) 0 == sp_weight (simplex_sparse clip sizes x) (Z.of_nat v).
Proof. exact simplex_weights_nth. Qed.
Print Assumptions C19_lattice_simplex_dense_weights.

(* simplex weights are non-negative and sum to one (every rank, sizes >= 2,
   clipped inputs anywhere / unclipped inputs in range; ties in the sort included) *)
Theorem C19_lattice_simplex_weights_convex : forall clip sizes x, lattice_point_ok clip sizes x ->
  (forall p, In p (simplex_sparse clip sizes x) -> 0 <= snd p) /\
  qsum (map snd (simplex_sparse clip sizes x)) == 1.
Proof. exact simplex_sparse_convex. Qed.
Print Assumptions C19_lattice_simplex_weights_convex.

(* PWLCalibration (fixed keypoints), including the cyclic fold-back of the last
   height and missing-value imputation: the derivative of the output w.r.t.
   kernel entry v is the model's weight vector entry, independent of K. *)
Theorem C19_pwl_kernel_gradient : forall (cyclic : bool) m mo kps lens (K : list Q) x v h,
  length kps = length lens -> K <> [] ->
  length K = (if cyclic then length kps else S (length kps)) -> (v < length K)%nat ->
  pwl_eval cyclic m mo kps lens (set_nth v (nth v K 0 + h) K) x - pwl_eval cyclic m mo kps lens K x
  == h * nth v (pwl_kernel_weights cyclic m kps lens x) 0.
Proof. exact pwl_kernel_gradient. Qed.
Print Assumptions C19_pwl_kernel_gradient.

(* CategoricalCalibration: the derivative w.r.t. bucket b is the indicator of
   the (default-replaced) input index; zero everywhere for out-of-range input. *)
Theorem C19_categorical_kernel_gradient : forall nb default i K b h, (b < nb)%nat -> (b < length K)%nat ->
  lin_eval (cat_weights nb default i) (set_nth b (nth b K 0 + h) K) - lin_eval (cat_weights nb default i) K
  == h * (if Z.eqb (Z.of_nat b) (cat_index nb default i) then 1 else 0).
Proof. exact cat_kernel_gradient. Qed.
Print Assumptions C19_categorical_kernel_gradient.

(* Chain rule through grad_fn for the Kronecker-factored lattice output
   bias + mean_t scale_t * prod_d <w_d(x_d), K_t[d]>: the gradients that
   back-propagation delivers for a kernel entry and for a scale (the functions
   compared with tf.GradientTape on every run) are the exact slopes of the
   output, for every zero pattern among the factors. *)
Theorem C19_chain_kernel : forall ws bias scales Ks t d k h,
  (t < length scales)%nat -> (t < length Ks)%nat -> (d < length (nth t Ks []))%nat -> (d < length ws)%nat ->
  (k < length (nth d (nth t Ks []) []))%nat -> (k < length (nth d ws []))%nat ->
  kfl_out ws bias scales
    (set_nth_g t (set_nth_g d (set_nth k (nth k (nth d (nth t Ks []) []) 0 + h) (nth d (nth t Ks []) [])) (nth t Ks [])) Ks)
  - kfl_out ws bias scales Ks
  == h * nth k (nth d (kfl_grad_kernel ws (length scales) (nth t scales 0) (nth t Ks [])) []) 0.
Proof. exact kfl_out_kernel_gradient. Qed.
Print Assumptions C19_chain_kernel.

Theorem C19_chain_scale : forall ws bias scales Ks t h, (t < length scales)%nat -> (t < length Ks)%nat ->
  kfl_out ws bias (set_nth t (nth t scales 0 + h) scales) Ks - kfl_out ws bias scales Ks
  == h * kfl_grad_scale ws (length scales) (nth t Ks []).
Proof. exact kfl_out_scale_gradient. Qed.
Print Assumptions C19_chain_scale.

(* inputs: if the interpolation weights of dimension d move affinely with the
   input (w_d(x+h) = w_d(x) + h*dw, true inside a cell by C19_hat_slope), one
   term of the output moves with slope scale * grad_fn_d * <dw, K[d]>. *)
Theorem C19_chain_inputs : forall ws scale K d dw h,
  (d < length K)%nat -> (d < length ws)%nat -> length (nth d ws []) = length dw ->
  kfl_term (set_nth_g d (map2 (fun a s => a + h * s) (nth d ws []) dw) ws) scale K - kfl_term ws scale K
  == h * (scale * nth d (grad_prod (kfl_dots ws K)) 0 * dot dw (nth d K [])).
Proof. exact kfl_term_input_gradient. Qed.
Print Assumptions C19_chain_inputs.

Theorem C19_hat_slope : forall j x h k,
  qnat j <= x -> x <= qnat j + 1 -> qnat j <= x + h -> x + h <= qnat j + 1 ->
  hat (x + h) k - hat x k == h * hat_slope j k.
Proof. exact hat_affine_in_cell. Qed.
Print Assumptions C19_hat_slope.

(* Boundary of the Lattice clause: the guard of the two *_weights_convex
   theorems cannot be dropped.  With clip_inputs = False and an input outside
   [0, size-1] the kernel gradient is still the weight vector
   (C19_kernel_gradient_is_weights), but it is not a convex combination:
   sizes [2], x = 3/2 gives weights [-1/2, 3/2]; sizes [3], x = 5/2 gives
   weights summing to 1/2.  Both witnesses are replayed on the real layer by
   the correspondence classes "*_noclip_outside". *)
Theorem C19_lattice_unclipped_outside_nonneg_refuted :
  exists sizes x, ~ lattice_point_ok false sizes x /\
    exists a, In a (hyper_weights false false sizes x) /\ a < 0.
Proof. exact unclipped_outside_negative. Qed.
Print Assumptions C19_lattice_unclipped_outside_nonneg_refuted.

Theorem C19_lattice_unclipped_outside_sum_refuted :
  exists sizes x, ~ lattice_point_ok false sizes x /\
    forall as_list, qsum (hyper_weights false as_list sizes x) == 1#2.
Proof. exact unclipped_outside_mass_lost. Qed.
Print Assumptions C19_lattice_unclipped_outside_sum_refuted.

(* ====================================================================== *)
(* Links to the layers' evaluation models (proofs: Proofs/GradientLinks.v).
   The theorems above say "sum_v w_v K_v has gradient w" for an arbitrary w.
   The theorems below say that the layer OUTPUT of the evaluation models
   (C02's Model/LatticeInterp.v, Model/PWLEval.v, Model/CategoricalEval.v,
   Model/KFL.v) IS that sum for exactly the weight functions that
   Harness/H_C19.v compares with the tf.GradientTape gradients
   (hyper_weights / simplex_weights / pwl_kernel_weights / cat_weights /
   kfl_grad_kernel / kfl_grad_scale / kfl_grad_input of Model/Gradients.v).
     LI = Model.LatticeInterp, PE = Model.PWLEval, CE = Model.CategoricalEval,
     KF = Model.KFL;  mat_set v u a K = kernel matrix K with entry (v, u) := a. *)
From TFL Require Import Proofs.GradientLinks.

(* ---------------- Lattice, hypercube ---------------- *)
(* The weight vector that C02's literal model (batch_outer_operation over the
   1-D weights) multiplies with the kernel column is, entry by entry, the
   vector of Model/Gradients.v: any rank, any sizes, clipped or not, in range
   or not, 2^d shortcut or general path (as_list = not tensor_input). *)
Theorem C19_lattice_hypercube_weights_are_C02_weights : forall tensor clip sizes x,
  length x = length sizes -> sizes <> [] ->
  Forall2 Qeq (LI.batch_outer (LI.weight_lists sizes (LI.hyper_weights tensor clip sizes x)))
              (hyper_weights clip (negb tensor) sizes x).
Proof. exact hyper_weights_link. Qed.
Print Assumptions C19_lattice_hypercube_weights_are_C02_weights.

(* entry (p, u) of the C02 layer model's output is <weights(x), kernel column u>;
   no hypothesis on sizes, range or clipping *)
Theorem C19_lattice_output_is_linear_in_kernel : forall tensor clip units sizes K pts p u,
  (p < length pts)%nat -> (u < units)%nat -> (u < length (nth p pts []))%nat ->
  length (nth u (nth p pts []) []) = length sizes -> sizes <> [] ->
  nth u (nth p (LI.lattice_eval LI.Hypercube tensor clip units sizes K pts) []) 0 ==
  dot (hyper_weights clip (negb tensor) sizes (nth u (nth p pts []) [])) (column u K).
Proof. exact lattice_hyper_output_linear. Qed.
Print Assumptions C19_lattice_output_is_linear_in_kernel.

(* d output_u / d K[v, u'] = weight_v if u = u' else 0, for EVERY kernel K *)
Theorem C19_lattice_hypercube_kernel_gradient : forall tensor clip units sizes K u x u' v h,
  length x = length sizes -> sizes <> [] -> (v < length K)%nat -> (u' < length (nth v K []))%nat ->
  LI.unit_fn LI.Hypercube tensor clip units sizes (mat_set v u' (nth u' (nth v K []) 0 + h) K) u x
  - LI.unit_fn LI.Hypercube tensor clip units sizes K u x
  == h * (if Nat.eqb u u' then nth v (hyper_weights clip (negb tensor) sizes x) 0 else 0).
Proof. exact lattice_hyper_kernel_gradient. Qed.
Print Assumptions C19_lattice_hypercube_kernel_gradient.

(* ... and for sizes >= 2 with clipped or in-range input these same weights are
   non-negative and sum to one *)
Theorem C19_lattice_hypercube_output_convex : forall tensor clip units sizes K u x,
  sizes <> [] -> lattice_point_ok clip sizes x ->
  LI.unit_fn LI.Hypercube tensor clip units sizes K u x == dot (hyper_weights clip (negb tensor) sizes x) (column u K) /\
  (forall a, In a (hyper_weights clip (negb tensor) sizes x) -> 0 <= a) /\
  qsum (hyper_weights clip (negb tensor) sizes x) == 1.
Proof. exact lattice_hyper_output_convex. Qed.
Print Assumptions C19_lattice_hypercube_output_convex.

(* ---------------- Lattice, simplex ---------------- *)
(* C02's simplex model (clip, corner, residuals, stable descending sort, cumsum
   of strides, gather incl. the units > 1 index arithmetic) is the sparse sum
   over Model/Gradients.v's simplex_sparse terms: no range hypothesis (outside
   the range the gather reads whatever index results, 0 beyond the kernel) *)
Theorem C19_lattice_simplex_output_is_sparse_sum : forall tensor clip units sizes K u x,
  length x = length sizes ->
  LI.unit_fn LI.Simplex tensor clip units sizes K u x ==
  sp_eval (simplex_sparse clip sizes x) (Proofs.LatticeInterp.gather_of units K u).
Proof. exact unit_fn_simplex_sparse. Qed.
Print Assumptions C19_lattice_simplex_output_is_sparse_sum.

(* sizes >= 2, clipped or in-range input: every gathered index is a vertex index *)
Theorem C19_lattice_simplex_indices_in_range : forall clip sizes x, lattice_point_ok clip sizes x ->
  forall p, In p (simplex_sparse clip sizes x) -> (0 <= fst p < Z.of_nat (num_vertices sizes))%Z.
Proof. exact simplex_indices_in_range. Qed.
Print Assumptions C19_lattice_simplex_indices_in_range.

(* ... hence the output is <simplex_weights(x), kernel column u> with the DENSE
   vector the check compares with the tape gradient *)
Theorem C19_lattice_simplex_output_is_linear_in_kernel : forall tensor clip units sizes K pts p u,
  (p < length pts)%nat -> (u < units)%nat -> (u < length (nth p pts []))%nat ->
  lattice_point_ok clip sizes (nth u (nth p pts []) []) -> Forall (fun r => length r = units) K ->
  nth u (nth p (LI.lattice_eval LI.Simplex tensor clip units sizes K pts) []) 0 ==
  dot (simplex_weights clip sizes (nth u (nth p pts []) [])) (column u K).
Proof. exact lattice_simplex_output_linear. Qed.
Print Assumptions C19_lattice_simplex_output_is_linear_in_kernel.

Theorem C19_lattice_simplex_kernel_gradient : forall tensor clip units sizes K u x u' v h,
  lattice_point_ok clip sizes x -> (u < units)%nat -> Forall (fun r => length r = units) K ->
  (v < length K)%nat -> (u' < units)%nat ->
  LI.unit_fn LI.Simplex tensor clip units sizes (mat_set v u' (nth u' (nth v K []) 0 + h) K) u x
  - LI.unit_fn LI.Simplex tensor clip units sizes K u x
  == h * (if Nat.eqb u u' then nth v (simplex_weights clip sizes x) 0 else 0).
Proof. exact lattice_simplex_kernel_gradient. Qed.
Print Assumptions C19_lattice_simplex_kernel_gradient.

(* the dense vector itself is non-negative and sums to one *)
Theorem C19_lattice_simplex_dense_weights_convex : forall clip sizes x, lattice_point_ok clip sizes x ->
  (forall a, In a (simplex_weights clip sizes x) -> 0 <= a) /\ qsum (simplex_weights clip sizes x) == 1.
Proof. exact simplex_weights_convex. Qed.
Print Assumptions C19_lattice_simplex_dense_weights_convex.

(* ---------------- PWLCalibration ---------------- *)
(* unit u of the layer model's call (fixed or learned keypoints, units
   broadcasting, matmul / reduce_sum paths, cyclic closing row, missing-value
   imputation given or derived) is Model/Gradients.v's pwl_eval on that unit's
   kernel column; sel / unit_input / missing_flag pick the column unit u reads *)
Theorem C19_pwl_layer_is_pwl_eval : forall L row given u,
  (u < PE.p_units L)%nat -> (length row <= 1 \/ length row = PE.p_units L)%nat ->
  nth u (PE.call_row L row given) 0 ==
  pwl_eval (PE.p_cyclic L) (missing_flag L row given u) (nth u (PE.p_missing_output L) 0)
           (PE.unit_lefts L u) (PE.unit_lens L u) (column u (PE.p_kernel L)) (unit_input row u).
Proof. exact call_row_unit. Qed.
Print Assumptions C19_pwl_layer_is_pwl_eval.

(* = is_missing * missing_output + <pwl_kernel_weights, kernel column u> *)
Theorem C19_pwl_output_is_linear_in_kernel : forall L row given u,
  (u < PE.p_units L)%nat -> (length row <= 1 \/ length row = PE.p_units L)%nat -> pwl_shape_ok L u ->
  nth u (PE.call_row L row given) 0 ==
  missing_flag L row given u * nth u (PE.p_missing_output L) 0 +
  dot (pwl_kernel_weights (PE.p_cyclic L) (missing_flag L row given u) (PE.unit_lefts L u) (PE.unit_lens L u)
                          (unit_input row u)) (column u (PE.p_kernel L)).
Proof. exact pwl_output_linear. Qed.
Print Assumptions C19_pwl_output_is_linear_in_kernel.

Theorem C19_pwl_layer_kernel_gradient : forall L row given u u' v h,
  (u < PE.p_units L)%nat -> (length row <= 1 \/ length row = PE.p_units L)%nat -> pwl_shape_ok L u ->
  (v < length (PE.p_kernel L))%nat -> (u' < length (nth v (PE.p_kernel L) []))%nat ->
  nth u (PE.call_row (pwl_with_kernel L (mat_set v u' (nth u' (nth v (PE.p_kernel L) []) 0 + h) (PE.p_kernel L))) row given) 0
  - nth u (PE.call_row L row given) 0
  == h * (if Nat.eqb u u' then
            nth v (pwl_kernel_weights (PE.p_cyclic L) (missing_flag L row given u) (PE.unit_lefts L u) (PE.unit_lens L u)
                                      (unit_input row u)) 0
          else 0).
Proof. exact pwl_kernel_gradient_layer. Qed.
Print Assumptions C19_pwl_layer_kernel_gradient.

(* ---------------- CategoricalCalibration ---------------- *)
Theorem C19_categorical_output_is_linear_in_kernel : forall L row u,
  (u < CE.c_units L)%nat -> (length row = 1 \/ length row = CE.c_units L)%nat ->
  nth u (CE.cat_row L row) 0 =
  dot (cat_weights (CE.c_buckets L) (CE.c_default L) (CE.cast_int (unit_input row u))) (column u (CE.c_kernel L)).
Proof. exact cat_row_unit. Qed.
Print Assumptions C19_categorical_output_is_linear_in_kernel.

(* one-hot row selection, default bucket included; 0 for an out-of-range index *)
Theorem C19_categorical_output_selects_row : forall L row u,
  (u < CE.c_units L)%nat -> (length row = 1 \/ length row = CE.c_units L)%nat ->
  let j := cat_index (CE.c_buckets L) (CE.c_default L) (CE.cast_int (unit_input row u)) in
  nth u (CE.cat_row L row) 0 ==
  if ((0 <=? j) && (j <? Z.of_nat (CE.c_buckets L)))%Z then nth u (nth (Z.to_nat j) (CE.c_kernel L) []) 0 else 0.
Proof. exact cat_output_selects. Qed.
Print Assumptions C19_categorical_output_selects_row.

Theorem C19_categorical_layer_kernel_gradient : forall L row u u' b h,
  (u < CE.c_units L)%nat -> (length row = 1 \/ length row = CE.c_units L)%nat ->
  (b < CE.c_buckets L)%nat -> (b < length (CE.c_kernel L))%nat -> (u' < length (nth b (CE.c_kernel L) []))%nat ->
  nth u (CE.cat_row (cat_with_kernel L (mat_set b u' (nth u' (nth b (CE.c_kernel L) []) 0 + h) (CE.c_kernel L))) row) 0
  - nth u (CE.cat_row L row) 0
  == h * (if Nat.eqb u u' then nth b (cat_weights (CE.c_buckets L) (CE.c_default L) (CE.cast_int (unit_input row u))) 0 else 0).
Proof. exact cat_kernel_gradient_layer. Qed.
Print Assumptions C19_categorical_layer_kernel_gradient.

(* ---------------- KroneckerFactoredLattice ---------------- *)
(* Model/KFL.v's unit output is Model/Gradients.v's kfl_out on the 1-D weights
   kfl_w1d of the check (clip, size-2 linear form, hat functions) *)
Theorem C19_kfl_unit_out_is_kfl_out : forall c p u xs,
  length (nth u (KF.p_scale p) []) = length (nth u (KF.p_kern p) []) ->
  KF.unit_out c p u xs ==
  kfl_out (map (kfl_w1d (KF.c_clip c) (KF.c_size c)) xs) (nth u (KF.p_bias p) 0) (nth u (KF.p_scale p) []) (nth u (KF.p_kern p) []).
Proof. exact unit_out_kfl_out. Qed.
Print Assumptions C19_kfl_unit_out_is_kfl_out.

Theorem C19_kfl_unit_kernel_gradient : forall clip L su ku b xs t d k h,
  length su = length ku -> (t < length su)%nat -> (d < length (nth t ku []))%nat -> (d < length xs)%nat ->
  (k < length (nth d (nth t ku []) []))%nat -> (k < L)%nat ->
  KF.unit_eval clip L su
    (set_nth_g t (set_nth_g d (set_nth k (nth k (nth d (nth t ku []) []) 0 + h) (nth d (nth t ku []) [])) (nth t ku [])) ku) b xs
  - KF.unit_eval clip L su ku b xs
  == h * nth k (nth d (kfl_grad_kernel (map (kfl_w1d clip L) xs) (length su) (nth t su 0) (nth t ku [])) []) 0.
Proof. exact kfl_unit_kernel_gradient. Qed.
Print Assumptions C19_kfl_unit_kernel_gradient.

Theorem C19_kfl_unit_scale_gradient : forall clip L su ku b xs t h, length su = length ku -> (t < length su)%nat ->
  KF.unit_eval clip L (set_nth t (nth t su 0 + h) su) ku b xs - KF.unit_eval clip L su ku b xs
  == h * kfl_grad_scale (map (kfl_w1d clip L) xs) (length su) (nth t ku []).
Proof. exact kfl_unit_scale_gradient. Qed.
Print Assumptions C19_kfl_unit_scale_gradient.

(* kfl_dw1d is the slope of kfl_w1d within one linear piece (kfl_piece: both
   x and x + h clipped away on the same side; or inside the range, for size 2
   anywhere, for hats x strictly inside a cell (j, j+1) and x + h in its
   closure; unclipped hats also the pieces (-1, 0) and (-inf, -1)) *)
Theorem C19_kfl_w1d_slope : forall clip size x h, kfl_piece clip size x h ->
  Forall2 Qeq (kfl_w1d clip size (x + h))
              (map2 (fun a s => a + h * s) (kfl_w1d clip size x) (kfl_dw1d clip size x)).
Proof. exact kfl_w1d_piece. Qed.
Print Assumptions C19_kfl_w1d_slope.

(* input gradient of the layer model: ALL terms and dims, mean over terms,
   scale, grad_fn through the product, slope of the 1-D weights *)
Theorem C19_kfl_input_gradient : forall c p u xs i h,
  length (nth u (KF.p_scale p) []) = length (nth u (KF.p_kern p) []) ->
  (i < length xs)%nat -> Forall (fun K : list (list Q) => (i < length K)%nat) (nth u (KF.p_kern p) []) ->
  kfl_piece (KF.c_clip c) (KF.c_size c) (nth i xs 0) h ->
  KF.unit_out c p u (set_nth i (nth i xs 0 + h) xs) - KF.unit_out c p u xs
  == h * nth i (kfl_grad_input (map (kfl_w1d (KF.c_clip c) (KF.c_size c)) xs) (map (kfl_dw1d (KF.c_clip c) (KF.c_size c)) xs)
                               (nth u (KF.p_scale p) []) (nth u (KF.p_kern p) [])) 0.
Proof. exact kfl_unit_input_gradient. Qed.
Print Assumptions C19_kfl_input_gradient.
