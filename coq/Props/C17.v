(* C17 — Ensemble structures use every feature, fill each lattice, respect
   monotone slots.  Property theorems only; proofs live in
   Proofs/RTLStructure.v and Proofs/Ensembles.v.

   All random sources are oracles: the theorems hold for EVERY function that
   meets the stated hypothesis (shuffle: returns a permutation of its
   argument; choice: returns an element / a duplicate-free sub-list of the
   requested size), hence for every seed. *)
From Coq Require Import Permutation.
From TFL Require Import Model.RTLStructure Model.Ensembles Proofs.RTLStructure Proofs.Ensembles.
Open Scope nat_scope.

(* ================= RTL: _get_rtl_structure ========================= *)

(* An accepted configuration has at least one input and enough slots. *)
Theorem C17_rtl_accepts : forall sh1 sh2 cfg s, rtl_structure cfg sh1 sh2 = Some s ->
  0 < n_inputs (c_input cfg) <= c_num cfg * c_rank cfg.
Proof. exact rtl_accepted_closed. Qed.
Print Assumptions C17_rtl_accepts.

(* num_lattices lattices; every lattice has exactly lattice_rank inputs and
   every monotonicity tuple has lattice_rank flags. *)
Theorem C17_rtl_rank : forall sh1 sh2, perm_oracle sh1 -> perm_oracle sh2 ->
  forall cfg s, rtl_structure cfg sh1 sh2 = Some s ->
  length (all_lattices s) = c_num cfg /\
  forall m ls, In (m, ls) s -> length m = c_rank cfg /\ forall lat, In lat ls -> length lat = c_rank cfg.
Proof. exact rtl_rank_closed. Qed.
Print Assumptions C17_rtl_rank.

(* Every flattened input index is used by some lattice, and only valid
   indices are used. *)
Theorem C17_rtl_coverage : forall sh1 sh2, perm_oracle sh1 -> perm_oracle sh2 ->
  forall cfg s, rtl_structure cfg sh1 sh2 = Some s ->
  (forall i, i < length (flatten (c_input cfg)) -> exists lat, In lat (all_lattices s) /\ In i lat) /\
  (forall lat i, In lat (all_lattices s) -> In i lat -> i < length (flatten (c_input cfg))).
Proof. exact rtl_coverage_closed. Qed.
Print Assumptions C17_rtl_coverage.

(* Every input is used q or q+1 times, q = slots // inputs >= 1; usage counts
   of two inputs differ by at most one. *)
Theorem C17_rtl_balanced : forall sh1 sh2, perm_oracle sh1 -> perm_oracle sh2 ->
  forall cfg s, rtl_structure cfg sh1 sh2 = Some s ->
  let n := length (flatten (c_input cfg)) in
  let q := (c_num cfg * c_rank cfg) / n in
  1 <= q /\
  (forall i, i < n -> q <= usage s i <= q + 1) /\
  (forall i j, i < n -> j < n -> usage s i <= usage s j + 1).
Proof. exact rtl_balanced_closed. Qed.
Print Assumptions C17_rtl_balanced.

(* Position p of a lattice carries monotonicity flag 1 exactly when the input
   wired to it was supplied under 'increasing' (input_mono = the key under
   which that flattened index was supplied); the label max(monotonicities) of
   the lattice output is 0 or 1, and 1 exactly when the lattice has an
   'increasing' input. *)
Theorem C17_rtl_monotone_wiring : forall sh1 sh2, perm_oracle sh1 -> perm_oracle sh2 ->
  forall cfg s, rtl_structure cfg sh1 sh2 = Some s ->
  forall m ls lat, In (m, ls) s -> In lat ls ->
  (forall p, p < c_rank cfg -> nth p m 0 = input_mono (c_input cfg) (nth p lat 0)) /\
  (out_label m = 0 \/ out_label m = 1) /\
  (out_label m = 1 <-> exists i, In i lat /\ input_mono (c_input cfg) i = 1).
Proof. exact rtl_wiring_closed. Qed.
Print Assumptions C17_rtl_monotone_wiring.

(* The flattened input (RTL.call concatenates in the same sorted-key order):
   index i was supplied under 'increasing' iff it is among the first
   n_increasing indices. *)
Theorem C17_rtl_input_layout : forall cfg i, i < length (flatten (c_input cfg)) ->
  (input_mono (c_input cfg) i = 1 <-> i < list_sum (sizes_of (in_inc (c_input cfg)))) /\
  (input_mono (c_input cfg) i = 0 <-> list_sum (sizes_of (in_inc (c_input cfg))) <= i).
Proof. exact rtl_input_layout_closed. Qed.
Print Assumptions C17_rtl_input_layout.

(* RTL.call: the lattices routed to the 'increasing' output are exactly those
   with an 'increasing' input; no lattice is lost or duplicated. *)
Theorem C17_rtl_output_routing : forall sh1 sh2, perm_oracle sh1 -> perm_oracle sh2 ->
  forall cfg s, rtl_structure cfg sh1 sh2 = Some s ->
  (forall lat, In lat (snd (rtl_outputs s)) -> exists i, In i lat /\ input_mono (c_input cfg) i = 1) /\
  (forall lat, In lat (fst (rtl_outputs s)) -> forall i, In i lat -> input_mono (c_input cfg) i <> 1) /\
  Permutation (fst (rtl_outputs s) ++ snd (rtl_outputs s)) (all_lattices s).
Proof. exact rtl_outputs_closed. Qed.
Print Assumptions C17_rtl_output_routing.

(* The structure is a function of the configuration and of the two
   permutations the oracle returns for it (nothing else of the random source
   is used). *)
Theorem C17_rtl_deterministic : forall cfg sh1 sh2 sh1' sh2',
  let inputs := flatten (c_input cfg) in
  let total := c_num cfg * c_rank cfg in
  sh1 inputs = sh1' inputs ->
  sh2 (firstn total (tile (sh1 inputs) (1 + total / length inputs))) =
  sh2' (firstn total (tile (sh1 inputs) (1 + total / length inputs))) ->
  rtl_structure cfg sh1 sh2 = rtl_structure cfg sh1' sh2'.
Proof. exact rtl_deterministic_closed. Qed.
Print Assumptions C17_rtl_deterministic.

(* hypotheses are satisfiable *)
Example C17_rtl_example :
  perm_oracle (fun l => l) /\
  rtl_structure (mkcfg 3 2 true 10 (mkin (Some (Multi [2])) (Some (Single 2)))) (fun l => l) (fun l => l)
  = Some [([0; 1], [[2; 1]; [3; 0]]); ([1; 1], [[0; 1]])].
Proof. split. exact perm_oracle_id. vm_compute. reflexivity. Qed.

(* ================= set_random_lattice_ensemble =====================
   choice1_oracle ch1: np.random.choice(a) returns an element of a non-empty a;
   choice2_oracle ch2: np.random.choice(a, size, replace=False) on distinct
   items returns size distinct items of a.                                  *)

(* num_lattices lattices of exactly lattice_rank features each *)
Theorem C17_random_rank : forall ch1 ch2, choice1_oracle ch1 -> choice2_oracle ch2 ->
  forall rank n num lats, random_ensemble ch1 ch2 n num rank = Some lats ->
  length lats = num /\ forall l, In l lats -> length l = rank.
Proof. exact random_rank_closed. Qed.
Print Assumptions C17_random_rank.

(* no feature is repeated inside a lattice; only features 0..n-1 occur *)
Theorem C17_random_no_repeat : forall ch1 ch2, choice1_oracle ch1 -> choice2_oracle ch2 ->
  forall rank n num lats, random_ensemble ch1 ch2 n num rank = Some lats ->
  forall l, In l lats -> NoDup l /\ forall f, In f l -> f < n.
Proof. exact random_no_repeat_closed. Qed.
Print Assumptions C17_random_no_repeat.

(* every feature is in some lattice (whenever the function returns) *)
Theorem C17_random_coverage : forall ch1 ch2, choice1_oracle ch1 -> choice2_oracle ch2 ->
  forall rank n num lats, random_ensemble ch1 ch2 n num rank = Some lats ->
  forall f, f < n -> exists l, In l lats /\ In f l.
Proof. exact random_coverage_closed. Qed.
Print Assumptions C17_random_coverage.

(* with enough slots and lattice_rank <= number of features it does return
   (otherwise np.random.choice raises ValueError) *)
Theorem C17_random_total : forall ch1 ch2, choice1_oracle ch1 -> choice2_oracle ch2 ->
  forall rank n num, n <= num * rank -> rank <= n ->
  exists lats, random_ensemble ch1 ch2 n num rank = Some lats.
Proof. exact random_total_closed. Qed.
Print Assumptions C17_random_total.

Example C17_random_example :
  (choice1_oracle (fun _ nf => hd 0 nf) /\ choice2_oracle (fun _ av sz => firstn sz av)) /\
  random_ensemble (fun _ nf => hd 0 nf) (fun _ av sz => firstn sz av) 3 2 2 = Some [[0; 1]; [2; 0]].
Proof. split. exact choice_oracles_example. vm_compute. reflexivity. Qed.

(* ================= Crystals: all-pairs prefitting cover ============ *)
(* every feature pair is together in some prefitting lattice *)
Theorem C17_cover_all_pairs : forall sh, pair_perm_oracle sh ->
  forall n rank i j, i < j -> j < n ->
  exists l, In l (pairs_cover sh n rank) /\ In i l /\ In j l.
Proof. exact cover_all_pairs_closed. Qed.
Print Assumptions C17_cover_all_pairs.

(* the cover lattices have at most lattice_rank (>= 2) distinct features, and
   (for >= 2 features) every feature is in one of them *)
Theorem C17_cover_rank_and_coverage : forall sh, pair_perm_oracle sh ->
  forall n rank, 2 <= rank ->
  (forall l, In l (pairs_cover sh n rank) -> length l <= rank /\ NoDup l /\ forall f, In f l -> f < n) /\
  (2 <= n -> forall f, f < n -> exists l, In l (pairs_cover sh n rank) /\ In f l).
Proof. exact cover_rows_closed. Qed.
Print Assumptions C17_cover_rank_and_coverage.

(* ================= Crystals: _get_final_crystal_lattices ===========
   The prefitting scores (torsions, laplacians) are inputs.  The code only
   `assert`s that its use allocation sums to the number of slots; that it
   returns at all (crystal_lattices = Some) is therefore the hypothesis: the
   allocation raises for zero importance scores (known finding D13,
   int(round(nan))).  Torsion scores are sums of squares, hence >= 0. *)
Theorem C17_crystals_rank_and_coverage : forall c lats,
  Forall (Forall (fun x => (0 <= x)%Q)) (k_T c) ->
  crystal_lattices c = Some lats ->
  exists uses, crystal_uses c = Some uses /\ zsum uses = Z.of_nat (k_num c * k_rank c) /\
  length lats = k_num c /\ (forall l, In l lats -> length l = k_rank c) /\
  (forall f, f < k_n c -> (1 <= nth f uses 0%Z)%Z -> exists l, In l lats /\ In f l).
Proof. exact crystals_closed. Qed.
Print Assumptions C17_crystals_rank_and_coverage.

(* With non-negative laplacian scores as well and enough slots the allocation
   gives every feature at least one use, so every feature is in some lattice
   (hypothesis: the function returned, i.e. the allocation did not raise). *)
Theorem C17_crystals_every_feature_used : forall c lats,
  Forall (Forall (fun x => (0 <= x)%Q)) (k_T c) -> Forall (fun x => (0 <= x)%Q) (k_lap c) ->
  k_n c <= k_num c * k_rank c ->
  crystal_lattices c = Some lats ->
  length lats = k_num c /\ (forall l, In l lats -> length l = k_rank c) /\
  (forall f, f < k_n c -> exists l, In l lats /\ In f l).
Proof. exact crystals_full_closed. Qed.
Print Assumptions C17_crystals_every_feature_used.

(* The hypothesis "the function returned" cannot be dropped (known finding
   D13): a valid configuration whose allocation raises, on the model. *)
Theorem C17_crystals_allocation_refuted : exists c,
  Forall (Forall (fun x => (0 <= x)%Q)) (k_T c) /\ Forall (fun x => (0 <= x)%Q) (k_lap c) /\
  k_n c <= k_num c * k_rank c /\ k_rank c < k_n c /\
  crystal_uses c = None /\ crystal_lattices c = None.
Proof. exact crystals_allocation_refuted. Qed.
Print Assumptions C17_crystals_allocation_refuted.

Example C17_crystals_example :
  let c := mkcr 3 2 2 1000 [[0; 1; 1#2]; [1; 0; 1#4]; [1#2; 1#4; 0]]%Q [1#4; 1#8; 1#8]%Q in
  Forall (Forall (fun x => (0 <= x)%Q)) (k_T c) /\ crystal_uses c = Some [1; 2; 1]%Z /\
  crystal_lattices c = Some [[2; 1]; [0; 1]].
Proof. cbv zeta. split; [|split].
  - repeat constructor; discriminate.
  - vm_compute. reflexivity.
  - vm_compute. reflexivity. Qed.

(* ================= review gaps: acceptance, determinism, Crystals totality
   (proofs in Proofs/EnsemblesMore.v) ================================== *)
From TFL Require Import Proofs.EnsemblesMore.

(* RTL: every configuration with at least one input and enough slots is
   accepted, for every lattice count / rank and every random source
   (converse of C17_rtl_accepts; no hypothesis on the shuffles). *)
Theorem C17_rtl_accepts_enough_slots : forall sh1 sh2 cfg,
  0 < n_inputs (c_input cfg) -> n_inputs (c_input cfg) <= c_num cfg * c_rank cfg ->
  exists s, rtl_structure cfg sh1 sh2 = Some s.
Proof. exact rtl_accepts_enough_slots. Qed.
Print Assumptions C17_rtl_accepts_enough_slots.

(* RTL: rejected exactly when there is no input or there are too few slots *)
Theorem C17_rtl_rejects_iff : forall sh1 sh2 cfg,
  rtl_structure cfg sh1 sh2 = None <->
  (n_inputs (c_input cfg) = 0 \/ c_num cfg * c_rank cfg < n_inputs (c_input cfg)).
Proof. exact rtl_rejects_iff. Qed.
Print Assumptions C17_rtl_rejects_iff.

Example C17_rtl_accepts_example :
  let cfg := mkcfg 3 2 true 10 (mkin (Some (Multi [2])) (Some (Single 2))) in
  0 < n_inputs (c_input cfg) /\ n_inputs (c_input cfg) <= c_num cfg * c_rank cfg.
Proof. cbv zeta. cbn. lia. Qed.

(* random ensemble: the result is a function of the values np.random.choice
   returns on the calls the code can make (a feature f < n with a non-empty
   candidate list; a fill-up draw of size <= number of candidates); nothing
   else of the random source is used. *)
Theorem C17_random_deterministic : forall ch1 ch2 ch1' ch2' n num rank,
  (forall f nf, f < n -> nf <> [] -> ch1 f nf = ch1' f nf) ->
  (forall k av sz, sz <= length av -> ch2 k av sz = ch2' k av sz) ->
  random_ensemble ch1 ch2 n num rank = random_ensemble ch1' ch2' n num rank.
Proof. exact random_deterministic. Qed.
Print Assumptions C17_random_deterministic.

(* all-pairs cover: a function of the one permutation np.random.shuffle
   produces for the list of feature pairs *)
Theorem C17_cover_deterministic : forall sh sh' n rank,
  sh (pairs n) = sh' (pairs n) ->
  pairs_cover sh n rank = pairs_cover sh' n rank /\ prefitting_cover sh n rank = prefitting_cover sh' n rank.
Proof. exact cover_deterministic. Qed.
Print Assumptions C17_cover_deterministic.

(* Crystals: no random source; the use allocation and the ensemble are a
   function of the feature count, lattice count, rank, swap bound and the two
   prefitting score tables. *)
Theorem C17_crystals_deterministic : forall c c',
  k_n c = k_n c' -> k_num c = k_num c' -> k_rank c = k_rank c' -> k_max_swaps c = k_max_swaps c' ->
  k_T c = k_T c' -> k_lap c = k_lap c' ->
  crystal_uses c = crystal_uses c' /\ crystal_lattices c = crystal_lattices c'.
Proof. exact crystals_deterministic. Qed.
Print Assumptions C17_crystals_deterministic.

(* Crystals use allocation: for STRICTLY POSITIVE importance scores (the
   hypothesis that excludes known finding D13), enough slots and
   lattice_rank <= number of features, the allocation neither raises nor
   fails `assert np.sum(features_uses) == total_feature_use`: the uses sum to
   num_lattices * lattice_rank (the cap num_lattices - 1 never strands
   uses, because np.argsort(-importance) visits features in descending
   importance, so each feature's share of the rest is at least 1/remaining). *)
Theorem C17_crystals_allocation_total : forall c,
  (forall f, f < k_n c -> (0 < nth f (importance (k_n c) (k_T c) (k_lap c)) 0)%Q) ->
  k_n c <= k_num c * k_rank c -> k_rank c <= k_n c ->
  exists uses, crystal_uses c = Some uses /\ zsum uses = Z.of_nat (k_num c * k_rank c) /\
               length uses = k_n c.
Proof. exact crystal_uses_total. Qed.
Print Assumptions C17_crystals_allocation_total.

(* Crystals without the "returned" hypothesis: with non-negative torsion
   scores as well, _get_final_crystal_lattices returns num_lattices lattices
   of exactly lattice_rank features, and every feature is in one of them. *)
Theorem C17_crystals_positive_total : forall c,
  Forall (Forall (fun x => (0 <= x)%Q)) (k_T c) ->
  (forall f, f < k_n c -> (0 < nth f (importance (k_n c) (k_T c) (k_lap c)) 0)%Q) ->
  k_n c <= k_num c * k_rank c -> k_rank c <= k_n c ->
  exists lats, crystal_lattices c = Some lats /\ length lats = k_num c /\
    (forall l, In l lats -> length l = k_rank c) /\
    (forall f, f < k_n c -> exists l, In l lats /\ In f l).
Proof. exact crystals_positive_closed. Qed.
Print Assumptions C17_crystals_positive_total.

(* strictly positive laplacians and non-negative torsions are enough for
   strictly positive importance *)
Theorem C17_crystals_importance_positive : forall n T lap,
  Forall (Forall (fun x => (0 <= x)%Q)) T -> (forall f, f < n -> (0 < nth f lap 0)%Q) ->
  forall f, f < n -> (0 < nth f (importance n T lap) 0)%Q.
Proof. exact importance_pos. Qed.
Print Assumptions C17_crystals_importance_positive.

(* the hypotheses of the two totality theorems are satisfiable *)
Example C17_crystals_positive_example :
  let c := mkcr 3 2 2 1000 [[0; 1; 1#2]; [1; 0; 1#4]; [1#2; 1#4; 0]]%Q [1#4; 1#8; 1#8]%Q in
  Forall (Forall (fun x => (0 <= x)%Q)) (k_T c) /\
  (forall f, f < k_n c -> (0 < nth f (importance (k_n c) (k_T c) (k_lap c)) 0)%Q) /\
  k_n c <= k_num c * k_rank c /\ k_rank c <= k_n c.
Proof. exact crystals_positive_example. Qed.

(* hypotheses of the cover theorems are satisfiable *)
Example C17_cover_example :
  pair_perm_oracle (fun l => l) /\ pairs_cover (fun l => l) 4 2 = [[0; 1]; [0; 2]; [0; 3]; [1; 2]; [1; 3]; [2; 3]].
Proof. split. intros l; apply Permutation_refl. vm_compute. reflexivity. Qed.
