From TFL Require Import Model.RTLStructure.
Theorem C17_placeholder : True. Proof. exact I. Qed.
Print Assumptions C17_placeholder.
