(* C02 — Lattice output is exact hypercube / simplex interpolation, inheriting
   kernel shape.  Property theorems only; proofs are in Proofs/Interp1D.v,
   Proofs/LatticeHyper.v, Proofs/LatticeSimplex.v, Proofs/LatticeInterp.v.

   Vocabulary (all defined in Model/ and Proofs/):
     unit_fn sc tensor clip units sizes Kmat u x   output of unit u of the layer on point x
                                (hypercube: literal batch_outer_operation + kernel product; simplex:
                                 literal sort / cumsum of strides / gather, incl. the units > 1 index arithmetic)
     kern sizes Kmat u          column u of the kernel as a tensor over index vectors
     sizes_ok sizes             every lattice size >= 2
     ok_input clip sizes x      x has one coordinate per dimension and is in range or clip_inputs is on
     eff clip sizes x           x clipped onto the lattice range if clip_inputs is on
     knondecr sizes K d         K non-decreasing along dimension d
     kedge sizes K m c          K satisfies the Edgeworth trust (main m, conditional c)
     multilin K c z / in_cell   2^d-corner multilinear formula of the cell with lower corner c
     scell K c rs / dec         simplex formula of the cell with lower corner c at residuals rs
   All statements are for arbitrary rank, sizes, unit count and rational kernels. *)
From Coq Require Import Permutation.
From TFL Require Import Proofs.LatticeInterp.
Open Scope Q_scope.

(* Layer glue: entry (p, u) of the layer output is the unit function of unit u
   on the row of unit u of point p. *)
Theorem C02_layer_unit : forall sc tensor clip units sizes Kmat pts p u,
  (p < length pts)%nat -> (u < units)%nat -> (u < length (nth p pts []))%nat ->
  nth u (nth p (lattice_eval sc tensor clip units sizes Kmat pts) []) 0 =
  unit_fn sc tensor clip units sizes Kmat u (nth u (nth p pts []) []).
Proof. exact lattice_eval_unit. Qed.
Print Assumptions C02_layer_unit.

(* ---------------- hypercube ---------------- *)
Theorem C02_hyper_vertex : forall tensor clip units sizes Kmat u v, sizes <> [] -> valid sizes v ->
  unit_fn Hypercube tensor clip units sizes Kmat u (map qn v) == kern sizes Kmat u v.
Proof. exact L_hyper_vertex. Qed.
Print Assumptions C02_hyper_vertex.

(* in-range or clipped input: the output never leaves [min kernel, max kernel]
   (more generally any interval containing the kernel values) *)
Theorem C02_hyper_convex : forall tensor clip units sizes Kmat u x, sizes <> [] ->
  sizes_ok sizes -> ok_input clip sizes x -> length Kmat = prodn sizes ->
  qminl (column u Kmat) <= unit_fn Hypercube tensor clip units sizes Kmat u x /\
  unit_fn Hypercube tensor clip units sizes Kmat u x <= qmaxl (column u Kmat).
Proof. exact L_hyper_convex. Qed.
Print Assumptions C02_hyper_convex.

(* the output is the multilinear formula over the 2^d corners of any cell
   containing the (clipped) point; all other vertices have weight zero *)
Theorem C02_hyper_is_multilinear : forall tensor clip units sizes Kmat u x c, sizes <> [] ->
  ok_input clip sizes x -> in_cell sizes c (eff clip sizes x) ->
  unit_fn Hypercube tensor clip units sizes Kmat u x == multilin (kern sizes Kmat u) c (eff clip sizes x).
Proof. exact L_hyper_is_multilinear. Qed.
Print Assumptions C02_hyper_is_multilinear.

(* ... which is a convex combination of those corner values *)
Theorem C02_hyper_cell_convex : forall sizes c z K lo hi, in_cell sizes c z ->
  (forall i, corner_of c i -> lo <= K i /\ K i <= hi) -> lo <= multilin K c z /\ multilin K c z <= hi.
Proof. exact multilin_bounds. Qed.
Print Assumptions C02_hyper_cell_convex.

(* continuity: on a face shared by two cells both cells' formulas give the same value *)
Theorem C02_hyper_continuous : forall sizes K z c c', in_cell sizes c z -> in_cell sizes c' z ->
  multilin K c z == multilin K c' z.
Proof. exact hyper_continuous. Qed.
Print Assumptions C02_hyper_continuous.

(* kernel non-decreasing along d => output non-decreasing in x_d, for EVERY pair
   of admissible points (same cell or not, clipped or not) *)
Theorem C02_hyper_monotone : forall tensor clip units sizes Kmat u x d yd,
  sizes_ok sizes -> (d < length sizes)%nat ->
  ok_input clip sizes x -> ok_input clip sizes (set_nth d yd x) -> nth d x 0 <= yd ->
  knondecr sizes (kern sizes Kmat u) d ->
  unit_fn Hypercube tensor clip units sizes Kmat u x <= unit_fn Hypercube tensor clip units sizes Kmat u (set_nth d yd x).
Proof. exact L_hyper_monotone. Qed.
Print Assumptions C02_hyper_monotone.

(* Edgeworth-feasible kernel => the effect of raising the main input m is
   non-decreasing in the conditional input c *)
Theorem C02_hyper_edgeworth_effect : forall tensor clip units sizes Kmat u x m c ym yc,
  sizes_ok sizes -> (m < length sizes)%nat -> (c < length sizes)%nat -> m <> c ->
  ok_input clip sizes x -> ok_input clip sizes (set_nth m ym x) ->
  ok_input clip sizes (set_nth c yc x) -> ok_input clip sizes (set_nth m ym (set_nth c yc x)) ->
  nth m x 0 <= ym -> nth c x 0 <= yc -> kedge sizes (kern sizes Kmat u) m c ->
  unit_fn Hypercube tensor clip units sizes Kmat u (set_nth m ym x) - unit_fn Hypercube tensor clip units sizes Kmat u x <=
  unit_fn Hypercube tensor clip units sizes Kmat u (set_nth m ym (set_nth c yc x)) -
  unit_fn Hypercube tensor clip units sizes Kmat u (set_nth c yc x).
Proof. exact L_hyper_edgeworth. Qed.
Print Assumptions C02_hyper_edgeworth_effect.

(* ---------------- simplex ---------------- *)
Theorem C02_simplex_vertex : forall tensor clip units sizes Kmat u v,
  sizes_ok sizes -> wfK units Kmat u -> valid sizes v ->
  unit_fn Simplex tensor clip units sizes Kmat u (map qn v) == kern sizes Kmat u v.
Proof. exact L_simplex_vertex. Qed.
Print Assumptions C02_simplex_vertex.

Theorem C02_simplex_convex : forall tensor clip units sizes Kmat u x,
  sizes_ok sizes -> wfK units Kmat u -> ok_input clip sizes x -> length Kmat = prodn sizes ->
  qminl (column u Kmat) <= unit_fn Simplex tensor clip units sizes Kmat u x /\
  unit_fn Simplex tensor clip units sizes Kmat u x <= qmaxl (column u Kmat).
Proof. exact L_simplex_convex. Qed.
Print Assumptions C02_simplex_convex.

(* the output is the sorted-simplex formula of a cell containing the (clipped) point *)
Theorem C02_simplex_cell_formula : forall tensor clip units sizes Kmat u x,
  sizes_ok sizes -> wfK units Kmat u -> ok_input clip sizes x ->
  let z := eff clip sizes x in
  dec sizes (mcorner sizes z) (mres sizes z) z /\
  unit_fn Simplex tensor clip units sizes Kmat u x == scell (kern sizes Kmat u) (mcorner sizes z) (mres sizes z).
Proof. exact L_simplex_cell_formula. Qed.
Print Assumptions C02_simplex_cell_formula.

(* ties: ANY descending arrangement of the (residual, dimension) pairs - any
   tie-breaking of the sort - walks to the same output (continuity across the
   simplices of a cell) *)
Theorem C02_simplex_tie_invariant : forall tensor clip units sizes Kmat u x s',
  sizes_ok sizes -> wfK units Kmat u -> ok_input clip sizes x ->
  let z := eff clip sizes x in
  Permutation s' (mpairs sizes z) -> chain 1 s' ->
  walk (kern sizes Kmat u) 1 (mcorner sizes z) s' == unit_fn Simplex tensor clip units sizes Kmat u x.
Proof. exact L_simplex_tie_invariant. Qed.
Print Assumptions C02_simplex_tie_invariant.

(* continuity across a cell face (outermost edge included): a point with
   z_d = c_d + 1 can be decomposed from either side, the cell formulas agree *)
Theorem C02_simplex_continuous : forall K sizes d c rs z, dec sizes c rs z -> (d < length sizes)%nat ->
  (S (S (nth d c 0%nat)) < nth d sizes 0%nat)%nat ->
  scell K c (set_nth d 1 rs) == scell K (bump c d) (set_nth d 0 rs).
Proof. exact scell_face. Qed.
Print Assumptions C02_simplex_continuous.

(* kernel non-decreasing along d => output non-decreasing in x_d for EVERY pair
   of admissible points (across simplices and across cells) *)
Theorem C02_simplex_monotone : forall tensor clip units sizes Kmat u x d yd,
  sizes_ok sizes -> wfK units Kmat u -> (d < length sizes)%nat ->
  ok_input clip sizes x -> ok_input clip sizes (set_nth d yd x) -> nth d x 0 <= yd ->
  knondecr sizes (kern sizes Kmat u) d ->
  unit_fn Simplex tensor clip units sizes Kmat u x <= unit_fn Simplex tensor clip units sizes Kmat u (set_nth d yd x).
Proof. exact L_simplex_monotone. Qed.
Print Assumptions C02_simplex_monotone.

(* ---------------- both schemes ---------------- *)
Theorem C02_schemes_agree_vertices : forall tensor tensor' clip units sizes Kmat u v, sizes <> [] ->
  sizes_ok sizes -> wfK units Kmat u -> valid sizes v ->
  unit_fn Simplex tensor clip units sizes Kmat u (map qn v) == unit_fn Hypercube tensor' clip units sizes Kmat u (map qn v).
Proof. exact L_schemes_agree_vertices. Qed.
Print Assumptions C02_schemes_agree_vertices.

(* axis-parallel edges (vertices included): every coordinate of the (clipped)
   point except possibly coordinate e is an integer *)
Theorem C02_schemes_agree : forall tensor tensor' clip units sizes Kmat u x e,
  sizes_ok sizes -> wfK units Kmat u -> ok_input clip sizes x -> (e < length sizes)%nat ->
  (forall j, j <> e -> (j < length sizes)%nat -> exists k, nth j (eff clip sizes x) 0 == qn k) ->
  unit_fn Simplex tensor clip units sizes Kmat u x == unit_fn Hypercube tensor' clip units sizes Kmat u x.
Proof. exact L_schemes_agree_edges. Qed.
Print Assumptions C02_schemes_agree.

(* ================= layer-level statements of the cell clauses (Proofs/LatticeCell.v) ================= *)
From TFL Require Import Proofs.LatticeCell.

(* convex combination of the CELL's corner values, for the layer function itself.
   hypercube: any cell c containing the (clipped) point *)
Theorem C02_hyper_layer_cell_convex : forall tensor clip units sizes Kmat u x c lo hi, sizes <> [] ->
  ok_input clip sizes x -> in_cell sizes c (eff clip sizes x) ->
  (forall i, corner_of c i -> lo <= kern sizes Kmat u i /\ kern sizes Kmat u i <= hi) ->
  lo <= unit_fn Hypercube tensor clip units sizes Kmat u x /\ unit_fn Hypercube tensor clip units sizes Kmat u x <= hi.
Proof. exact L_hyper_layer_cell_convex. Qed.
Print Assumptions C02_hyper_layer_cell_convex.

(* simplex: any decomposition z = c + rs of the (clipped) point, i.e. any cell containing it; only the 2^d
   corners of THAT cell matter (C02_simplex_convex speaks about the whole kernel column) *)
Theorem C02_simplex_layer_cell_convex : forall tensor clip units sizes Kmat u x c rs lo hi,
  sizes_ok sizes -> wfK units Kmat u -> ok_input clip sizes x -> dec sizes c rs (eff clip sizes x) ->
  (forall i, corner_of c i -> lo <= kern sizes Kmat u i /\ kern sizes Kmat u i <= hi) ->
  lo <= unit_fn Simplex tensor clip units sizes Kmat u x /\ unit_fn Simplex tensor clip units sizes Kmat u x <= hi.
Proof. exact L_simplex_layer_any_cell_convex. Qed.
Print Assumptions C02_simplex_layer_cell_convex.

(* continuity across cell boundaries, for the layer function itself.
   hypercube: on a face shared by the cells c and c' the layer output is the multilinear formula of both *)
Theorem C02_hyper_layer_continuous : forall tensor clip units sizes Kmat u x c c', sizes <> [] ->
  ok_input clip sizes x -> in_cell sizes c (eff clip sizes x) -> in_cell sizes c' (eff clip sizes x) ->
  unit_fn Hypercube tensor clip units sizes Kmat u x == multilin (kern sizes Kmat u) c (eff clip sizes x) /\
  unit_fn Hypercube tensor clip units sizes Kmat u x == multilin (kern sizes Kmat u) c' (eff clip sizes x).
Proof. exact L_hyper_layer_continuous. Qed.
Print Assumptions C02_hyper_layer_continuous.

(* simplex: the layer output is the cell formula of EVERY cell containing the (clipped) point - any number of
   faces crossed at once (C02_simplex_continuous is the single-face step on the helper scell) *)
Theorem C02_simplex_layer_continuous : forall tensor clip units sizes Kmat u x c rs,
  sizes_ok sizes -> wfK units Kmat u -> ok_input clip sizes x -> dec sizes c rs (eff clip sizes x) ->
  unit_fn Simplex tensor clip units sizes Kmat u x == scell (kern sizes Kmat u) c rs.
Proof. exact L_simplex_layer_continuous. Qed.
Print Assumptions C02_simplex_layer_continuous.

(* the cell formulas of two cells containing the same point agree (several faces at once) *)
Theorem C02_simplex_cells_agree : forall K sizes c rs c' rs' z, dec sizes c rs z -> dec sizes c' rs' z ->
  scell K c rs == scell K c' rs'.
Proof. exact scell_dec_unique. Qed.
Print Assumptions C02_simplex_cells_agree.

(* clip_inputs: the clipping call is the non-clipping call on the point clipped onto the lattice range
   (any input, in range or not; input form may differ) *)
Theorem C02_hyper_clip : forall tensor tensor' units sizes Kmat u x, sizes <> [] -> sizes_ok sizes -> length x = length sizes ->
  unit_fn Hypercube tensor true units sizes Kmat u x == unit_fn Hypercube tensor' false units sizes Kmat u (clip_onto sizes x).
Proof. exact L_hyper_clip. Qed.
Print Assumptions C02_hyper_clip.

Theorem C02_simplex_clip : forall tensor tensor' units sizes Kmat u x,
  unit_fn Simplex tensor true units sizes Kmat u x = unit_fn Simplex tensor' false units sizes Kmat u (clip_onto sizes x).
Proof. exact L_simplex_clip. Qed.
Print Assumptions C02_simplex_clip.

(* hypotheses are satisfiable: the point (1/2, 1) of the 2 x 3 example lattice lies on the face between the
   cells (0,0) and (0,1); both decompositions, their common value, corner bounds of one of the cells *)
Example C02_ex_two_cells : dec ex_sizes [0; 0]%nat [1#2; 1] [1#2; 1] /\ dec ex_sizes [0; 1]%nat [1#2; 0] [1#2; 1] /\
  in_cell ex_sizes [0; 0]%nat [1#2; 1] /\ in_cell ex_sizes [0; 1]%nat [1#2; 1] /\
  unit_fn Simplex true false 2 ex_sizes ex_K 0 [1#2; 1] == 3#2 /\
  (forall i, corner_of [0; 1]%nat i -> 1 <= kern ex_sizes ex_K 0 i /\ kern ex_sizes ex_K 0 i <= 9#2).
Proof. destruct ex_two_decs as [A B]. destruct ex_two_cells as [C D]. destruct ex_two_decs_value as [_ [_ E]].
  repeat split; try assumption; apply ex_corner_bounds; assumption. Qed.
