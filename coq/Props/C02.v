(* placeholder, theorems follow *)
From TFL Require Import Model.LatticeInterp.
