(* C01 — placeholder until the proofs land; see Proofs/LatticeFinalize.v *)
From TFL Require Import Model.LatticeFinalize.
