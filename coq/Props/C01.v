(* C01 — Lattice weight constraint returns kernels meeting every strict shape
   constraint.  Property theorems only; proofs in Proofs/Lattice*.v.

   Objects: [finalize c W] models lattice_lib.finalize_constraints applied to an
   ARBITRARY kernel W (so the statements cover every number of Dykstra
   iterations, every other constraint family configured alongside, and
   finalize_constraints() of a non-strict layer); [LC c ran Wd] models the strict
   LatticeConstraints.__call__ applied to the output Wd of the Dykstra stage.
   [cfg_valid] is what verify_hyperparameters guarantees.  Guards:
   [documented_exception] (several trapezoid trusts sharing a conditional
   feature while Edgeworth trusts exist - tolerated by the property) and
   [trap_mono_cond_with_edgeworth] (known finding D1, refuted below).
   The theorems [..._outside_trapezoid_conditionals] carry NO D1 guard: inside
   the D1 class too, the result is monotone along every monotone dimension that
   is not the conditional feature of a trapezoid trust; D1 is exactly the
   failure along such a conditional dimension. *)
From TFL Require Import Proofs.LatticeSpecFacts Proofs.LatticeFinalize Proofs.LatticeMonoDims.
Open Scope Q_scope.

Theorem C01_finalize_any_mode_monotone : forall c, cfg_valid c -> forall W,
  ~ trap_mono_cond_with_edgeworth c -> monotone_kernel c (finalize c W).
Proof. exact finalize_monotone. Qed.
Print Assumptions C01_finalize_any_mode_monotone.

Theorem C01_finalize_any_mode_edgeworth : forall c, cfg_valid c -> forall W t,
  In t (l_edge c) -> edgeworth_holds (l_shape c) t (finalize c W).
Proof. exact finalize_edgeworth. Qed.
Print Assumptions C01_finalize_any_mode_edgeworth.

Theorem C01_finalize_any_mode_trapezoid : forall c, cfg_valid c -> forall W t,
  ~ documented_exception c -> In t (l_trap c) -> trapezoid_holds (l_shape c) t (finalize c W).
Proof. exact finalize_trapezoid. Qed.
Print Assumptions C01_finalize_any_mode_trapezoid.

Theorem C01_monotone : forall c, cfg_valid c -> forall ran Wd,
  block_ok c ran -> ~ trap_mono_cond_with_edgeworth c -> monotone_kernel c (LC c ran Wd).
Proof. exact constraint_monotone. Qed.
Print Assumptions C01_monotone.

Theorem C01_edgeworth : forall c, cfg_valid c -> forall ran Wd t,
  block_ok c ran -> In t (l_edge c) -> edgeworth_holds (l_shape c) t (LC c ran Wd).
Proof. exact constraint_edgeworth. Qed.
Print Assumptions C01_edgeworth.

Theorem C01_trapezoid : forall c, cfg_valid c -> forall ran Wd t,
  block_ok c ran -> ~ documented_exception c -> In t (l_trap c) -> trapezoid_holds (l_shape c) t (LC c ran Wd).
Proof. exact constraint_trapezoid. Qed.
Print Assumptions C01_trapezoid.

(* D1 narrowed to the dimensions it can affect.  No configuration class is
   excluded: for EVERY valid configuration and every monotone dimension d that is
   not the conditional feature of a trapezoid trust (or any monotone d when no
   Edgeworth trust is configured) the result is non-decreasing along d. *)
Theorem C01_finalize_monotone_outside_trapezoid_conditionals : forall c, cfg_valid c -> forall W d,
  In d (mono_dims (l_monos c)) ->
  (l_edge c = [] \/ forall t, In t (l_trap c) -> snd (fst t) <> d) ->
  mono_along (l_shape c) d (finalize c W).
Proof. exact finalize_monotone_dim. Qed.
Print Assumptions C01_finalize_monotone_outside_trapezoid_conditionals.

Theorem C01_monotone_outside_trapezoid_conditionals : forall c, cfg_valid c -> forall ran Wd d,
  block_ok c ran -> In d (mono_dims (l_monos c)) ->
  (l_edge c = [] \/ forall t, In t (l_trap c) -> snd (fst t) <> d) ->
  mono_along (l_shape c) d (LC c ran Wd).
Proof. exact constraint_monotone_dim. Qed.
Print Assumptions C01_monotone_outside_trapezoid_conditionals.

(* contrapositive: the strict constraint can only fail monotonicity along the
   conditional dimension of a trapezoid trust, with an Edgeworth trust present *)
Theorem C01_monotone_failure_only_along_trapezoid_conditional : forall c, cfg_valid c -> forall ran Wd d,
  block_ok c ran -> In d (mono_dims (l_monos c)) -> ~ mono_along (l_shape c) d (LC c ran Wd) ->
  l_edge c <> [] /\ exists t, In t (l_trap c) /\ snd (fst t) = d.
Proof. exact constraint_monotone_failure_dim. Qed.
Print Assumptions C01_monotone_failure_only_along_trapezoid_conditional.

(* one- and two-sided bounds, no guard at all *)
Theorem C01_bounds : forall c, cfg_valid c -> forall ran Wd,
  lower_ok (l_shape c) (l_min c) (LC c ran Wd) /\ upper_ok (l_shape c) (l_max c) (LC c ran Wd).
Proof. exact constraint_bounds. Qed.
Print Assumptions C01_bounds.

(* a kernel that already satisfies every strict constraint passes through
   finalize and the final clip unchanged (the Dykstra stage's own fixed-point
   theorem is C08_feasible_fixed) *)
Theorem C01_feasible_fixed : forall c, cfg_valid c -> forall ran W,
  feasible_kernel c W -> teq (l_shape c) (LC c ran W) W.
Proof. exact constraint_feasible_fixed. Qed.
Print Assumptions C01_feasible_fixed.

(* Known finding D1: with a trapezoid trust whose conditional feature is
   monotone and an Edgeworth trust present, the strict constraint returns a
   kernel that DECREASES along the (monotone) conditional dimension. *)
Definition d1_cfg : lat_cfg := mkLat [2;2;2]%nat 1 [1;1;0]%Z [(0,1,1%Z)]%nat [(0,1,1%Z)]%nat None None.
Definition d1_kernel : tens := of_list (l_shape d1_cfg) [0; 7; -2; 2; -7; -4; -4; 5].

Lemma d1_cfg_valid : cfg_valid d1_cfg.
Proof.
  unfold cfg_valid, d1_cfg, all_trusts; cbn [l_sizes l_units l_monos l_edge l_trap l_min l_max app length].
  repeat split; try lia.
  - intros s [<-|[<-|[<-|[]]]]; lia.
  - intros m [<-|[<-|[<-|[]]]]; auto.
  - intros t [<-|[<-|[]]]; unfold trust_ok; cbn; repeat split; auto.
  - intros t1 t2 [<-|[<-|[]]] [<-|[<-|[]]]; cbn; discriminate.
  - intros t1 t2 [<-|[<-|[]]] [<-|[<-|[]]] _; reflexivity.
Qed.

Theorem C01_refuted_trap_mono_cond :
  exists c W i d, cfg_valid c /\ trap_mono_cond_with_edgeworth c /\ block_ok c true /\
    In d (mono_dims (l_monos c)) /\ valid (l_shape c) i /\ (S (nth d i 0%nat) < nth d (l_shape c) 0%nat)%nat /\
    LC c true W (upd i d (S (nth d i 0%nat))) < LC c true W i.
Proof.
  exists d1_cfg, d1_kernel, [0;0;0;0]%nat, 1%nat.
  split; [exact d1_cfg_valid|]. split.
  { split; [discriminate|]. exists (0%nat, 1%nat, 1%Z). split; [left; reflexivity|reflexivity]. }
  split; [left; reflexivity|]. split; [right; left; reflexivity|].
  split; [repeat constructor|]. split; [cbn; lia|].
  vm_compute. reflexivity.
Qed.
Print Assumptions C01_refuted_trap_mono_cond.

(* the D1 witness fails exactly along the conditional dimension of its trapezoid
   trust (dimension 1) and - by the theorem above - is monotone along the other
   monotone dimension *)
Theorem C01_refuted_trap_mono_cond_along_conditional_only :
  exists c W d, cfg_valid c /\ trap_mono_cond_with_edgeworth c /\ block_ok c true /\
    In d (mono_dims (l_monos c)) /\ (exists t, In t (l_trap c) /\ snd (fst t) = d) /\
    ~ mono_along (l_shape c) d (LC c true W) /\
    (forall d', In d' (mono_dims (l_monos c)) -> d' <> d -> mono_along (l_shape c) d' (LC c true W)).
Proof.
  exists d1_cfg, d1_kernel, 1%nat.
  split; [exact d1_cfg_valid|]. split.
  { split; [discriminate|]. exists (0%nat, 1%nat, 1%Z). split; [left; reflexivity|reflexivity]. }
  split; [left; reflexivity|]. split; [right; left; reflexivity|].
  split; [exists (0%nat, 1%nat, 1%Z); split; [left; reflexivity|reflexivity]|]. split.
  - intros H. specialize (H [0;0;0;0]%nat ltac:(repeat constructor) ltac:(cbn; lia)).
    apply Qle_bool_iff in H. vm_compute in H. discriminate.
  - intros d' Hd' Hne. apply constraint_monotone_dim; [exact d1_cfg_valid|left; reflexivity|exact Hd'|].
    right. intros t [<-|[]]. cbn [fst snd]. congruence.
Qed.
Print Assumptions C01_refuted_trap_mono_cond_along_conditional_only.

(* the hypotheses of the unguarded per-dimension theorems are satisfiable by a
   configuration of the D1 class: dimension 0 of d1_cfg *)
Example C01_outside_conditionals_satisfiable_in_d1_class :
  cfg_valid d1_cfg /\ trap_mono_cond_with_edgeworth d1_cfg /\ block_ok d1_cfg true /\
  In 0%nat (mono_dims (l_monos d1_cfg)) /\
  (l_edge d1_cfg = [] \/ forall t, In t (l_trap d1_cfg) -> snd (fst t) <> 0%nat).
Proof.
  split; [exact d1_cfg_valid|]. split.
  { split; [discriminate|]. exists (0%nat, 1%nat, 1%Z). split; [left; reflexivity|reflexivity]. }
  split; [left; reflexivity|]. split; [left; reflexivity|].
  right. intros t [<-|[]]. cbn. discriminate.
Qed.

(* the premises of the positive theorems are satisfiable *)
Example C01_premises_satisfiable :
  cfg_valid (mkLat [2;3]%nat 2 [1;0]%Z [(0,1,1%Z)]%nat [(0,1,1%Z)]%nat (Some 0) (Some 1)) /\
  ~ trap_mono_cond_with_edgeworth (mkLat [2;3]%nat 2 [1;0]%Z [(0,1,1%Z)]%nat [(0,1,1%Z)]%nat (Some 0) (Some 1)) /\
  ~ documented_exception (mkLat [2;3]%nat 2 [1;0]%Z [(0,1,1%Z)]%nat [(0,1,1%Z)]%nat (Some 0) (Some 1)).
Proof.
  split; [|split].
  - unfold cfg_valid, all_trusts; cbn [l_sizes l_units l_monos l_edge l_trap l_min l_max app length].
    repeat split; try lia; try lra.
    + intros s [<-|[<-|[]]]; lia.
    + intros m [<-|[<-|[]]]; auto.
    + intros t [<-|[<-|[]]]; unfold trust_ok; cbn; repeat split; auto.
    + intros t1 t2 [<-|[<-|[]]] [<-|[<-|[]]]; cbn; discriminate.
    + intros t1 t2 [<-|[<-|[]]] [<-|[<-|[]]]; cbn; congruence.
  - intros [_ [t [[<-|[]] H]]]. cbn in H. discriminate.
  - intros [_ (t1 & t2 & l1 & l2 & l3 & E & _)]. cbn [l_trap] in E.
    destruct l1 as [|a l1]; cbn in E.
    + injection E as _ E. destruct l2; discriminate.
    + injection E as _ E. destruct l1; discriminate.
Qed.
