(* C05 — Calibration layers evaluate exactly the function their weights
   describe.  Property theorems only; proofs live in Proofs/PWLEval.v.

   Vocabulary (Model/PWLEval.v, Proofs/PWLEval.v):
   - [pwl_fn kps lens col x]: what call() computes for one unit: interpolation
     weights [1, clip((x - kps_i)/lens_i, 0, 1) ...] dotted with the unit's
     kernel column col = bias :: heights (plus the closing height when cyclic).
   - [segments kps lens e]: the tables build()/call() derive from the keypoints:
     all lengths positive, kps_{i+1} == kps_i + lens_i, last one ends at e; the
     complete keypoint list is kps ++ [e].  C05_fixed_keypoints_segments and
     C05_learned_keypoints_segments show both keypoint types produce it.
   - [unit_fn L u]: pwl_fn applied to unit u's tables and column of layer L.
   - [kp_outs col] = cumsum of the column = keypoints_outputs() of that unit. *)
From TFL Require Import Model.PWLEval Model.CategoricalEval Proofs.PWLEval.
Open Scope Q_scope.

(* The tables of a 'fixed' layer built from strictly increasing
   input_keypoints form a segment structure whose keypoints are exactly
   input_keypoints. *)
Theorem C05_fixed_keypoints_segments : forall ks, increasing ks -> ks <> [] ->
  segments (kp_lefts ks) (kp_diffs ks) (last ks 0) /\ kp_lefts ks ++ [last ks 0] = ks.
Proof. intros ks H Hne. split; [exact (fixed_segments ks H)|exact (fixed_all_keypoints ks Hne)]. Qed.
Print Assumptions C05_fixed_keypoints_segments.

(* Value at the j-th keypoint = j-th cumulative kernel sum (j = 0 .. n). *)
Theorem C05_at_keypoints : forall kps lens e b hs x j,
  segments kps lens e -> length hs = length kps -> (j <= length kps)%nat ->
  x == nth j (kps ++ [e]) 0 ->
  pwl_fn kps lens (b :: hs) x == b + qsum (firstn j hs).
Proof. exact pwl_at_keypoints. Qed.
Print Assumptions C05_at_keypoints.

(* Between keypoints j and j+1 the value is the linear interpolation of the
   two cumulative sums. *)
Theorem C05_linear_between : forall kps lens e b hs x j,
  segments kps lens e -> length hs = length kps -> (j < length kps)%nat ->
  nth j (kps ++ [e]) 0 <= x -> x <= nth (S j) (kps ++ [e]) 0 ->
  let kj := nth j (kps ++ [e]) 0 in let kj1 := nth (S j) (kps ++ [e]) 0 in
  let yj := b + qsum (firstn j hs) in let yj1 := b + qsum (firstn (S j) hs) in
  pwl_fn kps lens (b :: hs) x == yj + (x - kj) / (kj1 - kj) * (yj1 - yj).
Proof. exact pwl_linear_between. Qed.
Print Assumptions C05_linear_between.

(* Constant outside the keypoint range: first output on the left, last on the right. *)
Theorem C05_constant_outside : forall kps lens e b hs x,
  segments kps lens e -> length hs = length kps ->
  (x <= hd e kps -> pwl_fn kps lens (b :: hs) x == b) /\
  (e <= x -> pwl_fn kps lens (b :: hs) x == b + qsum hs).
Proof. intros kps lens e b hs x H Hh. split; intros Hx.
  - exact (pwl_constant_left kps lens e b hs x H Hx).
  - exact (pwl_constant_right kps lens e b hs x H Hh Hx). Qed.
Print Assumptions C05_constant_outside.

(* is_cyclic: unit u's function takes the same value at the first and at the
   last keypoint (kernel has one row fewer than there are keypoints). *)
Theorem C05_cyclic_ends_equal : forall L u e, p_cyclic L = true -> (u < p_units L)%nat ->
  segments (unit_lefts L u) (unit_lens L u) e -> length (unit_lefts L u) = length (p_kernel L) ->
  p_kernel L <> [] -> unit_fn L u (hd e (unit_lefts L u)) == unit_fn L u e.
Proof. exact layer_cyclic_ends_equal. Qed.
Print Assumptions C05_cyclic_ends_equal.

(* One input column feeding several units == each unit evaluated separately on
   that value; with one column per unit, unit u sees column u.  Holds for both
   code paths (matmul, and expand_dims + reduce_sum) and both keypoint types. *)
Theorem C05_broadcast : forall L x u, (u < p_units L)%nat ->
  nth u (calib_row L [x]) 0 = unit_fn L u x /\
  nth u (calib_row L [x]) 0 = nth u (calib_row L (repeat x (p_units L))) 0 /\
  (forall row, length row = p_units L -> nth u (calib_row L row) 0 = unit_fn L u (nth u row 0)).
Proof. intros L x u Hu. split; [exact (calib_row_single L x u Hu)|]. split; [exact (calib_broadcast L x u Hu)|].
  intros row Hr. exact (calib_row_per_unit L row u Hu Hr). Qed.
Print Assumptions C05_broadcast.

(* Missing inputs: flag 1 (given, or input == missing_input_value) yields the
   missing output of the unit, flag 0 (or input <> missing_input_value) the
   calibrated value; the missing output is missing_output_value when that is
   set, else the learned weight.  [col_of n u] = the column unit u reads. *)
Theorem C05_missing : forall L row u, p_impute L = true -> (u < p_units L)%nat ->
  (forall m,
     (nth (col_of (length m) u) m 0 == 1 -> nth u (call_row L row (Some m)) 0 == nth u (p_missing_output L) 0) /\
     (nth (col_of (length m) u) m 0 == 0 -> nth u (call_row L row (Some m)) 0 == nth u (calib_row L row) 0)) /\
  (forall v, p_missing_input L = Some v -> (col_of (length row) u < length row)%nat ->
     (nth (col_of (length row) u) row 0 == v -> nth u (call_row L row None) 0 == nth u (p_missing_output L) 0) /\
     (~ nth (col_of (length row) u) row 0 == v -> nth u (call_row L row None) 0 == nth u (calib_row L row) 0)) /\
  (forall v w, nth u (build_missing_output (p_units L) (Some v) w) 0 = v) /\
  (forall w, build_missing_output (p_units L) None w = w).
Proof. intros L row u Hi Hu. split; [intros m; exact (missing_flag_given L row m u Hi Hu)|].
  split; [intros v Hv Hc; exact (missing_by_value L row v u Hi Hv Hu Hc)|].
  split; [intros v w; exact (missing_output_fixed (p_units L) v w u Hu)|intros w; reflexivity]. Qed.
Print Assumptions C05_missing.

(* Learned interior keypoints: for ANY logits row, given only that softmax
   returns positive entries of the same length summing to 1, the keypoints
   reported for the unit are strictly increasing, start at the first and end
   at the last input keypoint. *)
Theorem C05_learned_keypoints_ordered : forall softmax : list Q -> list Q,
  (forall l, length (softmax l) = length l) ->
  (forall l s, In s (softmax l) -> 0 < s) ->
  (forall l, l <> [] -> qsum (softmax l) == 1) ->
  forall ks logits, logits <> [] -> hd 0 ks < last ks 0 ->
  let all := learned_all softmax ks logits in
  length all = S (length logits) /\
  (forall j, (S j < length all)%nat -> nth j all 0 < nth (S j) all 0) /\
  hd 0 all == hd 0 ks /\ last all 0 == last ks 0.
Proof. exact learned_keypoints_ordered. Qed.
Print Assumptions C05_learned_keypoints_ordered.

(* ... and the learned tables form a segment structure, so every theorem above
   and below applies to 'learned_interior' layers too. *)
Theorem C05_learned_keypoints_segments : forall softmax : list Q -> list Q,
  (forall l s, In s (softmax l) -> 0 < s) ->
  (forall l, l <> [] -> qsum (softmax l) == 1) ->
  forall ks logits, logits <> [] -> hd 0 ks < last ks 0 ->
  segments (learned_lefts ks (softmax logits)) (learned_lengths ks (softmax logits)) (last ks 0).
Proof. exact learned_segments. Qed.
Print Assumptions C05_learned_keypoints_segments.

(* Categorical: an in-range category that is not the default value maps to
   its kernel row, for the unit's column. *)
Theorem C05_categorical_lookup : forall L row u i,
  (u < c_units L)%nat -> (col_of (length row) u < length row)%nat ->
  (c_units L = 1%nat -> length row = 1%nat) ->
  cast_int (nth (col_of (length row) u) row 0) = i -> c_default L <> Some i ->
  (0 <= i < Z.of_nat (c_buckets L))%Z ->
  nth u (cat_row L row) 0 == nth u (nth (Z.to_nat i) (c_kernel L) []) 0.
Proof. intros L row u i Hu Hc H1 Hi Hd Hr. rewrite <- nth_column.
  exact (categorical_lookup L row u i Hu Hc H1 Hi Hd Hr). Qed.
Print Assumptions C05_categorical_lookup.

(* default_input_value maps to the last bucket. *)
Theorem C05_default_to_last_bucket : forall L row u d,
  (u < c_units L)%nat -> (col_of (length row) u < length row)%nat ->
  (c_units L = 1%nat -> length row = 1%nat) ->
  c_default L = Some d -> cast_int (nth (col_of (length row) u) row 0) = d -> (0 < c_buckets L)%nat ->
  nth u (cat_row L row) 0 == nth u (nth (c_buckets L - 1) (c_kernel L) []) 0.
Proof. intros L row u d Hu Hc H1 Hd Hi Hb. rewrite <- nth_column.
  exact (categorical_default L row u d Hu Hc H1 Hd Hi Hb). Qed.
Print Assumptions C05_default_to_last_bucket.

(* Monotone keypoint outputs give a monotone function for EVERY pair x <= y
   (inside, on, outside the keypoint range); same for decreasing outputs. *)
Theorem C05_monotone_function : forall kps lens col x y, Forall (fun l => 0 < l) lens -> x <= y ->
  ((forall j, (S j < length col)%nat -> nth j (kp_outs col) 0 <= nth (S j) (kp_outs col) 0) ->
     pwl_fn kps lens col x <= pwl_fn kps lens col y) /\
  ((forall j, (S j < length col)%nat -> nth (S j) (kp_outs col) 0 <= nth j (kp_outs col) 0) ->
     pwl_fn kps lens col y <= pwl_fn kps lens col x).
Proof. intros kps lens col x y Hl Hxy. split; intros Hs.
  - exact (pwl_monotone_function kps lens col x y Hl Hs Hxy).
  - exact (pwl_antitone_function kps lens col x y Hl Hs Hxy). Qed.
Print Assumptions C05_monotone_function.

(* Keypoint outputs all inside [lo, hi] give a function inside [lo, hi] at every x. *)
Theorem C05_bounded_function : forall kps lens e col lo hi x,
  segments kps lens e -> length col = S (length kps) ->
  (forall y, In y (kp_outs col) -> lo <= y <= hi) -> lo <= pwl_fn kps lens col x <= hi.
Proof. exact pwl_bounded_function. Qed.
Print Assumptions C05_bounded_function.

(* keypoints_inputs() / keypoints_outputs() report points on the graph of the
   unit's function (cyclic layers included: the re-appended first output). *)
Theorem C05_reported_points : forall L u e j, (u < p_units L)%nat ->
  segments (unit_lefts L u) (unit_lens L u) e -> unit_lefts L u <> [] ->
  length (column u (bias_and_heights L)) = S (length (unit_lefts L u)) ->
  (j <= length (unit_lefts L u))%nat ->
  unit_fn L u (nth j (keypoints_inputs_col L u) 0) == nth j (keypoints_outputs_col L u) 0.
Proof. exact layer_reported_points. Qed.
Print Assumptions C05_reported_points.

(* call() on an accepted argument is the per-row function mapped over the
   batch: tensor (or one-element list) argument, and [inputs, is_missing]. *)
Theorem C05_call_rows : forall L inputs,
  let cols := length (hd [] inputs) in
  all_len cols inputs = true -> (cols = p_units L \/ cols = 1%nat) ->
  (forall as_list, (if p_impute L then p_missing_input L <> None else as_list = false) ->
     pwl_call L as_list inputs None = Some (split_result L (map (fun r => call_row L r None) inputs))) /\
  (forall ms, p_impute L = true -> length ms = length inputs -> all_len cols ms = true ->
     pwl_call L true inputs (Some ms) =
     Some (split_result L (map2 (fun r m => call_row L r (Some m)) inputs ms))).
Proof. intros L inputs cols Hall Hc. split.
  - intros as_list Hi. exact (pwl_call_tensor L as_list inputs Hall Hc Hi).
  - intros ms Hi Hl Hms. exact (pwl_call_flagged L inputs ms Hi Hl Hms Hall Hc). Qed.
Print Assumptions C05_call_rows.

(* split_outputs: with units > 1 output u is column u as a [batch, 1] matrix;
   otherwise the single [batch, units] matrix is returned. *)
Theorem C05_split_outputs : forall L res,
  ((1 < p_units L)%nat -> p_split L = true -> forall u, (u < p_units L)%nat ->
     nth u (split_result L res) [] = map (fun r => [nth u r 0]) res) /\
  (((1 <? p_units L)%nat && p_split L)%bool = false -> split_result L res = [res]).
Proof. intros L res. split.
  - intros H1 Hs u Hu. exact (split_result_unit L res u H1 Hs Hu).
  - exact (split_result_off L res). Qed.
Print Assumptions C05_split_outputs.

(* ================= "hence monotone / bounded at every input" for the LAYER call forms and for
   CategoricalCalibration; categorical output structure (Proofs/PWLLayer.v) =================
   Vocabulary: [row_ok L row]: the row has one column or one per unit; [unit_outs L u]: the keypoint outputs of
   unit u (cumulative sums of its column of bias_and_heights, i.e. with the closing height of a cyclic layer; for
   non-cyclic layers exactly keypoints_outputs(), C05_unit_outs_reported); [not_missing L row given u]: call_row
   does not impute unit u's entry (imputation off, flag == 0, or entry <> missing_input_value);
   [cat_index L row u]: the default-replaced integer index unit u looks up. *)
From TFL Require Import Proofs.PWLLayer.

Theorem C05_unit_outs_reported : forall L u, p_cyclic L = false -> unit_outs L u = keypoints_outputs_col L u.
Proof. exact unit_outs_reported. Qed.
Print Assumptions C05_unit_outs_reported.

(* Monotone keypoint outputs => the layer output of unit u (call_row: one input column broadcast to the units
   or one per unit, matmul or expand path, fixed or learned keypoints, cyclic closing, imputation on or off)
   is monotone over EVERY pair of non-missing inputs; same for non-increasing outputs. *)
Theorem C05_layer_monotone : forall L u row row' given given',
  (u < p_units L)%nat -> row_ok L row -> length row' = length row ->
  Forall (fun l => 0 < l) (unit_lens L u) ->
  not_missing L row given u -> not_missing L row' given' u ->
  nth (col_of (length row) u) row 0 <= nth (col_of (length row) u) row' 0 ->
  (nondecr (unit_outs L u) -> nth u (call_row L row given) 0 <= nth u (call_row L row' given') 0) /\
  (nonincr (unit_outs L u) -> nth u (call_row L row' given') 0 <= nth u (call_row L row given) 0).
Proof. exact layer_call_monotone. Qed.
Print Assumptions C05_layer_monotone.

(* Keypoint outputs and the unit's missing output in [lo, hi] => the layer output is in [lo, hi] at EVERY
   input of an accepted form: missing or not, flags given (anywhere in [0, 1]; the code mixes linearly) or
   derived from missing_input_value.  Without imputation only the keypoint outputs matter. *)
Theorem C05_layer_bounded : forall L u row given e lo hi, (u < p_units L)%nat -> row_ok L row ->
  segments (unit_lefts L u) (unit_lens L u) e ->
  length (column u (bias_and_heights L)) = S (length (unit_lefts L u)) ->
  (forall y, In y (unit_outs L u) -> lo <= y <= hi) ->
  (p_impute L = true -> lo <= nth u (p_missing_output L) 0 <= hi) ->
  (forall m, given = Some m -> 0 <= nth (col_of (length m) u) m 0 <= 1) ->
  lo <= nth u (call_row L row given) 0 <= hi.
Proof. exact layer_call_bounded. Qed.
Print Assumptions C05_layer_bounded.

(* Categorical: bucket values ordered along a pair (a, b) => outputs ordered for every pair of inputs that
   select a and b (through the category itself or through default_input_value -> last bucket). *)
Theorem C05_categorical_monotone : forall L u row row' a b,
  (u < c_units L)%nat -> cat_row_ok L row -> cat_row_ok L row' ->
  (a < c_buckets L)%nat -> (b < c_buckets L)%nat ->
  cat_index L row u = Z.of_nat a -> cat_index L row' u = Z.of_nat b ->
  nth u (nth a (c_kernel L) []) 0 <= nth u (nth b (c_kernel L) []) 0 ->
  nth u (cat_row L row) 0 <= nth u (cat_row L row') 0.
Proof. exact categorical_monotone. Qed.
Print Assumptions C05_categorical_monotone.

(* Categorical: bucket values of unit u in [lo, hi] => output in [lo, hi] for every category in range and for
   default_input_value. *)
Theorem C05_categorical_bounded : forall L u row lo hi,
  (u < c_units L)%nat -> cat_row_ok L row -> (0 < c_buckets L)%nat ->
  (forall k, (k < c_buckets L)%nat -> lo <= nth u (nth k (c_kernel L) []) 0 <= hi) ->
  (0 <= cast_int (nth (col_of (length row) u) row 0%Q) < Z.of_nat (c_buckets L))%Z \/
  c_default L = Some (cast_int (nth (col_of (length row) u) row 0%Q)) ->
  lo <= nth u (cat_row L row) 0 <= hi.
Proof. exact categorical_bounded. Qed.
Print Assumptions C05_categorical_bounded.

(* Categorical split_outputs: units == 1 or split_outputs off: the single [batch, units] matrix; units > 1 and
   split_outputs: [units] matrices [batch, 1], entry p of matrix u is unit u's output on input row p. *)
Theorem C05_categorical_split_outputs : forall L inputs,
  let res := map (cat_row L) inputs in
  (c_units L = 1%nat -> cat_call L inputs = [res]) /\
  (c_units L <> 1%nat -> c_split L = false -> cat_call L inputs = [res]) /\
  (c_units L <> 1%nat -> c_split L = true ->
     length (cat_call L inputs) = c_units L /\
     forall u, (u < c_units L)%nat ->
       nth u (cat_call L inputs) [] = map (fun r => [nth u r 0]) res /\
       forall p, (p < length inputs)%nat ->
         nth p (nth u (cat_call L inputs) []) [] = [nth u (cat_row L (nth p inputs [])) 0]).
Proof. exact cat_call_structure. Qed.
Print Assumptions C05_categorical_split_outputs.

(* hypotheses are satisfiable: a two-unit imputing layer whose unit 1 has non-decreasing keypoint outputs in
   [0, 6] and missing output 6; a categorical layer with ordered, bounded bucket values and a default *)
Example C05_ex_layer_hyps :
  row_ok mono_layer [1#2] /\ row_ok mono_layer [1#2; 2] /\
  Forall (fun l => 0 < l) (unit_lens mono_layer 1) /\ nondecr (unit_outs mono_layer 1) /\
  segments (unit_lefts mono_layer 1) (unit_lens mono_layer 1) 3 /\
  length (column 1 (bias_and_heights mono_layer)) = S (length (unit_lefts mono_layer 1)) /\
  (forall y, In y (unit_outs mono_layer 1) -> 0 <= y <= 6) /\
  0 <= nth 1 (p_missing_output mono_layer) 0 <= 6 /\
  not_missing mono_layer [1#2] None 1 /\ not_missing mono_layer [5; 1#2] (Some [1; 0]) 1.
Proof. exact mono_layer_hyps. Qed.
Example C05_ex_cat_hyps :
  cat_row_ok example_cat [1] /\ cat_row_ok example_cat [0; -(1)] /\
  cat_index example_cat [1] 1 = Z.of_nat 1 /\ cat_index example_cat [0; -(1)] 1 = Z.of_nat 2 /\
  nth 1 (nth 1 (c_kernel example_cat) []) 0 <= nth 1 (nth 2 (c_kernel example_cat) []) 0 /\
  (forall k, (k < c_buckets example_cat)%nat -> 1 <= nth 1 (nth k (c_kernel example_cat) []) 0 <= 6).
Proof. exact cat_mono_hyps. Qed.
