(* C07 — KroneckerFactoredLattice after its constraints gives monotone,
   bounded outputs.  Property theorems only; proofs live in Proofs/KFL.v, the
   model in Model/KFL.v.

   Vocabulary (Proofs/KFL.v):
     root_ok root        tf.pow(x, 1/d) for x >= 1: result >= 1, its d-th power
                         is >= x (exact root or any upper approximation), 1 at 1
     cfg_ok c dims       lattice_sizes >= 2, dims >= 1, output_min < output_max
                         when both are set, len(monotonicities) = dims
     shaped c dims p     p_scale p : [units][terms], p_kern p : [units][terms][dims][L]
                         (any units >= 0, terms >= 0)
     run root c steps p  parameters after the constraint history `steps`, each
                         step one of: kernel.constraint (StepK), scale.constraint
                         (StepS), finalize_constraints() (StepF)
     hasK / hasS steps   the history contains an application of the kernel /
                         scale constraint (StepF counts as both)
     coords_le ms xs ys  ys is xs with some monotone coordinates increased
     in_range L xs       every coordinate in [0, L-1]
     params_equiv p q    same bias, same scales (==), and same weights (==)
                         in every (unit, term) whose scale is not 0 *)
From TFL Require Import Model.KFL Proofs.KFL.
Open Scope Q_scope.

(* The scale constraint never flips a sign: the sign stays or becomes 0. *)
Theorem C07_scale_sign_stable : forall omin omax s, bounds_ok omin omax ->
  qsgn (finalize_scale1 omin omax s) = qsgn s \/ qsgn (finalize_scale1 omin omax s) = 0.
Proof. exact finalize_scale1_qsgn. Qed.
Print Assumptions C07_scale_sign_stable.

(* With both bounds the sign is kept exactly. *)
Theorem C07_scale_sign_kept_two_sided : forall lo hi s, lo < hi ->
  qsgn (finalize_scale1 (Some lo) (Some hi) s) = qsgn s.
Proof. exact finalize_scale1_qsgn_two_sided. Qed.
Print Assumptions C07_scale_sign_kept_two_sided.

(* Monotonicity: for every configuration, all sizes, every rational kernel /
   scale / bias (every sign pattern, zeros included), every constraint history
   in which the kernel constraint was applied at least once (in any order with
   the scale constraint, any repetition), every unit and every pair of points
   xs <= ys that differ only in monotone coordinates: out(xs) <= out(ys), for
   in-range points, and for all points when clip_inputs is on. *)
Theorem C07_monotone : forall root c dims p steps ms u xs ys,
  root_ok root -> cfg_ok c dims -> shaped c dims p -> hasK steps = true ->
  canon_monos (c_monos c) = Some ms ->
  coords_le ms xs ys ->
  c_clip c = true \/ (in_range (c_size c) xs /\ in_range (c_size c) ys) ->
  unit_out c (run root c steps p) u xs <= unit_out c (run root c steps p) u ys.
Proof. intros root c dims p steps ms u xs ys H. exact (kfl_monotone root H c dims p steps ms u xs ys). Qed.
Print Assumptions C07_monotone.

(* The same for two points differing in one monotone coordinate d. *)
Theorem C07_monotone_single_coordinate : forall root c dims p steps ms u xs d y,
  root_ok root -> cfg_ok c dims -> shaped c dims p -> hasK steps = true ->
  canon_monos (c_monos c) = Some ms -> length xs = dims ->
  nth d ms false = true -> nth d xs 0 <= y ->
  c_clip c = true \/ (in_range (c_size c) xs /\ in_range (c_size c) (set_nth d y xs)) ->
  unit_out c (run root c steps p) u xs <= unit_out c (run root c steps p) u (set_nth d y xs).
Proof. intros root c dims p steps ms u xs d y H. exact (kfl_monotone_single root H c dims p steps ms u xs d y). Qed.
Print Assumptions C07_monotone_single_coordinate.

(* Bounds: once both constraints have been applied (any order, any
   repetition, or finalize_constraints()), with the bias of a bounded layer at
   its fixed initial value, every unit's output lies within the configured
   bound(s) at every in-range point, and at every point when clip_inputs is
   on — with or without monotonicity, for bound modes min / max / both. *)
Theorem C07_bounded : forall root c dims p steps u xs,
  root_ok root -> cfg_ok c dims -> shaped c dims p -> hasK steps = true -> hasS steps = true ->
  (u < length (p_scale p))%nat ->
  nth u (p_bias p) 0 == bias_init1 (c_min c) (c_max c) ->
  length xs = dims -> c_clip c = true \/ in_range (c_size c) xs ->
  (forall lo, c_min c = Some lo -> lo <= unit_out c (run root c steps p) u xs) /\
  (forall hi, c_max c = Some hi -> unit_out c (run root c steps p) u xs <= hi).
Proof. intros root c dims p steps u xs H. exact (kfl_bounded root H c dims p steps u xs). Qed.
Print Assumptions C07_bounded.

(* Idempotence: after a history containing both constraints, any further
   history leaves the parameters unchanged up to params_equiv ... *)
Theorem C07_idempotent : forall root c dims p steps more,
  root_ok root -> cfg_ok c dims -> shaped c dims p -> hasK steps = true -> hasS steps = true ->
  params_equiv (run root c steps p) (run root c (steps ++ more) p).
Proof. intros root c dims p steps more H. exact (kfl_idempotent root H c dims p steps more). Qed.
Print Assumptions C07_idempotent.

(* ... the two orders of applying the constraints give equivalent parameters ... *)
Theorem C07_order_irrelevant : forall root c dims p,
  cfg_ok c dims -> shaped c dims p ->
  params_equiv (run root c [StepK; StepS] p) (run root c [StepS; StepK] p).
Proof. exact kfl_order_irrelevant. Qed.
Print Assumptions C07_order_irrelevant.

(* ... and equivalent parameters compute the same function. *)
Theorem C07_equivalent_parameters_same_output : forall c p q u xs,
  params_equiv p q -> unit_out c q u xs == unit_out c p u xs.
Proof. exact equiv_same_output. Qed.
Print Assumptions C07_equivalent_parameters_same_output.

(* On every term whose scale is non-zero the kernel constraint is idempotent
   weight by weight. *)
Theorem C07_kernel_constraint_idempotent_per_term : forall root c dims s vs,
  root_ok root -> cfg_ok c dims -> tshape (c_size c) dims vs ->
  s == 0 \/ teq (Kt root c s (Kt root c s vs)) (Kt root c s vs).
Proof. intros root c dims s vs H. exact (Kt_settled root H c dims s vs). Qed.
Print Assumptions C07_kernel_constraint_idempotent_per_term.

(* Literal, weight-by-weight idempotence of the PARAMETERS is false: with a
   one-sided bound the scale constraint can clip a scale to 0, after which a
   further kernel constraint zeroes that term's weights (direction = sign(0)
   = 0 is multiplied into every dimension).  The output is unaffected
   (C07_idempotent + C07_equivalent_parameters_same_output).  Witness:
   lattice_sizes=2, monotonicities=[1], output_min=0, kernel [1,2], scale -1:
   K;S gives weights [3/2,3/2] with scale 0, K;S;K gives [0,0]. *)
Theorem C07_idempotent_params_refuted : exists c p,
  cfg_ok c 1 /\ shaped c 1 p /\
  ~ Forall2 (Forall2 teq) (p_kern (run qroot c [StepK; StepS] p))
                          (p_kern (run qroot c [StepK; StepS; StepK] p)).
Proof. exact idempotent_params_witness. Qed.
Print Assumptions C07_idempotent_params_refuted.

(* The hypotheses are jointly satisfiable. *)
Example C07_hypotheses_satisfiable : exists root c dims p steps ms xs ys,
  root_ok root /\ cfg_ok c dims /\ shaped c dims p /\ hasK steps = true /\ hasS steps = true /\
  canon_monos (c_monos c) = Some ms /\ coords_le ms xs ys /\
  in_range (c_size c) xs /\ in_range (c_size c) ys /\ length xs = dims /\
  (0 < length (p_scale p))%nat /\ nth 0 (p_bias p) 0 == bias_init1 (c_min c) (c_max c).
Proof. exact hypotheses_witness. Qed.
