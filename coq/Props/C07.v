(* C07 — KroneckerFactoredLattice after its constraints gives monotone,
   bounded outputs.  Property theorems only; proofs live in Proofs/KFL.v, the
   model in Model/KFL.v.

   Vocabulary (Proofs/KFL.v):
     root_ok root        tf.pow(x, 1/d) for x >= 1: result >= 1, its d-th power
                         is >= x (exact root or any upper approximation), 1 at 1
     cfg_ok c dims       lattice_sizes >= 2, dims >= 1, output_min < output_max
                         when both are set, len(monotonicities) = dims
     shaped c dims p     p_scale p : [units][terms], p_kern p : [units][terms][dims][L]
                         (any units >= 0, terms >= 0)
     run root c steps p  parameters after the constraint history `steps`, each
                         step one of: kernel.constraint (StepK), scale.constraint
                         (StepS), finalize_constraints() (StepF)
     hasK / hasS steps   the history contains an application of the kernel /
                         scale constraint (StepF counts as both)
     coords_le ms xs ys  ys is xs with some monotone coordinates increased
     in_range L xs       every coordinate in [0, L-1]
     params_equiv p q    same bias, same scales (==), and same weights (==)
                         in every (unit, term) whose scale is not 0 *)
From TFL Require Import Model.KFL Proofs.KFL.
Open Scope Q_scope.

(* The scale constraint never flips a sign: the sign stays or becomes 0. *)
Theorem C07_scale_sign_stable : forall omin omax s, bounds_ok omin omax ->
  qsgn (finalize_scale1 omin omax s) = qsgn s \/ qsgn (finalize_scale1 omin omax s) = 0.
Proof. exact finalize_scale1_qsgn. Qed.
Print Assumptions C07_scale_sign_stable.

(* With both bounds the sign is kept exactly. *)
Theorem C07_scale_sign_kept_two_sided : forall lo hi s, lo < hi ->
  qsgn (finalize_scale1 (Some lo) (Some hi) s) = qsgn s.
Proof. exact finalize_scale1_qsgn_two_sided. Qed.
Print Assumptions C07_scale_sign_kept_two_sided.

(* Monotonicity: for every configuration, all sizes, every rational kernel /
   scale / bias (every sign pattern, zeros included), every constraint history
   in which the kernel constraint was applied at least once (in any order with
   the scale constraint, any repetition), every unit and every pair of points
   xs <= ys that differ only in monotone coordinates: out(xs) <= out(ys), for
   in-range points, and for all points when clip_inputs is on. *)
Theorem C07_monotone : forall root c dims p steps ms u xs ys,
  root_ok root -> cfg_ok c dims -> shaped c dims p -> hasK steps = true ->
  canon_monos (c_monos c) = Some ms ->
  coords_le ms xs ys ->
  c_clip c = true \/ (in_range (c_size c) xs /\ in_range (c_size c) ys) ->
  unit_out c (run root c steps p) u xs <= unit_out c (run root c steps p) u ys.
Proof. intros root c dims p steps ms u xs ys H. exact (kfl_monotone root H c dims p steps ms u xs ys). Qed.
Print Assumptions C07_monotone.

(* The same for two points differing in one monotone coordinate d. *)
Theorem C07_monotone_single_coordinate : forall root c dims p steps ms u xs d y,
  root_ok root -> cfg_ok c dims -> shaped c dims p -> hasK steps = true ->
  canon_monos (c_monos c) = Some ms -> length xs = dims ->
  nth d ms false = true -> nth d xs 0 <= y ->
  c_clip c = true \/ (in_range (c_size c) xs /\ in_range (c_size c) (set_nth d y xs)) ->
  unit_out c (run root c steps p) u xs <= unit_out c (run root c steps p) u (set_nth d y xs).
Proof. intros root c dims p steps ms u xs d y H. exact (kfl_monotone_single root H c dims p steps ms u xs d y). Qed.
Print Assumptions C07_monotone_single_coordinate.

(* Bounds: once both constraints have been applied (any order, any
   repetition, or finalize_constraints()), with the bias of a bounded layer at
   its fixed initial value, every unit's output lies within the configured
   bound(s) at every in-range point, and at every point when clip_inputs is
   on — with or without monotonicity, for bound modes min / max / both. *)
Theorem C07_bounded : forall root c dims p steps u xs,
  root_ok root -> cfg_ok c dims -> shaped c dims p -> hasK steps = true -> hasS steps = true ->
  (u < length (p_scale p))%nat ->
  nth u (p_bias p) 0 == bias_init1 (c_min c) (c_max c) ->
  length xs = dims -> c_clip c = true \/ in_range (c_size c) xs ->
  (forall lo, c_min c = Some lo -> lo <= unit_out c (run root c steps p) u xs) /\
  (forall hi, c_max c = Some hi -> unit_out c (run root c steps p) u xs <= hi).
Proof. intros root c dims p steps u xs H. exact (kfl_bounded root H c dims p steps u xs). Qed.
Print Assumptions C07_bounded.

(* Idempotence: after a history containing both constraints, any further
   history leaves the parameters unchanged up to params_equiv ... *)
Theorem C07_idempotent : forall root c dims p steps more,
  root_ok root -> cfg_ok c dims -> shaped c dims p -> hasK steps = true -> hasS steps = true ->
  params_equiv (run root c steps p) (run root c (steps ++ more) p).
Proof. intros root c dims p steps more H. exact (kfl_idempotent root H c dims p steps more). Qed.
Print Assumptions C07_idempotent.

(* ... the two orders of applying the constraints give equivalent parameters ... *)
Theorem C07_order_irrelevant : forall root c dims p,
  cfg_ok c dims -> shaped c dims p ->
  params_equiv (run root c [StepK; StepS] p) (run root c [StepS; StepK] p).
Proof. exact kfl_order_irrelevant. Qed.
Print Assumptions C07_order_irrelevant.

(* ... and equivalent parameters compute the same function. *)
Theorem C07_equivalent_parameters_same_output : forall c p q u xs,
  params_equiv p q -> unit_out c q u xs == unit_out c p u xs.
Proof. exact equiv_same_output. Qed.
Print Assumptions C07_equivalent_parameters_same_output.

(* On every term whose scale is non-zero the kernel constraint is idempotent
   weight by weight. *)
Theorem C07_kernel_constraint_idempotent_per_term : forall root c dims s vs,
  root_ok root -> cfg_ok c dims -> tshape (c_size c) dims vs ->
  s == 0 \/ teq (Kt root c s (Kt root c s vs)) (Kt root c s vs).
Proof. intros root c dims s vs H. exact (Kt_settled root H c dims s vs). Qed.
Print Assumptions C07_kernel_constraint_idempotent_per_term.

(* Literal, weight-by-weight idempotence of the PARAMETERS is false: with a
   one-sided bound the scale constraint can clip a scale to 0, after which a
   further kernel constraint zeroes that term's weights (direction = sign(0)
   = 0 is multiplied into every dimension).  The output is unaffected
   (C07_idempotent + C07_equivalent_parameters_same_output).  Witness:
   lattice_sizes=2, monotonicities=[1], output_min=0, kernel [1,2], scale -1:
   K;S gives weights [3/2,3/2] with scale 0, K;S;K gives [0,0]. *)
Theorem C07_idempotent_params_refuted : exists c p,
  cfg_ok c 1 /\ shaped c 1 p /\
  ~ Forall2 (Forall2 teq) (p_kern (run qroot c [StepK; StepS] p))
                          (p_kern (run qroot c [StepK; StepS; StepK] p)).
Proof. exact idempotent_params_witness. Qed.
Print Assumptions C07_idempotent_params_refuted.

(* The hypotheses are jointly satisfiable. *)
Example C07_hypotheses_satisfiable : exists root c dims p steps ms xs ys,
  root_ok root /\ cfg_ok c dims /\ shaped c dims p /\ hasK steps = true /\ hasS steps = true /\
  canon_monos (c_monos c) = Some ms /\ coords_le ms xs ys /\
  in_range (c_size c) xs /\ in_range (c_size c) ys /\ length xs = dims /\
  (0 < length (p_scale p))%nat /\ nth 0 (p_bias p) 0 == bias_init1 (c_min c) (c_max c).
Proof. exact hypotheses_witness. Qed.

(* ------------------------------------------------------------------ *)
(* Histories WITH parameter updates ("signs that change between updates",
   "all orders in which kernel and scale are updated/constrained").
   Vocabulary (Proofs/KFLHistory.v):
     event               EStep st (a constraint application) | ESetScale s |
                         ESetKernel k | ESetBias b (variable.assign of an
                         ARBITRARY new value: any signs, zeros included)
     run_events          the parameters after a list of events
     events_ok           every assigned value has the variable's shape
     km_fresh es         a kernel constraint (K or F) occurs after the last
                         update of the kernel and of the scale
     kb_fresh es         a kernel constraint occurs after the last KERNEL update
     s_fresh es          a scale constraint (S or F) occurs after the last SCALE
                         update *)
From TFL Require Import Proofs.KFLHistory.

(* Monotonicity for every history of updates and constraint applications in
   which the kernel constraint was applied after the last update (whatever the
   earlier scale signs were, however often they changed), for in-range points,
   and for all points when clip_inputs is on; with or without bounds. *)
Theorem C07_monotone_history : forall root c dims p es ms u xs ys,
  root_ok root -> cfg_ok c dims -> shaped c dims p -> events_ok root c dims es p ->
  km_fresh es = true ->
  canon_monos (c_monos c) = Some ms ->
  coords_le ms xs ys ->
  c_clip c = true \/ (in_range (c_size c) xs /\ in_range (c_size c) ys) ->
  unit_out c (run_events root c es p) u xs <= unit_out c (run_events root c es p) u ys.
Proof. intros root c dims p es ms u xs ys H. exact (kfl_monotone_history root H c dims p es ms u xs ys). Qed.
Print Assumptions C07_monotone_history.

(* Bounds for every history in which the kernel constraint was applied after the
   last kernel update and the scale constraint after the last scale update: the
   scale may change sign AFTER the kernel constraint (the bound part of the kernel
   constraint does not read the scale).  No monotonicity hypothesis: holds
   whether or not any monotonicity is configured.  The bias is required to be
   at its fixed value at evaluation time. *)
Theorem C07_bounded_history : forall root c dims p es u xs,
  root_ok root -> cfg_ok c dims -> shaped c dims p -> events_ok root c dims es p ->
  kb_fresh es = true -> s_fresh es = true ->
  (u < length (p_scale (run_events root c es p)))%nat ->
  nth u (p_bias (run_events root c es p)) 0 == bias_init1 (c_min c) (c_max c) ->
  length xs = dims -> c_clip c = true \/ in_range (c_size c) xs ->
  (forall lo, c_min c = Some lo -> lo <= unit_out c (run_events root c es p) u xs) /\
  (forall hi, c_max c = Some hi -> unit_out c (run_events root c es p) u xs <= hi).
Proof. intros root c dims p es u xs H. exact (kfl_bounded_history root H c dims p es u xs). Qed.
Print Assumptions C07_bounded_history.

(* A history of constraint applications only is the special case of C07_monotone
   / C07_bounded: same parameters, same flags. *)
Theorem C07_history_of_steps : forall root c steps p,
  run_events root c (map EStep steps) p = run root c steps p /\
  km_fresh (map EStep steps) = hasK steps /\ kb_fresh (map EStep steps) = hasK steps /\
  s_fresh (map EStep steps) = hasS steps.
Proof. intros root c steps p. split; [apply run_events_steps|].
  unfold km_fresh, kb_fresh, s_fresh. rewrite !kflag_steps, sflag_steps. auto. Qed.
Print Assumptions C07_history_of_steps.

(* The constraints never move the bias; only a bias update does. *)
Theorem C07_bias_untouched_by_constraints : forall root c es p,
  no_bias_update es = true -> p_bias (run_events root c es p) = p_bias p.
Proof. intros root c es p. exact (run_events_bias root c es p). Qed.
Print Assumptions C07_bias_untouched_by_constraints.

(* THE BOUNDARY OF THE CLAIM.  The interleaving
     kernel.constraint (against the old scale signs) ; scale update that flips a
     sign ; scale.constraint
   (the per-variable order of a Keras optimizer step in which the scale changes
   sign) satisfies kb_fresh and s_fresh - the output is within the bounds - but
   not km_fresh, and the output is DECREASING in an input declared increasing:
   lattice_sizes=2, monotonicities=[1], bounds [0,1], kernel (0,1), scale +1 -> -1:
   f(0) = 1/2 > f(1) = 0.  "Once the constraints have been applied" therefore has
   to be read as: the kernel constraint was applied after the last sign change
   (C07_monotone_history); LIMITS item 1 of harness/props/c07.py. *)
Theorem C07_monotone_after_stale_kernel_constraint_refuted : exists root c dims p es ms u xs ys,
  root_ok root /\ cfg_ok c dims /\ shaped c dims p /\ events_ok root c dims es p /\
  kb_fresh es = true /\ s_fresh es = true /\ km_fresh es = false /\
  canon_monos (c_monos c) = Some ms /\ coords_le ms xs ys /\
  in_range (c_size c) xs /\ in_range (c_size c) ys /\
  unit_out c (run_events root c es p) u ys < unit_out c (run_events root c es p) u xs.
Proof. exact stale_kernel_constraint_witness. Qed.
Print Assumptions C07_monotone_after_stale_kernel_constraint_refuted.

(* The fixed-bias hypothesis of C07_bounded / C07_bounded_history is needed:
   assigning the (non-trainable) bias of a bounded layer moves the output out of
   the bounds. *)
Theorem C07_bounded_with_moved_bias_refuted : exists root c dims p es u xs hi,
  root_ok root /\ cfg_ok c dims /\ shaped c dims p /\ events_ok root c dims es p /\
  kb_fresh es = true /\ s_fresh es = true /\ in_range (c_size c) xs /\ length xs = dims /\
  c_max c = Some hi /\ hi < unit_out c (run_events root c es p) u xs.
Proof. exact moved_bias_witness. Qed.
Print Assumptions C07_bounded_with_moved_bias_refuted.

(* The hypotheses of the two history theorems are jointly satisfiable by a
   history with updates of kernel, scale (sign flipped) and bias. *)
Example C07_history_hypotheses_satisfiable : exists root c dims p es ms xs ys,
  root_ok root /\ cfg_ok c dims /\ shaped c dims p /\ events_ok root c dims es p /\
  km_fresh es = true /\ kb_fresh es = true /\ s_fresh es = true /\
  canon_monos (c_monos c) = Some ms /\ coords_le ms xs ys /\
  in_range (c_size c) xs /\ in_range (c_size c) ys /\ length xs = dims /\
  (0 < length (p_scale (run_events root c es p)))%nat /\
  nth 0 (p_bias (run_events root c es p)) 0 == bias_init1 (c_min c) (c_max c).
Proof. exact history_hypotheses_witness. Qed.
