From TFL Require Import Model.KFL Proofs.KFL.
Open Scope Q_scope.
Theorem C07_placeholder : qsgn 0 = 0.
Proof. exact placeholder_sgn. Qed.
Print Assumptions C07_placeholder.
