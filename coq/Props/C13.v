(* C13 — Regularizers compute the documented Laplacian / torsion / Hessian /
   wrinkle penalties.  Property theorems only; proofs live in
   Proofs/Regularizers.v.

   Vocabulary (Model/Regularizers.v unless stated):
     lattice_laplacian / lattice_torsion / pwl_laplacian / pwl_hessian / pwl_wrinkle
         code-shaped models (slicing, glue, early returns as in the code);
     doc_laplacian / doc_torsion / doc_pwl_*
         the documented formulas, written independently (sums over vertices and
         dimensions / dimension pairs of the (prod(sizes), units) kernel matrix;
         l1/l2 norms of first/second/third differences of the cumulative keypoint
         outputs, indices modulo the number of rows when cyclic);
     Proofs/Regularizers.v: wf units x (every kernel row has `units` entries),
         amount_ok rank a (a per-dimension list is not longer than the rank),
         amount_nonneg, outputs x u (keypoint outputs of unit u), idxQ (index as a
         rational), sep_sum (sum over dimensions of f_d(v_d)), edge_sum / pair_form
         (l1 or l2 sum over the edges along one dimension / over the 2x2 squares of
         one dimension pair of the tensor the code works on, lap_shape).

   Square roots: only the scalar torsion amount uses one (the code expands a
   scalar l to [math.sqrt(l)] * rank and multiplies two factors).
   C13_torsion_scalar_sqrt_oracle assumes an EXACT root s*s == l (idealised:
   over Q satisfiable only for rational squares; it is the instance of
   C13_torsion_scalar_any_root where the root happens to be exact).
   C13_torsion_scalar_any_root (no hypothesis on the root) and
   C13_torsion_scalar_approximate_root (relative error e) hold for every
   amount; proofs in Proofs/SqrtRobust.v (module TorsionRoot).  No other
   theorem of this file involves a root. *)
From TFL Require Import Model.Regularizers Proofs.Regularizers.
From TFL Require Proofs.SqrtRobust.
Open Scope Q_scope.

(* ---------------- code-shaped == documented ---------------- *)

Theorem C13_laplacian_is_documented_sum : forall sizes units l1 l2 w,
  (1 <= units)%nat -> amount_ok (length sizes) l1 -> amount_ok (length sizes) l2 ->
  lattice_laplacian sizes units l1 l2 w == doc_laplacian sizes units l1 l2 w.
Proof. exact lattice_laplacian_doc. Qed.
Print Assumptions C13_laplacian_is_documented_sum.

Theorem C13_torsion_is_documented_sum : forall sizes units l1 l2 w,
  (1 <= units)%nat -> amount_ok (length sizes) l1 -> amount_ok (length sizes) l2 ->
  lattice_torsion sizes units l1 l2 w == doc_torsion sizes units l1 l2 w.
Proof. exact lattice_torsion_doc. Qed.
Print Assumptions C13_torsion_is_documented_sum.

(* cyclic or not; a cyclic kernel needs at least one row *)
Theorem C13_pwl_laplacian_is_documented_sum : forall l1 l2 cyclic units x,
  wf units x -> (cyclic = true -> 1 <= length x)%nat ->
  pwl_laplacian l1 l2 cyclic units x == doc_pwl_laplacian l1 l2 cyclic units x.
Proof. exact pwl_laplacian_doc. Qed.
Print Assumptions C13_pwl_laplacian_is_documented_sum.

Theorem C13_pwl_hessian_is_documented_sum : forall l1 l2 cyclic units x,
  wf units x -> (cyclic = true -> 2 <= length x)%nat ->
  pwl_hessian l1 l2 cyclic units x == doc_pwl_hessian l1 l2 cyclic units x.
Proof. exact pwl_hessian_doc. Qed.
Print Assumptions C13_pwl_hessian_is_documented_sum.

Theorem C13_pwl_wrinkle_is_documented_sum : forall l1 l2 cyclic units x,
  wf units x -> (3 <= length x)%nat ->
  pwl_wrinkle l1 l2 cyclic units x == doc_pwl_wrinkle l1 l2 cyclic units x.
Proof. exact pwl_wrinkle_doc. Qed.
Print Assumptions C13_pwl_wrinkle_is_documented_sum.

(* the `< 3 rows` rule: the value is 0; without is_cyclic that is also the
   documented sum (there are no third differences).  With is_cyclic and two rows
   the wrapped third differences are NOT zero in general (Example
   wrinkle_two_rows_cyclic below), which is why the property excludes it. *)
Theorem C13_pwl_wrinkle_below_three_rows : forall l1 l2 cyclic units x, (length x < 3)%nat ->
  pwl_wrinkle l1 l2 cyclic units x = 0 /\
  pwl_wrinkle l1 l2 false units x == doc_pwl_wrinkle l1 l2 false units x.
Proof. intros l1 l2 cyclic units x H. split. exact (pwl_wrinkle_small l1 l2 cyclic units x H).
  exact (pwl_wrinkle_doc_small l1 l2 units x H). Qed.
Print Assumptions C13_pwl_wrinkle_below_three_rows.

Example wrinkle_two_rows_cyclic :
  pwl_wrinkle 1 0 true 1 [[0]; [1]] == 0 /\ doc_pwl_wrinkle 1 0 true 1 [[0]; [1]] == 8.
Proof. split; vm_compute; reflexivity. Qed.

(* ---------------- non-negative, linear in the amounts ---------------- *)

Theorem C13_nonneg :
  (forall sizes units l1 l2 w, amount_nonneg l1 -> amount_nonneg l2 -> 0 <= lattice_laplacian sizes units l1 l2 w) /\
  (forall sizes units l1 l2 w, amount_nonneg l1 -> amount_nonneg l2 -> 0 <= lattice_torsion sizes units l1 l2 w) /\
  (forall l1 l2 cyclic units x, 0 <= l1 -> 0 <= l2 -> 0 <= pwl_laplacian l1 l2 cyclic units x) /\
  (forall l1 l2 cyclic units x, 0 <= l1 -> 0 <= l2 -> 0 <= pwl_hessian l1 l2 cyclic units x) /\
  (forall l1 l2 cyclic units x, 0 <= l1 -> 0 <= l2 -> 0 <= pwl_wrinkle l1 l2 cyclic units x).
Proof. exact (conj lattice_laplacian_nonneg (conj lattice_torsion_nonneg
  (conj pwl_laplacian_nonneg (conj pwl_hessian_nonneg pwl_wrinkle_nonneg)))). Qed.
Print Assumptions C13_nonneg.

(* R(l1, l2) = l1 * R(1, 0) + l2 * R(0, 1) *)
Theorem C13_linear_in_l1_l2 :
  (forall sizes units q1 q2 w,
     lattice_laplacian sizes units (Scalar q1) (Scalar q2) w ==
     q1 * lattice_laplacian sizes units (Scalar 1) (Scalar 0) w + q2 * lattice_laplacian sizes units (Scalar 0) (Scalar 1) w) /\
  (forall sizes units q1 q2 w,
     lattice_torsion sizes units (Scalar q1) (Scalar q2) w ==
     q1 * lattice_torsion sizes units (Scalar 1) (Scalar 0) w + q2 * lattice_torsion sizes units (Scalar 0) (Scalar 1) w) /\
  (forall l1 l2 cyclic units x,
     pwl_laplacian l1 l2 cyclic units x == l1 * pwl_laplacian 1 0 cyclic units x + l2 * pwl_laplacian 0 1 cyclic units x) /\
  (forall l1 l2 cyclic units x,
     pwl_hessian l1 l2 cyclic units x == l1 * pwl_hessian 1 0 cyclic units x + l2 * pwl_hessian 0 1 cyclic units x) /\
  (forall l1 l2 cyclic units x,
     pwl_wrinkle l1 l2 cyclic units x == l1 * pwl_wrinkle 1 0 cyclic units x + l2 * pwl_wrinkle 0 1 cyclic units x).
Proof. exact (conj lattice_laplacian_linear (conj lattice_torsion_linear
  (conj pwl_laplacian_linear (conj pwl_hessian_linear pwl_wrinkle_linear)))). Qed.
Print Assumptions C13_linear_in_l1_l2.

(* scalar or per-dimension amounts: the l1 part and the l2 part add up *)
Theorem C13_l1_l2_parts_add : forall sizes units l1 l2 w,
  amount_ok (length sizes) l1 -> amount_ok (length sizes) l2 ->
  lattice_laplacian sizes units l1 l2 w ==
    lattice_laplacian sizes units l1 (Scalar 0) w + lattice_laplacian sizes units (Scalar 0) l2 w /\
  lattice_torsion sizes units l1 l2 w ==
    lattice_torsion sizes units l1 (Scalar 0) w + lattice_torsion sizes units (Scalar 0) l2 w.
Proof. intros sizes units l1 l2 w H1 H2.
  exact (conj (lattice_laplacian_additive sizes units l1 l2 w H1 H2) (lattice_torsion_additive sizes units l1 l2 w H1 H2)). Qed.
Print Assumptions C13_l1_l2_parts_add.

(* ---------------- per-dimension amounts ---------------- *)

(* Laplacian: the amount of dimension d weights exactly the edges along d; the
   units dimension carries no weight.  Torsion: the pair (i, j) of lattice
   dimensions is weighted by amount_i * amount_j (a scalar amount weights every
   pair by itself); a scalar Laplacian amount is the same as that amount in
   every dimension. *)
Theorem C13_per_dim_amounts :
  (forall sizes units l1 l2 w, amount_ok (length sizes) l1 -> amount_ok (length sizes) l2 ->
     lattice_laplacian sizes units l1 l2 w ==
     qsum (map (fun d => amt l1 d * edge_sum (lap_shape sizes units) d qabs (reshape (lap_shape sizes units) w) +
                         amt l2 d * edge_sum (lap_shape sizes units) d sq (reshape (lap_shape sizes units) w))
               (seq 0 (length sizes)))) /\
  (forall sizes units l1 l2 w, amount_ok (length sizes) l1 -> amount_ok (length sizes) l2 ->
     lattice_torsion sizes units l1 l2 w ==
     qsum (map (fun ij => pair_form (lap_shape sizes units) (pair_amt l1) (pair_amt l2)
                                    (reshape (lap_shape sizes units) w) (fst ij) (snd ij))
               (dim_pairs (length sizes)))) /\
  (forall sizes units q1 q2 w,
     lattice_laplacian sizes units (Scalar q1) (Scalar q2) w ==
     lattice_laplacian sizes units (PerDim (repeat q1 (length sizes))) (PerDim (repeat q2 (length sizes))) w).
Proof. exact (conj lattice_laplacian_per_dim (conj lattice_torsion_pairs lattice_laplacian_scalar_broadcast)). Qed.
Print Assumptions C13_per_dim_amounts.

(* linear in the vectors of per-dimension Laplacian amounts *)
Theorem C13_per_dim_amounts_linear : forall sizes units (a a' b b' : list Q) (c c' : Q) w,
  length a = length sizes -> length a' = length sizes -> length b = length sizes -> length b' = length sizes ->
  lattice_laplacian sizes units (PerDim (map2 (fun x y => c * x + c' * y) a a'))
                                (PerDim (map2 (fun x y => c * x + c' * y) b b')) w ==
  c * lattice_laplacian sizes units (PerDim a) (PerDim b) w + c' * lattice_laplacian sizes units (PerDim a') (PerDim b') w.
Proof. exact lattice_laplacian_per_dim_linear. Qed.
Print Assumptions C13_per_dim_amounts_linear.

(* The code turns a scalar torsion amount l into the per-dimension factors
   [sqrt(l)] * rank.  The model has no square root; for ANY s with s*s == l the
   literal per-dimension list gives the model's value for the scalar. *)
Theorem C13_torsion_scalar_sqrt_oracle : forall sizes units (s1 s2 q1 q2 : Q) w,
  s1 * s1 == q1 -> s2 * s2 == q2 ->
  lattice_torsion sizes units (PerDim (repeat s1 (length sizes))) (PerDim (repeat s2 (length sizes))) w ==
  lattice_torsion sizes units (Scalar q1) (Scalar q2) w.
Proof. exact tors_sqrt_oracle. Qed.
Print Assumptions C13_torsion_scalar_sqrt_oracle.

(* The general fact, for EVERY r1 r2 (r_i = whatever math.sqrt(l_i) returned):
   the per-dimension lists [r_i] * rank give the model's value for the scalar
   amounts r_i * r_i, which is the documented sum with pair weight r_i * r_i and
   differs from the documented sum with weight l_i by (r_i * r_i - l_i) times the
   unit-amount penalty. *)
Theorem C13_torsion_scalar_any_root : forall sizes units (r1 r2 l1 l2 : Q) w, (1 <= units)%nat ->
  let code := lattice_torsion sizes units (PerDim (repeat r1 (length sizes))) (PerDim (repeat r2 (length sizes))) w in
  code == lattice_torsion sizes units (Scalar (r1 * r1)) (Scalar (r2 * r2)) w /\
  code == doc_torsion sizes units (Scalar (r1 * r1)) (Scalar (r2 * r2)) w /\
  code - doc_torsion sizes units (Scalar l1) (Scalar l2) w ==
    (r1 * r1 - l1) * doc_torsion sizes units (Scalar 1) (Scalar 0) w +
    (r2 * r2 - l2) * doc_torsion sizes units (Scalar 0) (Scalar 1) w.
Proof. intros sizes units r1 r2 l1 l2 w Hu.
  exact (conj (SqrtRobust.TorsionRoot.tors_scalar_any_root sizes units r1 r2 w)
              (SqrtRobust.TorsionRoot.tors_scalar_any_root_doc sizes units r1 r2 l1 l2 w Hu)). Qed.
Print Assumptions C13_torsion_scalar_any_root.

(* roots with relative error e in the square (what math.sqrt guarantees, e about
   2^-52): the penalty is within the same relative error of the documented sum *)
Theorem C13_torsion_scalar_approximate_root : forall sizes units (r1 r2 l1 l2 e : Q) w, (1 <= units)%nat ->
  (1 - e) * l1 <= r1 * r1 -> r1 * r1 <= (1 + e) * l1 ->
  (1 - e) * l2 <= r2 * r2 -> r2 * r2 <= (1 + e) * l2 ->
  let code := lattice_torsion sizes units (PerDim (repeat r1 (length sizes))) (PerDim (repeat r2 (length sizes))) w in
  (1 - e) * doc_torsion sizes units (Scalar l1) (Scalar l2) w <= code /\
  code <= (1 + e) * doc_torsion sizes units (Scalar l1) (Scalar l2) w.
Proof. exact SqrtRobust.TorsionRoot.tors_scalar_approx_root. Qed.
Print Assumptions C13_torsion_scalar_approximate_root.

(* satisfiable for the non-square amount 2 with the rational root 99/70, e = 1/9800 *)
Example C13_torsion_root_two_example :
  let r := 99 # 70 in let e := 1 # 9800 in let w := [0; 0; 0; 1] in
  (1 - e) * 2 <= r * r /\ r * r <= (1 + e) * 2 /\ ~ r * r == 2 /\
  doc_torsion [2; 2]%nat 1 (Scalar 2) (Scalar 2) w == 4 /\
  lattice_torsion [2; 2]%nat 1 (PerDim (repeat r 2)) (PerDim (repeat r 2)) w == 2 * (r * r) /\
  (1 - e) * 4 <= 2 * (r * r) /\ 2 * (r * r) <= (1 + e) * 4.
Proof. exact SqrtRobust.TorsionRoot.tors_root_two. Qed.

(* ---------------- zeros ---------------- *)

(* Laplacians vanish on constant functions (lattice: per unit constant kernel;
   PWL: constant keypoint outputs, cyclic or not) *)
Theorem C13_laplacian_zero_on_constants :
  (forall sizes units l1 l2 w (cst : nat -> Q),
     (1 <= units)%nat -> amount_ok (length sizes) l1 -> amount_ok (length sizes) l2 ->
     (forall u v, (u < units)%nat -> valid sizes v -> kernel_at sizes units w u v == cst u) ->
     lattice_laplacian sizes units l1 l2 w == 0) /\
  (forall l1 l2 units x, wf units x -> forall cst : nat -> Q,
     (forall u i, (u < units)%nat -> (i < length x)%nat -> nth i (outputs x u) 0 == cst u) ->
     forall cyclic, (1 <= length x)%nat -> pwl_laplacian l1 l2 cyclic units x == 0).
Proof. exact (conj lattice_laplacian_zero_const pwl_laplacian_zero_const). Qed.
Print Assumptions C13_laplacian_zero_on_constants.

(* torsion vanishes on additively separable kernels K_u[v] = sum_d f u d (v_d) *)
Theorem C13_torsion_zero_on_separable : forall sizes units l1 l2 w (f : nat -> nat -> nat -> Q),
  (1 <= units)%nat -> amount_ok (length sizes) l1 -> amount_ok (length sizes) l2 ->
  (forall u v, (u < units)%nat -> valid sizes v -> kernel_at sizes units w u v == sep_sum (f u) (length sizes) v) ->
  lattice_torsion sizes units l1 l2 w == 0.
Proof. exact lattice_torsion_zero_separable. Qed.
Print Assumptions C13_torsion_zero_on_separable.

(* Hessian vanishes when the keypoint outputs are linear in the keypoint index *)
Theorem C13_hessian_zero_on_linear_index : forall l1 l2 units x, wf units x -> forall a b : nat -> Q,
  (forall u i, (u < units)%nat -> (i < length x)%nat -> nth i (outputs x u) 0 == a u + b u * idxQ i) ->
  pwl_hessian l1 l2 false units x == 0.
Proof. exact pwl_hessian_zero_linear. Qed.
Print Assumptions C13_hessian_zero_on_linear_index.

(* wrinkle vanishes when the keypoint outputs are quadratic in the keypoint index *)
Theorem C13_wrinkle_zero_on_quadratic_index : forall l1 l2 units x, wf units x -> forall a b c : nat -> Q,
  (forall u i, (u < units)%nat -> (i < length x)%nat ->
     nth i (outputs x u) 0 == a u + b u * idxQ i + c u * (idxQ i * idxQ i)) ->
  pwl_wrinkle l1 l2 false units x == 0.
Proof. exact pwl_wrinkle_zero_quadratic. Qed.
Print Assumptions C13_wrinkle_zero_on_quadratic_index.

(* cyclic variants: with the wrap-around terms a linear / quadratic ramp is no
   longer free (Example linear_outputs_example in Proofs/Regularizers.v); the
   cyclic Hessian and wrinkle regularizers (and the non-cyclic ones) vanish on
   constant keypoint outputs *)
Theorem C13_cyclic_zero_on_constants : forall l1 l2 units x (cst : nat -> Q) cyclic, wf units x ->
  (forall u i, (u < units)%nat -> (i < length x)%nat -> nth i (outputs x u) 0 == cst u) ->
  ((2 <= length x)%nat -> pwl_hessian l1 l2 cyclic units x == 0) /\ pwl_wrinkle l1 l2 cyclic units x == 0.
Proof. intros l1 l2 units x cst cyclic Hwf Hc.
  exact (conj (pwl_hessian_zero_const l1 l2 units x Hwf cst Hc cyclic) (pwl_wrinkle_zero_const l1 l2 units x Hwf cst Hc cyclic)). Qed.
Print Assumptions C13_cyclic_zero_on_constants.

(* ---------------- the hypotheses are satisfiable ---------------- *)

(* amounts: a per-dimension list with zeros for a rank-3 lattice, a scalar, an exact root *)
Example amounts_example :
  amount_ok 3 (PerDim [1; 0; 2]) /\ amount_nonneg (PerDim [1; 0; 2]) /\ amount_ok 3 (Scalar (1#4)) /\
  amount_nonneg (Scalar (1#4)) /\ (1#2) * (1#2) == 1#4.
Proof. repeat split; cbn; try lia; try reflexivity.
  - intros x [<-|[<-|[<-|[]]]]; discriminate.
  - discriminate. Qed.

(* a separable 2x3 kernel (f_0 = (0, 1), f_1 = (0, 2, 5)), 1 unit: torsion 0, Laplacian not *)
Example separable_example :
  let sizes := [2; 3]%nat in let w := [0; 2; 5; 1; 3; 6] in
  let f := fun (_ d k : nat) => nth k (nth d [[0; 1]; [0; 2; 5]] []) 0 in
  amount_ok (length sizes) (PerDim [1; 2]) /\
  (forall u v, (u < 1)%nat -> valid sizes v -> kernel_at sizes 1 w u v == sep_sum (f u) (length sizes) v) /\
  lattice_torsion sizes 1 (PerDim [1; 2]) (Scalar 1) w == 0 /\
  ~ lattice_laplacian sizes 1 (PerDim [1; 2]) (Scalar 1) w == 0.
Proof. cbv zeta. split; [|split; [|split]].
  - cbn. lia.
  - intros u v Hu Hv. assert (u = 0%nat) by lia. subst u. apply all_idx_valid in Hv. cbn in Hv.
    repeat (destruct Hv as [<-|Hv]; [vm_compute; reflexivity|]). destruct Hv.
  - vm_compute. reflexivity.
  - vm_compute. discriminate. Qed.

(* quadratic keypoint outputs 1, 2, 5, 10, 17 (y_i = 1 + i^2): wrinkle 0, Hessian not *)
Example quadratic_outputs_example :
  let x := [[1]; [1]; [3]; [5]; [7]] in
  wf 1 x /\
  (forall u i, (u < 1)%nat -> (i < length x)%nat -> nth i (outputs x u) 0 == 1 + 0 * idxQ i + 1 * (idxQ i * idxQ i)) /\
  pwl_wrinkle 1 1 false 1 x == 0 /\ ~ pwl_hessian 1 1 false 1 x == 0.
Proof. cbv zeta. split; [|split; [|split]].
  - intros r [<-|[<-|[<-|[<-|[<-|[]]]]]]; reflexivity.
  - intros u i Hu Hi. cbn [length] in Hi. assert (u = 0%nat) by lia. subst u.
    destruct i as [|[|[|[|[|i]]]]]; try lia; vm_compute; reflexivity.
  - vm_compute. reflexivity.
  - vm_compute. discriminate. Qed.

(* ------------------------------------------------------------------ *)
(* The zero clauses and is_cyclic.  "Hessian vanishes on outputs linear in the
   index, wrinkle on outputs quadratic in the index" holds for NON-cyclic
   calibrators only (C13_hessian_zero_on_linear_index / C13_wrinkle_zero_on_
   quadratic_index have cyclic = false in their conclusions); here the guard is a
   hypothesis, and for is_cyclic the exact value is given: the documented sum has
   one difference per keypoint with wrapped indices, the interior differences of
   the ramp vanish and exactly the wrap-around differences remain
   (Proofs/RegularizersCyclic.v). *)
From TFL Require Import Proofs.RegularizersCyclic.

Theorem C13_zero_clauses_non_cyclic_guard : forall l1 l2 units x cyclic, wf units x -> cyclic = false ->
  (forall a b : nat -> Q,
     (forall u i, (u < units)%nat -> (i < length x)%nat -> nth i (outputs x u) 0 == a u + b u * idxQ i) ->
     pwl_hessian l1 l2 cyclic units x == 0) /\
  (forall a b c : nat -> Q,
     (forall u i, (u < units)%nat -> (i < length x)%nat ->
        nth i (outputs x u) 0 == a u + b u * idxQ i + c u * (idxQ i * idxQ i)) ->
     pwl_wrinkle l1 l2 cyclic units x == 0).
Proof. intros l1 l2 units x cyclic Hwf ->. split.
  - intros a b H. exact (pwl_hessian_zero_linear l1 l2 units x Hwf a b H).
  - intros a b c H. exact (pwl_wrinkle_zero_quadratic l1 l2 units x Hwf a b c H). Qed.
Print Assumptions C13_zero_clauses_non_cyclic_guard.

(* is_cyclic, outputs y_i = a + b i on k >= 2 rows: the cyclic Hessian regularizer is
   the l1/l2 norm of the two wrap-around second differences k b and -(k b), summed
   over the units: sum_u l1 * 2 k |b_u| + l2 * 2 (k b_u)^2. *)
Theorem C13_cyclic_hessian_on_linear_index : forall l1 l2 units x, wf units x -> forall a b : nat -> Q,
  (2 <= length x)%nat ->
  (forall u i, (u < units)%nat -> (i < length x)%nat -> nth i (outputs x u) 0 == a u + b u * idxQ i) ->
  pwl_hessian l1 l2 true units x ==
  qsum (map (fun u => doc_norms l1 l2 (hessian_wrap_terms (length x) (b u))) (seq 0 units)).
Proof. exact pwl_hessian_cyclic_linear. Qed.
Print Assumptions C13_cyclic_hessian_on_linear_index.

(* is_cyclic, outputs y_i = a + b i + c i^2 on k >= 3 rows: the cyclic wrinkle regularizer
   is the l1/l2 norm of the three wrap-around third differences
   -(k b + k^2 c), 2 k b + (2 k^2 - 2 k) c, -(k b) + (2 k - k^2) c, summed over the units. *)
Theorem C13_cyclic_wrinkle_on_quadratic_index : forall l1 l2 units x, wf units x -> forall a b c : nat -> Q,
  (3 <= length x)%nat ->
  (forall u i, (u < units)%nat -> (i < length x)%nat ->
     nth i (outputs x u) 0 == a u + b u * idxQ i + c u * (idxQ i * idxQ i)) ->
  pwl_wrinkle l1 l2 true units x ==
  qsum (map (fun u => doc_norms l1 l2 (wrinkle_wrap_terms (length x) (b u) (c u))) (seq 0 units)).
Proof. exact pwl_wrinkle_cyclic_quadratic. Qed.
Print Assumptions C13_cyclic_wrinkle_on_quadratic_index.

(* The zero clauses WITHOUT the non-cyclic guard are false.  Linear outputs
   1, 3, 5, 7: non-cyclic Hessian 0, cyclic Hessian 144 (= 8 + 8 + 64 + 64, the
   closed form above; both hypotheses of that theorem are satisfied here). *)
Theorem C13_hessian_zero_on_linear_index_cyclic_refuted :
  let x := [[1]; [2]; [2]; [2]] in
  wf 1 x /\
  (forall u i, (u < 1)%nat -> (i < length x)%nat -> nth i (outputs x u) 0 == 1 + 2 * idxQ i) /\
  pwl_hessian 1 1 false 1 x == 0 /\ pwl_hessian 1 1 true 1 x == 144 /\
  qsum (map (fun u => doc_norms 1 1 (hessian_wrap_terms (length x) 2)) (seq 0 1)) == 144.
Proof. exact cyclic_hessian_linear_witness. Qed.
Print Assumptions C13_hessian_zero_on_linear_index_cyclic_refuted.

(* Quadratic outputs 1, 2, 5, 10, 17: non-cyclic wrinkle 0, cyclic wrinkle 80
   (= 25 + 40 + 15 with l1 = 1, l2 = 0). *)
Theorem C13_wrinkle_zero_on_quadratic_index_cyclic_refuted :
  let x := [[1]; [1]; [3]; [5]; [7]] in
  wf 1 x /\
  (forall u i, (u < 1)%nat -> (i < length x)%nat -> nth i (outputs x u) 0 == 1 + 0 * idxQ i + 1 * (idxQ i * idxQ i)) /\
  pwl_wrinkle 1 0 false 1 x == 0 /\ pwl_wrinkle 1 0 true 1 x == 80 /\
  qsum (map (fun u => doc_norms 1 0 (wrinkle_wrap_terms (length x) 0 1)) (seq 0 1)) == 80.
Proof. exact cyclic_wrinkle_quadratic_witness. Qed.
Print Assumptions C13_wrinkle_zero_on_quadratic_index_cyclic_refuted.
