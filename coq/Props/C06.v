(* C06 — Linear / categorical weight constraints.  Property theorems only. *)
From TFL Require Import Model.LinearProject Proofs.PartialOrder.
Open Scope Q_scope.

(* The partial-order projection (shared by Linear dominances and categorical
   ordering pairs), for every pair list and every valid topological order of it:
   the result satisfies every pair. *)
Theorem C06_partial_order_feasible : forall ps s w,
  topo_ok ps s -> (forall v, In v s -> (v < length w)%nat) -> feasible ps (po_with_order ps s w).
Proof. exact po_with_order_feasible. Qed.
Print Assumptions C06_partial_order_feasible.

(* Weights that already satisfy every pair are returned unchanged. *)
Theorem C06_partial_order_feasible_fixed : forall ps s w,
  feasible ps w -> peq (po_with_order ps s w) w.
Proof. exact po_with_order_fixed. Qed.
Print Assumptions C06_partial_order_feasible_fixed.
