(* C06 — Linear / categorical weight constraints.  Property theorems only;
   proofs live in Proofs/PartialOrder.v, Proofs/TopoSort.v, Proofs/LinearProject.v,
   Proofs/SqrtRobust.v.
   All statements are about ONE column (unit) of the weight matrix;
   C06_per_unit / C06_categorical_per_unit lift them to the (dims, units) matrix.

   The square root of the order-2 norm (rt : Q -> Q):
   - NO hypothesis on rt (any function, any values): C06_linear_defined, C06_signs,
     C06_monotonic_dominance, C06_range_dominance(_explicit), C06_norm_one_or_zero (order 1),
     C06_norm_preserves_constraints, C06_linear_feasible_fixed(_l1), C06_per_unit,
     C06_linear_matrix_defined, and C06_norm_l2_any_root (exact identity
     ||r||^2 * rt(S)^2 == S);
   - APPROXIMATE root ((1-e) S <= rt(S)^2 <= (1+e) S, what a floating-point or
     Newton root guarantees; satisfiable for every S): C06_norm_l2_approximate_root;
   - the EXECUTED root qsqrt (truncated Newton, the one the correspondence check
     runs): C06_executed_root_bounds, C06_norm_l2_executed_root,
     C06_linear_feasible_fixed_l2_executed_root;
   - IDEALISED exact root (rt(S)^2 == S, satisfiable only when S is a rational
     square; the e = 0 instance of the approximate theorem):
     C06_norm_one_or_zero_l2; exact at 1 only: C06_linear_feasible_fixed_l2. *)
From TFL Require Import Model.LinearProject Proofs.PartialOrder Proofs.TopoSort Proofs.LinearProject.
From TFL Require Import Proofs.SqrtRobust.
Open Scope Q_scope.

(* ---------------- shared partial-order projection ---------------- *)
(* For every pair list and every valid topological order of it: the result
   satisfies every pair. *)
Theorem C06_partial_order_feasible : forall ps s w,
  topo_ok ps s -> (forall v, In v s -> (v < length w)%nat) -> feasible ps (po_with_order ps s w).
Proof. exact po_with_order_feasible. Qed.
Print Assumptions C06_partial_order_feasible.

(* Weights that already satisfy every pair are returned unchanged. *)
Theorem C06_partial_order_feasible_fixed : forall ps s w,
  feasible ps w -> peq (po_with_order ps s w) w.
Proof. exact po_with_order_fixed. Qed.
Print Assumptions C06_partial_order_feasible_fixed.

(* The DFS topological sort (_topological_sort) on EVERY non-empty acyclic pair
   list: no "Circular" error, the model's fuel suffices, and the returned order
   is a valid topological order consisting of nodes of the pairs.
   path ps a b = non-empty chain of pairs from a to b; acyclic ps = no path a a. *)
Theorem C06_toposort_correct : forall ps, ps <> [] -> acyclic ps ->
  exists s, toposort ps = TopoOk s /\ topo_ok ps s /\ (forall v, In v s -> In v (nodes ps)).
Proof. exact toposort_correct_nodes. Qed.
Print Assumptions C06_toposort_correct.

(* ---------------- CategoricalCalibration ---------------- *)
Theorem C06_categorical_defined : forall ps lo hi w, acyclic ps -> pairs_in_range ps w ->
  exists r, cat_project_col ps lo hi w = Some r /\ length r = length w.
Proof. exact cat_defined. Qed.
Print Assumptions C06_categorical_defined.

(* every ordering pair of every acyclic pair list holds after projection + clip *)
Theorem C06_categorical_pairs : forall ps lo hi w r, ps <> [] -> acyclic ps -> pairs_in_range ps w ->
  cat_project_col ps lo hi w = Some r -> feasible ps r.
Proof. exact cat_pairs. Qed.
Print Assumptions C06_categorical_pairs.

(* every entry is <= output_max, and >= output_min (when output_min <= output_max) *)
Theorem C06_categorical_bounds : forall ps lo hi w r, cat_project_col ps lo hi w = Some r -> forall x, In x r ->
  (forall h, hi = Some h -> x <= h) /\ (forall l, lo = Some l -> (forall h, hi = Some h -> l <= h) -> l <= x).
Proof. exact cat_bounds. Qed.
Print Assumptions C06_categorical_bounds.

Theorem C06_categorical_feasible_fixed : forall ps lo hi w r,
  feasible ps w -> (forall x, In x w -> within lo hi x) -> cat_project_col ps lo hi w = Some r -> peq r w.
Proof. exact cat_fixed. Qed.
Print Assumptions C06_categorical_feasible_fixed.

(* ---------------- Linear ---------------- *)
(* lin_valid c n = what verify_hyperparameters guarantees for n inputs, plus
   acyclicity of the two dominance graphs (see Proofs/LinearProject.v). *)
Theorem C06_linear_defined : forall rt c n w, lin_valid c n -> length w = n ->
  exists r, lin_project_col rt c w = Some r /\ length r = n.
Proof. exact lin_defined. Qed.
Print Assumptions C06_linear_defined.

Theorem C06_signs : forall rt c n w r, lin_valid c n -> length w = n -> lin_project_col rt c w = Some r ->
  forall i, (nth i (lc_monos c) 0%Z = 1%Z -> 0 <= nth i r 0) /\
            (nth i (lc_monos c) 0%Z = (-1)%Z -> nth i r 0 <= 0).
Proof. exact lin_signs. Qed.
Print Assumptions C06_signs.

Theorem C06_monotonic_dominance : forall rt c n w r, lin_valid c n -> length w = n -> lin_project_col rt c w = Some r ->
  forall dom weak, In (dom, weak) (lc_mdom c) -> nth weak r 0 <= nth dom r 0.
Proof. exact lin_mdom. Qed.
Print Assumptions C06_monotonic_dominance.

(* scaled by the code's own scalings (negative for decreasing inputs, as in
   linear_lib.assert_constraints) *)
Theorem C06_range_dominance : forall rt c n w r, lin_valid c n -> length w = n -> lin_project_col rt c w = Some r ->
  forall dom weak, In (dom, weak) (lc_rdom c) ->
    scaling (nth weak (lc_monos c) 0%Z) (nth weak (lc_min c) None) (nth weak (lc_max c) None) * nth weak r 0 <=
    scaling (nth dom (lc_monos c) 0%Z) (nth dom (lc_min c) None) (nth dom (lc_max c) None) * nth dom r 0.
Proof. exact lin_rdom. Qed.
Print Assumptions C06_range_dominance.

(* the same with the ranges written out: |range_weak| * |w_weak| <= |range_dom| * |w_dom| *)
Theorem C06_range_dominance_explicit : forall rt c n w r, lin_valid c n -> length w = n -> lin_project_col rt c w = Some r ->
  forall d k, In (d, k) (lc_rdom c) -> exists ld hd lk hk,
    nth d (lc_min c) None = Some ld /\ nth d (lc_max c) None = Some hd /\ ld < hd /\
    nth k (lc_min c) None = Some lk /\ nth k (lc_max c) None = Some hk /\ lk < hk /\
    (nth d (lc_monos c) 0%Z = 1%Z -> (hk - lk) * nth k r 0 <= (hd - ld) * nth d r 0) /\
    (nth d (lc_monos c) 0%Z = (-1)%Z -> (hk - lk) * - nth k r 0 <= (hd - ld) * - nth d r 0).
Proof. exact lin_rdom_explicit. Qed.
Print Assumptions C06_range_dominance_explicit.

(* division safety of the un-scaling step *)
Theorem C06_range_scaling_nonzero : forall m lo hi, ~ scaling m lo hi == 0.
Proof. exact scaling_nonzero. Qed.
Print Assumptions C06_range_scaling_nonzero.

(* with_norm c 0 = the same configuration without normalization *)
Theorem C06_norm_one_or_zero : forall rt c n w r,
  lin_valid c n -> length w = n -> lc_norm c = 1%nat -> lin_project_col rt c w = Some r ->
  exists w3, lin_project_col rt (with_norm c 0) w = Some w3 /\
    (qsum (map qabs r) == 1 \/ (qsum (map qabs w3) < norm_eps /\ peq r w3)).
Proof. exact lin_norm1. Qed.
Print Assumptions C06_norm_one_or_zero.

(* order 2: rt is the square-root oracle, assumed exact at the one sum of squares S.
   IDEALISED: over Q the hypothesis rt S * rt S == S can only hold when S is a
   rational square.  It is the e = 0 instance of C06_norm_l2_approximate_root
   below (derived from it in Proofs/SqrtRobust.v, lin_norm2_exact_instance);
   the statements that hold for every S are C06_norm_l2_any_root,
   C06_norm_l2_approximate_root and C06_norm_l2_executed_root. *)
Theorem C06_norm_one_or_zero_l2 : forall rt c n w r,
  lin_valid c n -> length w = n -> lc_norm c = 2%nat -> lin_project_col rt c w = Some r ->
  exists w3, lin_project_col rt (with_norm c 0) w = Some w3 /\
    let S := qsum (map (fun x => x * x) w3) in
    (rt S * rt S == S ->
     qsum (map (fun x => x * x) r) == 1 \/ (rt S < norm_eps /\ peq r w3)).
Proof. exact lin_norm2_exact_instance. Qed.
Print Assumptions C06_norm_one_or_zero_l2.

(* any normalization order and any root function: the result is the
   un-normalized result times ONE positive number (so C06_signs,
   C06_monotonic_dominance, C06_range_dominance above hold for every lc_norm) *)
Theorem C06_norm_preserves_constraints : forall rt c n w r,
  lin_valid c n -> length w = n -> lin_project_col rt c w = Some r ->
  exists w3 e, lin_project_col rt (with_norm c 0) w = Some w3 /\ 0 < e /\ length r = length w3 /\
    forall i, nth i r 0 == nth i w3 0 * e.
Proof. exact lin_norm_scaling. Qed.
Print Assumptions C06_norm_preserves_constraints.

(* lin_feasible c w = right signs /\ all monotonic dominances /\ all range dominances *)
Theorem C06_linear_feasible_fixed : forall rt c n w r, lin_valid c n -> length w = n -> lc_norm c = 0%nat ->
  lin_feasible c w -> lin_project_col rt c w = Some r -> peq r w.
Proof. exact lin_fixed. Qed.
Print Assumptions C06_linear_feasible_fixed.

Theorem C06_linear_feasible_fixed_l1 : forall rt c n w r, lin_valid c n -> length w = n -> lc_norm c = 1%nat ->
  lin_feasible c w -> qsum (map qabs w) == 1 -> lin_project_col rt c w = Some r -> peq r w.
Proof. exact lin_fixed_norm1. Qed.
Print Assumptions C06_linear_feasible_fixed_l1.

Theorem C06_linear_feasible_fixed_l2 : forall rt c n w r, (forall x, x == 1 -> rt x == 1) ->
  lin_valid c n -> length w = n -> lc_norm c = 2%nat ->
  lin_feasible c w -> qsum (map (fun x => x * x) w) == 1 -> lin_project_col rt c w = Some r -> peq r w.
Proof. exact lin_fixed_norm2. Qed.
Print Assumptions C06_linear_feasible_fixed_l2.

(* ---------------- units > 1 ---------------- *)
Theorem C06_per_unit : forall rt c units W R u,
  lin_valid c (length W) -> lin_project rt c units W = Some R -> (u < units)%nat ->
  exists r, lin_project_col rt c (column u W) = Some r /\ column u R = r.
Proof. exact lin_per_unit. Qed.
Print Assumptions C06_per_unit.

Theorem C06_linear_matrix_defined : forall rt c units W, lin_valid c (length W) ->
  exists R, lin_project rt c units W = Some R.
Proof. exact lin_matrix_defined. Qed.
Print Assumptions C06_linear_matrix_defined.

Theorem C06_categorical_per_unit : forall ps lo hi units W R u,
  cat_project ps lo hi units W = Some R -> (u < units)%nat ->
  exists r, cat_project_col ps lo hi (column u W) = Some r /\ column u R = r.
Proof. exact cat_per_unit. Qed.
Print Assumptions C06_categorical_per_unit.

(* ---------------- order-2 norm without an exact square root ---------------- *)
(* sumsq w = sum of squares.  ANY function rt (no hypothesis): either the value
   rt S is below 1e-8 and the column is returned as it is, or the squared norm
   of the result times rt(S)^2 is exactly S. *)
Theorem C06_norm_l2_any_root : forall rt c n w r,
  lin_valid c n -> length w = n -> lc_norm c = 2%nat -> lin_project_col rt c w = Some r ->
  exists w3, lin_project_col rt (with_norm c 0) w = Some w3 /\
    let S := sumsq w3 in
    (rt S < norm_eps /\ peq r w3) \/ (norm_eps <= rt S /\ sumsq r * (rt S * rt S) == S).
Proof. exact lin_norm2_any. Qed.
Print Assumptions C06_norm_l2_any_root.

(* the same identity for a bare column and any non-zero divisor *)
Theorem C06_norm_l2_identity : forall (d : Q) w, ~ d == 0 ->
  sumsq (map (fun x => x / d) w) * (d * d) == sumsq w.
Proof. exact sumsq_div_any. Qed.
Print Assumptions C06_norm_l2_identity.

(* a root with relative error e in the square (satisfiable for every S, e.g. by
   the executed root or a float64 sqrt): the squared norm of the result is in
   [1/(1+e), 1/(1-e)] *)
Theorem C06_norm_l2_approximate_root : forall rt c n w r,
  lin_valid c n -> length w = n -> lc_norm c = 2%nat -> lin_project_col rt c w = Some r ->
  exists w3, lin_project_col rt (with_norm c 0) w = Some w3 /\
    let S := sumsq w3 in
    forall e, e < 1 -> (1 - e) * S <= rt S * rt S -> rt S * rt S <= (1 + e) * S ->
    (rt S < norm_eps /\ peq r w3) \/
    (norm_eps <= rt S /\ 0 < S /\ 1 <= sumsq r * (1 + e) /\ sumsq r * (1 - e) <= 1).
Proof. exact lin_norm2_approx. Qed.
Print Assumptions C06_norm_l2_approximate_root.

(* the executed root qsqrt = 60 Newton steps from 1 + a, each rounded DOWN to a
   multiple of u80 = 2^-80: for every a it is >= 0 and, when positive, less than
   u80 below the true root; above 2^-158 it is positive with an explicit error
   bound; below it is under the 1e-8 guard; on [1e-16, 2^32] the relative error
   of its square is within [-2^-50, 2^-64].  The one-sided bound a <= qsqrt a ^2
   is false (at a = 2). *)
Theorem C06_executed_root_bounds : forall a,
  0 <= qsqrt a /\
  (0 < qsqrt a -> a <= (qsqrt a + u80) * (qsqrt a + u80)) /\
  (4 * (u80 * u80) < a -> u80 < qsqrt a /\
     qsqrt a * qsqrt a <= a + (1 + a + a * a) * (1 # 2 ^ 120) + (9 # 4) * (u80 * u80)) /\
  (a <= 4 * (u80 * u80) -> qsqrt a < norm_eps) /\
  (norm_eps <= qsqrt a -> a <= (1 + (1 # 2 ^ 51)) * (qsqrt a * qsqrt a)) /\
  (norm_eps * norm_eps <= a -> a <= inject_Z (2 ^ 32) ->
     0 < qsqrt a /\ (1 - (1 # 2 ^ 50)) * a <= qsqrt a * qsqrt a /\ qsqrt a * qsqrt a <= (1 + (1 # 2 ^ 64)) * a) /\
  qsqrt 2 * qsqrt 2 < 2.
Proof. intros a. split; [apply qsqrt_nonneg|]. split; [apply qsqrt_lower|]. split.
  - intros H. destruct (qsqrt_strong a H) as [A [_ B]]. exact (conj A B).
  - split; [apply qsqrt_small|]. split; [apply qsqrt_guard_lower|]. split; [apply qsqrt_range|apply qsqrt_two_below]. Qed.
Print Assumptions C06_executed_root_bounds.

(* the model as it is executed (rt := qsqrt), every column: the identity, squared
   norm at most 1 + 2^-51 (NOT at most 1: the root is rounded down, Example
   executed_root_applies), and at least 1 / (1 + 2^-64) when S <= 2^32 *)
Theorem C06_norm_l2_executed_root : forall c n w r,
  lin_valid c n -> length w = n -> lc_norm c = 2%nat -> lin_project_col qsqrt c w = Some r ->
  exists w3, lin_project_col qsqrt (with_norm c 0) w = Some w3 /\
    let S := sumsq w3 in let q := qsqrt S in
    (q < norm_eps /\ peq r w3) \/
    (norm_eps <= q /\ sumsq r * (q * q) == S /\
     sumsq r <= 1 + (1 # 2 ^ 51) /\
     (S <= inject_Z (2 ^ 32) -> 1 <= sumsq r * (1 + (1 # 2 ^ 64)))).
Proof. exact lin_norm2_executed. Qed.
Print Assumptions C06_norm_l2_executed_root.

(* C06_linear_feasible_fixed_l2 with its hypothesis on rt discharged for the executed root *)
Theorem C06_linear_feasible_fixed_l2_executed_root : forall c n w r,
  lin_valid c n -> length w = n -> lc_norm c = 2%nat ->
  lin_feasible c w -> qsum (map (fun x => x * x) w) == 1 -> lin_project_col qsqrt c w = Some r -> peq r w.
Proof. exact lin_fixed_norm2_executed. Qed.
Print Assumptions C06_linear_feasible_fixed_l2_executed_root.

(* the hypotheses are satisfiable on a NON-square sum of squares (column (1, 1),
   S = 2): an explicit rational root 99/70 with e = 1/9800, and the executed root *)
Example C06_any_root_example : exists r,
  lin_valid rt2_cfg 2 /\ length [1; 1] = 2%nat /\ lc_norm rt2_cfg = 2%nat /\
  lin_project_col rt_99_70 rt2_cfg [1; 1] = Some r /\
  lin_project_col rt_99_70 (with_norm rt2_cfg 0) [1; 1] = Some [1; 1] /\
  sumsq [1; 1] == 2 /\ norm_eps <= rt_99_70 2 /\
  (1 # 9800) < 1 /\ (1 - (1 # 9800)) * 2 <= rt_99_70 2 * rt_99_70 2 /\ rt_99_70 2 * rt_99_70 2 <= (1 + (1 # 9800)) * 2 /\
  ~ rt_99_70 2 * rt_99_70 2 == 2 /\
  sumsq r * (rt_99_70 2 * rt_99_70 2) == 2 /\ 1 <= sumsq r * (1 + (1 # 9800)) /\ sumsq r * (1 - (1 # 9800)) <= 1.
Proof. exact any_root_applies. Qed.
Example C06_executed_root_example : exists r,
  lin_project_col qsqrt rt2_cfg [1; 1] = Some r /\
  lin_project_col qsqrt (with_norm rt2_cfg 0) [1; 1] = Some [1; 1] /\
  norm_eps <= qsqrt 2 /\ 2 <= inject_Z (2 ^ 32) /\ norm_eps * norm_eps <= 2 /\
  1 < sumsq r /\ sumsq r <= 1 + (1 # 2 ^ 51) /\ sumsq r * (qsqrt 2 * qsqrt 2) == 2.
Proof. exact executed_root_applies. Qed.

(* ---------------- unchanged: feasible, numerically zero, norm requested ---------------- *)
From TFL Require Import Proofs.LinearSmallNorm.

(* A feasible column whose norm is below 1e-8 is returned unchanged under order 1
   (norm = tf.where(norm < eps, 1.0, norm): it is NOT scaled up to unit norm) ... *)
Theorem C06_linear_feasible_fixed_numerically_zero_l1 : forall rt c n w r,
  lin_valid c n -> length w = n -> lc_norm c = 1%nat ->
  lin_feasible c w -> qsum (map qabs w) < norm_eps -> lin_project_col rt c w = Some r -> peq r w.
Proof. exact lin_fixed_small_l1. Qed.
Print Assumptions C06_linear_feasible_fixed_numerically_zero_l1.

(* ... and under order 2, for every root function that respects == (whatever it
   returns: exact, rounded, the executed qsqrt). *)
Theorem C06_linear_feasible_fixed_numerically_zero_l2 : forall rt c n w r,
  (forall x y, x == y -> rt x == rt y) ->
  lin_valid c n -> length w = n -> lc_norm c = 2%nat ->
  lin_feasible c w -> rt (qsum (map (fun x => x * x) w)) < norm_eps -> lin_project_col rt c w = Some r -> peq r w.
Proof. exact lin_fixed_small_l2. Qed.
Print Assumptions C06_linear_feasible_fixed_numerically_zero_l2.

Example C06_numerically_zero_example :
  lin_valid ex_cfg 7 /\ lc_norm ex_cfg = 1%nat /\ lin_feasible ex_cfg (repeat 0 7) /\
  qsum (map qabs (repeat 0 7)) < norm_eps /\ lin_project_col qsqrt ex_cfg (repeat 0 7) = Some (repeat 0 7).
Proof. exact small_norm_example. Qed.
