(* C03 — Premade and composed models stay monotone and bounded after any
   training history (also right after construction and after restoring saved
   weights).  Property theorems only; proofs live in Proofs/Premade.v and REUSE
   the finished single-layer theorems:
     forward functions   C05 (PWL / categorical calibrators), C02 (lattice
                         interpolation, both schemes), C20 (linear);
     constraints         C01 (strict Lattice constraint), C04 (PWL projection,
                         NaiveBoundsConstraints), C06 (Linear, categorical).

   Vocabulary (Model/Premade.v, Proofs/Premade.v):
     calib                one calibrator unit: CPwl kps lens col missing | CCat vals default
     calib_eval c x       its value (missing_input_value -> missing output; default bucket)
     cal_lattice_eval sc sizes K cals oc x   output calibrator (optional) of the
                          clip_inputs=False lattice (scheme sc, list input, one unit)
                          on the calibrated coordinates
     cal_linear_eval k b cals oc x           the same with lin_unit (no input bounds)
     ensemble_eval ms c oc x                 members reading sub-lists of the features through their
                          own calibrator units; Average or LinComb w b; optional output calibrator
                          (explicit, random, Crystals and RTL structures all have this shape)
     outs_nondecr / outs_nonincr col   keypoint outputs (cumulative kernel sums) ordered
     calib_range c lo hi  keypoint outputs, missing output / bucket values all inside [lo, hi]
     cals_in_range sizes cals   calibrator j stays inside [0, size_j - 1] (premade_lib._output_range)
     regular_input c x    non-missing input; domain_input c x: any input of the feature's domain
     out_monotone / out_range   the output calibrator is increasing / has its keypoint outputs in [lo, hi]
     var / Update / Restore / Init / run   the layer state machine
   Guards carried from the constraint theorems: known finding D1
   (trap_mono_cond_with_edgeworth, C01) and D2 (monotone AND convex PWL, C04);
   D32 (weighted average with all weights clipped to zero) is refuted below.
   KroneckerFactoredLattice-parameterised models: section D (on top of C07's
   development, MK = Model/KFL.v, PK = Proofs/KFL.v); RTL structures: section E
   (on top of C17's wiring theorem).  Section G discharges the "initial value
   is feasible" hypotheses of section A from the C10 initialiser models
   (C03_reachable_feasible_xxx_from_init).  Section H composes everything:
   configuration -> any history -> every input (C03_xxx_end_to_end), tied to the
   real builders by Harness/H_C03E2E.v. *)
From TFL Require Import Model.Premade Proofs.Premade.
From TFL Require Import Proofs.PWLEval Proofs.LinearEval Proofs.LatticeInterp.
From TFL Require Import Proofs.LatticeSpecFacts Proofs.LatticeFinalize.
From TFL Require Import Model.PWLProject Proofs.PWLProject.
From TFL Require Import Model.LinearProject Proofs.PartialOrder Proofs.TopoSort Proofs.LinearProject.
From TFL Require Import Model.PremadeKFL Proofs.PremadeKFL Proofs.PremadeRTL.
From TFL Require Import Model.PremadeCheck Proofs.PremadeCheck.
Open Scope Q_scope.

(* ---------------------------------------------------------------------- *)
(* A. Every reachable state is feasible                                     *)
(* ---------------------------------------------------------------------- *)
(* Generic: variables described by ds (variable mk d, invariant Inv d, raw
   values of the right shape Shape d).  If every initial value satisfies its
   invariant and every constraint maps EVERY well-shaped raw value into its
   invariant, then every state reached by ANY sequence of Update (arbitrary
   raw values: any optimizer, loss, batch, learning rate) / Restore (of any
   earlier state) / Init satisfies every invariant. *)
Theorem C03_reachable_feasible : forall (val D : Type) (mk : D -> var val) (Inv Shape : D -> val -> Prop) (ds : list D),
  (forall d, In d ds -> Inv d (v_init (mk d))) ->
  (forall d w, In d ds -> Shape d w -> Inv d (v_con (mk d) w)) ->
  forall ops, ops_shaped val D Shape ds ops ->
  forall s, In s (run (map mk ds) ops) -> Forall2 Inv ds s.
Proof. exact reachable_feasible. Qed.
Print Assumptions C03_reachable_feasible.

(* Lattice kernels: monotone along every monotone dimension and inside the
   output bounds (C01_monotone, C01_bounds), outside known finding D1. *)
Theorem C03_reachable_feasible_lattice : forall ds ops, (forall d, In d ds -> lat_desc_ok d) ->
  forall s, In s (run (map lat_var ds) ops) -> Forall2 lat_inv ds s.
Proof. exact reachable_feasible_lattice. Qed.
Print Assumptions C03_reachable_feasible_lattice.

(* PWL calibrator kernels: heights of the configured sign, keypoint outputs in
   range (C04_monotone_exact, C04_bounds; bounds outside known finding D2). *)
Theorem C03_reachable_feasible_pwl : forall ds ops, (forall d, In d ds -> pwl_desc_ok d) ->
  ops_shaped (list Q) pwl_desc pwl_shape ds ops ->
  forall s, In s (run (map pwl_var ds) ops) -> Forall2 pwl_inv ds s.
Proof. exact reachable_feasible_pwl. Qed.
Print Assumptions C03_reachable_feasible_pwl.

(* the learned missing output of a calibrator with default_value (C04_missing_bounded) *)
Theorem C03_reachable_feasible_missing_output : forall ds ops,
  (forall d, In d ds -> md_lo d <= md_hi d /\ mo_inv d (md_init d)) ->
  forall s, In s (run (map mo_var ds) ops) -> Forall2 mo_inv ds s.
Proof. exact reachable_feasible_missing_output. Qed.
Print Assumptions C03_reachable_feasible_missing_output.

(* Linear kernels: signs (C06_linear_defined, C06_signs) *)
Theorem C03_reachable_feasible_linear : forall ds ops,
  (forall d, In d ds -> lin_valid (nd_cfg d) (nd_n d) /\ lin_inv d (nd_init d)) ->
  ops_shaped (list Q) lin_desc (fun d w => length w = nd_n d) ds ops ->
  forall s, In s (run (map lin_var ds) ops) -> Forall2 lin_inv ds s.
Proof. exact reachable_feasible_linear. Qed.
Print Assumptions C03_reachable_feasible_linear.

(* Categorical kernels: every pair ordered, every bucket in range
   (C06_categorical_defined, C06_categorical_pairs, C06_categorical_bounds) *)
Theorem C03_reachable_feasible_categorical : forall ds ops, (forall d, In d ds -> cat_desc_ok d) ->
  ops_shaped (list Q) cat_desc (fun d w => length w = cd_n d) ds ops ->
  forall s, In s (run (map cat_var ds) ops) -> Forall2 cat_inv ds s.
Proof. exact reachable_feasible_categorical. Qed.
Print Assumptions C03_reachable_feasible_categorical.

(* The invariants are exactly what the composition theorems below ask for:
   lattice kernel tensor f (C01 vocabulary) -> kernel matrix hypotheses (C02 vocabulary) ... *)
Theorem C03_lattice_invariant_feeds_composition : forall c Kmat f u,
  represents (l_sizes c) (l_units c) Kmat f -> (u < l_units c)%nat ->
  (monotone_kernel c f -> forall d, In d (mono_dims (l_monos c)) -> (d < length (l_sizes c))%nat ->
     knondecr (l_sizes c) (kern (l_sizes c) Kmat u) d) /\
  (forall lo hi, lower_ok (l_shape c) (Some lo) f -> upper_ok (l_shape c) (Some hi) f ->
     forall i, valid (l_sizes c) i -> lo <= kern (l_sizes c) Kmat u i <= hi).
Proof. intros c Kmat f u Hr Hu. split.
  - intros Hm d Hd Hlt. exact (monotone_kernel_knondecr c Kmat f u d Hr Hu Hm Hd Hlt).
  - intros lo hi Hlo Hhi. exact (kernel_bounds_kern c Kmat f u lo hi Hr Hu Hlo Hhi). Qed.
Print Assumptions C03_lattice_invariant_feeds_composition.

(* ... and PWL kernel column (C04 vocabulary) -> calibrator hypotheses (C05 vocabulary) *)
Theorem C03_pwl_invariant_feeds_composition : forall w,
  (Forall (fun h => 0 <= h) (tl w) -> outs_nondecr w) /\
  (Forall (fun h => h <= 0) (tl w) -> outs_nonincr w) /\
  (forall lo hi, Forall (fun s => lo <= s) (keypoint_outputs w) -> Forall (fun s => s <= hi) (keypoint_outputs w) ->
     forall y, In y (kp_outs w) -> lo <= y <= hi).
Proof. intros w. split; [exact (pwl_inv_nondecr w)|]. split; [exact (pwl_inv_nonincr w)|]. exact (pwl_inv_range w). Qed.
Print Assumptions C03_pwl_invariant_feeds_composition.

(* ---------------------------------------------------------------------- *)
(* B. Wiring + per-layer feasibility => monotone model                      *)
(* ---------------------------------------------------------------------- *)
(* premade_lib gives every monotone feature (increasing, decreasing, or
   categorical with ordering pairs) a monotone lattice / linear dimension, in
   explicit and in RTL ensembles alike *)
Theorem C03_wiring_monotone_dim : forall f, (match f with MNum m => m <> 0%Z | MPairs ps => ps <> [] end) ->
  lattice_dim_mono f = 1%Z /\ rtl_routed_increasing f = true.
Proof. exact wiring_monotone_dim. Qed.
Print Assumptions C03_wiring_monotone_dim.

(* Calibrated lattice, numeric feature i: calibrators inside the lattice
   domain, kernel non-decreasing along dimension i, monotone output calibrator.
   Increasing calibrator => output non-decreasing in x_i; decreasing calibrator
   (lattice dimension still non-decreasing) => non-increasing.  For EVERY pair
   of non-missing inputs x_i <= v, inside or outside the keypoint range, all
   other coordinates arbitrary (missing values included). *)
Theorem C03_compose_monotone_lattice : forall sc sizes K cals oc x i v kps lens col miss,
  sizes_ok sizes -> wfK 1 K 0 -> length cals = length sizes -> length x = length sizes -> (i < length sizes)%nat ->
  cals_in_range sizes cals -> knondecr sizes (kern sizes K 0) i -> out_monotone oc ->
  nth i cals dcal = CPwl kps lens col miss ->
  regular_input (nth i cals dcal) (nth i x 0) -> regular_input (nth i cals dcal) v -> nth i x 0 <= v ->
  (outs_nondecr col -> cal_lattice_eval sc sizes K cals oc x <= cal_lattice_eval sc sizes K cals oc (set_nth i v x)) /\
  (outs_nonincr col -> cal_lattice_eval sc sizes K cals oc (set_nth i v x) <= cal_lattice_eval sc sizes K cals oc x).
Proof. exact compose_monotone_lattice. Qed.
Print Assumptions C03_compose_monotone_lattice.

(* categorical feature i, ordering pair (a, b): value_a <= value_b => output ordered *)
Theorem C03_compose_monotone_lattice_categorical : forall sc sizes K cals oc x i vals d a b,
  sizes_ok sizes -> wfK 1 K 0 -> length cals = length sizes -> length x = length sizes -> (i < length sizes)%nat ->
  cals_in_range sizes cals -> knondecr sizes (kern sizes K 0) i -> out_monotone oc ->
  nth i cals dcal = CCat vals d -> (a < length vals)%nat -> (b < length vals)%nat ->
  d <> Some (Z.of_nat a) -> d <> Some (Z.of_nat b) -> nth a vals 0 <= nth b vals 0 ->
  cal_lattice_eval sc sizes K cals oc (set_nth i (qn a) x) <= cal_lattice_eval sc sizes K cals oc (set_nth i (qn b) x).
Proof. exact compose_monotone_lattice_categorical. Qed.
Print Assumptions C03_compose_monotone_lattice_categorical.

(* Calibrated linear: non-negative weight on feature i *)
Theorem C03_compose_monotone_linear : forall k b cals oc x i v kps lens col miss,
  length cals = length k -> length x = length k -> (i < length k)%nat ->
  0 <= nth i k 0 -> out_monotone oc ->
  nth i cals dcal = CPwl kps lens col miss -> Forall (fun l => 0 < l) lens ->
  regular_input (nth i cals dcal) (nth i x 0) -> regular_input (nth i cals dcal) v -> nth i x 0 <= v ->
  (outs_nondecr col -> cal_linear_eval k b cals oc x <= cal_linear_eval k b cals oc (set_nth i v x)) /\
  (outs_nonincr col -> cal_linear_eval k b cals oc (set_nth i v x) <= cal_linear_eval k b cals oc x).
Proof. exact compose_monotone_linear. Qed.
Print Assumptions C03_compose_monotone_linear.

Theorem C03_compose_monotone_linear_categorical : forall k b cals oc x i vals d a c,
  length cals = length k -> length x = length k -> (i < length k)%nat ->
  0 <= nth i k 0 -> out_monotone oc ->
  nth i cals dcal = CCat vals d -> (a < length vals)%nat -> (c < length vals)%nat ->
  d <> Some (Z.of_nat a) -> d <> Some (Z.of_nat c) -> nth a vals 0 <= nth c vals 0 ->
  cal_linear_eval k b cals oc (set_nth i (qn a) x) <= cal_linear_eval k b cals oc (set_nth i (qn c) x).
Proof. exact compose_monotone_linear_categorical. Qed.
Print Assumptions C03_compose_monotone_linear_categorical.

(* Ensembles: every member either does not read feature i or reads it at one
   position whose lattice dimension is non-decreasing and whose calibrator unit
   does not decrease from x_i to v (member_monotone_in); averaging or a
   non-negative linear combination, and a monotone output calibrator, keep the
   order. *)
Theorem C03_ensemble_monotone : forall ms c oc x i v, comb_monotone c -> out_monotone oc -> (i < length x)%nat ->
  (forall m, In m ms -> member_ok m /\ member_monotone_in m i (nth i x 0) v) ->
  ensemble_eval ms c oc x <= ensemble_eval ms c oc (set_nth i v x).
Proof. exact ensemble_compose_monotone. Qed.
Print Assumptions C03_ensemble_monotone.

(* ---------------------------------------------------------------------- *)
(* C. Bounds, for ALL inputs including missing values                        *)
(* ---------------------------------------------------------------------- *)
(* kernel entries inside [lo, hi] (no output calibrator) or output-calibrator
   keypoint outputs inside [lo, hi] *)
Theorem C03_bounded_lattice : forall sc sizes K cals oc lo hi x,
  sizes <> [] -> sizes_ok sizes -> wfK 1 K 0 ->
  length cals = length sizes -> length x = length sizes -> cals_in_range sizes cals ->
  (oc = None -> forall i, valid sizes i -> lo <= kern sizes K 0 i <= hi) -> out_range oc lo hi ->
  lo <= cal_lattice_eval sc sizes K cals oc x <= hi.
Proof. exact bounded_lattice. Qed.
Print Assumptions C03_bounded_lattice.

(* weighted average of bounded calibrators: weights non-negative AND of sum one *)
Theorem C03_bounded_linear : forall k cals oc lo hi x,
  length cals = length k -> length x = length k ->
  (oc = None -> (forall q, In q k -> 0 <= q) /\ qsum k == 1 /\
     forall j, (j < length k)%nat -> calib_range (nth j cals dcal) lo hi /\
                                     (lo <= 0 <= hi \/ domain_input (nth j cals dcal) (nth j x 0))) ->
  out_range oc lo hi -> lo <= cal_linear_eval k 0 cals oc x <= hi.
Proof. exact bounded_linear. Qed.
Print Assumptions C03_bounded_linear.

(* Known finding D32: "sum one" does NOT survive every history.  The Linear
   constraint (monotonicities all 1, normalization_order 1) sends an all-negative
   raw kernel to the zero vector and the model then outputs 0 < output_min. *)
Theorem C03_bounded_refuted_weighted_average_zero :
  exists rt c w r cals lo hi x,
    lin_valid c (length w) /\ lc_norm c = 1%nat /\ (forall i, (i < length w)%nat -> nth i (lc_monos c) 0%Z = 1%Z) /\
    lin_project_col rt c w = Some r /\ length cals = length r /\ length x = length r /\
    (forall j, (j < length r)%nat -> calib_range (nth j cals dcal) lo hi /\ domain_input (nth j cals dcal) (nth j x 0)) /\
    (forall q, In q r -> 0 <= q) /\ ~ qsum r == 1 /\
    cal_linear_eval r 0 cals None x < lo.
Proof. exact refuted_weighted_average_zero. Qed.
Print Assumptions C03_bounded_refuted_weighted_average_zero.

(* ensembles: average (or weighted average) of bounded members *)
Theorem C03_ensemble_bounded : forall ms c oc lo hi x,
  (oc = None -> comb_average_like c (length ms) /\
                forall m, In m ms -> member_ok m /\
                  forall i, valid (m_sizes m) i -> lo <= kern (m_sizes m) (m_K m) 0 i <= hi) ->
  out_range oc lo hi -> lo <= ensemble_eval ms c oc x <= hi.
Proof. exact ensemble_bounded. Qed.
Print Assumptions C03_ensemble_bounded.

(* Hypotheses are satisfiable: Examples ex3_* (a 2-feature calibrated lattice
   with a missing value, a categorical pair and an output calibrator, evaluated
   by ex3_values), ex_pwl_desc_ok / ex_history_shaped / ex_history_run (a
   hostile history on two calibrator kernels) in Proofs/Premade.v. *)

(* ---------------------------------------------------------------------- *)
(* D. Kronecker-factored members (Model/PremadeKFL.v, Proofs/PremadeKFL.v)   *)
(* ---------------------------------------------------------------------- *)
(* Vocabulary:
     MK.config / MK.params / MK.unit_out c p u xs / MK.run root c steps p, PK.root_ok,
     PK.cfg_ok, PK.shaped, PK.hasK / PK.hasS, PK.coords_le, PK.in_range: as in Props/C07.v
     kfl_feasible c dims p   the invariant the two KFL constraints establish and from
                         which C07_monotone / C07_bounded follow: per (unit, term) shape,
                         PK.kgood relative to the CURRENT scale, PK.sgood; fixed bias of a
                         bounded layer
     kfl_desc / kfl_var  one KFL layer as ONE variable (kernel, scale, bias) of the layer
                         state machine; an Update hands it ARBITRARY raw parameters and
                         then applies the constraint applications kd_steps, which contain
                         BOTH constraints (any order): tf_keras Optimizer.apply_gradients
                         assigns all variables, then constrains each of them
     legacy_update root c order raw p   tf_keras legacy optimizers: per variable of
                         grads_and_vars, assign then constrain, before the next variable
     cal_kfl_eval c p cals oc x   output calibrator (optional) of unit 0 of the KFL layer
                         on the calibrated coordinates (premade CalibratedLattice,
                         parameterization='kronecker_factored')
     member2 = MLat m | MKfl idx cals c p u ; ensemble2_eval   ensembles whose members
                         are all-vertices lattices or KFL units; a member may read a
                         feature at several positions (reads_monotone) *)

(* C07's form of "the constraints have been applied" lands in the feasible set *)
Theorem C03_kfl_constraint_history_feasible : forall root c dims steps p,
  PK.root_ok root -> PK.cfg_ok c dims -> PK.shaped c dims p -> PK.hasK steps = true -> PK.hasS steps = true ->
  (MK.has_bounds c = true -> Forall (fun b => b == MK.bias_init1 (MK.c_min c) (MK.c_max c)) (MK.p_bias p)) ->
  kfl_feasible c dims (MK.run root c steps p).
Proof. exact run_feasible. Qed.
Print Assumptions C03_kfl_constraint_history_feasible.

(* every state reached by any sequence of Update (arbitrary raw kernel AND scale,
   any sign pattern, then both constraints) / Restore / Init is feasible *)
Theorem C03_reachable_feasible_kfl : forall ds ops, (forall d, In d ds -> kfl_desc_ok d) ->
  ops_shaped MK.params kfl_desc kfl_shape ds ops ->
  forall s, In s (run (map kfl_var ds) ops) -> Forall2 kfl_inv ds s.
Proof. exact reachable_feasible_kfl. Qed.
Print Assumptions C03_reachable_feasible_kfl.

(* a legacy (per-variable) optimizer given the variables in the layer's own order
   scale, bias, kernel (model.trainable_variables: model.fit, minimize) performs
   exactly the update with kd_steps = [StepS; StepK] *)
Theorem C03_kfl_legacy_layer_order_is_update : forall root c raw p,
  legacy_update root c [VScale; VBias; VKernel] raw p = MK.run root c [MK.StepS; MK.StepK] raw /\
  legacy_update root c [VScale; VKernel] raw p =
    MK.run root c [MK.StepS; MK.StepK] (MK.mkPar (MK.p_kern raw) (MK.p_scale raw) (MK.p_bias p)).
Proof. intros root c raw p. split. apply legacy_layer_order. apply legacy_layer_order_fixed_bias. Qed.
Print Assumptions C03_kfl_legacy_layer_order_is_update.

(* FINDING: outside that discipline the property fails.  A legacy optimizer given
   the kernel BEFORE the scale, or any optimizer given ONLY the scale, leaves a
   kernel that was constrained against the old scale sign: from a feasible
   state the unit becomes strictly decreasing along a monotone input. *)
Theorem C03_kfl_scale_moved_after_kernel_constraint_refuted : exists root c dims p raw ms xs ys,
  PK.root_ok root /\ PK.cfg_ok c dims /\ kfl_feasible c dims p /\ PK.shaped c dims raw /\
  MK.canon_monos (MK.c_monos c) = Some ms /\ PK.coords_le ms xs ys /\
  PK.in_range (MK.c_size c) xs /\ PK.in_range (MK.c_size c) ys /\
  MK.unit_out c (legacy_update root c [VKernel; VScale] raw p) 0 ys <
    MK.unit_out c (legacy_update root c [VKernel; VScale] raw p) 0 xs /\
  MK.unit_out c (legacy_update root c [VScale] raw p) 0 ys <
    MK.unit_out c (legacy_update root c [VScale] raw p) 0 xs.
Proof. exact legacy_kernel_first_refuted. Qed.
Print Assumptions C03_kfl_scale_moved_after_kernel_constraint_refuted.

(* the invariant is exactly what the composition theorems below ask for *)
Theorem C03_kfl_invariant_feeds_composition : forall c dims p u,
  PK.cfg_ok c dims -> kfl_feasible c dims p ->
  (forall ms xs ys, MK.canon_monos (MK.c_monos c) = Some ms -> PK.coords_le ms xs ys ->
     MK.c_clip c = true \/ (PK.in_range (MK.c_size c) xs /\ PK.in_range (MK.c_size c) ys) ->
     MK.unit_out c p u xs <= MK.unit_out c p u ys) /\
  (forall xs, (u < length (MK.p_scale p))%nat -> (u < length (MK.p_bias p))%nat -> length xs = dims ->
     MK.c_clip c = true \/ PK.in_range (MK.c_size c) xs ->
     (forall lo, MK.c_min c = Some lo -> lo <= MK.unit_out c p u xs) /\
     (forall hi, MK.c_max c = Some hi -> MK.unit_out c p u xs <= hi)).
Proof. intros c dims p u Hc Hf. split.
  - intros ms xs ys Em Hle Hr. exact (kfl_state_monotone c dims p ms u xs ys Hc Hf Em Hle Hr).
  - intros xs Hu Hub Hl Hr. exact (kfl_state_bounded c dims p u xs Hc Hf Hu Hub Hl Hr). Qed.
Print Assumptions C03_kfl_invariant_feeds_composition.

(* Calibrated KFL, numeric feature i: calibrators inside [0, L-1], feasible
   parameters, dimension i flagged monotone, monotone output calibrator.  For
   EVERY pair of non-missing inputs x_i <= v, in or out of the keypoint range,
   all other coordinates arbitrary (missing values included). *)
Theorem C03_compose_monotone_kfl : forall c dims p ms cals oc x i v kps lens col miss,
  PK.cfg_ok c dims -> kfl_feasible c dims p -> MK.canon_monos (MK.c_monos c) = Some ms -> nth i ms false = true ->
  length cals = dims -> length x = dims -> (i < dims)%nat ->
  cals_in_range (repeat (MK.c_size c) dims) cals -> out_monotone oc ->
  nth i cals dcal = CPwl kps lens col miss ->
  regular_input (nth i cals dcal) (nth i x 0) -> regular_input (nth i cals dcal) v -> nth i x 0 <= v ->
  (outs_nondecr col -> cal_kfl_eval c p cals oc x <= cal_kfl_eval c p cals oc (set_nth i v x)) /\
  (outs_nonincr col -> cal_kfl_eval c p cals oc (set_nth i v x) <= cal_kfl_eval c p cals oc x).
Proof. exact compose_monotone_kfl. Qed.
Print Assumptions C03_compose_monotone_kfl.

Theorem C03_compose_monotone_kfl_categorical : forall c dims p ms cals oc x i vals d a b,
  PK.cfg_ok c dims -> kfl_feasible c dims p -> MK.canon_monos (MK.c_monos c) = Some ms -> nth i ms false = true ->
  length cals = dims -> length x = dims -> (i < dims)%nat ->
  cals_in_range (repeat (MK.c_size c) dims) cals -> out_monotone oc ->
  nth i cals dcal = CCat vals d -> (a < length vals)%nat -> (b < length vals)%nat ->
  d <> Some (Z.of_nat a) -> d <> Some (Z.of_nat b) -> nth a vals 0 <= nth b vals 0 ->
  cal_kfl_eval c p cals oc (set_nth i (qn a) x) <= cal_kfl_eval c p cals oc (set_nth i (qn b) x).
Proof. exact compose_monotone_kfl_categorical. Qed.
Print Assumptions C03_compose_monotone_kfl_categorical.

(* bounds for ALL inputs including missing values: the layer's two bounds (no
   output calibrator) or the output calibrator's keypoint outputs *)
Theorem C03_bounded_kfl : forall c dims p cals oc lo hi x,
  PK.cfg_ok c dims -> kfl_feasible c dims p -> (0 < length (MK.p_scale p))%nat -> (0 < length (MK.p_bias p))%nat ->
  length cals = dims -> length x = dims -> cals_in_range (repeat (MK.c_size c) dims) cals ->
  (oc = None -> MK.c_min c = Some lo /\ MK.c_max c = Some hi) -> out_range oc lo hi ->
  lo <= cal_kfl_eval c p cals oc x <= hi.
Proof. exact bounded_kfl. Qed.
Print Assumptions C03_bounded_kfl.

Theorem C03_bounded_kfl_one_sided : forall c dims p cals x,
  PK.cfg_ok c dims -> kfl_feasible c dims p -> (0 < length (MK.p_scale p))%nat -> (0 < length (MK.p_bias p))%nat ->
  length cals = dims -> length x = dims -> cals_in_range (repeat (MK.c_size c) dims) cals ->
  (forall lo, MK.c_min c = Some lo -> lo <= cal_kfl_eval c p cals None x) /\
  (forall hi, MK.c_max c = Some hi -> cal_kfl_eval c p cals None x <= hi).
Proof. exact bounded_kfl_one_sided. Qed.
Print Assumptions C03_bounded_kfl_one_sided.

(* Ensembles with lattice AND KFL members; every position at which a member
   reads feature i is a monotone dimension of that member whose calibrator unit
   does not decrease from x_i to v (several positions allowed) *)
Theorem C03_ensemble_monotone_mixed : forall ms c oc x i v, comb_monotone c -> out_monotone oc -> (i < length x)%nat ->
  (forall m, In m ms -> member2_ok m /\ member2_monotone_in m i (nth i x 0) v) ->
  ensemble2_eval ms c oc x <= ensemble2_eval ms c oc (set_nth i v x).
Proof. exact ensemble2_compose_monotone. Qed.
Print Assumptions C03_ensemble_monotone_mixed.

Theorem C03_ensemble_bounded_mixed : forall ms c oc lo hi x,
  (oc = None -> comb_average_like c (length ms) /\
                forall m, In m ms -> member2_ok m /\ member2_in_bounds m lo hi) ->
  out_range oc lo hi -> lo <= ensemble2_eval ms c oc x <= hi.
Proof. exact ensemble2_bounded. Qed.
Print Assumptions C03_ensemble_bounded_mixed.

(* the extended type contains the old one, hypotheses included *)
Theorem C03_ensemble_mixed_extends : forall ms c oc x,
  ensemble_eval ms c oc x = ensemble2_eval (map MLat ms) c oc x /\
  forall m i xi v, member_monotone_in m i xi v -> member2_monotone_in (MLat m) i xi v.
Proof. intros ms c oc x. split. apply ensemble2_of_ensemble. exact member_monotone_in_embed. Qed.
Print Assumptions C03_ensemble_mixed_extends.

(* Hypotheses are satisfiable: a calibrated KFL unit and a hostile history on it *)
Example C03_kfl_hypotheses_satisfiable :
  PK.cfg_ok lk_cfg 1 /\ kfl_feasible lk_cfg 1 lk_par /\ MK.canon_monos (MK.c_monos lk_cfg) = Some [true] /\
  nth 0 [true] false = true /\ cals_in_range (repeat (MK.c_size lk_cfg) 1) [exk_cal] /\ out_monotone None /\
  regular_input exk_cal (-(3)) /\ regular_input exk_cal (1#2) /\ outs_nondecr [0; 1] /\
  MK.c_min lk_cfg = Some (-(1)) /\ MK.c_max lk_cfg = Some 1.
Proof. exact exk_hypotheses. Qed.
Example C03_kfl_history_satisfiable :
  (kfl_desc_ok (exk_d [MK.StepS; MK.StepK]) /\ kfl_desc_ok (exk_d [MK.StepK; MK.StepS])) /\
  forall steps, ops_shaped MK.params kfl_desc kfl_shape [exk_d steps; exk_d steps] exk_ops.
Proof. split. exact exk_desc_ok. exact exk_history_shaped. Qed.

(* ---------------------------------------------------------------------- *)
(* E. RTL structures (Proofs/PremadeRTL.v on top of Props/C17.v)             *)
(* ---------------------------------------------------------------------- *)
(* Vocabulary (MR = Model/RTLStructure.v, PR = Proofs/RTLStructure.v):
     MR.rtl_structure cfg sh1 sh2 = Some s   the structure _get_rtl_structure returns
                         (the two shuffles are oracles: any permutations)
     MR.input_mono (MR.c_input cfg) i = 1    flattened RTL input i was supplied under
                         'increasing' (premade_lib: every feature with a non-trivial
                         monotonicity, C03_wiring_monotone_dim)
     rtl_units s         the lattices of s, each with the monotonicity tuple of its entry
     rtl_wired s cals ms member k of ms realises lattice k of s: reads those inputs, input
                         j through calibrator nth j cals, and is non-decreasing along every
                         position its tuple flags (member2_mono_dim: knondecr for a
                         lattice - C01 via C03_lattice_invariant_feeds_composition -, a
                         flagged monotonicity for a KFL unit)
   An RTL lattice may read the same input at several positions. *)
Theorem C03_rtl_ensemble_monotone : forall sh1 sh2 cfg s cals ms c oc x i v,
  PR.perm_oracle sh1 -> PR.perm_oracle sh2 -> MR.rtl_structure cfg sh1 sh2 = Some s ->
  rtl_wired s cals ms -> (forall m, In m ms -> member2_ok m) ->
  comb_monotone c -> out_monotone oc -> (i < length x)%nat ->
  MR.input_mono (MR.c_input cfg) i = 1%nat ->
  calib_eval (nth i cals dcal) (nth i x 0) <= calib_eval (nth i cals dcal) v ->
  ensemble2_eval ms c oc x <= ensemble2_eval ms c oc (set_nth i v x).
Proof. exact rtl_ensemble_monotone. Qed.
Print Assumptions C03_rtl_ensemble_monotone.

(* numeric feature behind input i, every pair of non-missing inputs x_i <= v *)
Theorem C03_rtl_ensemble_monotone_numeric : forall sh1 sh2 cfg s cals ms c oc x i v kps lens col miss,
  PR.perm_oracle sh1 -> PR.perm_oracle sh2 -> MR.rtl_structure cfg sh1 sh2 = Some s ->
  rtl_wired s cals ms -> (forall m, In m ms -> member2_ok m) ->
  comb_monotone c -> out_monotone oc -> (i < length x)%nat ->
  MR.input_mono (MR.c_input cfg) i = 1%nat ->
  nth i cals dcal = CPwl kps lens col miss -> Forall (fun l => 0 < l) lens ->
  regular_input (nth i cals dcal) (nth i x 0) -> regular_input (nth i cals dcal) v -> nth i x 0 <= v ->
  (outs_nondecr col -> ensemble2_eval ms c oc x <= ensemble2_eval ms c oc (set_nth i v x)) /\
  (outs_nonincr col -> ensemble2_eval ms c oc (set_nth i v x) <= ensemble2_eval ms c oc x).
Proof. exact rtl_ensemble_monotone_numeric. Qed.
Print Assumptions C03_rtl_ensemble_monotone_numeric.

(* categorical feature behind input i, ordering pair (a, b) *)
Theorem C03_rtl_ensemble_monotone_categorical : forall sh1 sh2 cfg s cals ms c oc x i vals d a b,
  PR.perm_oracle sh1 -> PR.perm_oracle sh2 -> MR.rtl_structure cfg sh1 sh2 = Some s ->
  rtl_wired s cals ms -> (forall m, In m ms -> member2_ok m) ->
  comb_monotone c -> out_monotone oc -> (i < length x)%nat ->
  MR.input_mono (MR.c_input cfg) i = 1%nat ->
  nth i cals dcal = CCat vals d -> (a < length vals)%nat -> (b < length vals)%nat ->
  d <> Some (Z.of_nat a) -> d <> Some (Z.of_nat b) -> nth a vals 0 <= nth b vals 0 ->
  ensemble2_eval ms c oc (set_nth i (qn a) x) <= ensemble2_eval ms c oc (set_nth i (qn b) x).
Proof. exact rtl_ensemble_monotone_categorical. Qed.
Print Assumptions C03_rtl_ensemble_monotone_categorical.

(* Hypotheses are satisfiable: the structure of C17_rtl_example realised by two
   all-vertices lattices and one KFL unit (Examples exr_* in Proofs/PremadeRTL.v) *)
Example C03_rtl_hypotheses_satisfiable :
  (PR.perm_oracle (fun l => l) /\ MR.rtl_structure exr_cfg (fun l => l) (fun l => l) = Some exr_s) /\
  rtl_wired exr_s exr_cals exr_ms /\ (forall m, In m exr_ms -> member2_ok m) /\
  MR.input_mono (MR.c_input exr_cfg) 1 = 1%nat.
Proof. split. exact exr_structure. split. exact exr_wired. split. exact exr_members_ok. reflexivity. Qed.

(* ---------------------------------------------------------------------- *)
(* F. The wiring check the harness runs on EXTRACTED ensembles is sound       *)
(*    (Model/PremadeCheck.v, Proofs/PremadeCheck.v)                           *)
(* ---------------------------------------------------------------------- *)
(* Vocabulary:
     ens = mkEns members combiner output-calibrator features lo hi multi   what the harness extracts from
                         the Keras graph of a built CalibratedLatticeEnsemble (per lattice dimension the
                         index of the model feature it reads and the calibrator unit in between; weights)
     ens_ok t d32 e      the boolean check, comparisons up to tolerance t (harness: float32 tolerance,
                         d32 = true accepts the all-zero combiner of known finding D32); here t = 0, d32 = false
     feat_at e i         configured monotonicity of model feature i
     reader e i c        c is a calibrator unit through which some member reads feature i
     (KFL members: kfl_layer_ok / term_ok decide kfl_feasible - term_ok_sound, kfl_layer_ok_feasible)
     ens_eval e x        ensemble2_eval of the extracted structure *)
(* check = true  ->  the hypotheses of C03_ensemble_monotone_mixed / C03_ensemble_bounded_mixed *)
Theorem C03_wiring_check_sound : forall e, ens_ok 0 false e = true ->
  comb_monotone (en_comb e) /\ out_monotone (en_oc e) /\
  (forall m, In m (en_ms e) -> member2_ok m) /\
  (forall m i xi v, In m (en_ms e) -> lattice_dim_mono (feat_at e i) = 1%Z ->
     (forall c, reader e i c -> calib_eval c xi <= calib_eval c v) -> member2_monotone_in m i xi v) /\
  (forall i c, reader e i c ->
     (forall mo, feat_at e i = MNum mo -> mo <> 0%Z ->
        exists kps lens col miss, c = CPwl kps lens col miss /\ Forall (fun l => 0 < l) lens /\
          (mo = 1%Z -> outs_nondecr col) /\ (mo = (-1)%Z -> outs_nonincr col)) /\
     (forall ps, feat_at e i = MPairs ps -> ps <> [] ->
        exists vals d, c = CCat vals d /\
          forall a b, In (a, b) ps -> (a < length vals)%nat /\ (b < length vals)%nat /\ nth a vals 0 <= nth b vals 0)) /\
  (forall lo hi, en_lo e = Some lo -> en_hi e = Some hi -> out_range (en_oc e) lo hi) /\
  (en_oc e = None -> forall lo hi, en_lo e = Some lo -> en_hi e = Some hi ->
     comb_average_like (en_comb e) (length (en_ms e)) /\
     forall m, In m (en_ms e) -> exists lo' hi', lo' == lo /\ hi' == hi /\ member2_in_bounds m lo' hi') /\
  (en_multi e = false -> forall m, In m (en_ms e) -> nodupb (member2_idx m) = true).
Proof. exact ens_ok_hypotheses. Qed.
Print Assumptions C03_wiring_check_sound.

(* ... and therefore, on the extracted structure, for ALL inputs: *)
Theorem C03_checked_ensemble_increasing : forall e i x v,
  ens_ok 0 false e = true -> (i < length x)%nat -> feat_at e i = MNum 1 ->
  (forall c, reader e i c -> regular_input c (nth i x 0) /\ regular_input c v) -> nth i x 0 <= v ->
  ens_eval e x <= ens_eval e (set_nth i v x).
Proof. exact ens_ok_increasing. Qed.
Print Assumptions C03_checked_ensemble_increasing.

Theorem C03_checked_ensemble_decreasing : forall e i x v,
  ens_ok 0 false e = true -> (i < length x)%nat -> feat_at e i = MNum (-1) ->
  (forall c, reader e i c -> regular_input c (nth i x 0) /\ regular_input c v) -> nth i x 0 <= v ->
  ens_eval e (set_nth i v x) <= ens_eval e x.
Proof. exact ens_ok_decreasing. Qed.
Print Assumptions C03_checked_ensemble_decreasing.

Theorem C03_checked_ensemble_categorical : forall e i x ps a b,
  ens_ok 0 false e = true -> (i < length x)%nat ->
  feat_at e i = MPairs ps -> In (a, b) ps ->
  (forall vals d, reader e i (CCat vals d) -> d <> Some (Z.of_nat a) /\ d <> Some (Z.of_nat b)) ->
  ens_eval e (set_nth i (qn a) x) <= ens_eval e (set_nth i (qn b) x).
Proof. exact ens_ok_categorical. Qed.
Print Assumptions C03_checked_ensemble_categorical.

Theorem C03_checked_ensemble_bounded : forall e lo hi x,
  ens_ok 0 false e = true -> en_lo e = Some lo -> en_hi e = Some hi ->
  lo <= ens_eval e x <= hi.
Proof. exact ens_ok_bounded. Qed.
Print Assumptions C03_checked_ensemble_bounded.

(* Hypotheses are satisfiable: a lattice member and a KFL unit under a weighted average *)
Example C03_wiring_check_satisfiable : ens_ok 0 false exc_ens = true.
Proof. exact exc_passes. Qed.

(* ---------------------------------------------------------------------- *)
(* G. The initial values are feasible: the "Inv d (v_init (mk d))" hypotheses *)
(*    of section A, discharged from the validity of the configuration          *)
(*    (Proofs/PremadeInit.v, Proofs/PremadeInitKFL.v on top of the C10 models  *)
(*    of the library initialisers and of C06's categorical projection)         *)
(* ---------------------------------------------------------------------- *)
From TFL Require Import Model.LatticeInit Model.PWLInit Model.KFLInit Proofs.LatticeInit Proofs.PWLInit.
From TFL Require Import Proofs.PremadeInit Proofs.PremadeInitKFL.
From Coq Require Import Permutation.
(* Vocabulary:
     premade_init_range r kfl oi   (output_init_min, output_init_max) of premade_lib._output_range: [0, size - 1]
                         for calibrators feeding a lattice, [0, 1] under an output calibrator, else np.min / np.max
                         of output_initialization oi (kfl_lib.default_init_params for Kronecker-factored models)
     oi_in_bounds r oi   output_initialization is non-empty and inside [output_min, output_max] - NOT checked by
                         verify_config (C03_init_refuted_output_initialization_unchecked below)
     lat_spec            one Lattice layer as a builder creates it: constraint configuration (C01 vocabulary), place
                         (layer_range) and output_initialization, initialiser kind
                           LKLinear unis          LinearInitializer(sizes, monotonicities, unis, init range)
                                                  (build_lattice_layer: CalibratedLattice, explicit / random / Crystals)
                           LKRandomMono order smp RandomMonotonicInitializer (build_rtl_layer, build_aggregation_layer)
                                                  with its two random oracles
     lat_spec_init / lat_spec_desc   the initial kernel (Model/LatticeInit.v linear_init / random_mono_init) / the lat_desc
     lat_spec_ok         cfg_valid, block_ok, not the D1 class, at least one dimension, layer bounds = output_range of
                         the place, oi_in_bounds, and: unis_ok (one entry per dimension, no dimension both monotone
                         and unimodal) resp. random_oracle_ok (per-level permutation, sorted samples, one per vertex,
                         inside the init range).  NOTHING about the initial kernel.
     pwl_spec            one PWLCalibration unit: keypoints, monotonicity, convexity, clamps, iterations, place, oi, kind
                           PKUniform            UniformOutputInitializer(init range, monotonicity, keypoints)  (input calibrators)
                           PKLayerDefault       the layer default 'equal_heights' over the layer's own init range
                                                (middle calibrators of build_aggregation_layer)
                           PKOutputCalibration  Constant(np.ediff1d(oi, to_begin=oi[0]))  (build_output_calibration_layer)
     pwl_spec_ok         >= 2 strictly increasing keypoints, monotonicity / convexity in {-1,0,1}, clamps only with a
                         monotonicity, output_min <= output_max; PKUniform: oi_in_bounds; PKOutputCalibration:
                         monotonicity 1, oi non-decreasing and inside the bounds
     mo_spec_desc (lo, hi, clamp_min, clamp_max)   the missing-output weight, initial value (init_min + init_max) / 2
     cat_spec            pairs, place, num_buckets, cs_raw = WHATEVER the RandomUniform initializer returned;
                         cat_build_init = build() projects it (constraint(initializer(...))) when a constraint exists
     cat_spec_ok         acyclic pairs over existing buckets, one raw value per bucket
     premade_linear_init n   Constant(1 / n) (build_linear_layer, build_linear_combination_layer)
     lin_spec_ok         lin_valid and no input configured decreasing (premade_linear_monos: weights of a weighted
                         average are all increasing, otherwise _monotonicities_from_feature_configs: 0 / 1)
     kfl_spec            one KFL layer: C07 configuration, dims, constraint applications of one update, units, terms,
                         place, ks_samples u t d = the tf.random.uniform column of (unit, term, dimension)
     premade_kfl_init    scale = ScaleInitializer (MK.scale_init), bias = BiasInitializer (MK.bias_init), kernel
                         column (u, t, d) = KFLInit.kfl_init_col (count_non_zeros(monotonicities) > 0) monotone_d
                         (initial scale of term t) (samples u t d)
     kfl_spec_ok         root_ok, cfg_ok, both constraints in an update, the layer is the model output or feeds the
                         output calibrator, layer bounds = output_range, every sample column has lattice_sizes entries
                         inside the init range
   Constraint families: lat_inv = monotonicity along the flagged dimensions + both output bounds ONLY.  The linear
   and the random monotonic initialiser do NOT establish trapezoid trusts, dominances, joint monotonicities or (random)
   unimodalities in all configurations: known findings D6, D24, D25, D63 of property C10; those families are not part of
   C03's invariant.  pwl_inv = height signs + keypoint-output bounds (established here even inside the D2 class). *)

(* ---- Lattice ---- *)
(* the linear initialiser with ANY init range inside the layer's bounds ... *)
Theorem C03_init_feasible_lattice_linear : forall c ran dyk unis imin imax,
  cfg_valid c -> l_sizes c <> [] -> unis_ok c unis -> imin <= imax ->
  within (l_min c) (l_max c) imin -> within (l_min c) (l_max c) imax ->
  let W := linear_init (l_sizes c) imin imax (Some (l_monos c)) (Some unis) (l_units c) in
  lat_inv (mkLatD c ran dyk W) W.
Proof. exact lattice_linear_init_inv. Qed.
Print Assumptions C03_init_feasible_lattice_linear.

(* ... the random monotonic initialiser for EVERY shuffle order and EVERY sorted sample vector ... *)
Theorem C03_init_feasible_lattice_random : forall c ran dyk order samples imin imax,
  cfg_valid c -> random_oracle_ok (l_sizes c) order samples imin imax ->
  within (l_min c) (l_max c) imin -> within (l_min c) (l_max c) imax ->
  let W := random_mono_init (l_sizes c) (l_units c) order samples in
  lat_inv (mkLatD c ran dyk W) W.
Proof. exact lattice_random_init_inv. Qed.
Print Assumptions C03_init_feasible_lattice_random.

(* ... and the premade init range is such a range *)
Theorem C03_premade_init_range : forall r oi, oi_in_bounds r oi -> (forall s, r = InputToLattice s -> (1 <= s)%nat) ->
  let imin := fst (premade_init_range r false oi) in
  let imax := snd (premade_init_range r false oi) in
  imin <= imax /\ within (fst (output_range r)) (snd (output_range r)) imin /\
  within (fst (output_range r)) (snd (output_range r)) imax.
Proof. exact premade_init_range_ok. Qed.
Print Assumptions C03_premade_init_range.

Theorem C03_init_feasible_lattice : forall s, lat_spec_ok s -> lat_inv (lat_spec_desc s) (lat_spec_init s).
Proof. exact init_feasible_lattice. Qed.
Print Assumptions C03_init_feasible_lattice.

(* no initial-value hypothesis left *)
Theorem C03_reachable_feasible_lattice_from_init : forall ss ops, (forall s, In s ss -> lat_spec_ok s) ->
  forall st, In st (run (map lat_var (map lat_spec_desc ss)) ops) -> Forall2 lat_inv (map lat_spec_desc ss) st.
Proof. exact reachable_feasible_lattice_from_init. Qed.
Print Assumptions C03_reachable_feasible_lattice_from_init.

(* ---- PWLCalibration ---- *)
(* the library's linear initialiser (equal heights: kps = None; equal slopes: Some keypoints) in the layer's own
   direction with ANY init range inside the constrained bounds *)
Theorem C03_init_feasible_pwl_linear_initializer : forall c n nk imin imax kps,
  imin <= imax -> (2 <= nk)%nat -> kps_ok nk kps ->
  (p_cmin c <> BNone -> p_min c <= imin) -> (p_cmax c <> BNone -> imax <= p_max c) ->
  let col := pwl_linear_init_col nk imin imax (p_mono c) kps in
  pwl_inv (mkPwlD c n col) col.
Proof. exact pwl_linear_init_inv. Qed.
Print Assumptions C03_init_feasible_pwl_linear_initializer.

(* the output calibrator's Constant(ediff1d(oi)): keypoint outputs = oi *)
Theorem C03_init_feasible_pwl_output_calibration : forall c n oi, p_mono c = 1%Z -> nondecreasing oi ->
  (p_cmin c <> BNone -> forall x, In x oi -> p_min c <= x) -> (p_cmax c <> BNone -> forall x, In x oi -> x <= p_max c) ->
  qleq (keypoint_outputs (ediff1d oi)) oi /\ pwl_inv (mkPwlD c n (ediff1d oi)) (ediff1d oi).
Proof. intros c n oi Em Hs Hlo Hhi. split. apply keypoint_outputs_ediff. exact (pwl_ediff_init_inv c n oi Em Hs Hlo Hhi). Qed.
Print Assumptions C03_init_feasible_pwl_output_calibration.

Theorem C03_init_feasible_pwl : forall s, pwl_spec_ok s ->
  pwl_valid (pwl_spec_cfg s) (length (ps_kps s) - 1) /\ pwl_inv (pwl_spec_desc s) (pwl_spec_init s).
Proof. intros s H. split. exact (pwl_spec_valid s H). exact (init_feasible_pwl s H). Qed.
Print Assumptions C03_init_feasible_pwl.

Theorem C03_reachable_feasible_pwl_from_init : forall ss ops, (forall s, In s ss -> pwl_spec_ok s) ->
  ops_shaped (list Q) pwl_desc pwl_shape (map pwl_spec_desc ss) ops ->
  forall st, In st (run (map pwl_var (map pwl_spec_desc ss)) ops) -> Forall2 pwl_inv (map pwl_spec_desc ss) st.
Proof. exact reachable_feasible_pwl_from_init. Qed.
Print Assumptions C03_reachable_feasible_pwl_from_init.

(* the learned missing output starts in the middle of the bounds *)
Theorem C03_init_feasible_missing_output : forall lo hi clamp_min clamp_max, lo <= hi ->
  pwl_missing_init (Some lo) (Some hi) clamp_min clamp_max == (lo + hi) * (1#2) /\
  mo_inv (mo_spec_desc (lo, hi, clamp_min, clamp_max)) (pwl_missing_init (Some lo) (Some hi) clamp_min clamp_max).
Proof. intros lo hi cmn cmx H. split. reflexivity. exact (init_feasible_missing_output (lo, hi, cmn, cmx) H). Qed.
Print Assumptions C03_init_feasible_missing_output.

Theorem C03_reachable_feasible_missing_output_from_init : forall ps ops, (forall p, In p ps -> mo_spec_ok p) ->
  forall st, In st (run (map mo_var (map mo_spec_desc ps)) ops) -> Forall2 mo_inv (map mo_spec_desc ps) st.
Proof. exact reachable_feasible_missing_output_from_init. Qed.
Print Assumptions C03_reachable_feasible_missing_output_from_init.

(* ---- CategoricalCalibration: ANY initializer value, projected by build() ---- *)
Theorem C03_init_feasible_categorical : forall s, cat_spec_ok s -> cat_inv (cat_spec_desc s) (cat_spec_init s).
Proof. exact init_feasible_categorical. Qed.
Print Assumptions C03_init_feasible_categorical.

Theorem C03_reachable_feasible_categorical_from_init : forall ss ops, (forall s, In s ss -> cat_spec_ok s) ->
  ops_shaped (list Q) cat_desc (fun d w => length w = cd_n d) (map cat_spec_desc ss) ops ->
  forall st, In st (run (map cat_var (map cat_spec_desc ss)) ops) -> Forall2 cat_inv (map cat_spec_desc ss) st.
Proof. exact reachable_feasible_categorical_from_init. Qed.
Print Assumptions C03_reachable_feasible_categorical_from_init.

(* ---- Linear: Constant(1 / n) ---- *)
(* signs for every configuration without a decreasing input (all premade ones); a weighted average to start with *)
Theorem C03_init_feasible_linear : forall rt c n,
  (forall i, nth i (lc_monos c) 0%Z <> (-1)%Z) ->
  lin_inv (mkLinD rt c n (premade_linear_init n)) (premade_linear_init n) /\
  ((1 <= n)%nat -> length (premade_linear_init n) = n /\ (forall q, In q (premade_linear_init n) -> 0 <= q) /\
                   qsum (premade_linear_init n) == 1).
Proof. intros rt c n H. split. exact (linear_init_inv rt c n H). exact (premade_linear_init_average n). Qed.
Print Assumptions C03_init_feasible_linear.

Theorem C03_premade_linear_monotonicities : forall feats weighted_average i,
  nth i (premade_linear_monos feats weighted_average) 0%Z <> (-1)%Z.
Proof. exact premade_linear_monos_not_decreasing. Qed.
Print Assumptions C03_premade_linear_monotonicities.

Theorem C03_reachable_feasible_linear_from_init : forall ss ops, (forall s, In s ss -> lin_spec_ok s) ->
  ops_shaped (list Q) lin_desc (fun d w => length w = nd_n d) (map lin_spec_desc ss) ops ->
  forall st, In st (run (map lin_var (map lin_spec_desc ss)) ops) -> Forall2 lin_inv (map lin_spec_desc ss) st.
Proof. exact reachable_feasible_linear_from_init. Qed.
Print Assumptions C03_reachable_feasible_linear_from_init.

(* ---- KroneckerFactoredLattice: every sign pattern of the ScaleInitializer, every uniform draw ---- *)
Theorem C03_init_feasible_kfl_initializers : forall c dims units terms imin imax samples,
  PK.cfg_ok c dims -> 0 <= imin -> (MK.has_bounds c = true -> imax <= 1) ->
  kfl_samples_ok c dims units terms imin imax samples ->
  kfl_feasible c dims (premade_kfl_init c dims units terms samples).
Proof. exact kfl_init_feasible. Qed.
Print Assumptions C03_init_feasible_kfl_initializers.

Theorem C03_init_feasible_kfl : forall s, kfl_spec_ok s -> kfl_inv (kfl_spec_desc s) (kfl_spec_init s).
Proof. exact init_feasible_kfl. Qed.
Print Assumptions C03_init_feasible_kfl.

Theorem C03_reachable_feasible_kfl_from_init : forall ss ops, (forall s, In s ss -> kfl_spec_ok s) ->
  ops_shaped MK.params kfl_desc kfl_shape (map kfl_spec_desc ss) ops ->
  forall st, In st (run (map kfl_var (map kfl_spec_desc ss)) ops) -> Forall2 kfl_inv (map kfl_spec_desc ss) st.
Proof. exact reachable_feasible_kfl_from_init. Qed.
Print Assumptions C03_reachable_feasible_kfl_from_init.

(* FINDING: verify_config does not relate output_initialization to output_min / output_max (nor asks it to be
   sorted).  Every other validity clause holds and the FRESH layer violates its own constraints:
   (a) CalibratedLatticeConfig(output_min=0, output_max=1, output_initialization=[-5, 5]): lattice kernel from -5 to 5;
   (b) the same with output_calibration=True and output_initialization=[1, 0] (decreasing output calibrator) or
       [-5, 5] (keypoint outputs outside the bounds);
   (c) CalibratedLinearConfig(output_min=0, output_max=1, output_initialization=[-5, 5]): input calibrators from -5 to 5. *)
Theorem C03_init_refuted_output_initialization_unchecked :
  (exists s unis, ls_kind s = LKLinear unis /\
     cfg_valid (ls_cfg s) /\ block_ok (ls_cfg s) (ls_ran s) /\ ~ trap_mono_cond_with_edgeworth (ls_cfg s) /\
     l_sizes (ls_cfg s) <> [] /\ l_min (ls_cfg s) = fst (output_range (ls_range s)) /\
     l_max (ls_cfg s) = snd (output_range (ls_range s)) /\ unis_ok (ls_cfg s) unis /\ ls_oi s <> [] /\
     ~ lat_inv (lat_spec_desc s) (lat_spec_init s)) /\
  (exists s1 s2, ps_kind s1 = PKOutputCalibration /\ ps_kind s2 = PKOutputCalibration /\
     ~ pwl_inv (pwl_spec_desc s1) (pwl_spec_init s1) /\ ~ pwl_inv (pwl_spec_desc s2) (pwl_spec_init s2)) /\
  (exists s, ps_kind s = PKUniform /\ ~ pwl_inv (pwl_spec_desc s) (pwl_spec_init s)).
Proof. split; [|split].
  - exists bad_lat, [0; 0]%Z. split. reflexivity. exact refuted_lattice_init_outside_bounds.
  - exists (bad_outc [1; 0]), (bad_outc [-(5); 5]). split. reflexivity. split. reflexivity. exact refuted_output_calibrator_init.
  - exists bad_pwl_in. split. reflexivity. exact refuted_linear_model_calibrator_init. Qed.
Print Assumptions C03_init_refuted_output_initialization_unchecked.

(* Hypotheses are satisfiable (Proofs/PremadeInit.v, Proofs/PremadeInitKFL.v): a CalibratedLattice lattice under an
   output calibrator with a unimodal dimension, a bounded model-output lattice, an RTL lattice with the random
   monotonic initialiser; input / middle / output PWL calibrators; a categorical calibrator whose RandomUniform draw
   is out of order and out of range; a calibrated-linear layer; a two-term KFL layer in both constraint orders *)
Example C03_init_hypotheses_satisfiable :
  (lat_spec_ok ex_lat_lin /\ lat_spec_ok ex_lat_out /\ lat_spec_ok ex_lat_rtl) /\
  (pwl_spec_ok ex_pwl_in /\ pwl_spec_ok ex_pwl_mid /\ pwl_spec_ok ex_pwl_outc) /\
  cat_spec_ok ex_cat /\ lin_spec_ok ex_lin /\
  (kfl_spec_ok (ex_kfl [MK.StepS; MK.StepK]) /\ kfl_spec_ok (ex_kfl [MK.StepK; MK.StepS])).
Proof. split. split. exact ex_lat_lin_ok. split. exact ex_lat_out_ok. exact ex_lat_rtl_ok.
  split. split. exact ex_pwl_in_ok. split. exact ex_pwl_mid_ok. exact ex_pwl_outc_ok.
  split. exact ex_cat_ok. split. exact ex_lin_ok. exact ex_kfl_ok. Qed.
Example C03_init_values :
  (lat_spec_init ex_lat_lin [0; 0; 0]%nat == 1#2 /\ lat_spec_init ex_lat_lin [0; 1; 0]%nat == 0 /\
   lat_spec_init ex_lat_lin [1; 2; 0]%nat == 1) /\
  pwl_spec_init ex_pwl_in = [2; -(2#3); -(4#3)] /\
  MK.p_kern (kfl_spec_init (ex_kfl [MK.StepS; MK.StepK])) = [[ [[1#4; 3#4]]; [[3#4; 1#4]] ]].
Proof. split. exact (proj1 ex_lat_values). split. exact (proj1 ex_pwl_values). exact (proj1 (ex_kfl_value _)). Qed.

(* ---------------------------------------------------------------------- *)
(* H. END TO END: configuration -> any history -> every input                 *)
(*    (Proofs/PremadeEndToEnd.v)                                              *)
(* ---------------------------------------------------------------------- *)
From TFL Require Import Proofs.PremadeEndToEnd.
(* Sections A-G are separate layers; here they are composed.  No hypothesis about any weight (initial or
   later), no hypothesis about calibrator monotonicity or range: everything is derived from the validity of
   the model description, the well-shapedness of the history, and the guards tied to known findings.
   Vocabulary:
     lval / ldesc / lvar / lshape / linv   one state machine for all layers of a model: a state holds one value
                         per LAYER (VPwl kernel-column + learned missing output, VCat, VLat kernel tensor,
                         VLin kernel + bias); Update hands every layer ARBITRARY raw values of the right kind and
                         shape (lshape) and then applies every constraint; Restore / Init as in section A
     cal_spec            CSPwl pwl_spec default_value | CSCat cat_spec default_value: a feature's calibrator layer
     cal_wired f always r oi c   build_multi_unit_calibration_layers: PWL monotonicity = calibrator_mono of the
                         feature's, output / init range = _output_range(r), UniformOutputInitializer, specs valid
                         (pwl_spec_ok / cat_spec_ok of section G); categorical monotonicities = the pair list
     cal_d2_free c       guard of known finding D2: a PWL calibrator is not both monotone and convex / concave
     cl_model / cl_ok    tfl.premade.CalibratedLattice (all_vertices): features, calibrators with range
                         [0, lattice_size_i - 1], one-unit lattice with monotonicities = map lattice_dim_mono features,
                         LinearInitializer, range [0,1] under an output calibrator else [output_min, output_max],
                         lat_spec_ok (section G: cfg_valid, block_ok, NOT the D1 class, oi_in_bounds = D65 guard),
                         output calibrator as build_output_calibration_layer creates it (outc_wired)
     cl_descs / cl_vars  the layers in state order: calibrators, lattice, output calibrator
     cl_eval md st x     cal_lattice_eval of the weights found in state st
     cs_regular c x      x is a non-missing input of the feature (config level: x <> default_value)
     cs_default c        default_input_value of a categorical calibrator
   D1: lat_spec_ok excludes only the D1 class; the premade configurations generated by the harness have no
   trusts at all.  Fixed input keypoints (input_keypoints_type 'fixed'). *)
Theorem C03_calibrated_lattice_end_to_end : forall md ops st,
  cl_ok md -> ops_shaped lval ldesc lshape (cl_descs md) ops -> In st (run (cl_vars md) ops) ->
  let F := cl_eval md st in let n := length (cl_feats md) in
  (forall i x v, (i < n)%nat -> length x = n ->
     cs_regular (nth i (cl_cals md) dcs) (nth i x 0) -> cs_regular (nth i (cl_cals md) dcs) v -> nth i x 0 <= v ->
     (nth i (cl_feats md) (MNum 0) = MNum 1 -> F x <= F (set_nth i v x)) /\
     (nth i (cl_feats md) (MNum 0) = MNum (-1) -> F (set_nth i v x) <= F x)) /\
  (forall i x ps a b, (i < n)%nat -> length x = n ->
     nth i (cl_feats md) (MNum 0) = MPairs ps -> In (a, b) ps ->
     cs_default (nth i (cl_cals md) dcs) <> Some (Z.of_nat a) -> cs_default (nth i (cl_cals md) dcs) <> Some (Z.of_nat b) ->
     F (set_nth i (qn a) x) <= F (set_nth i (qn b) x)) /\
  (forall lo x, cl_min md = Some lo -> length x = n -> lo <= F x) /\
  (forall hi x, cl_max md = Some hi -> length x = n -> F x <= hi).
Proof. exact calibrated_lattice_end_to_end. Qed.
Print Assumptions C03_calibrated_lattice_end_to_end.

(* all histories of the example: the model description is valid, the hostile 2-step history is well-shaped,
   and the model realised by the final state is evaluated (vm_compute): increasing in feature 0 in and beyond the
   keypoint range (strictly somewhere), ordered along the pair (0, 2), missing value / unknown bucket inside [-2, 2] *)
Example C03_calibrated_lattice_hypotheses_satisfiable :
  cl_ok ex_cl /\ ops_shaped lval ldesc lshape (cl_descs ex_cl) ex_cl_ops /\
  In (final (cl_vars ex_cl) ex_cl_ops) (run (cl_vars ex_cl) ex_cl_ops).
Proof. split. exact ex_cl_ok. split. exact ex_cl_ops_shaped. apply final_in_run. Qed.
Example C03_calibrated_lattice_example_values :
  let F := cl_eval ex_cl (final (cl_vars ex_cl) ex_cl_ops) in
  Qle_bool (F [0; 0]) (F [1#2; 0]) && Qle_bool (F [1#2; 0]) (F [2; 0]) && Qle_bool (F [2; 0]) (F [100; 0]) &&
  Qle_bool (F [1; 0]) (F [1; 2]) &&
  Qle_bool (-(2)) (F [-(1); -(1)]) && Qle_bool (F [-(1); -(1)]) 2 && Qle_bool (-(2)) (F [7; 5]) && Qle_bool (F [7; 5]) 2 &&
  negb (Qle_bool (F [100; 0]) (F [0; 0])) = true.
Proof. exact ex_cl_values. Qed.

(* tfl.premade.CalibratedLinear.
     cn_model / cn_ok    features, calibrators with range MODEL_OUTPUT (INPUT_TO_FINAL_CALIBRATION under an output
                         calibrator), the Linear layer of build_linear_layer: weighted_average = (a bound or output
                         calibration is configured) -> monotonicities all 1, normalization_order 1, no bias; otherwise
                         monotonicities from the features, no normalization, bias iff use_bias; lin_valid;
                         output_min <= output_max; D65 guard inside pwl_spec_ok of the input calibrators
     cn_kernel md st     the Linear kernel found in state st
     lin_collapsed k     sum |k_i| < the normalization epsilon: the state in which the L1 normalization is skipped
                         (C06_norm_one_or_zero); the state [0; 0] of C03_bounded_refuted_weighted_average_zero
     cs_domain c x       x is a number (numeric feature) / a bucket index or default_value (categorical feature)
   Monotonicity needs no guard.  Bounds: unconditional under an output calibrator; without one they hold outside
   known findings D2 (cal_d2_free) and D32 (not lin_collapsed) - see the second Example below: the guard is necessary. *)
Theorem C03_calibrated_linear_end_to_end : forall md ops st,
  cn_ok md -> ops_shaped lval ldesc lshape (cn_descs md) ops -> In st (run (cn_vars md) ops) ->
  let F := cn_eval md st in let n := length (cn_feats md) in
  (forall i x v, (i < n)%nat -> length x = n ->
     cs_regular (nth i (cn_cals md) dcs) (nth i x 0) -> cs_regular (nth i (cn_cals md) dcs) v -> nth i x 0 <= v ->
     (nth i (cn_feats md) (MNum 0) = MNum 1 -> F x <= F (set_nth i v x)) /\
     (nth i (cn_feats md) (MNum 0) = MNum (-1) -> F (set_nth i v x) <= F x)) /\
  (forall i x ps a b, (i < n)%nat -> length x = n ->
     nth i (cn_feats md) (MNum 0) = MPairs ps -> In (a, b) ps ->
     cs_default (nth i (cn_cals md) dcs) <> Some (Z.of_nat a) -> cs_default (nth i (cn_cals md) dcs) <> Some (Z.of_nat b) ->
     F (set_nth i (qn a) x) <= F (set_nth i (qn b) x)) /\
  (forall lo hi x, cn_min md = Some lo -> cn_max md = Some hi -> length x = n ->
     (cn_outc md = None ->
        (forall i, (i < n)%nat -> cal_d2_free (nth i (cn_cals md) dcs)) /\ ~ lin_collapsed (cn_kernel md st) /\
        (lo <= 0 <= hi \/ forall i, (i < n)%nat -> cs_domain (nth i (cn_cals md) dcs) (nth i x 0))) ->
     lo <= F x <= hi).
Proof. exact calibrated_linear_end_to_end. Qed.
Print Assumptions C03_calibrated_linear_end_to_end.

(* satisfiable; and after the hostile second step the SAME valid model is collapsed and outputs 0 < output_min = 1 *)
Example C03_calibrated_linear_hypotheses_satisfiable :
  cn_ok ex_cn /\ ops_shaped lval ldesc lshape (cn_descs ex_cn) [Update ex_cn_raw1; Update ex_cn_raw2] /\
  (lin_collapsed [0; 0] /\ forall n, (1 <= n)%nat -> ~ lin_collapsed (premade_linear_init n)).
Proof. split. exact ex_cn_ok. split. exact ex_cn_ops_shaped. exact d32_state_collapsed. Qed.
Example C03_calibrated_linear_example_values :
  let s1 := final (cn_vars ex_cn) [Update ex_cn_raw1] in
  let s2 := final (cn_vars ex_cn) [Update ex_cn_raw1; Update ex_cn_raw2] in
  (cn_kernel ex_cn s1 = [3#4; 1#4] /\ ~ lin_collapsed (cn_kernel ex_cn s1) /\
   Qle_bool 1 (cn_eval ex_cn s1 [0; 0]) && Qle_bool (cn_eval ex_cn s1 [0; 0]) (cn_eval ex_cn s1 [2; 0]) &&
   Qle_bool (cn_eval ex_cn s1 [2; 0]) (cn_eval ex_cn s1 [2; 1]) && Qle_bool (cn_eval ex_cn s1 [2; 1]) 2 = true) /\
  (cn_kernel ex_cn s2 = [0; 0] /\ lin_collapsed (cn_kernel ex_cn s2) /\ cn_eval ex_cn s2 [2; 1] < 1).
Proof. exact ex_cn_values. Qed.

(* tfl.premade.CalibratedLattice, parameterization = 'kronecker_factored'.
     ck_model / ck_ok    calibrators with range [0, L - 1] (L the common lattice size), the KFL layer of section G
                         (kfl_spec: one unit, monotonicities = kfl_monos_of features, clip_inputs False, bounds and
                         init range from _output_range, uniform-draw oracle inside the init range), kfl_spec_ok.
   kfl_spec_ok carries the guard of known finding D57: every update applies BOTH KFL constraints (ks_steps), as in
   C03_reachable_feasible_kfl; C03_kfl_legacy_layer_order_is_update says which optimizer calls do. *)
Theorem C03_calibrated_kfl_end_to_end : forall md ops st,
  ck_ok md -> ops_shaped lval ldesc lshape (ck_descs md) ops -> In st (run (ck_vars md) ops) ->
  let F := ck_eval md st in let n := length (ck_feats md) in
  (forall i x v, (i < n)%nat -> length x = n ->
     cs_regular (nth i (ck_cals md) dcs) (nth i x 0) -> cs_regular (nth i (ck_cals md) dcs) v -> nth i x 0 <= v ->
     (nth i (ck_feats md) (MNum 0) = MNum 1 -> F x <= F (set_nth i v x)) /\
     (nth i (ck_feats md) (MNum 0) = MNum (-1) -> F (set_nth i v x) <= F x)) /\
  (forall i x ps a b, (i < n)%nat -> length x = n ->
     nth i (ck_feats md) (MNum 0) = MPairs ps -> In (a, b) ps ->
     cs_default (nth i (ck_cals md) dcs) <> Some (Z.of_nat a) -> cs_default (nth i (ck_cals md) dcs) <> Some (Z.of_nat b) ->
     F (set_nth i (qn a) x) <= F (set_nth i (qn b) x)) /\
  (forall lo hi x, ck_min md = Some lo -> ck_max md = Some hi -> length x = n -> lo <= F x <= hi).
Proof. exact calibrated_kfl_end_to_end. Qed.
Print Assumptions C03_calibrated_kfl_end_to_end.

Example C03_calibrated_kfl_hypotheses_satisfiable :
  (ck_ok (ex_ck [MK.StepS; MK.StepK]) /\ ck_ok (ex_ck [MK.StepK; MK.StepS])) /\
  forall steps, ops_shaped lval ldesc lshape (ck_descs (ex_ck steps)) [Update ex_ck_raw; Restore 0; Update ex_ck_raw].
Proof. split. exact ex_ck_ok. exact ex_ck_history. Qed.

(* tfl.premade.CalibratedLatticeEnsemble, explicit lattices (also what the random and Crystals structures leave in
   the config), all_vertices, outputs averaged (use_linear_combination False).
     en_model / en_ok    calibrator UNITS (shared or separate), per lattice: features read, calibrator unit per
                         dimension (range [0, lattice_size - 1], D2 guard), Lattice layer as in cl_ok (lat_spec_ok)
     en_reader md i u    calibrator unit u stands in front of a lattice dimension that reads feature i
   A lattice may read a feature at several positions. *)
Theorem C03_ensemble_end_to_end : forall md ops st,
  en_ok md -> ops_shaped lval ldesc lshape (en_descs md) ops -> In st (run (en_vars md) ops) ->
  let F := en_eval md st in let n := length (en_feats md) in
  (forall i x v, (i < n)%nat -> length x = n ->
     (forall u, en_reader md i u -> cs_regular (nth u (en_cals md) dcs) (nth i x 0) /\ cs_regular (nth u (en_cals md) dcs) v) ->
     nth i x 0 <= v ->
     (nth i (en_feats md) (MNum 0) = MNum 1 -> F x <= F (set_nth i v x)) /\
     (nth i (en_feats md) (MNum 0) = MNum (-1) -> F (set_nth i v x) <= F x)) /\
  (forall i x ps a b, (i < n)%nat -> length x = n ->
     nth i (en_feats md) (MNum 0) = MPairs ps -> In (a, b) ps ->
     (forall u, en_reader md i u -> cs_default (nth u (en_cals md) dcs) <> Some (Z.of_nat a) /\
                                    cs_default (nth u (en_cals md) dcs) <> Some (Z.of_nat b)) ->
     F (set_nth i (qn a) x) <= F (set_nth i (qn b) x)) /\
  (forall lo hi x, en_min md = Some lo -> en_max md = Some hi -> lo <= F x <= hi).
Proof. exact ensemble_end_to_end. Qed.
Print Assumptions C03_ensemble_end_to_end.

Example C03_ensemble_hypotheses_satisfiable :
  en_ok ex_en /\ ops_shaped lval ldesc lshape (en_descs ex_en) [Update ex_en_raw; Init; Restore 1].
Proof. split. exact ex_en_ok. exact ex_en_history. Qed.
