(* C08 — Iterative (Dykstra) projection: feasible kernels are fixed; a fixpoint
   of a sweep is the Euclidean-nearest feasible kernel.  Property theorems only;
   proofs live in Proofs/DykstraTheory.v (abstract theory) and
   Proofs/LatticeDykstra.v (the model Model/LatticeDykstra.v of
   lattice_lib.project_by_dykstra and the eight _project_partial_* updates).

   Tensors are functions on index vectors over the shape sizes ++ [units];
   teq sh f g := f, g agree (==) on every valid index of sh.

   What is proved
   * C08_increment_sum: the roll-back invariant, for ANY list of keyed maps.
   * C08_feasible_fixed (+ _changes_zero): all EIGHT families (monotonicity,
     unimodality, Edgeworth, trapezoid, monotonic dominance, range dominance,
     joint monotonicity, joint unimodality), any combination, any number of
     iterations, any number of units.
   * C08_group_nearest_<family>: the group update of the code IS the
     nearest-point map (variational characterisation) onto its group's
     constraint set, for monotonicity/unimodality, Edgeworth (1/4), trapezoid
     (1/2), monotonic dominance and joint monotonicity (2/3, 1/3): a wrong
     coefficient, sign or parity would make these unprovable.
   * C08_fixpoint_nearest (abstract), C08_sweep_fixpoint_nearest (dyk_sweep of
     the model, any keyed nearest-point maps with distinct keys),
     C08_dykstra_fixpoint_nearest (group_ops of a configuration of the six exact
     families): a state whose stored changes are reproduced by one more sweep is
     feasible and is the Euclidean-nearest feasible kernel to the start.
   * C08_halfspace_nearest, C08_nearest_unique, C08_nearest_distance: the
     half-space projection formula; uniqueness / distance form of "nearest".
   * C08_pwl_feasible_fixed: re-export of the C04 theorem for the PWL calibrator.
   * PWL calibrator, monotonicity +1/-1 WITH BOUNDS, no convexity, n >= 1 pieces
     (section 9, Proofs/PWLDykstra.v; bound types NONE/BOUND/CLAMPED in all nine
     combinations, both directions):
     - C08_pwl_monotonicity_is_projection, C08_pwl_bounds_is_projection:
       _project_monotonicity and _project_bounds_considering_monotonicity ARE the
       Euclidean projections (variational inequality) onto {heights of the sign}
       and onto {omin (<=|==) first output /\ last output (<=|==) omax} (mirrored
       for decreasing), for EVERY input - no guard other than n >= 1 and no
       refuted witness: the documented restriction "heights monotone" is not
       needed; C08_pwl_bounds_step_shape gives the closed form (new bias, one
       common shift of all heights);
     - C08_pwl_sets_are_feasibility: the intersection of the two sets is exactly
       `feasible` (every keypoint output within the bounds);
     - C08_pwl_body_is_sweep: one body() iteration = one abstract sweep over two
       slots; hence C08_pwl_fixpoint_nearest (a state whose stored changes are
       reproduced is feasible and the nearest feasible column to the input),
       C08_pwl_never_farther_from_feasible, C08_pwl_moves_summable,
       C08_pwl_stalls, C08_pwl_stalled_is_fixpoint, C08_pwl_stalled_nearest;
     - C08_pwl_finalize_feasible_fixed, C08_pwl_converged_result:
       _finalize_constraints leaves a feasible iterate alone, so if the loop ends
       in a fixpoint project_all_constraints RETURNS the nearest feasible column.

   * Convergence clause, the quantitative core of the Boyle-Dykstra argument
     (Proofs/DykstraBound.v abstract, Proofs/LatticeDykstraBound.v for the model;
     pure algebra + induction over the steps, no limits).  For nearest-point maps
     onto sets with a common point Y (model: the six exact families, Y feasible):
     - C08_dykstra_identity: the exact identity  |x0-Y|^2 = |xn-Y|^2 + (sum of all
       squared step movements) + 2 (step slacks >= 0) + 2 (dual terms >= 0);
     - BOUNDEDNESS  C08_abstract_never_farther, C08_sweep_never_farther,
       C08_dykstra_never_farther_from_feasible: after ANY number of sweeps the
       kernel is not farther from ANY feasible kernel than the start was;
     - SUMMABLE MOVEMENT  C08_abstract_moves_summable, C08_sweep_moves_summable,
       C08_dykstra_moves_summable: dist2(W_n,Y) + (squared movement of sweeps
       1..n) <= dist2(W_0,Y), uniformly in n;
     - STALLING RATE  C08_abstract_stalls, C08_dykstra_stalls: among the first n
       sweeps one moves by at most dist2(W_0,Y)/n (squared);
     - C08_abstract_stalled_is_fixpoint, C08_stalled_sweep_is_fixpoint,
       C08_dykstra_stalled_nearest: a sweep with zero movement reproduces every
       stored change, hence (fixpoint => nearest) the state is feasible and the
       Euclidean-nearest feasible kernel.
     The model-level bounds need NO "no constraint listed twice" hypothesis (the
     potential sums over distinct keys) and no trap_sizes_ok.

   NOT proved (by design, DESIGN.md section 7/C08):
   * existence of the limit of the iterates, that the limit is the nearest
     point, and that the violation tends to 0 (Boyle-Dykstra 1986).  What is
     missing after the theorems above are the analytic steps of that proof: a
     convergent subsequence of the bounded iterates (compactness over the
     reals; the model's iterates are rationals and the limit is in general not
     reached at finite n), the liminf argument on the dual terms, and the
     identification of the limit through the variational inequality.  Hence
     also the closeness of the strict layer constraint to the nearest point at
     finite n.  Cited, and tested numerically by harness/props/c08.py against
     an exact solver;
   * nearest-point theorems for the group updates of range dominance and joint
     unimodality (the property claims the nearest point only for the other six
     families; for these two only feasible => fixed and properness are proved);
   * for the PWL loop likewise only fixpoint => nearest and the movement bounds
     are proved, not the existence of the limit (same analytic gap; in general
     the PWL iterates do not reach the nearest point at finite n, e.g.
     decreasing, max 4 CLAMPED, min 0 BOUND, start (5; -3, 1, -3): nearest point
     (4; -2, 0, -2), iterate 2 is (4; -20/9, 0, -20/9), Example
     pwl_not_finite_example);
     convexity != 0 (slots CONVEXITY_0/1) and monotonicity = 0 with bounds
     (_approximately_project_bounds_only is not a projection) are outside;
   * C08_dykstra_fixpoint_nearest assumes that no constraint is listed twice
     (NoDup of the four constraint lists): duplicated constraints share one
     last_change slot in the code and are outside the theorem.

   Finding recorded as a theorem (not part of the property statement, which
   claims the nearest point only for the six families above):
   C08_range_dominance_corner_not_nearest - at the corner vertices (0, max) and
   (max, 0) the range-dominance update is feasible but is NOT the Euclidean
   projection (reproduced on the real code: moves e_(0,1) on a 2x2 lattice by
   squared distance 2, nearest feasible point is at 2/3).

   Hypotheses are satisfiable: Examples feasible_fixed_hyps_A (2x3 lattice, 2
   units, six families incl. range dominance, kernel i + u), feasible_fixed_hyps_B (3x3, 2 units,
   unimodality + joint unimodality, valley kernel), fixpoint_nearest_hyps_C (a
   kernel that moves and reaches a fixpoint after one sweep; its constraint
   lists are empty, hence duplicate-free) in Proofs/LatticeDykstra.v,
   asweep_fixpoint_hyps (abstract theorem) in Proofs/DykstraTheory.v,
   dykstra_bound_hyps (two half-spaces in Q^2: a strict and a tight instance of
   the movement bound) in Proofs/DykstraBound.v and never_farther_hyps_D (model,
   strict and tight) in Proofs/LatticeDykstraBound.v; for the PWL theorems
   pwl_fixpoint_nearest_hyps (3 pieces, increasing, BOUND/BOUND: both steps
   move, fixpoint after one iteration, also at p_iters), pwl_never_farther_hyps
   (strict and tight) and pwl_dec_clamped_hyps (decreasing, CLAMPED + BOUND) in
   Proofs/PWLDykstra.v. *)
From TFL Require Import Model.LatticeDykstra Proofs.DykstraTheory Proofs.LatticeDykstra.
From TFL Require Import Proofs.DykstraBound Proofs.LatticeDykstraBound.
From TFL Require Model.PWLProject Proofs.PWLProject Proofs.PWLDykstra.
Open Scope Q_scope.

(* 1. Roll-back invariant: after n sweeps over ANY keyed maps, the current point
   is the start plus the sum of the stored changes, one per distinct stored key
   (duplicated keys share one slot of the dictionary). *)
Theorem C08_increment_sum : forall (sh : list nat) (ops : list (key * (tens -> tens))) (n : nat) (W : tens),
  let W' := fst (dyk_loop sh ops n (W, [])) in
  let lc := snd (dyk_loop sh ops n (W, [])) in
  NoDup (map fst lc) /\
  forall x, valid sh x -> W' x == W x + qsum (map (fun k => lc_get lc k x) (map fst lc)).
Proof. exact increment_sum. Qed.
Print Assumptions C08_increment_sum.

(* 2. Feasible kernels are fixed: all eight families, any combination, any
   iteration count, any units.
   dyk_cfg_ok c: trust / dominance / joint-monotonicity pairs name two different
     lattice dimensions (< rank), trust directions are non-zero.
   dyk_feasible c W: mono_along for every dimension with monotonicity 1,
     unimodal_along (the code's i < size/2 split) for every dimension with
     unimodality <> 0, edgeworth_holds / trapezoid_holds (LatticeSpec.v),
     mdom_holds, rdom_holds, jmono_holds, junimod_holds for every listed
     constraint (the inequalities of lattice_lib.assert_constraints /
     harness/latpred.py). *)
Theorem C08_feasible_fixed : forall (c : dyk_cfg) (W : tens),
  dyk_cfg_ok c -> dyk_feasible c W -> teq (k_shape c) (project_by_dykstra c W) W.
Proof. exact feasible_fixed. Qed.
Print Assumptions C08_feasible_fixed.

(* ... and every stored last_change stays zero, after any number of sweeps *)
Theorem C08_feasible_changes_zero : forall (c : dyk_cfg) (W : tens) (n : nat),
  dyk_cfg_ok c -> dyk_feasible c W ->
  forall e, In e (snd (dyk_loop (k_shape c) (group_ops c) n (W, []))) -> teq (k_shape c) (snd e) tzero.
Proof. exact feasible_changes_zero. Qed.
Print Assumptions C08_feasible_changes_zero.

(* generic form: any list of maps that fix W and respect teq *)
Theorem C08_fixed_generic : forall (sh : list nat) (ops : list (key * (tens -> tens))) (n : nat) (W : tens),
  (forall kop, In kop ops -> op_proper sh (snd kop) /\ op_fixes sh (snd kop) W) ->
  teq sh (fst (dyk_loop sh ops n (W, []))) W /\
  forall e, In e (snd (dyk_loop sh ops n (W, []))) -> teq sh (snd e) tzero.
Proof. exact dyk_loop_fixed. Qed.
Print Assumptions C08_fixed_generic.

(* 3. Abstract fixpoint => nearest.  Vectors are functions on a finite index list
   I; ip I f g = sum_{i in I} f i * g i; is_proj I C P := forall y, C (P y) /\
   forall z, C z -> ip I (y - P y) (z - P y) <= 0.  asweep rolls back, applies
   and stores for every slot (set, map, stored increment) in turn.  If the
   increments add up to x - x0 and one sweep reproduces every increment, then x
   is unchanged, lies in every set, and satisfies the variational inequality of
   the intersection, i.e. it is the nearest point of the intersection to x0. *)
Theorem C08_fixpoint_nearest : forall (A : Type) (I : list A) (sl : list (slot (A:=A))) (x0 x : A -> Q),
  (forall s, In s sl -> is_proj I (s_C s) (s_P s)) ->
  (forall s, In s sl -> forall f g, veq I f g -> s_C s f -> s_C s g) ->
  (forall s, In s sl -> forall f g, veq I f g -> veq I (s_P s f) (s_P s g)) ->
  veq I x (vadd x0 (vsum (map s_e sl))) ->
  Forall2 (fun s s' => veq I (s_e s') (s_e s)) sl (snd (asweep sl x)) ->
  veq I (fst (asweep sl x)) x /\
  (forall s, In s sl -> s_C s x) /\
  (forall z, (forall s, In s sl -> s_C s z) ->
     ip I (vsub x0 x) (vsub z x) <= 0 /\ ip I (vsub x0 x) (vsub x0 x) <= ip I (vsub x0 z) (vsub x0 z)).
Proof. exact (@asweep_fixpoint_nearest). Qed.
Print Assumptions C08_fixpoint_nearest.

(* the variational inequality gives the distance form of "nearest" ... *)
Theorem C08_nearest_distance : forall (A : Type) (I : list A) (x0 x z : A -> Q),
  ip I (vsub x0 x) (vsub z x) <= 0 ->
  ip I (vsub x0 x) (vsub x0 x) + ip I (vsub x z) (vsub x z) <= ip I (vsub x0 z) (vsub x0 z).
Proof. exact (@vi_nearest_dist). Qed.
Print Assumptions C08_nearest_distance.

(* ... and determines the point uniquely *)
Theorem C08_nearest_unique : forall (A : Type) (I : list A) (C : (A -> Q) -> Prop) (x0 x x' : A -> Q),
  C x -> C x' ->
  (forall z, C z -> ip I (vsub x0 x) (vsub z x) <= 0) ->
  (forall z, C z -> ip I (vsub x0 x') (vsub z x') <= 0) -> veq I x x'.
Proof. exact (@vi_unique). Qed.
Print Assumptions C08_nearest_unique.

(* projection onto one half-space <c, w> >= 0:  w - c * min(<c,w>, 0) / <c,c> *)
Theorem C08_halfspace_nearest : forall (A : Type) (I : list A) (c : A -> Q),
  0 < ip I c c -> is_proj I (fun w => 0 <= ip I c w) (hs_proj I c).
Proof. exact (@halfspace_is_proj). Qed.
Print Assumptions C08_halfspace_nearest.

(* 4. The group updates are nearest-point maps over I = all valid indices.
   mono_group_ok sh mono uni d g W: every pair (i, i+1), i = g, g+2, ..., of axis d,
   at every position of the other axes, satisfies  (mono = 1 -> lo <= hi) and
   (uni <> 0 -> lo <= hi on the increasing part / hi <= lo on the decreasing part). *)
Theorem C08_group_nearest_monotonicity : forall sh mono uni d g, (d < length sh)%nat ->
  is_proj (all_idx sh) (mono_group_ok sh mono uni d g) (mono_group sh mono uni d g).
Proof. exact mono_group_is_proj. Qed.
Print Assumptions C08_group_nearest_monotonicity.

(* edge_group_ok: the slope inequality on every square with lower corner (i, j),
   i = g0, g0+2, ..., j = g1, g1+2, ... (reversed conditional axis for direction -1) *)
Theorem C08_group_nearest_edgeworth : forall sh m c dir g0 g1, m <> c -> (m < length sh)%nat -> (c < length sh)%nat ->
  is_proj (all_idx sh) (edge_group_ok sh (m, c, dir) g0 g1) (edge_group sh (m, c, dir) g0 g1).
Proof. exact edge_group_is_proj. Qed.
Print Assumptions C08_group_nearest_edgeworth.

Theorem C08_group_nearest_trapezoid : forall sh m c dir g, m <> c -> (c < length sh)%nat ->
  is_proj (all_idx sh) (trap_group_ok sh (m, c, dir) g) (trap_group sh (m, c, dir) g).
Proof. exact trap_group_is_proj. Qed.
Print Assumptions C08_group_nearest_trapezoid.

Theorem C08_group_nearest_monotonic_dominance : forall sh p q g0 g1 g2, p <> q -> (p < length sh)%nat -> (q < length sh)%nat ->
  is_proj (all_idx sh) (mdom_group_ok sh p q g0 g1 g2) (mdom_group sh p q g0 g1 g2).
Proof. exact mdom_group_is_proj. Qed.
Print Assumptions C08_group_nearest_monotonic_dominance.

Theorem C08_group_nearest_joint_monotonicity : forall sh p q g0 g1 g2, p <> q -> (p < length sh)%nat -> (q < length sh)%nat ->
  is_proj (all_idx sh) (jmono_group_ok sh p q g0 g1 g2) (jmono_group sh p q g0 g1 g2).
Proof. exact jmono_group_is_proj. Qed.
Print Assumptions C08_group_nearest_joint_monotonicity.

(* for the six exact families, feasibility is exactly membership in the set of
   every configured group (key_set c k = the set of the group with key k) *)
Theorem C08_groups_cover_feasibility : forall c W, dyk_cfg_ok c -> exact_families c -> trap_sizes_ok c ->
  (dyk_feasible c W <-> forall kop, In kop (group_ops c) -> key_set c (fst kop) W).
Proof. exact feasible_iff_key_sets. Qed.
Print Assumptions C08_groups_cover_feasibility.

(* 5. Fixpoint => nearest for dyk_sweep / dyk_loop of the model: any keyed maps
   with distinct keys, each a nearest-point map onto the set named by its key. *)
Theorem C08_sweep_fixpoint_nearest :
  forall sh (ops : list (key * (tens -> tens))) (Cof : key -> tens -> Prop) (W0 : tens) (n : nat),
  NoDup (map fst ops) ->
  (forall kop, In kop ops ->
     is_proj (all_idx sh) (Cof (fst kop)) (snd kop) /\ op_proper sh (snd kop) /\
     (forall f g, teq sh f g -> Cof (fst kop) f -> Cof (fst kop) g)) ->
  let st := dyk_loop sh ops n (W0, []) in
  (forall kop, In kop ops -> teq sh (lc_get (snd (dyk_sweep sh ops st)) (fst kop)) (lc_get (snd st) (fst kop))) ->
  teq sh (fst (dyk_sweep sh ops st)) (fst st) /\
  (forall kop, In kop ops -> Cof (fst kop) (fst st)) /\
  (forall z, (forall kop, In kop ops -> Cof (fst kop) z) ->
     ip (all_idx sh) (vsub W0 (fst st)) (vsub z (fst st)) <= 0 /\
     ip (all_idx sh) (vsub W0 (fst st)) (vsub W0 (fst st)) <= ip (all_idx sh) (vsub W0 z) (vsub W0 z)).
Proof. exact dyk_loop_fixpoint_nearest. Qed.
Print Assumptions C08_sweep_fixpoint_nearest.

(* ... instantiated with the configured group maps of the six exact families
   (exact_families c: no range dominance, no joint unimodality; trap_sizes_ok c:
   main axis of every trapezoid trust has size >= 2): a state reached after n
   sweeps whose stored changes are reproduced by one more sweep is unchanged by
   it, FEASIBLE, and the Euclidean-nearest feasible kernel to the start W0. *)
Theorem C08_dykstra_fixpoint_nearest : forall (c : dyk_cfg) (W0 : tens) (n : nat),
  dyk_cfg_ok c -> exact_families c -> trap_sizes_ok c ->
  NoDup (k_edge c) -> NoDup (k_trap c) -> NoDup (k_mdom c) -> NoDup (k_jmono c) ->
  let sh := k_shape c in
  let st := dyk_loop sh (group_ops c) n (W0, []) in
  (forall kop, In kop (group_ops c) ->
     teq sh (lc_get (snd (dyk_sweep sh (group_ops c) st)) (fst kop)) (lc_get (snd st) (fst kop))) ->
  teq sh (fst (dyk_sweep sh (group_ops c) st)) (fst st) /\
  dyk_feasible c (fst st) /\
  (forall z, dyk_feasible c z ->
     ip (all_idx sh) (vsub W0 (fst st)) (vsub z (fst st)) <= 0 /\
     ip (all_idx sh) (vsub W0 (fst st)) (vsub W0 (fst st)) <= ip (all_idx sh) (vsub W0 z) (vsub W0 z)).
Proof. exact dykstra_fixpoint_nearest'. Qed.
Print Assumptions C08_dykstra_fixpoint_nearest.

(* no constraint listed twice => the dictionary keys of the configured group
   maps are pairwise distinct (hypothesis of C08_sweep_fixpoint_nearest) *)
Theorem C08_group_keys_distinct : forall c, exact_families c ->
  NoDup (k_edge c) -> NoDup (k_trap c) -> NoDup (k_mdom c) -> NoDup (k_jmono c) ->
  NoDup (map fst (group_ops c)).
Proof. exact group_ops_keys_nodup. Qed.
Print Assumptions C08_group_keys_distinct.

(* Range dominance, corner vertices: the group update is not a nearest-point map
   onto ANY set containing the feasible witness z (in particular not onto its
   own constraint set rdom_group_ok). *)
Theorem C08_range_dominance_corner_not_nearest :
  exists sh p q i j (z : tens),
    (i < nth p sh 0%nat)%nat /\ (j < nth q sh 0%nat)%nat /\ rdom_group_ok sh p q i j z /\
    forall C : tens -> Prop, C z -> ~ is_proj (all_idx sh) C (rdom_group sh p q i j).
Proof. exact rdom_corner_not_nearest. Qed.
Print Assumptions C08_range_dominance_corner_not_nearest.

(* 6. PWL calibrator: feasible kernel columns are left unchanged (re-export of the
   C04 theorem; vocabulary pwl_valid / feasible in Proofs/PWLProject.v). *)
Theorem C08_pwl_feasible_fixed : forall c n bias h,
  PWLProject.pwl_valid c n -> length h = n -> PWLProject.feasible c bias h ->
  qleq (PWLProject.pwl_project_col c (bias :: h)) (bias :: h).
Proof. exact PWLProject.pwl_feasible_fixed. Qed.
Print Assumptions C08_pwl_feasible_fixed.

(* 7. The quantitative core of the Boyle-Dykstra convergence argument, abstract.
   d2 I f g = ip I (f - g) (f - g) (squared distance);
   sgood I y s := is_proj I (s_C s) (s_P s) /\ s_C s y  (nearest-point map, y in the set);
   aloop n (x, sl) = n times asweep;  amoves I sl x = sum over the steps of one
   sweep of d2 (point after, point before);  aloop_moves I n st = the list of
   amoves of sweeps 1..n;  qnat n = n as a rational.
   Tracked form (ghost state, the point p produced last by every slot):
   track0 x0 sl = (x0, [(s, x0) | s in sl]);  tloop = aloop on tracked slots
   (untrack forgets the p);  tloop_slacks I n st = per sweep, the sum over its
   steps of <e_old, x_new - p_old>;  tsum I y tl = sum_i <e_i, y - p_i>. *)
Theorem C08_dykstra_identity : forall (A : Type) (I : list A) (y x0 : A -> Q) (sl : list (slot (A:=A))),
  (forall s, In s sl -> sgood I y s) -> (forall s, In s sl -> veq I (s_e s) vzero) ->
  forall n : nat,
  let st := tloop n (track0 x0 sl) in
  untrack st = aloop n (x0, sl) /\
  (forall m, In m (tloop_slacks I n (track0 x0 sl)) -> 0 <= m) /\
  (forall t, In t (snd st) -> 0 <= ip I (s_e (fst t)) (vsub y (snd t))) /\
  d2 I x0 y == d2 I (fst st) y + qsum (aloop_moves I n (x0, sl)) +
               2 * qsum (tloop_slacks I n (track0 x0 sl)) + 2 * tsum I y (snd st).
Proof. exact (@dykstra_identity). Qed.
Print Assumptions C08_dykstra_identity.

(* (a) Fejer-type bound: never farther from a common point than the start *)
Theorem C08_abstract_never_farther : forall (A : Type) (I : list A) (y x0 : A -> Q) (sl : list (slot (A:=A))),
  (forall s, In s sl -> sgood I y s) -> (forall s, In s sl -> veq I (s_e s) vzero) ->
  forall n : nat, d2 I (fst (aloop n (x0, sl))) y <= d2 I x0 y.
Proof. exact (@aloop_never_farther). Qed.
Print Assumptions C08_abstract_never_farther.

(* (b) the squared movements of all sweeps are summable, uniformly in n *)
Theorem C08_abstract_moves_summable : forall (A : Type) (I : list A) (y x0 : A -> Q) (sl : list (slot (A:=A))),
  (forall s, In s sl -> sgood I y s) -> (forall s, In s sl -> veq I (s_e s) vzero) ->
  forall n : nat, d2 I (fst (aloop n (x0, sl))) y + qsum (aloop_moves I n (x0, sl)) <= d2 I x0 y.
Proof. exact (@aloop_moves_summable). Qed.
Print Assumptions C08_abstract_moves_summable.

(* ... hence among the first n sweeps one has squared movement <= |x0 - y|^2 / n *)
Theorem C08_abstract_stalls : forall (A : Type) (I : list A) (y x0 : A -> Q) (sl : list (slot (A:=A))),
  (forall s, In s sl -> sgood I y s) -> (forall s, In s sl -> veq I (s_e s) vzero) ->
  forall n : nat, (1 <= n)%nat ->
  exists k, (k < n)%nat /\ amoves I (snd (aloop k (x0, sl))) (fst (aloop k (x0, sl))) * qnat n <= d2 I x0 y.
Proof. exact (@aloop_stalls). Qed.
Print Assumptions C08_abstract_stalls.

(* a sweep without movement reproduces every stored change: the hypothesis of
   C08_fixpoint_nearest *)
Theorem C08_abstract_stalled_is_fixpoint : forall (A : Type) (I : list A) (sl : list (slot (A:=A))) (x : A -> Q),
  amoves I sl x <= 0 ->
  veq I (fst (asweep sl x)) x /\ Forall2 (fun s s' => veq I (s_e s') (s_e s)) sl (snd (asweep sl x)).
Proof. exact (@amoves_zero_fixpoint). Qed.
Print Assumptions C08_abstract_stalled_is_fixpoint.

(* 8. The same for the model.  dist2 sh f g = d2 (all_idx sh) f g;
   dyk_moves sh ops st = sum over the group steps of one sweep from st of
   dist2 (kernel after, kernel before);  dyk_loop_moves sh ops n st = the list of
   dyk_moves of sweeps 1..n.
   Generic: ANY keyed maps (duplicate keys allowed), each a nearest-point map
   onto the set named by its key, Y in all these sets. *)
Theorem C08_sweep_moves_summable :
  forall sh (ops : list (key * (tens -> tens))) (Cof : key -> tens -> Prop) (Y W0 : tens) (n : nat),
  (forall kop, In kop ops -> is_proj (all_idx sh) (Cof (fst kop)) (snd kop) /\ Cof (fst kop) Y) ->
  dist2 sh (fst (dyk_loop sh ops n (W0, []))) Y + qsum (dyk_loop_moves sh ops n (W0, [])) <= dist2 sh W0 Y.
Proof. exact dyk_loop_bound. Qed.
Print Assumptions C08_sweep_moves_summable.

Theorem C08_sweep_never_farther :
  forall sh (ops : list (key * (tens -> tens))) (Cof : key -> tens -> Prop) (Y W0 : tens) (n : nat),
  (forall kop, In kop ops -> is_proj (all_idx sh) (Cof (fst kop)) (snd kop) /\ Cof (fst kop) Y) ->
  dist2 sh (fst (dyk_loop sh ops n (W0, []))) Y <= dist2 sh W0 Y.
Proof. exact dyk_loop_never_farther. Qed.
Print Assumptions C08_sweep_never_farther.

(* BOUNDEDNESS for project_by_dykstra: every configuration of the six exact
   families (any combination, any units, constraints may be listed twice), every
   kernel W0, every feasible kernel Y: after any number n of sweeps, and for the
   result of project_by_dykstra itself (k_iters c sweeps, early returns
   included), the kernel is at most as far from Y as W0 was. *)
Theorem C08_dykstra_never_farther_from_feasible : forall (c : dyk_cfg) (W0 Y : tens),
  dyk_cfg_ok c -> exact_families c -> dyk_feasible c Y ->
  (forall n, dist2 (k_shape c) (fst (dyk_loop (k_shape c) (group_ops c) n (W0, []))) Y <= dist2 (k_shape c) W0 Y) /\
  dist2 (k_shape c) (project_by_dykstra c W0) Y <= dist2 (k_shape c) W0 Y.
Proof. exact dykstra_never_farther_from_feasible. Qed.
Print Assumptions C08_dykstra_never_farther_from_feasible.

(* SUMMABLE MOVEMENT for the configured group maps *)
Theorem C08_dykstra_moves_summable : forall (c : dyk_cfg) (W0 Y : tens) (n : nat),
  dyk_cfg_ok c -> exact_families c -> dyk_feasible c Y ->
  let sh := k_shape c in
  dist2 sh (fst (dyk_loop sh (group_ops c) n (W0, []))) Y + qsum (dyk_loop_moves sh (group_ops c) n (W0, []))
    <= dist2 sh W0 Y.
Proof. exact dykstra_moves_summable. Qed.
Print Assumptions C08_dykstra_moves_summable.

(* STALLING RATE: among the first n sweeps, sweep number k+1 (from the state after
   k sweeps) has squared movement * n <= dist2 (W0, Y) *)
Theorem C08_dykstra_stalls : forall (c : dyk_cfg) (W0 Y : tens) (n : nat),
  dyk_cfg_ok c -> exact_families c -> dyk_feasible c Y -> (1 <= n)%nat ->
  let sh := k_shape c in
  exists k, (k < n)%nat /\
    dyk_moves sh (group_ops c) (dyk_loop sh (group_ops c) k (W0, [])) * qnat n <= dist2 sh W0 Y.
Proof. exact dykstra_stalls. Qed.
Print Assumptions C08_dykstra_stalls.

(* a sweep of the model without movement reproduces every stored change
   (distinct keys): the hypothesis of C08_sweep_fixpoint_nearest *)
Theorem C08_stalled_sweep_is_fixpoint :
  forall sh (ops : list (key * (tens -> tens))) (st : tens * list (key * tens)),
  NoDup (map fst ops) -> dyk_moves sh ops st <= 0 ->
  teq sh (fst (dyk_sweep sh ops st)) (fst st) /\
  forall kop, In kop ops -> teq sh (lc_get (snd (dyk_sweep sh ops st)) (fst kop)) (lc_get (snd st) (fst kop)).
Proof. exact dyk_moves_zero_fixpoint. Qed.
Print Assumptions C08_stalled_sweep_is_fixpoint.

(* ... hence: if the sweep after n sweeps does not move, the kernel is feasible
   and the Euclidean-nearest feasible kernel to W0 *)
Theorem C08_dykstra_stalled_nearest : forall (c : dyk_cfg) (W0 : tens) (n : nat),
  dyk_cfg_ok c -> exact_families c -> trap_sizes_ok c ->
  NoDup (k_edge c) -> NoDup (k_trap c) -> NoDup (k_mdom c) -> NoDup (k_jmono c) ->
  let sh := k_shape c in
  let st := dyk_loop sh (group_ops c) n (W0, []) in
  dyk_moves sh (group_ops c) st <= 0 ->
  dyk_feasible c (fst st) /\
  forall z, dyk_feasible c z -> dist2 sh W0 (fst st) <= dist2 sh W0 z.
Proof. exact dykstra_stalled_nearest. Qed.
Print Assumptions C08_dykstra_stalled_nearest.

(* 9. The PWL calibrator's loop (pwl_calibration_lib.project_all_constraints) for
   monotonicity +1 / -1 WITH BOUNDS and no convexity.  Proofs/PWLDykstra.v.
   Vocabulary (Model/PWLProject.v, Proofs/PWLProject.v, Proofs/PWLDykstra.v):
   a kernel column is  bias :: heights  (n heights);  vof l i = nth i l 0 turns
   it into a vector on the index list  pI n = [0 .. n]  (standard inner
   product  ip (pI n));  hts n f = [f 1 .. f n].
   pwl_mb c := has_bounds c = true /\ (p_mono c = 1 \/ p_mono c = -1) /\ p_conv c = 0.
   PMv m n / CMv m n : _project_monotonicity on the heights part (bias kept) /
     { f | every height has the sign of m }.
   PBv c n / CBv c n : _project_bounds_considering_monotonicity on (f 0, hts n f) /
     bounds_set (p_mono c) ... (f 0) (sum of heights), which is
       increasing:  lo_ok cmin omin bias /\ hi_ok cmax omax (bias + sum heights)
       decreasing:  hi_ok cmax omax bias /\ lo_ok cmin omin (bias + sum heights)
     with lo_ok NONE = True, lo_ok BOUND lo x = (lo <= x), lo_ok CLAMPED lo x =
     (x == lo), and hi_ok likewise: two half-spaces / hyperplanes in the
     coordinates (bias, sum of heights).
   wl st = d_bias st :: d_h st;  wd2 a b = sum_i (a_i - b_i)^2. *)
Import Model.PWLProject Proofs.PWLProject Proofs.PWLDykstra.

(* (1) _project_monotonicity IS the Euclidean projection onto the heights of the
   configured sign (variational inequality + membership), any n *)
Theorem C08_pwl_monotonicity_is_projection : forall (m : Z) (n : nat), m <> 0%Z ->
  is_proj (pI n) (CMv m n) (PMv m n).
Proof. exact mono_is_proj. Qed.
Print Assumptions C08_pwl_monotonicity_is_projection.

(* (2) _project_bounds_considering_monotonicity IS the Euclidean projection onto
   CBv, for EVERY input (the heights need not be monotone), both directions and
   all nine combinations NONE / BOUND / CLAMPED of the two bound types, n >= 1. *)
Theorem C08_pwl_bounds_is_projection : forall (c : pwl_cfg) (n : nat), (1 <= n)%nat ->
  is_proj (pI n) (CBv c n) (PBv c n).
Proof. exact bounds_is_proj. Qed.
Print Assumptions C08_pwl_bounds_is_projection.

(* its shape: new bias bq, every height shifted by the same hd; in the
   coordinates (bias, sum of heights) the result is in the set and satisfies the
   variational inequality there *)
Theorem C08_pwl_bounds_step_shape : forall m b h omin omax cmin cmax, (1 <= length h)%nat ->
  exists bq hd,
    fst (bounds_mono m b h omin omax cmin cmax) == bq /\
    qleq (snd (bounds_mono m b h omin omax cmin cmax)) (map (fun x => x + hd) h) /\
    bounds_set m omin omax cmin cmax bq (qsum h + qn (length h) * hd) /\
    forall cb cs, bounds_set m omin omax cmin cmax cb cs ->
      (b - bq) * (cb - bq) + (- hd) * (cs - (qsum h + qn (length h) * hd)) <= 0.
Proof. exact bm_spec. Qed.
Print Assumptions C08_pwl_bounds_step_shape.

(* the intersection of the two sets is exactly feasibility of the column
   (feasible: heights of the right sign, ALL keypoint outputs within the
   bounds, clamped ends equal to the bound) *)
Theorem C08_pwl_sets_are_feasibility : forall c n b h, pwl_mb c -> length h = n ->
  (feasible c b h <-> (CBv c n (vof (b :: h)) /\ CMv (p_mono c) n (vof (b :: h)))).
Proof. exact feasible_iff_vec. Qed.
Print Assumptions C08_pwl_sets_are_feasibility.

(* (3) one iteration of body() is one abstract Dykstra sweep over the two slots
   (CBv, PBv, last BOUNDS change) and (CMv, PMv, last MONOTONICITY change),
   pointwise up to == (the model reduces fractions).  vx st = vof (wl st);
   veB st = vof (d_lb_bounds st :: d_lh_bounds st);  veM st = vof (0 :: d_lh_mono st);
   seqv = same set, same map, stored change pointwise ==. *)
Theorem C08_pwl_body_is_sweep : forall c n st, pwl_mb c -> dyk_wf n st ->
  let st' := fst (dyk_body c st) in
  let r := asweep (pslots c n (veB st) (veM st)) (vx st) in
  veq (pI n) (vx st') (fst r) /\ Forall2 (seqv (pI n)) (pslots c n (veB st') (veM st')) (snd r).
Proof. exact body_asweep. Qed.
Print Assumptions C08_pwl_body_is_sweep.

(* fixpoint => nearest.  reproduces c st: one more iteration from st leaves the
   stored BOUNDS change (bias and heights part) and the stored MONOTONICITY
   change unchanged.  Then the column is unchanged, FEASIBLE, and the
   Euclidean-nearest feasible column to the start (b :: h), in the strong form
   dist2(start, x) + dist2(x, z) <= dist2(start, z) for every feasible z. *)
Theorem C08_pwl_fixpoint_nearest : forall (c : pwl_cfg) (n : nat) (b : Q) (h : list Q),
  pwl_mb c -> (1 <= n)%nat -> length h = n -> forall k : nat,
  let st := dyk_iter c k (dyk_init b h) in
  reproduces c st ->
  qleq (wl (fst (dyk_body c st))) (wl st) /\
  feasible c (d_bias st) (d_h st) /\
  (forall bz hz, length hz = n -> feasible c bz hz ->
     wd2 (b :: h) (wl st) + wd2 (wl st) (bz :: hz) <= wd2 (b :: h) (bz :: hz)).
Proof. exact pwl_fixpoint_nearest. Qed.
Print Assumptions C08_pwl_fixpoint_nearest.

(* Fejer-type bound: after ANY number of iterations the column is not farther
   from ANY feasible column than the start was *)
Theorem C08_pwl_never_farther_from_feasible : forall (c : pwl_cfg) (n : nat) (b : Q) (h : list Q),
  pwl_mb c -> (1 <= n)%nat -> length h = n ->
  forall (bz : Q) (hz : list Q) (k : nat), length hz = n -> feasible c bz hz ->
  wd2 (wl (dyk_iter c k (dyk_init b h))) (bz :: hz) <= wd2 (b :: h) (bz :: hz).
Proof. exact pwl_never_farther. Qed.
Print Assumptions C08_pwl_never_farther_from_feasible.

(* summable movement.  pwl_moves c st = squared movement of the BOUNDS step +
   squared movement of the MONOTONICITY step of the iteration from st;
   pwl_loop_moves c k st = that for iterations 1..k. *)
Theorem C08_pwl_moves_summable : forall (c : pwl_cfg) (n : nat) (b : Q) (h : list Q),
  pwl_mb c -> (1 <= n)%nat -> length h = n ->
  forall (bz : Q) (hz : list Q) (k : nat), length hz = n -> feasible c bz hz ->
  wd2 (wl (dyk_iter c k (dyk_init b h))) (bz :: hz) + qsum (pwl_loop_moves c k (dyk_init b h))
    <= wd2 (b :: h) (bz :: hz).
Proof. exact pwl_moves_summable. Qed.
Print Assumptions C08_pwl_moves_summable.

Theorem C08_pwl_stalls : forall (c : pwl_cfg) (n : nat) (b : Q) (h : list Q),
  pwl_mb c -> (1 <= n)%nat -> length h = n ->
  forall (bz : Q) (hz : list Q) (k : nat), length hz = n -> feasible c bz hz -> (1 <= k)%nat ->
  exists j : nat, (j < k)%nat /\ pwl_moves c (dyk_iter c j (dyk_init b h)) * qnat k <= wd2 (b :: h) (bz :: hz).
Proof. exact pwl_stalls. Qed.
Print Assumptions C08_pwl_stalls.

(* an iteration without movement reproduces the stored changes, hence ... *)
Theorem C08_pwl_stalled_is_fixpoint : forall (c : pwl_cfg) (n : nat) (b : Q) (h : list Q),
  pwl_mb c -> length h = n -> forall k : nat,
  pwl_moves c (dyk_iter c k (dyk_init b h)) <= 0 -> reproduces c (dyk_iter c k (dyk_init b h)).
Proof. exact pwl_stalled_reproduces. Qed.
Print Assumptions C08_pwl_stalled_is_fixpoint.

Theorem C08_pwl_stalled_nearest : forall (c : pwl_cfg) (n : nat) (b : Q) (h : list Q) (k : nat),
  pwl_mb c -> (1 <= n)%nat -> length h = n ->
  let st := dyk_iter c k (dyk_init b h) in
  pwl_moves c st <= 0 ->
  feasible c (d_bias st) (d_h st) /\
  (forall bz hz, length hz = n -> feasible c bz hz ->
     wd2 (b :: h) (wl st) + wd2 (wl st) (bz :: hz) <= wd2 (b :: h) (bz :: hz)).
Proof. exact pwl_stalled_nearest. Qed.
Print Assumptions C08_pwl_stalled_nearest.

(* _finalize_constraints does nothing to a feasible iterate (any configuration) *)
Theorem C08_pwl_finalize_feasible_fixed : forall c n b x, pwl_valid c n -> length x = n -> feasible c b x ->
  fst (pwl_finalize c b x) == b /\ qleq (snd (pwl_finalize c b x)) x.
Proof. exact finalize_fixed. Qed.
Print Assumptions C08_pwl_finalize_feasible_fixed.

(* ... hence: if the loop of project_all_constraints (p_iters c iterations) ends
   in a fixpoint, the RETURNED column is that state, feasible, and the
   Euclidean-nearest feasible column to the input *)
Theorem C08_pwl_converged_result : forall (c : pwl_cfg) (n : nat) (b : Q) (h : list Q),
  pwl_valid c n -> pwl_mb c -> length h = n ->
  let st := dyk_iter c (p_iters c) (dyk_init b h) in
  reproduces c st ->
  qleq (pwl_project_col c (b :: h)) (wl st) /\
  feasible c (d_bias st) (d_h st) /\
  (forall bz hz, length hz = n -> feasible c bz hz ->
     wd2 (b :: h) (pwl_project_col c (b :: h)) + wd2 (pwl_project_col c (b :: h)) (bz :: hz)
       <= wd2 (b :: h) (bz :: hz)).
Proof. exact pwl_converged_result. Qed.
Print Assumptions C08_pwl_converged_result.
