(* C08 — placeholder until the proofs land *)
From TFL Require Import Model.LatticeDykstra.
