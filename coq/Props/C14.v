(* C14 - Alternative representations of the same function agree.
   Property theorems only; proofs live in Proofs/Representations.v.
   The models are used qualified (KFL., PWLEval., CondPWL., CDF.,
   RTLStructure.) because their short names clash.
   Hypotheses are satisfiable: Examples ex_kfl_hyps_in_range,
   ex_kfl_hyps_clipped, ex_pwl_hyps, ex_pwl_missing_hyps, ex_cdf_hyps,
   ex_pc_hyps in Proofs/Representations.v (the KFL examples also evaluate both
   sides on a 2-unit, 2-term, 3x3 instance). *)
From TFL Require Import Model.Representations Proofs.LatticeInterp Proofs.Representations.
Open Scope Q_scope.

(* (a) For every lattice size >= 2, every number of dimensions >= 1, units and
   terms, ALL kernel vectors / scales / biases (any rationals, any vector
   lengths), and every input that is clipped or inside the lattice range:
   the KroneckerFactoredLattice output of unit u equals the hypercube
   interpolation of the Lattice layer (either input form, literal
   batch_outer_operation model) loaded with the dense kernel
   dense_of_kfl = bias + mean_t scale_t * prod_d v_{d,t}[i_d] (row-major).
   terms_wf: every term of the unit has one vector per input dimension. *)
Theorem C14_kfl_equals_dense : forall tensor c p u xs dims units,
  (2 <= KFL.c_size c)%nat -> (1 <= dims)%nat -> (u < units)%nat ->
  terms_wf dims (nth u (KFL.p_kern p) []) -> length xs = dims ->
  KFL.c_clip c = true \/ inr (kfl_sizes (KFL.c_size c) dims) xs ->
  KFL.unit_out c p u xs ==
  unit_fn Hypercube tensor (KFL.c_clip c) units (kfl_sizes (KFL.c_size c) dims)
          (dense_of_kfl (KFL.c_size c) dims units p) u xs.
Proof. exact kfl_equals_dense. Qed.
Print Assumptions C14_kfl_equals_dense.

(* (b1) pwl_calibration_fn, one (batch row, unit) slice, for ANY softmax and
   sigmoid oracle whose derived keypoint deltas are non-zero and no missing
   value: equals the PWLCalibration calibration function (PWLEval.pwl_fn) of
   the layer whose input_keypoints are the derived keypoints
   (imin, imin + d0, ...) and whose kernel column is the derived
   [y0, dy1, dy2, ...] - the two values of return_derived_parameters. *)
Theorem C14_pwl_fn_equals_layer : forall sm sg c kip kop x,
  CondPWL.p_min c = None -> nonzero (CondPWL.key_deltas sm c kip) ->
  let ks := layer_keypoints (CondPWL.p_imin c) (CondPWL.key_deltas sm c kip) in
  CondPWL.pwl_row sm sg c kip kop x ==
  PWLEval.pwl_fn (PWLEval.kp_lefts ks) (PWLEval.kp_diffs ks) (CondPWL.derived_outputs sm sg c kop) x.
Proof. exact pwl_fn_equals_layer. Qed.
Print Assumptions C14_pwl_fn_equals_layer.

(* ... and PWLEval.pwl_fn on those tables is literally what call() of the built
   single-unit PWLCalibration layer model returns (for every keypoint list and
   kernel column). *)
Theorem C14_pwl_layer_call : forall ks kos x,
  PWLEval.pwl_call (PWLEval.build_fixed 1 ks false (map (fun v => [v]) kos) false None None [] false)
                   false [[x]] None =
  Some [[[PWLEval.pwl_fn (PWLEval.kp_lefts ks) (PWLEval.kp_diffs ks) kos x]]].
Proof. exact pwl_layer_call. Qed.
Print Assumptions C14_pwl_layer_call.

(* (b1, missing values) with missing_input_value m and a given
   missing_output_value v the functional form is the layer's imputation
   formula is_missing * v + (1 - is_missing) * calibration, which is what the
   layer built with impute_missing / missing_input_value / missing_output_value
   returns. *)
Theorem C14_pwl_fn_equals_layer_missing : forall sm sg c kip kop x m v,
  CondPWL.p_min c = Some m -> CondPWL.p_mout c = Some v -> nonzero (CondPWL.key_deltas sm c kip) ->
  let ks := layer_keypoints (CondPWL.p_imin c) (CondPWL.key_deltas sm c kip) in
  let f := PWLEval.pwl_fn (PWLEval.kp_lefts ks) (PWLEval.kp_diffs ks) (CondPWL.derived_outputs sm sg c kop) x in
  let mu := if Qeq_bool x m then 1 else 0 in
  CondPWL.pwl_row sm sg c kip kop x == mu * v + (1 - mu) * f.
Proof. exact pwl_fn_equals_layer_missing. Qed.
Print Assumptions C14_pwl_fn_equals_layer_missing.

Theorem C14_pwl_layer_call_missing : forall ks kos x m v,
  PWLEval.pwl_call (PWLEval.build_fixed 1 ks false (map (fun v => [v]) kos) true (Some m) (Some v) [] false)
                   false [[x]] None =
  Some [[[(if Qeq_bool x m then 1 else 0) * v +
          (1 - (if Qeq_bool x m then 1 else 0)) * PWLEval.pwl_fn (PWLEval.kp_lefts ks) (PWLEval.kp_diffs ks) kos x]]].
Proof. exact pwl_layer_call_missing. Qed.
Print Assumptions C14_pwl_layer_call_missing.

(* (b2) cdf_fn with location_parameters = the layer's kernel and
   scaling_parameters = the layer's input_scaling as an (input_dim, 1, 1)
   tensor (no exp transform) returns the same as the CDF layer, for both
   activations (any sigmoid oracle that respects ==), every sparsity factor
   and the reductions 'mean' and 'none'.  'geometric_mean' is excluded: the two
   implementations use different stabilising epsilons (1e-8 vs 1e-3).
   verify_cdf: the kernel has the shape the layer itself builds. *)
Theorem C14_cdf_fn_equals_layer : forall sg ex lg a r units sf kernel scaling x,
  (forall p q, p == q -> sg p == sg q) -> r = CDF.RMean \/ r = CDF.RNone ->
  length x = length kernel -> CDF.verify_cdf a r (length x) units sf kernel = true ->
  opt_meq (CDF.cdf_fn sg ex lg a r units sf None x kernel (Some (cdf_scaling_param (length x) scaling)))
          (CDF.cdf_layer sg ex lg a r units sf kernel scaling x).
Proof. exact cdf_fn_equals_layer. Qed.
Print Assumptions C14_cdf_fn_equals_layer.

(* (c) ParallelCombination of k >= 1 calibrators that map each (batch, 1) row
   through arbitrary scalar functions g_j, on a non-empty (batch, k) tensor:
   the single output is the input with g_j applied to column j. *)
Theorem C14_parallel_combination : forall (gs : list (Q -> Q)) (m : mat), gs <> [] -> m <> [] ->
  (forall r, In r m -> length r = length gs) ->
  pc_call (map pointwise gs) true (PCTensor m) = Some (PCSingle (map (fun r => map2 app1 gs r) m)).
Proof. exact pc_pointwise. Qed.
Print Assumptions C14_parallel_combination.

(* (c, glue) for ARBITRARY layer functions: a tensor input behaves as the list
   of its columns; the list output is the layers applied to their own column,
   the single output is the axis-1 concat of that list; a wrong number of
   inputs is the ValueError. *)
Theorem C14_parallel_combination_forms : forall (layers : list layer_fn) (m : mat) (cols : list mat),
  (forall single, pc_call layers single (PCTensor m) = pc_call layers single (PCList (split_cols m))) /\
  (length cols = length layers ->
   pc_call layers false (PCList cols) = Some (PCMulti (map2 (fun (f : layer_fn) c => f c) layers cols)) /\
   pc_call layers true (PCList cols) =
     Some (PCSingle (concat_cols (length (hd [] (map2 (fun (f : layer_fn) c => f c) layers cols)))
                                 (map2 (fun (f : layer_fn) c => f c) layers cols)))) /\
  (length cols <> length layers -> forall single, pc_call layers single (PCList cols) = None).
Proof. exact pc_forms. Qed.
Print Assumptions C14_parallel_combination_forms.

(* (d) Aggregation around any model that treats the rows of its batch
   independently (g = the model on one element): flatten all ragged rows, apply
   the model once, cut back by the row lengths, reduce_mean == the per-example
   mean of g over that example's elements, for ragged rows of ANY lengths.
   (An empty row is 0/0: NaN in TensorFlow on both sides, 0 in Q.) *)
Theorem C14_aggregation_mean : forall (g : list Q -> Q) (x : list (list (list Q))),
  aggregation (rowwise g) x = map (fun row => KFL.qmean (map g row)) x.
Proof. exact aggregation_mean. Qed.
Print Assumptions C14_aggregation_mean.

(* (e) RTL.call for any structure, any lattice layers computing ufn m u on the
   input row of their unit u, any groups: output j is the j-th lattice (those
   with output label 0 first, then label 1; entries and units in order)
   evaluated on flat[its recorded input indices], flat = the 'increasing'
   groups followed by the 'unconstrained' groups; average_outputs and
   separate_outputs as in the code.  The recorded indices are exactly the
   lattices RTLStructure.rtl_outputs (C19) attributes to each label. *)
Theorem C14_rtl_is_gather : forall ufn s inc unc,
  let flat := rtl_flat inc unc in
  let o0 := map (slot_out ufn flat) (lattice_slots s 0) in
  let o1 := map (slot_out ufn flat) (lattice_slots s 1) in
  rtl_call (unitwise ufn) s false false inc unc = RJoint (o0 ++ o1) /\
  rtl_call (unitwise ufn) s false true inc unc = RJoint [KFL.qmean (o0 ++ o1)] /\
  (forall average, rtl_call (unitwise ufn) s true average inc unc = RSep (if_entries s 0 o0) (if_entries s 1 o1)).
Proof. exact rtl_is_gather. Qed.
Print Assumptions C14_rtl_is_gather.

Theorem C14_rtl_slots_are_structure : forall s,
  map snd (lattice_slots s 0) = fst (RTLStructure.rtl_outputs s) /\
  map snd (lattice_slots s 1) = snd (RTLStructure.rtl_outputs s).
Proof. exact slots_are_rtl_outputs. Qed.
Print Assumptions C14_rtl_slots_are_structure.

(* (a) for the whole layers on one batch point (one coordinate row per unit):
   KFL.layer_out and LatticeInterp.lattice_eval are the functions the
   correspondence check executes against the two implementations. *)
Theorem C14_kfl_layer_equals_dense : forall tensor c p pt dims,
  let units := length (KFL.p_scale p) in
  let sizes := kfl_sizes (KFL.c_size c) dims in
  (2 <= KFL.c_size c)%nat -> (1 <= dims)%nat -> length pt = units ->
  (forall u, (u < units)%nat -> terms_wf dims (nth u (KFL.p_kern p) []) /\ length (nth u pt []) = dims /\
                                (KFL.c_clip c = true \/ inr sizes (nth u pt []))) ->
  leq (KFL.layer_out c p pt)
      (nth 0 (lattice_eval Hypercube tensor (KFL.c_clip c) units sizes
                           (dense_of_kfl (KFL.c_size c) dims units p) [pt]) []).
Proof. exact kfl_layer_equals_dense. Qed.
Print Assumptions C14_kfl_layer_equals_dense.

(* ====================================================================== *)
(* Additions after the coverage review (proofs: Proofs/RepresentationsMore.v) *)
(* ====================================================================== *)
From TFL Require Import Proofs.CondPWL Proofs.RepresentationsMore.

(* (b1) ONE statement for the three missing-value configurations of
   pwl_calibration_fn (none; given missing_output_value; DERIVED missing
   output): the slice equals the PWLCalibration layer formula
   mixv = is_missing * v + (1 - is_missing) * calibration, where
   missing_output is the value the function uses (C14_pwl_missing_output_value). *)
Theorem C14_pwl_row_equals_layer_any : forall sm sg c kip kop x,
  nonzero (CondPWL.key_deltas sm c kip) ->
  let ks := layer_keypoints (CondPWL.p_imin c) (CondPWL.key_deltas sm c kip) in
  let f := PWLEval.pwl_fn (PWLEval.kp_lefts ks) (PWLEval.kp_diffs ks) (CondPWL.derived_outputs sm sg c kop) x in
  CondPWL.pwl_row sm sg c kip kop x == mixv (CondPWL.p_min c) (missing_output sg c kop) x f.
Proof. exact pwl_row_equals_layer_any. Qed.
Print Assumptions C14_pwl_row_equals_layer_any.

Theorem C14_pwl_missing_output_value : forall sg c kop,
  missing_output sg c kop =
  match CondPWL.p_min c with
  | None => None
  | Some _ => match CondPWL.p_mout c with
              | Some v => Some v
              | None => Some (CondPWL.p_omin c + sg (last kop 0) * CondPWL.rng_out c)
              end
  end.
Proof. exact missing_output_cases. Qed.
Print Assumptions C14_pwl_missing_output_value.

(* (b1) DERIVED missing output (missing_input_value = m, missing_output_value
   not given): the function equals the layer built with impute_missing,
   missing_input_value m and missing_output_value
   v = output_min + sigmoid(LAST output parameter) * (output_max - output_min),
   holding the kernel column derived from the parameters WITHOUT the last one
   (which is also what return_derived_parameters reports). *)
Theorem C14_pwl_fn_equals_layer_missing_derived : forall sm sg c kip kop x m,
  CondPWL.p_min c = Some m -> CondPWL.p_mout c = None -> nonzero (CondPWL.key_deltas sm c kip) ->
  let ks := layer_keypoints (CondPWL.p_imin c) (CondPWL.key_deltas sm c kip) in
  let kos := CondPWL.kernel_outputs sm sg c (removelast kop) in
  let f := PWLEval.pwl_fn (PWLEval.kp_lefts ks) (PWLEval.kp_diffs ks) kos x in
  let v := CondPWL.p_omin c + sg (last kop 0) * (CondPWL.p_omax c - CondPWL.p_omin c) in
  let mu := if Qeq_bool x m then 1 else 0 in
  CondPWL.derived_outputs sm sg c kop = kos /\
  CondPWL.pwl_row sm sg c kip kop x == mu * v + (1 - mu) * f.
Proof. exact pwl_fn_equals_layer_missing_derived. Qed.
Print Assumptions C14_pwl_fn_equals_layer_missing_derived.

(* (b1) THE WHOLE FUNCTION CondPWL.pwl_fn (size check, rank-2 -> rank-3,
   tiling over units, broadcasting over batch and units): every entry [b][u] of
   an accepted call equals the layer formula on the keypoints / kernel column
   derived from the (b, u) slices of the parameter tensors. *)
Theorem C14_pwl_fn_entries_equal_layer : forall sm sg c inputs kip kop out b u,
  CondPWL.pwl_fn sm sg c inputs kip kop = Some out -> (b < length out)%nat -> (u < CondPWL.p_units c)%nat ->
  let kipS := slice_kip c kip b u in
  let kopS := slice_kop c kop b u in
  let x := slice_x c inputs b u in
  nonzero (CondPWL.key_deltas sm c kipS) ->
  let ks := layer_keypoints (CondPWL.p_imin c) (CondPWL.key_deltas sm c kipS) in
  nth u (nth b out []) 0 ==
  mixv (CondPWL.p_min c) (missing_output sg c kopS) x
       (PWLEval.pwl_fn (PWLEval.kp_lefts ks) (PWLEval.kp_diffs ks) (CondPWL.derived_outputs sm sg c kopS) x).
Proof. exact pwl_fn_entries_equal_layer. Qed.
Print Assumptions C14_pwl_fn_entries_equal_layer.

(* (b1) the MULTI-UNIT PWLCalibration layer (fixed, shared input keypoints ks,
   kernel [num_keypoints][units]) on a row of [units] values or one broadcast
   value: unit u is the single-unit calibration function on column u. *)
Theorem C14_pwl_layer_call_multi : forall units ks kernel row,
  length row = units \/ length row = 1%nat ->
  PWLEval.pwl_call (PWLEval.build_fixed units ks false kernel false None None [] false) false [row] None =
  Some [[map (fun u => PWLEval.pwl_fn (PWLEval.kp_lefts ks) (PWLEval.kp_diffs ks) (column u kernel)
                         (nth (if (length row =? 1)%nat then 0%nat else u) row 0))
             (seq 0 units)]].
Proof. exact pwl_layer_call_multi. Qed.
Print Assumptions C14_pwl_layer_call_multi.

(* (b2) the deliberate exception, made precise: with reduction
   'geometric_mean' cdf_fn and the CDF layer apply THE SAME function
   exp(mean_i log(M[i][u] + eps)) to their (equal, by C14_cdf_fn_equals_layer)
   'none' results Mf / Ml; the only difference is eps = 1e-8 (cdf_fn) vs
   1e-3 (layer). *)
Theorem C14_cdf_geometric_only_eps : forall sg ex lg a units sf kernel scaling x,
  (forall p q, p == q -> sg p == sg q) ->
  length x = length kernel -> CDF.verify_cdf a CDF.RGeo (length x) units sf kernel = true ->
  let sp := Some (cdf_scaling_param (length x) scaling) in
  exists Mf Ml,
    CDF.cdf_fn sg ex lg a CDF.RNone units sf None x kernel sp = Some Mf /\
    CDF.cdf_layer sg ex lg a CDF.RNone units sf kernel scaling x = Some Ml /\
    meq Mf Ml /\
    CDF.cdf_fn sg ex lg a CDF.RGeo units sf None x kernel sp = Some (geo_of ex lg CDF.eps_fn units Mf) /\
    CDF.cdf_layer sg ex lg a CDF.RGeo units sf kernel scaling x = Some (geo_of ex lg CDF.eps_layer units Ml).
Proof. exact cdf_geometric_only_eps. Qed.
Print Assumptions C14_cdf_geometric_only_eps.

(* hypotheses are satisfiable *)
Example C14_ex_pwl_derived_missing :
  CondPWL.p_min ex_pcfg_d = Some (-(1)) /\ CondPWL.p_mout ex_pcfg_d = None /\
  nonzero (CondPWL.key_deltas ex_sm ex_pcfg_d (Some [1])) /\
  CondPWL.pwl_row ex_sm ex_sg ex_pcfg_d (Some [1]) [0; 0; 5] (-(1)) == 1 # 2.
Proof. exact ex_pwl_derived_missing_hyps. Qed.
Example C14_ex_pwl_fn :
  exists out, CondPWL.pwl_fn ex_sm ex_sg ex_pcfg_u2 [[1#4]; [3#4]] (Some (CondPWL.P2 [[1]])) (CondPWL.P3 [[[0; 0; 0]; [1; 2; 0]]]) = Some out /\
  length out = 2%nat /\
  nonzero (CondPWL.key_deltas ex_sm ex_pcfg_u2 (slice_kip ex_pcfg_u2 (Some (CondPWL.P2 [[1]])) 1 1)).
Proof. exact ex_pwl_fn_hyps. Qed.
Example C14_ex_cdf_geo :
  CDF.verify_cdf CDF.Relu6 CDF.RGeo 2 1 1 ex_cdf_kernel = true /\ length [1#2; 1#4] = length ex_cdf_kernel.
Proof. exact ex_cdf_geo_hyps. Qed.

(* (b1) the derived parameters RETURNED with return_derived_parameters=True
   (CondPWL.pwl_derived: one list per (batch, unit) position of the tiled
   parameter tensors), read with broadcasting at (b, u), ARE the key_deltas /
   derived_outputs of the (b, u) slices that C14_pwl_fn_entries_equal_layer
   uses.  bsel_ok i l: axis of size 1 or i inside it (true for every accepted
   rectangular call; Example C14_ex_pwl_derived_slices). *)
Theorem C14_pwl_derived_slices : forall sm sg c kip kop b u,
  let K := CondPWL.tile1 (CondPWL.p_units c) (CondPWL.to3 kop) in
  bsel_ok b K -> bsel_ok u (CondPWL.bsel [] b K) ->
  CondPWL.bsel [] u (CondPWL.bsel [] b (snd (CondPWL.pwl_derived sm sg c kip kop))) =
    CondPWL.derived_outputs sm sg c (slice_kop c kop b u) /\
  (forall t, kip = Some t ->
     let T := CondPWL.tile1 (CondPWL.p_units c) (CondPWL.to3 t) in
     bsel_ok b T -> bsel_ok u (CondPWL.bsel [] b T) ->
     Some (CondPWL.bsel [] u (CondPWL.bsel [] b (fst (CondPWL.pwl_derived sm sg c kip kop)))) =
       option_map (fun p => CondPWL.key_deltas sm c (Some p)) (slice_kip c kip b u)).
Proof. exact pwl_derived_slices. Qed.
Print Assumptions C14_pwl_derived_slices.
Example C14_ex_pwl_derived_slices :
  let K := CondPWL.tile1 2 (CondPWL.to3 (CondPWL.P3 [[[0; 0; 0]; [1; 2; 0]]])) in
  bsel_ok 1 K /\ bsel_ok 1 (CondPWL.bsel [] 1 K) /\
  let T := CondPWL.tile1 2 (CondPWL.to3 (CondPWL.P2 [[1]])) in bsel_ok 1 T /\ bsel_ok 1 (CondPWL.bsel [] 1 T).
Proof. exact ex_pwl_derived_slices_hyps. Qed.
