(* C10 - Freshly built layers already satisfy their monotonicity and bound
   constraints.  Property theorems only; proofs live in Proofs/LatticeInit.v,
   Proofs/LatticeInitFixed.v, Proofs/LatticeInitWitness.v, Proofs/PWLInit.v,
   Proofs/KFLInit.v, Proofs/CategoricalInit.v. *)
From TFL Require Import Model.LatticeInit Model.PWLInit Model.KFLInit
     Proofs.LatticeInit Proofs.LatticeInitFixed Proofs.LatticeInitWitness Proofs.PWLInit Proofs.KFLInit
     Proofs.CategoricalInit Proofs.C10Pack.
From Coq Require Import Permutation.
Open Scope Q_scope.

(* ================= Lattice: linear initialiser ================= *)
(* Along every dimension the initialiser treats as monotone (configured
   monotone, or EVERY dimension when nothing at all is configured) the kernel is
   non-decreasing, in fact linear: consecutive vertices differ by the same
   non-negative amount  (max - min) / #constrained dims / (size - 1). *)
Theorem C10_linear_monotone_dims : forall sizes omin omax monos unis units d,
  let rank := length sizes in
  let zm := zeros_if_none rank monos in let zu := zeros_if_none rank unis in
  let W := linear_init sizes omin omax monos unis units in
  omin <= omax -> (d < rank)%nat ->
  (nz (nth d zm 0%Z) = true \/ (count_nz zm + count_nz zu = 0)%nat) ->
  mono_along (sizes ++ [units]) d W /\
  forall i, valid (sizes ++ [units]) i -> (S (nth d i 0) < nth d sizes 0)%nat ->
    W (upd i d (S (nth d i 0%nat))) == W i + lin_step 0 (lin_dim_range sizes omin omax zm zu) (nth d sizes 0%nat).
Proof. exact linear_monotone_dims. Qed.
Print Assumptions C10_linear_monotone_dims.

(* Along every unimodal dimension: valley (1) = non-increasing while the index
   is below size // 2 and non-decreasing from there on; peak (-1) mirrored.
   This is the split the projection uses (is_first_part = i < size // 2), for
   even and odd sizes. *)
Theorem C10_linear_unimodal_dims : forall sizes omin omax monos unis units d i,
  let rank := length sizes in
  let zm := zeros_if_none rank monos in let zu := zeros_if_none rank unis in
  let W := linear_init sizes omin omax monos unis units in
  omin <= omax -> (d < rank)%nat -> nz (nth d zm 0%Z) = false -> nz (nth d zu 0%Z) = true ->
  valid (sizes ++ [units]) i -> (S (nth d i 0) < nth d sizes 0)%nat ->
  let nxt := upd i d (S (nth d i 0%nat)) in
  let first_part := (nth d i 0 <? nth d sizes 0 / 2)%nat in
  if (nth d zu 0 =? 1)%Z
  then (if first_part then W nxt <= W i else W i <= W nxt)
  else (if first_part then W i <= W nxt else W nxt <= W i).
Proof. exact linear_unimodal_dim. Qed.
Print Assumptions C10_linear_unimodal_dims.

(* Along every other dimension (when some dimension is constrained) the kernel is constant. *)
Theorem C10_linear_constant_elsewhere : forall sizes omin omax monos unis units d i k,
  let rank := length sizes in
  let zm := zeros_if_none rank monos in let zu := zeros_if_none rank unis in
  let W := linear_init sizes omin omax monos unis units in
  (d < rank)%nat -> nz (nth d zm 0%Z) = false -> nz (nth d zu 0%Z) = false ->
  (count_nz zm + count_nz zu <> 0)%nat -> valid (sizes ++ [units]) i -> (k < nth d sizes 0)%nat ->
  W (upd i d k) == W i.
Proof. exact linear_constant_dim. Qed.
Print Assumptions C10_linear_constant_elsewhere.

(* Minimum and maximum of the kernel are exactly the initialisation range
   (every value inside, both ends attained), every unit alike. *)
Theorem C10_linear_range : forall sizes omin omax monos unis units,
  let rank := length sizes in
  let zm := zeros_if_none rank monos in let zu := zeros_if_none rank unis in
  let W := linear_init sizes omin omax monos unis units in
  (forall s, In s sizes -> (2 <= s)%nat) -> (1 <= units)%nat -> (1 <= rank)%nat ->
  length zm = rank -> length zu = rank ->
  (forall d, nz (nth d zm 0%Z) && nz (nth d zu 0%Z) = false) -> omin <= omax ->
  (forall i, valid (sizes ++ [units]) i -> omin <= W i /\ W i <= omax) /\
  (exists i, valid (sizes ++ [units]) i /\ W i == omin) /\ (exists i, valid (sizes ++ [units]) i /\ W i == omax).
Proof. exact linear_range. Qed.
Print Assumptions C10_linear_range.

Theorem C10_linear_units_identical : forall sizes omin omax monos unis units i u,
  valid (sizes ++ [units]) i -> (u < units)%nat ->
  linear_init sizes omin omax monos unis units (upd i (length sizes) u) == linear_init sizes omin omax monos unis units i.
Proof. exact linear_units_tiled. Qed.
Print Assumptions C10_linear_units_identical.

(* The init range derived from the output bounds keeps every given bound. *)
Theorem C10_default_init_range : forall omin omax,
  (forall x, omin = Some x -> fst (default_init_params omin omax) = x) /\
  (forall y, omax = Some y -> snd (default_init_params omin omax) = y).
Proof. exact default_init_params_spec. Qed.
Print Assumptions C10_default_init_range.

(* Which other configured constraints the (additive) linear kernel meets:
   Edgeworth trusts of both directions and range dominances always; ... *)
Theorem C10_linear_edgeworth_holds : forall sizes omin omax monos unis units m c dir,
  (m < length sizes)%nat -> (c < length sizes)%nat -> m <> c ->
  edgeworth_holds (sizes ++ [units]) (m, c, dir) (linear_init sizes omin omax monos unis units).
Proof. exact linear_edgeworth. Qed.
Print Assumptions C10_linear_edgeworth_holds.

Theorem C10_linear_range_dominance_holds : forall sizes omin omax monos unis units dm wk,
  let rank := length sizes in
  let em := lin_eff_monos sizes (zeros_if_none rank monos) (zeros_if_none rank unis) in
  (forall s, In s sizes -> (2 <= s)%nat) ->
  (dm < rank)%nat -> (wk < rank)%nat -> dm <> wk -> nz (nth dm em 0%Z) = true -> nz (nth wk em 0%Z) = true ->
  range_dominance_holds (sizes ++ [units]) (dm, wk) (linear_init sizes omin omax monos unis units).
Proof. exact pack_C10_linear_range_dominance_holds. Qed.
Print Assumptions C10_linear_range_dominance_holds.

(* ... a trapezoid trust exactly when the conditional dimension is left
   unconstrained by the initialiser; a monotonic dominance when the dominant
   dimension has no more vertices than the weak one; a joint monotonicity when
   neither dimension is unimodal.  (The complementary classes are D6.) *)
Theorem C10_linear_trapezoid_guarded : forall sizes omin omax monos unis units m c dir,
  let rank := length sizes in
  let zu := zeros_if_none rank unis in
  let em := lin_eff_monos sizes (zeros_if_none rank monos) zu in
  omin <= omax -> (forall s, In s sizes -> (2 <= s)%nat) ->
  (m < rank)%nat -> (c < rank)%nat -> m <> c -> nz (nth c em 0%Z) = false -> nz (nth c zu 0%Z) = false ->
  trapezoid_holds (sizes ++ [units]) (m, c, dir) (linear_init sizes omin omax monos unis units).
Proof. exact pack_C10_linear_trapezoid_guarded. Qed.
Print Assumptions C10_linear_trapezoid_guarded.

Theorem C10_linear_monotonic_dominance_guarded : forall sizes omin omax monos unis units dm wk,
  let rank := length sizes in
  let em := lin_eff_monos sizes (zeros_if_none rank monos) (zeros_if_none rank unis) in
  omin <= omax -> (forall s, In s sizes -> (2 <= s)%nat) ->
  (dm < rank)%nat -> (wk < rank)%nat -> dm <> wk -> nz (nth dm em 0%Z) = true -> nz (nth wk em 0%Z) = true ->
  (nth dm sizes 0 <= nth wk sizes 0)%nat ->
  mono_dominance_holds (sizes ++ [units]) (dm, wk) (linear_init sizes omin omax monos unis units).
Proof. exact pack_C10_linear_monotonic_dominance_guarded. Qed.
Print Assumptions C10_linear_monotonic_dominance_guarded.

Theorem C10_linear_joint_monotonicity_guarded : forall sizes omin omax monos unis units d1 d2,
  let rank := length sizes in
  let zu := zeros_if_none rank unis in
  let em := lin_eff_monos sizes (zeros_if_none rank monos) zu in
  omin <= omax -> (forall s, In s sizes -> (2 <= s)%nat) ->
  (d1 < rank)%nat -> (d2 < rank)%nat -> d1 <> d2 ->
  (nz (nth d1 em 0%Z) = true \/ nz (nth d1 zu 0%Z) = false) ->
  (nz (nth d2 em 0%Z) = true \/ nz (nth d2 zu 0%Z) = false) ->
  joint_mono_holds (sizes ++ [units]) (d1, d2) (linear_init sizes omin omax monos unis units).
Proof. exact pack_C10_linear_joint_monotonicity_guarded. Qed.
Print Assumptions C10_linear_joint_monotonicity_guarded.

(* D6 on the model (open known finding, class linear_init_violates_trapezoid_or_dominance):
   the fresh linear kernel violates (a) a trapezoid trust with monotone conditional
   feature, (b) a monotonic dominance whose dominant dimension is larger, (c) a
   joint monotonicity touching a unimodal dimension. *)
Theorem C10_refuted_linear_trapezoid_mono_cond :
  ~ trapezoid_holds [2; 2; 1]%nat (0%nat, 1%nat, 1%Z) (linear_init [2; 2]%nat 0 1 (Some [1; 1]%Z) None 1).
Proof. exact d6a_refuted. Qed.
Print Assumptions C10_refuted_linear_trapezoid_mono_cond.
Theorem C10_refuted_linear_monotonic_dominance_larger_dominant :
  ~ mono_dominance_holds [3; 2; 1]%nat (0%nat, 1%nat) (linear_init [3; 2]%nat 0 1 (Some [1; 1]%Z) None 1).
Proof. exact d6b_refuted. Qed.
Print Assumptions C10_refuted_linear_monotonic_dominance_larger_dominant.
Theorem C10_refuted_linear_joint_monotonicity_unimodal_dim :
  ~ joint_mono_holds [4; 3; 1]%nat (0%nat, 1%nat) (linear_init [4; 3]%nat 0 1 (Some [1; 0]%Z) (Some [0; 1]%Z) 1).
Proof. exact d6c_refuted. Qed.
Print Assumptions C10_refuted_linear_joint_monotonicity_unimodal_dim.

(* ================= Lattice: random monotonic initialiser ================= *)
(* For EVERY order in which the shuffles leave the vertices of each level and
   EVERY sorted sample vector with one entry per vertex: non-decreasing along
   every dimension ... *)
Theorem C10_random_monotone_all_dims : forall sizes units order samples,
  Forall2 (@Permutation idx) order (levels sizes) ->
  (forall a b, (a <= b)%nat -> (b < length samples)%nat -> nth a samples 0 <= nth b samples 0) ->
  length samples = length (concat order) ->
  forall d, (d < length sizes)%nat -> mono_along (sizes ++ [units]) d (random_mono_init sizes units order samples).
Proof. exact random_mono_all_dims. Qed.
Print Assumptions C10_random_monotone_all_dims.

(* ... and inside the sampling range. *)
Theorem C10_random_in_range : forall sizes units order samples lo hi,
  Forall2 (@Permutation idx) order (levels sizes) ->
  length samples = length (concat order) ->
  (forall x, In x samples -> lo <= x /\ x <= hi) ->
  forall i, valid (sizes ++ [units]) i ->
  lo <= random_mono_init sizes units order samples i /\ random_mono_init sizes units order samples i <= hi.
Proof. exact random_mono_in_range. Qed.
Print Assumptions C10_random_in_range.

(* D24 on the model (open known finding): oracle values meeting every hypothesis
   above for which the random monotonic kernel breaks a valley unimodality and a
   trapezoid trust. *)
Theorem C10_refuted_random_ignores_other_constraints :
  exists order samples,
    Forall2 (@Permutation idx) order (levels [3; 2]%nat) /\
    (forall a b, (a <= b)%nat -> (b < length samples)%nat -> nth a samples 0 <= nth b samples 0) /\
    length samples = length (concat order) /\ (forall x, In x samples -> 0 <= x /\ x <= 5) /\
    ~ unimodal_holds [3; 2; 1]%nat 0%nat 1%Z (random_mono_init [3; 2]%nat 1 order samples) /\
    ~ trapezoid_holds [3; 2; 1]%nat (0%nat, 1%nat, 1%Z) (random_mono_init [3; 2]%nat 1 order samples).
Proof. exact pack_C10_refuted_random_ignores_other_constraints. Qed.
Print Assumptions C10_refuted_random_ignores_other_constraints.

(* ================= Lattice: the weight constraint leaves the fresh kernel unchanged ================= *)
(* [dyk] is the Dykstra stage; "it returns the (feasible) initial kernel
   unchanged" is an explicit hypothesis here (C08 proves it for the abstract
   scheme); everything after the Dykstra stage - finalize and the final clip -
   is covered. *)
Theorem C10_constraint_fixes_init : forall c (dyk : tens -> tens) W ran, cfg_valid c -> feasible_kernel c W ->
  teq (l_shape c) (dyk W) W -> teq (l_shape c) (lattice_constraint_after_dykstra c ran (dyk W)) W.
Proof. exact constraint_fixes_feasible. Qed.
Print Assumptions C10_constraint_fixes_init.

(* monotonicity + bounds only: both library initialisers give a feasible kernel *)
Theorem C10_linear_init_feasible : forall c, cfg_valid c -> mono_bounds_only c -> l_sizes c <> [] ->
  let imin := fst (default_init_params (l_min c) (l_max c)) in
  let imax := snd (default_init_params (l_min c) (l_max c)) in
  imin <= imax ->
  feasible_kernel c (linear_init (l_sizes c) imin imax (Some (l_monos c)) None (l_units c)).
Proof. exact linear_init_feasible. Qed.
Print Assumptions C10_linear_init_feasible.

Theorem C10_random_init_feasible : forall c order samples, cfg_valid c -> mono_bounds_only c ->
  let imin := fst (default_init_params (l_min c) (l_max c)) in
  let imax := snd (default_init_params (l_min c) (l_max c)) in
  Forall2 (@Permutation idx) order (levels (l_sizes c)) ->
  (forall a b, (a <= b)%nat -> (b < length samples)%nat -> nth a samples 0 <= nth b samples 0) ->
  length samples = length (concat order) ->
  (forall x, In x samples -> imin <= x /\ x <= imax) ->
  feasible_kernel c (random_mono_init (l_sizes c) (l_units c) order samples).
Proof. exact random_init_feasible. Qed.
Print Assumptions C10_random_init_feasible.

(* ================= PWLCalibration ================= *)
(* For equal heights (kps = None) and equal slopes (kps = Some strictly
   increasing keypoints), every direction: the column has one weight per
   keypoint, the heights point in the configured direction, the calibrator runs
   from one init bound to the other staying between them. *)
Theorem C10_pwl_init : forall nk omin omax mono kps,
  omin <= omax -> (2 <= nk)%nat -> kps_ok nk kps ->
  let col := pwl_linear_init_col nk omin omax mono kps in
  let vals := pwl_keypoint_values col in
  let dec := (mono =? -1)%Z in
  length col = nk /\
  (forall h, In h (tl col) -> if dec then h <= 0 else 0 <= h) /\
  nth 0 vals 0 == (if dec then omax else omin) /\
  nth (nk - 1) vals 0 == (if dec then omin else omax) /\
  (forall v, In v vals -> omin <= v /\ v <= omax).
Proof. exact pack_C10_pwl_init. Qed.
Print Assumptions C10_pwl_init.

Theorem C10_pwl_equal_heights : forall nk omin omax mono h h',
  In h (tl (pwl_linear_init_col nk omin omax mono None)) -> In h' (tl (pwl_linear_init_col nk omin omax mono None)) -> h = h'.
Proof. exact col_equal_heights. Qed.
Print Assumptions C10_pwl_equal_heights.

Theorem C10_pwl_equal_slopes : forall nk omin omax mono k i, (i < length (kp_lengths k))%nat ->
  let c := (if (mono =? -1)%Z then -1 else 1) * ((omax - omin) / qsum (kp_lengths k)) in
  nth i (tl (pwl_linear_init_col nk omin omax mono (Some k))) 0 == nth i (kp_lengths k) 0 * c.
Proof. exact col_equal_slopes. Qed.
Print Assumptions C10_pwl_equal_slopes.

Theorem C10_pwl_units_identical : forall nk units omin omax mono kps u, (u < units)%nat ->
  column u (pwl_linear_init nk units omin omax mono kps) = pwl_linear_init_col nk omin omax mono kps.
Proof. exact pwl_init_units. Qed.
Print Assumptions C10_pwl_units_identical.

(* the init range the layer derives is non-empty and inside the output bounds *)
Theorem C10_pwl_init_range_in_bounds : forall omin omax cmn cmx,
  (forall a b, omin = Some a -> omax = Some b -> a <= b) ->
  let '(imin, imax, _, _) := convert_all_constraints omin omax cmn cmx in
  imin <= imax /\ (forall a, omin = Some a -> a <= imin) /\ (forall b, omax = Some b -> imax <= b).
Proof. exact convert_range. Qed.
Print Assumptions C10_pwl_init_range_in_bounds.

(* ================= KroneckerFactoredLattice ================= *)
(* kernel columns: for every sample column inside [lo, hi] and every non-zero
   scale the initial column has the same length, stays inside [lo, hi] and, in a
   monotone dimension, is sorted in the direction of sign(scale) *)
Theorem C10_kfl_init_kernel : forall any_mono mono scale samples lo hi,
  ~ scale == 0 -> (forall s, In s samples -> lo <= s /\ s <= hi) ->
  let c := kfl_init_col any_mono mono scale samples in
  length c = length samples /\ (forall x, In x c -> lo <= x /\ x <= hi) /\
  (any_mono = true -> mono = true -> forall i, (S i < length c)%nat ->
     qsign scale * nth i c 0 <= qsign scale * nth (S i) c 0).
Proof. exact pack_C10_kfl_init_kernel. Qed.
Print Assumptions C10_kfl_init_kernel.

(* function level: with non-negative interpolated values, moving one dimension's
   value in the direction of sign(scale) in every term does not lower the output;
   with the library's scale and bias initialisers and values in [0, 1] (the init
   range whenever a bound is set) the output stays inside the bounds. *)
Theorem C10_kfl_init_monotone_bounded :
  (forall s vs d v', (forall x, In x vs -> 0 <= x) -> (d < length vs)%nat ->
     qsign s * nth d vs 0 <= qsign s * v' -> s * qprod vs <= s * qprod (set_nth d v' vs)) /\
  (forall scales bias tv tv',
     qsum (map2 (fun s vs => s * qprod vs) scales tv) <= qsum (map2 (fun s vs => s * qprod vs) scales tv') ->
     kfl_unit_out scales bias tv <= kfl_unit_out scales bias tv') /\
  (forall units terms omin omax scales bias tv,
     (1 <= terms)%nat -> In scales (kfl_scale_init units terms omin omax) -> In bias (kfl_bias_init units omin omax) ->
     length tv = terms -> (forall vs x, In vs tv -> In x vs -> 0 <= x /\ x <= 1) ->
     (forall a b, omin = Some a -> omax = Some b -> a <= b) ->
     (forall a, omin = Some a -> a <= kfl_unit_out scales bias tv) /\
     (forall b, omax = Some b -> kfl_unit_out scales bias tv <= b)).
Proof. exact pack_C10_kfl_init_monotone_bounded. Qed.
Print Assumptions C10_kfl_init_monotone_bounded.

(* ================= CategoricalCalibration (D15, fixed) ================= *)
(* build() starts from constraint(initializer value): whatever the initializer
   returns, the fresh kernel meets every ordering pair and the bounds. *)
Theorem C10_categorical_init : forall ps lo hi raw r, ps <> [] -> acyclic ps -> pairs_in_range ps raw ->
  cat_project_col ps lo hi raw = Some r ->
  feasible ps r /\
  forall x, In x r -> (forall h, hi = Some h -> x <= h) /\ (forall l, lo = Some l -> (forall h, hi = Some h -> l <= h) -> l <= x).
Proof. exact categorical_init_feasible. Qed.
Print Assumptions C10_categorical_init.

(* ================================================================================= *)
(* A freshly built layer passes its own assert_constraints()                          *)
(* ================================================================================= *)
(* The assert models are those of property C12 (Model/Asserts.v: true = every
   tf.Assert of the call passes); the kernels are the initialiser models above.
   Proofs: Proofs/InitPassesAssert.v (through the C12 "complete" theorems).
   eps is any non-negative tolerance (the layers default to 1e-6). *)
From TFL Require Import Model.Asserts Proofs.Asserts Proofs.InitPassesAssert.

(* ---------------- Lattice, linear initialiser ---------------- *)
(* General form over the assert's own configuration record (all seven asserted
   families; unimodalities are not asserted by the code but steer the
   initialiser): ANY initialisation range inside the output bounds.  The last
   three hypotheses before eps are the complement of known finding D6. *)
Theorem C10_passes_assert_lattice_linear : forall (c : la_cfg) monos unis imin imax eps,
  let sizes := a_sizes c in
  let rank := length sizes in
  let zm := zeros_if_none rank monos in let zu := zeros_if_none rank unis in
  let em := lin_eff_monos sizes zm zu in
  (* what verify_hyperparameters guarantees *)
  la_ok c -> (forall s, In s sizes -> (2 <= s)%nat) -> (1 <= rank)%nat ->
  length zm = rank -> length zu = rank -> (forall d, nz (nth d zm 0%Z) && nz (nth d zu 0%Z) = false) ->
  (forall d, (d < length (a_monos c))%nat -> nth d (a_monos c) 0%Z = 1%Z -> nz (nth d zm 0%Z) = true) ->
  (forall m cd dir, In (m, cd, dir) (a_edge c ++ a_trap c) -> (m < rank)%nat /\ (cd < rank)%nat) ->
  (forall p q, In (p, q) (a_mdom c ++ a_rdom c ++ a_jmono c) -> (p < rank)%nat /\ (q < rank)%nat) ->
  (forall p q, In (p, q) (a_mdom c ++ a_rdom c) -> nz (nth p em 0%Z) = true /\ nz (nth q em 0%Z) = true) ->
  (* the initialisation range is non-empty and inside the output bounds *)
  imin <= imax -> (forall lo, a_min c = Some lo -> lo <= imin) -> (forall hi, a_max c = Some hi -> imax <= hi) ->
  (* outside known finding D6 *)
  (forall m cd dir, In (m, cd, dir) (a_trap c) -> nz (nth cd em 0%Z) = false /\ nz (nth cd zu 0%Z) = false) ->
  (forall p q, In (p, q) (a_mdom c) -> (nth p sizes 0 <= nth q sizes 0)%nat) ->
  (forall p q, In (p, q) (a_jmono c) ->
     (nz (nth p em 0%Z) = true \/ nz (nth p zu 0%Z) = false) /\ (nz (nth q em 0%Z) = true \/ nz (nth q zu 0%Z) = false)) ->
  0 <= eps ->
  assert_lattice c (linear_init sizes imin imax monos unis (a_units c)) eps = true.
Proof. exact passes_assert_lattice_linear. Qed.
Print Assumptions C10_passes_assert_lattice_linear.

(* ---------------- Lattice, random monotonic initialiser ---------------- *)
(* Every shuffle order, every sorted sample vector from a range inside the
   output bounds.  The initialiser honours monotonicity (along EVERY dimension),
   hence also joint monotonicities, and the bounds; nothing else may be
   configured (complement of known finding D24). *)
Theorem C10_passes_assert_lattice_random_monotonic : forall (c : la_cfg) order samples imin imax eps,
  let sizes := a_sizes c in
  let rank := length sizes in
  la_ok c ->
  (forall p q, In (p, q) (a_jmono c) -> (p < rank)%nat /\ (q < rank)%nat) ->
  (* the oracles: np.random.shuffle leaves each level in SOME order, the samples are sorted, one per vertex, in range *)
  Forall2 (@Permutation idx) order (levels sizes) ->
  (forall a b, (a <= b)%nat -> (b < length samples)%nat -> nth a samples 0 <= nth b samples 0) ->
  length samples = length (concat order) ->
  (forall x, In x samples -> imin <= x /\ x <= imax) ->
  (* the initialisation range is inside the output bounds *)
  (forall lo, a_min c = Some lo -> lo <= imin) -> (forall hi, a_max c = Some hi -> imax <= hi) ->
  (* outside known finding D24: nothing but monotonicity, joint monotonicity and bounds is configured *)
  a_edge c = [] -> a_trap c = [] -> a_mdom c = [] -> a_rdom c = [] ->
  0 <= eps ->
  assert_lattice c (random_mono_init sizes (a_units c) order samples) eps = true.
Proof. exact passes_assert_lattice_random_monotonic. Qed.
Print Assumptions C10_passes_assert_lattice_random_monotonic.

(* ---------------- Lattice, the layer ---------------- *)
(* The kernel the layer builds: create_kernel_initializer (initializer id, merge
   of joint unimodalities into the per-dimension unimodalities [zu] - which is
   where known finding D63 lives: the guard is stated on the MERGED list -, default
   or user-given init range) followed by the selected initialiser.  The first
   hypothesis excludes the Keras fall-back (known finding D25: id
   'random_uniform_or_linear_initializer' with one joint unimodality over all
   features), the [match] is the complement of D6 / D24. *)
Theorem C10_passes_assert_lattice : forall (c : la_cfg) id monos unis juni override order samples W eps,
  let sizes := a_sizes c in
  let rank := length sizes in
  let zm := zeros_if_none rank monos in
  let zu := merge_unimodalities rank unis juni in
  let em := lin_eff_monos sizes zm zu in
  let ch := create_kernel_initializer id sizes monos (a_min c) (a_max c) unis juni override in
  (* the fresh kernel is the one a library initialiser produced (excludes the Keras fall-back, D25) *)
  lattice_init_kernel ch sizes (a_units c) order samples = Some W ->
  (* what verify_hyperparameters guarantees *)
  la_ok c -> (forall s, In s sizes -> (2 <= s)%nat) -> (1 <= rank)%nat -> length zm = rank ->
  (forall d, nz (nth d zm 0%Z) && nz (nth d zu 0%Z) = false) ->
  a_monos c = monos_list monos ->
  (forall m cd dir, In (m, cd, dir) (a_edge c ++ a_trap c) -> (m < rank)%nat /\ (cd < rank)%nat) ->
  (forall p q, In (p, q) (a_mdom c ++ a_rdom c ++ a_jmono c) -> (p < rank)%nat /\ (q < rank)%nat) ->
  (forall p q, In (p, q) (a_mdom c ++ a_rdom c) -> nth p (a_monos c) 0%Z = 1%Z /\ nth q (a_monos c) 0%Z = 1%Z) ->
  (forall a b, a_min c = Some a -> a_max c = Some b -> a <= b) ->
  (* a user-given init range is non-empty and inside the output bounds *)
  (forall p, override = Some p -> fst p <= snd p /\
     (forall lo, a_min c = Some lo -> lo <= fst p) /\ (forall hi, a_max c = Some hi -> snd p <= hi)) ->
  match ch with
  | UseLinear _ _ _ _ =>
      (* outside known finding D6 *)
      (forall m cd dir, In (m, cd, dir) (a_trap c) -> nz (nth cd em 0%Z) = false /\ nz (nth cd zu 0%Z) = false) /\
      (forall p q, In (p, q) (a_mdom c) -> (nth p sizes 0 <= nth q sizes 0)%nat) /\
      (forall p q, In (p, q) (a_jmono c) ->
         (nz (nth p em 0%Z) = true \/ nz (nth p zu 0%Z) = false) /\ (nz (nth q em 0%Z) = true \/ nz (nth q zu 0%Z) = false))
  | UseRandomMono imin imax =>
      (* outside known finding D24 *)
      (a_edge c = [] /\ a_trap c = [] /\ a_mdom c = [] /\ a_rdom c = []) /\
      (* the random oracles *)
      Forall2 (@Permutation idx) order (levels sizes) /\
      (forall a b, (a <= b)%nat -> (b < length samples)%nat -> nth a samples 0 <= nth b samples 0) /\
      length samples = length (concat order) /\
      (forall x, In x samples -> imin <= x /\ x <= imax)
  | UseKeras => True
  end ->
  0 <= eps ->
  assert_lattice c W eps = true.
Proof. exact passes_assert_lattice_layer. Qed.
Print Assumptions C10_passes_assert_lattice.

(* ---------------- Lattice, on the configuration record of C01 / C12 (la_of c) ---------------- *)
(* monotonicities, Edgeworth and trapezoid trusts, bounds; default init range *)
Theorem C10_passes_assert_lattice_linear_trusts : forall (c : lat_cfg) unis eps,
  let rank := length (l_sizes c) in
  let zu := zeros_if_none rank unis in
  let imin := fst (default_init_params (l_min c) (l_max c)) in
  let imax := snd (default_init_params (l_min c) (l_max c)) in
  cfg_valid c -> l_sizes c <> [] ->
  length zu = rank -> (forall d, nz (nth d (l_monos c) 0%Z) && nz (nth d zu 0%Z) = false) ->
  (* outside D6: the conditional feature of a trapezoid trust is neither monotone nor unimodal *)
  (forall m cd dir, In (m, cd, dir) (l_trap c) -> nth cd (l_monos c) 0%Z = 0%Z /\ nth cd zu 0%Z = 0%Z) ->
  0 <= eps ->
  assert_lattice (la_of c) (linear_init (l_sizes c) imin imax (Some (l_monos c)) unis (l_units c)) eps = true.
Proof. exact passes_assert_lattice_linear_cfg. Qed.
Print Assumptions C10_passes_assert_lattice_linear_trusts.

(* the kernels of C10_linear_init_feasible / C10_random_init_feasible *)
Theorem C10_passes_assert_lattice_linear_mono_bounds : forall c eps, cfg_valid c -> mono_bounds_only c -> l_sizes c <> [] ->
  let imin := fst (default_init_params (l_min c) (l_max c)) in
  let imax := snd (default_init_params (l_min c) (l_max c)) in
  0 <= eps ->
  assert_lattice (la_of c) (linear_init (l_sizes c) imin imax (Some (l_monos c)) None (l_units c)) eps = true.
Proof. exact passes_assert_lattice_linear_mono_bounds_cfg. Qed.
Print Assumptions C10_passes_assert_lattice_linear_mono_bounds.

Theorem C10_passes_assert_lattice_random_monotonic_mono_bounds : forall (c : lat_cfg) order samples eps,
  let imin := fst (default_init_params (l_min c) (l_max c)) in
  let imax := snd (default_init_params (l_min c) (l_max c)) in
  cfg_valid c -> mono_bounds_only c ->
  Forall2 (@Permutation idx) order (levels (l_sizes c)) ->
  (forall a b, (a <= b)%nat -> (b < length samples)%nat -> nth a samples 0 <= nth b samples 0) ->
  length samples = length (concat order) ->
  (forall x, In x samples -> imin <= x /\ x <= imax) ->
  0 <= eps ->
  assert_lattice (la_of c) (random_mono_init (l_sizes c) (l_units c) order samples) eps = true.
Proof. exact passes_assert_lattice_random_monotonic_cfg. Qed.
Print Assumptions C10_passes_assert_lattice_random_monotonic_mono_bounds.

(* The guards are needed: outside them the fresh kernel FAILS the layer's own
   assert at the default eps = 1e-6 (known findings D6 a, b, c and D24, open). *)
Theorem C10_refuted_passes_assert_lattice_outside_guards :
  (* D6a: trapezoid trust whose conditional feature is monotone *)
  assert_lattice (mkLA [2; 2]%nat 1 [1; 1]%Z [] [(0, 1, 1%Z)]%nat [] [] [] None None)
                 (linear_init [2; 2]%nat 0 1 (Some [1; 1]%Z) None 1) (1#1000000) = false /\
  (* D6b: monotonic dominance whose dominant dimension has more vertices *)
  assert_lattice (mkLA [3; 2]%nat 1 [1; 1]%Z [] [] [(0, 1)]%nat [] [] None None)
                 (linear_init [3; 2]%nat 0 1 (Some [1; 1]%Z) None 1) (1#1000000) = false /\
  (* D6c: joint monotonicity touching a unimodal dimension *)
  assert_lattice (mkLA [4; 3]%nat 1 [1; 0]%Z [] [] [] [] [(0, 1)]%nat None None)
                 (linear_init [4; 3]%nat 0 1 (Some [1; 0]%Z) (Some [0; 1]%Z) 1) (1#1000000) = false /\
  (* D24: random monotonic initialiser with a trapezoid trust *)
  assert_lattice (mkLA [2; 2]%nat 1 [1; 0]%Z [] [(0, 1, 1%Z)]%nat [] [] [] None None)
                 (random_mono_init [2; 2]%nat 1 (levels [2; 2]%nat) [0; 1#4; 1#2; 1]) (1#1000000) = false.
Proof. exact fresh_lattice_fails_assert_outside_guards. Qed.
Print Assumptions C10_refuted_passes_assert_lattice_outside_guards.

(* ---------------- PWLCalibration ---------------- *)
(* PWLCalibration.build does not touch the initializer's value: the kernel is
   pwl_layer_init ('equal_heights' / 'equal_slopes', init range from
   convert_all_constraints, one row less when is_cyclic).  The layer assert
   covers the keypoint outputs (cumsum of the kernel, closing point when
   cyclic): bounds, clamps (per unit), monotonicity; and the learned missing
   output when impute_missing is set without missing_output_value. *)
Theorem C10_passes_assert_pwl : forall kps units omin omax clamp_min clamp_max mono (is_cyclic slopes learned_missing : bool) eps,
  let nw := (length kps - (if is_cyclic then 1 else 0))%nat in
  (* what verify_hyperparameters guarantees (is_cyclic excludes monotonicity; with
     'equal_slopes' the initialiser needs one keypoint per weight row, which rules out is_cyclic) *)
  (2 <= nw)%nat ->
  (slopes = true -> is_cyclic = false /\ forall l, In l (kp_lengths kps) -> 0 < l) ->
  (forall a b, omin = Some a -> omax = Some b -> a <= b) ->
  (mono = (-1)%Z \/ mono = 0%Z \/ mono = 1%Z) ->
  (is_cyclic = true -> mono = 0%Z) ->
  0 <= eps ->
  assert_pwl_layer
    (mkPL (mkPA units mono omin omax clamp_min clamp_max) is_cyclic
          (if learned_missing then Some (pwl_missing_output_init units omin omax clamp_min clamp_max) else None))
    (pwl_layer_init kps units omin omax clamp_min clamp_max mono is_cyclic slopes) eps = true.
Proof. exact passes_assert_pwl. Qed.
Print Assumptions C10_passes_assert_pwl.

(* ---------------- CategoricalCalibration ---------------- *)
(* after the build-time projection (cat_build_kernel: constraint(initializer
   value) whenever a constraint object exists), for EVERY initializer value raw *)
Theorem C10_passes_assert_categorical : forall ps lo hi units raw K eps,
  cat_build_kernel ps lo hi units raw = Some K ->
  (* what verify_hyperparameters guarantees: at least one bucket and one unit, pairs of existing
     buckets without a cycle, output_min <= output_max *)
  raw <> [] -> (1 <= units)%nat ->
  acyclic ps -> (forall i j, In (i, j) ps -> (i < length raw)%nat /\ (j < length raw)%nat) ->
  (forall l h, lo = Some l -> hi = Some h -> l <= h) ->
  0 <= eps ->
  assert_categorical (mkCatA units lo hi ps) K eps = true.
Proof. exact passes_assert_categorical. Qed.
Print Assumptions C10_passes_assert_categorical.

(* ---------------- KroneckerFactoredLattice ---------------- *)
(* fresh scale (scale_initializer) and fresh kernel (kfl_random_monotonic_initializer
   fed with that scale; [samples u d t] = the raw uniform column of (unit, dim,
   term)), every oracle inside the init range.  Default init range
   (kfl default_init_params): *)
Theorem C10_passes_assert_kfl : forall L units dims terms monos omin omax samples eps,
  let Sc := kfl_scale_init units terms omin omax in
  let imin := fst (kfl_default_init_params omin omax) in
  let imax := snd (kfl_default_init_params omin omax) in
  (1 <= L)%nat ->
  (forall a b, omin = Some a -> omax = Some b -> a < b) ->
  (forall u d t, (u < units)%nat -> (d < dims)%nat -> (t < terms)%nat ->
     length (samples u d t) = L /\ forall s, In s (samples u d t) -> imin <= s /\ s <= imax) ->
  0 <= eps ->
  assert_kfl (mkKA L units dims terms monos omin omax) Sc (kfl_fresh_kernel monos Sc samples) eps = true.
Proof. exact passes_assert_kfl. Qed.
Print Assumptions C10_passes_assert_kfl.

(* ... and any user-given init range (init_min / init_max) that stays inside [0, 1] when a bound is configured *)
Theorem C10_passes_assert_kfl_init_range : forall L units dims terms monos omin omax samples imin imax eps,
  let Sc := kfl_scale_init units terms omin omax in
  (1 <= L)%nat ->
  (forall a b, omin = Some a -> omax = Some b -> a < b) ->
  (* the oracle: one raw column of L uniform samples from [imin, imax] per (unit, dimension, term) *)
  (forall u d t, (u < units)%nat -> (d < dims)%nat -> (t < terms)%nat ->
     length (samples u d t) = L /\ forall s, In s (samples u d t) -> imin <= s /\ s <= imax) ->
  (* with a bound configured the init range is inside [0, 1] (the default is exactly [0, 1]) *)
  (forall b, omin = Some b \/ omax = Some b -> 0 <= imin /\ imax <= 1) ->
  0 <= eps ->
  assert_kfl (mkKA L units dims terms monos omin omax) Sc (kfl_fresh_kernel monos Sc samples) eps = true.
Proof. exact passes_assert_kfl_init_range. Qed.
Print Assumptions C10_passes_assert_kfl_init_range.

(* Linear: the layer has no library initialiser (kernel_initializer defaults to the
   Keras 'random_uniform'); nothing to state for C10. *)

(* ================================================================================= *)
(* KroneckerFactoredLattice: the FRESH layer's FUNCTION is monotone and within bounds  *)
(* ================================================================================= *)
(* "the KroneckerFactoredLattice initial kernel, scale and bias give a monotone function
   within bounds", for the layer's real function: MK.unit_out (Model/KFL.v, property
   C07's model of KroneckerFactoredLattice.call: per-dimension linear interpolation of
   the kernel columns, product over the dimensions, scale, mean over the terms, bias)
   on the parameters premade_kfl_init c dims units terms samples =
     kernel column (u, t, d) = kfl_init_col any_mono mono_d scale_t (samples u t d)
                               (kfl_random_monotonic_initializer; C10_kfl_init_kernel),
     scale = ScaleInitializer, bias = BiasInitializer,
   for EVERY uniform draw `samples` inside the initialisation range; no constraint has
   been applied.  Vocabulary as in Props/C07.v (cfg_ok, coords_le, in_range).
   Proofs/KFLInitFunction.v composes C03_init_feasible_kfl_initializers (fresh
   parameters are feasible) with the C07 function-level lemmas. *)
From TFL Require Import Model.PremadeKFL Proofs.PremadeKFL Proofs.PremadeInitKFL Proofs.KFLInitFunction.

(* monotone: any init range [imin, imax] with 0 <= imin and, when a bound is configured, imax <= 1 *)
Theorem C10_kfl_fresh_function_monotone : forall c dims units terms imin imax samples ms u xs ys,
  PK.cfg_ok c dims -> 0 <= imin -> (MK.has_bounds c = true -> imax <= 1) ->
  kfl_samples_ok c dims units terms imin imax samples ->
  MK.canon_monos (MK.c_monos c) = Some ms -> PK.coords_le ms xs ys ->
  MK.c_clip c = true \/ (PK.in_range (MK.c_size c) xs /\ PK.in_range (MK.c_size c) ys) ->
  MK.unit_out c (premade_kfl_init c dims units terms samples) u xs <=
  MK.unit_out c (premade_kfl_init c dims units terms samples) u ys.
Proof. exact kfl_fresh_function_monotone. Qed.
Print Assumptions C10_kfl_fresh_function_monotone.

(* within the configured bound(s), one- or two-sided *)
Theorem C10_kfl_fresh_function_bounded : forall c dims units terms imin imax samples u xs,
  PK.cfg_ok c dims -> 0 <= imin -> (MK.has_bounds c = true -> imax <= 1) ->
  kfl_samples_ok c dims units terms imin imax samples ->
  (u < units)%nat -> length xs = dims -> MK.c_clip c = true \/ PK.in_range (MK.c_size c) xs ->
  (forall lo, MK.c_min c = Some lo -> lo <= MK.unit_out c (premade_kfl_init c dims units terms samples) u xs) /\
  (forall hi, MK.c_max c = Some hi -> MK.unit_out c (premade_kfl_init c dims units terms samples) u xs <= hi).
Proof. exact kfl_fresh_function_bounded. Qed.
Print Assumptions C10_kfl_fresh_function_bounded.

(* the layer's default init range kfl_lib.default_init_params(output_min, output_max)
   ((0.5, 1.5) without bounds, (0, 1) with a bound: the model H_C10 compares) needs no
   hypothesis on the range *)
Theorem C10_kfl_fresh_function_default_range : forall c dims units terms samples,
  PK.cfg_ok c dims ->
  kfl_samples_ok c dims units terms (fst (kfl_default_init_params (MK.c_min c) (MK.c_max c)))
                 (snd (kfl_default_init_params (MK.c_min c) (MK.c_max c))) samples ->
  let p := premade_kfl_init c dims units terms samples in
  (forall ms u xs ys, MK.canon_monos (MK.c_monos c) = Some ms -> PK.coords_le ms xs ys ->
     MK.c_clip c = true \/ (PK.in_range (MK.c_size c) xs /\ PK.in_range (MK.c_size c) ys) ->
     MK.unit_out c p u xs <= MK.unit_out c p u ys) /\
  (forall u xs, (u < units)%nat -> length xs = dims -> MK.c_clip c = true \/ PK.in_range (MK.c_size c) xs ->
     (forall lo, MK.c_min c = Some lo -> lo <= MK.unit_out c p u xs) /\
     (forall hi, MK.c_max c = Some hi -> MK.unit_out c p u xs <= hi)).
Proof. exact kfl_fresh_function_default. Qed.
Print Assumptions C10_kfl_fresh_function_default_range.

(* the scale / bias initialiser models used above (Model/KFL.v) equal the ones H_C10.check
   compares with the layer's fresh scale and bias (Model/KFLInit.v) *)
Theorem C10_kfl_init_models_agree : forall c units terms,
  Forall2 (Forall2 Qeq) (kfl_scale_init units terms (MK.c_min c) (MK.c_max c)) (MK.scale_init c units terms) /\
  Forall2 Qeq (kfl_bias_init units (MK.c_min c) (MK.c_max c)) (MK.bias_init c units).
Proof. intros c units terms. split. apply scale_models_agree. apply bias_models_agree. Qed.
Print Assumptions C10_kfl_init_models_agree.

(* the hypotheses are satisfiable (size 2, one monotone input, bounds [-1, 1], one unit, two
   terms, the unsorted draw [3/4; 1/4] for both): f(0) = -1/4 <= f(1) = 1/4, inside [-1, 1] *)
Example C10_kfl_fresh_function_example :
  PK.cfg_ok lk_cfg 1 /\
  kfl_samples_ok lk_cfg 1 1 2 (fst (kfl_default_init_params (MK.c_min lk_cfg) (MK.c_max lk_cfg)))
                 (snd (kfl_default_init_params (MK.c_min lk_cfg) (MK.c_max lk_cfg))) exf_samples /\
  MK.canon_monos (MK.c_monos lk_cfg) = Some [true] /\ PK.coords_le [true] [0] [1] /\
  PK.in_range (MK.c_size lk_cfg) [0] /\ PK.in_range (MK.c_size lk_cfg) [1].
Proof. exact exf_hypotheses. Qed.
Example C10_kfl_fresh_function_example_values :
  MK.unit_out lk_cfg (premade_kfl_init lk_cfg 1 1 2 exf_samples) 0 [0] == -(1#4) /\
  MK.unit_out lk_cfg (premade_kfl_init lk_cfg 1 1 2 exf_samples) 0 [1] == 1#4.
Proof. exact exf_values. Qed.
