(* C16 correspondence: the model's accept/reject decision (GENERATED
   canonicalisers of Gen/GenCanon.v on the spelled hyperparameters, then the
   hand-written cores of Model/Verify.v) against the class observed on the real
   constructor (+ build for layers): Rejected = ValueError, Accepted = built.
   A second kind of case ties the generated canonicalisers themselves to the
   real utils.py functions: (function, arguments, observed outcome). *)
From TFL Require Export Harness.Compare Model.PyVal Gen.GenCanon Model.Verify.
Open Scope string_scope.

Inductive observed := Rejected | Accepted.

Record lattice_raw := mkLR {
  r_sizes : list Z;
  r_monos : value; r_unimods : value; r_edge : value; r_trap : value;
  r_mdom : option (list (list Z)); r_rdom : option (list (list Z)); r_jmono : option (list (list Z));
  r_junimod : option (list (list Z * value));
  r_omin : option Q; r_omax : option Q;
  r_interp : value }.

Record linear_raw := mkNR {
  nr_monos : value; nr_num_input_dims : option Z;
  nr_mdom : option (list (list Z)); nr_rdom : option (list (list Z));
  nr_imin : value; nr_imax : value }.

Record pwl_raw := mkPR {
  pr_keypoints : option (list Q); pr_omin : option Q; pr_omax : option Q;
  pr_mono : value; pr_convex : value; pr_cyclic : bool; pr_kp_type : value;
  pr_impute : bool; pr_missing_in : bool; pr_missing_out : bool; pr_layer : bool }.

Record kfl_raw := mkKR {
  kr_size : Z; kr_units : Z; kr_terms : Z; kr_monos : value; kr_dims : Z;
  kr_omin : option Q; kr_omax : option Q }.

(* ---- second part: RTL, CDF, regulariser objects, premade verify_config ------ *)
Record rtl_raw := mkTR {
  tr_num : Z; tr_rank : Z; tr_size : Z; tr_omin : option Q; tr_omax : option Q;
  tr_interp : value; tr_param : value; tr_init : value;
  tr_regs : value;                          (* kernel_regularizer as given *)
  tr_init_min : option Q; tr_init_max : option Q; tr_terms : Z;
  tr_input : list (value * Z) }.            (* items of the input-shape dict (key, number of inputs);
                                               a non-dict shape (None, n) is [("unconstrained", n)] *)

Record cdf_raw := mkDR {
  dr_keypoints : Z; dr_units : Z; dr_sparsity : Z; dr_dims : Z;
  dr_mono : value; dr_init : value; dr_scaling : value; dr_activation : value; dr_reduction : value }.

Record latreg_raw := mkGR { gr_sizes : list Z; gr_l1 : value; gr_l2 : value }.

Record feature_raw := mkFR {
  fr_buckets : value; fr_keypoints : value; fr_mono : value; fr_lattice_size : Z; fr_unimodality : value;
  fr_trust : bool; fr_dominates : bool;     (* reflects_trust_in / dominates is not None *)
  fr_reg_names : list string }.
Record premade_raw := mkMR {
  mr_kind : model_kind; mr_features : option (list feature_raw);
  mr_lattices : value; mr_num_lattices : option Z; mr_param : value; mr_reg_names : list string;
  mr_middle_dim : Z; mr_middle_mono : bool; mr_middle_calib : bool; mr_output_init : value }.

Inductive cfg :=
| CCanon (f : string) (args : list value) (r : result value)
| CLatticeC (raw : lattice_raw)     (* LatticeConstraints(...) *)
| CLatticeL (raw : lattice_raw) (units : Z)   (* Lattice(..., units) + build, default initialiser *)
| CLinear (raw : linear_raw) (units : option Z)  (* LinearConstraints(...) [None] / Linear(..., units) + build *)
| CPwl (raw : pwl_raw) (units : Z)  (* PWLCalibration(..., units) + build / PWLCalibrationConstraints (units unused) *)
| CCat (c : cat_cfg) (units : option Z)  (* CategoricalCalibration(..., units) + build / ...Constraints [None] *)
| CKfl (raw : kfl_raw)              (* KroneckerFactoredLattice(...) + build *)
| CRtl (raw : rtl_raw)              (* RTL(...) + build *)
| CCdf (raw : cdf_raw) (call_rejected : bool)   (* CDF(...) + build; ValueError from the first call *)
| CLatReg (raw : latreg_raw)        (* lattice_layer.LaplacianRegularizer / TorsionRegularizer(...) *)
| CPwlReg (l1 l2 : value) (cyclic : bool)       (* pwl_calibration_layer.*Regularizer(...) *)
| CVerifyConfig (raw : premade_raw) (* premade_lib.verify_config(config) *)
| CPremadeCtor (raw : premade_raw). (* tfl.premade.Calibrated*(config): calls verify_config first *)

Record case := mk { c_cfg : cfg; c_obs : observed }.

(* ---- glue: canonical values -> typed hyperparameters ---------------------- *)
Definition num_z (v : value) : option Z :=
  match v with VInt z => Some z | VBool b => Some (if b then 1 else 0)%Z | _ => None end.

Fixpoint to_zs (l : list value) : option (list Z) :=
  match l with
  | [] => Some []
  | x :: r => match num_z x, to_zs r with Some z, Some zs => Some (z :: zs) | _, _ => None end
  end.

(* Integral floats.  The canonicalisers test membership with ==, so a float that
   equals an int of the accepted set is accepted and RETURNED AS IT IS
   (canonicalize_monotonicity(1.0) = 1.0, canonicalize_convexity(0.0) = 0.0,
   a trust direction 1.0 ...), and the code that consumes the canonical value
   compares it with == again (`monotonicity != 1`, `if convexity:` ...): an
   integral float behaves like the int.  The typed model has ints only, so the
   glue reads the canonicaliser's OUTPUT through norm_num: an integral VFloat
   becomes the VInt it equals (anything else unchanged; non-integral floats
   never leave the canonicalisers, they are ValueErrors there).  Trust
   dimensions are NOT normalised: the code tests isinstance(dim, int). *)
Definition q_integral (q : Q) : option Z :=
  let r := Qred q in if Pos.eqb (Qden r) 1 then Some (Qnum r) else None.
Definition norm_num (v : value) : value :=
  match v with
  | VFloat q => match q_integral q with Some z => VInt z | None => v end
  | _ => v
  end.
Definition norm_nums (v : value) : value :=
  match v with
  | VList l => VList (map norm_num l)
  | VTuple l => VTuple (map norm_num l)
  | _ => norm_num v
  end.
Definition norm_trust (e : value) : value :=
  match e with VTuple [a; b; d] => VTuple [a; b; norm_num d] | _ => e end.
Definition norm_trusts (v : value) : value :=
  match v with VList l => VList (map norm_trust l) | _ => v end.
Definition rmap (f : value -> value) (r : result value) : result value :=
  match r with Ok v => Ok (f v) | _ => r end.

(* outcome of a list canonicaliser as: rejected | conversion impossible | typed *)
Inductive conv (A : Type) := CReject | CStuck | CVal (a : A).
Arguments CReject {A}. Arguments CStuck {A}. Arguments CVal {A} a.

Definition conv_zs (r : result value) : conv (option (list Z)) :=
  match r with
  | Ok VNone => CVal None
  | Ok (VList l) => match to_zs l with Some zs => CVal (Some zs) | None => CStuck end
  | Ok _ => CStuck
  | ValueError => CReject
  | OtherError _ => CReject
  end.

Definition to_trust (e : value) : option (Z * Z * Z) :=
  match e with
  | VTuple [a; b; d] =>
      match num_z a, num_z b, num_z d with Some x, Some y, Some z => Some (x, y, z) | _, _, _ => None end
  | _ => None
  end.
Fixpoint to_trusts (l : list value) : option (list (Z * Z * Z)) :=
  match l with
  | [] => Some []
  | x :: r => match to_trust x, to_trusts r with Some t, Some ts => Some (t :: ts) | _, _ => None end
  end.
Definition conv_trusts (r : result value) : conv (list (Z * Z * Z)) :=
  match r with
  | Ok VNone => CVal []
  | Ok (VList l) => match to_trusts l with Some ts => CVal ts | None => CStuck end
  | Ok _ => CStuck
  | _ => CReject
  end.

Definition to_bound (v : value) : option (option Q) :=
  match v with VNone => Some None | VFloat q => Some (Some q) | _ => None end.
Fixpoint to_bounds (l : list value) : option (list (option Q)) :=
  match l with
  | [] => Some []
  | x :: r => match to_bound x, to_bounds r with Some b, Some bs => Some (b :: bs) | _, _ => None end
  end.
Definition conv_bounds (r : result value) : conv (option (list (option Q))) :=
  match r with
  | Ok VNone => CVal None
  | Ok (VList l) => match to_bounds l with Some bs => CVal (Some bs) | None => CStuck end
  | Ok _ => CStuck
  | _ => CReject
  end.

Definition conv_scalar (r : result value) : conv (option Z) :=
  match r with
  | Ok VNone => CVal None
  | Ok v => match num_z v with Some z => CVal (Some z) | None => CStuck end
  | _ => CReject
  end.

Definition dir_ok (d : value) : bool :=
  match d with
  | VStr s => String.eqb (lower s) "valley" || String.eqb (lower s) "peak"
  | _ => false
  end.

(* decision: Some true = accepted, Some false = ValueError, None = the glue
   cannot express the configuration (counts as a disagreement) *)
Definition decide_lattice (layer : option Z) (r : lattice_raw) : option bool :=
  match conv_zs (rmap norm_nums (canonicalize_monotonicities (r_monos r) (VBool false))),
        conv_zs (rmap norm_nums (canonicalize_unimodalities (r_unimods r))),
        conv_trusts (rmap norm_trusts (canonicalize_trust (r_edge r))),
        conv_trusts (rmap norm_trusts (canonicalize_trust (r_trap r))) with
  | CStuck, _, _, _ | _, CStuck, _, _ | _, _, CStuck, _ | _, _, _, CStuck => None
  | CVal m, CVal u, CVal e, CVal t =>
      let c := mkL (r_sizes r) m u e t (r_mdom r) (r_rdom r) (r_jmono r)
                   (match r_junimod r with
                    | None => None
                    | Some cs => Some (map (fun c => (fst c, dir_ok (snd c))) cs)
                    end)
                   (r_omin r) (r_omax r)
                   (py_in (r_interp r) [VStr "hypercube"; VStr "simplex"]) in
      Some (match layer with
            | Some units => accepts_lattice_layer_units c units
            | None => accepts_lattice_constraints_obj c
            end)
  | _, _, _, _ => Some false
  end.
Definition decide_lattice_layer (r : lattice_raw) (units : Z) : option bool := decide_lattice (Some units) r.

Definition decide_linear (r : linear_raw) (units : option Z) : option bool :=
  match conv_zs (rmap norm_nums (canonicalize_monotonicities (nr_monos r) (VBool true))),
        conv_bounds (canonicalize_input_bounds (nr_imin r)),
        conv_bounds (canonicalize_input_bounds (nr_imax r)) with
  | CStuck, _, _ | _, CStuck, _ | _, _, CStuck => None
  | CVal m, CVal lo, CVal hi =>
      let c := mkLin m (nr_num_input_dims r) (nr_mdom r) (nr_rdom r) lo hi in
      Some (match units with Some u => accepts_linear_layer c u | None => accepts_linear c end)
  | _, _, _ => Some false
  end.

Definition decide_pwl (r : pwl_raw) (units : Z) : option bool :=
  match conv_scalar (rmap norm_num (canonicalize_monotonicity (pr_mono r) (VBool true))),
        conv_scalar (rmap norm_num (canonicalize_convexity (pr_convex r))) with
  | CStuck, _ | _, CStuck => None
  | CVal m, CVal cv =>
      Some (accepts_pwl_layer
              (mkP (pr_keypoints r) (pr_omin r) (pr_omax r) m cv (pr_cyclic r)
                   (py_in (pr_kp_type r) [VStr "fixed"; VStr "learned_interior"])
                   (py_eq (pr_kp_type r) (VStr "learned_interior"))
                   (py_in (pr_convex r) [VStr "none"; VInt 0])
                   (pr_impute r) (pr_missing_in r) (pr_missing_out r) (pr_layer r)) units)
  | _, _ => Some false
  end.

Definition decide_kfl (r : kfl_raw) : option bool :=
  match conv_zs (rmap norm_nums (canonicalize_monotonicities (kr_monos r) (VBool false))) with
  | CStuck => None
  | CReject => Some false
  | CVal m => Some (accepts_kfl (mkK (kr_size r) (kr_units r) (kr_terms r) m (kr_dims r) (kr_omin r) (kr_omax r)))
  end.

(* ---- glue of the second part ------------------------------------------------ *)
Definition amt_of (v : value) : amt :=
  match v with
  | VFloat _ => AmtFloat
  | VInt _ | VBool _ => AmtInt
  | VList l | VTuple l => AmtSeq (zlen l)
  | _ => AmtOther
  end.
Definition reg_name_known (v : value) : option bool :=
  match v with
  | VStr s => Some (String.eqb (lower s) "torsion" || String.eqb (lower s) "laplacian")
  | _ => None                      (* name.lower() on a non-string: AttributeError *)
  end.
(* one regulariser given as a list / tuple xs; a wrong length makes the other
   fields irrelevant *)
Definition reg_entry_of (xs : list value) : option reg_entry :=
  match xs with
  | [n; a; b] => match reg_name_known n with Some k => Some (mkReg 3 k (amt_of a) (amt_of b)) | None => None end
  | _ => Some (mkReg (zlen xs) false AmtOther AmtOther)
  end.
Fixpoint reg_entries_of (es : list value) : option (list reg_entry) :=
  match es with
  | [] => Some []
  | (VList xs | VTuple xs) :: r =>
      match reg_entry_of xs, reg_entries_of r with Some e, Some l => Some (e :: l) | _, _ => None end
  | _ => None
  end.
(* the elements of a TUPLE of regularisers, as the Lattice layer iterates them:
   a tuple element is unpacked as (name, l1, l2); a list element goes to
   keras.regularizers.get, which raises ValueError (an entry no Lattice
   accepts: unknown name); anything else (str / dict / callable ...) is not
   expressible here *)
Fixpoint reg_tuple_entries_of (es : list value) : option (list reg_entry) :=
  match es with
  | [] => Some []
  | VTuple xs :: r =>
      match reg_entry_of xs, reg_tuple_entries_of r with Some e, Some l => Some (e :: l) | _, _ => None end
  | VList xs :: r => option_map (cons (mkReg (zlen xs) false AmtOther AmtOther)) (reg_tuple_entries_of r)
  | _ => None
  end.
(* `if isinstance(kernel_regularizer, list): if isinstance(kernel_regularizer[0], str): [kernel_regularizer]`
   (rtl_lib, RTL.build);  `isinstance(kernel_regularizer, tuple) and isinstance(kernel_regularizer[0], str)`
   (Lattice.__init__): a tuple that starts with a str is ONE regulariser, any other tuple is iterated *)
Definition regs_of (v : value) : option rtl_regs :=
  match v with
  | VNone => Some RegNone
  | VTuple ((VStr _ :: _) as xs) => option_map RegTuple (reg_entry_of xs)
  | VTuple es => option_map RegTuples (reg_tuple_entries_of es)
  | VList [] => Some (RegList [])
  | VList ((VStr _ :: _) as xs) => option_map (fun e => RegList [e]) (reg_entry_of xs)
  | VList es => option_map RegList (reg_entries_of es)
  | _ => None
  end.

Definition param_of (v : value) : rtl_param :=
  if py_eq v (VStr "all_vertices") then ParamAll
  else if py_eq v (VStr "kronecker_factored") then ParamKfl else ParamOther.
Definition keras_initializer_names : list value :=
  [VStr "random_uniform"; VStr "RandomUniform"; VStr "uniform"; VStr "zeros"; VStr "ones"; VStr "glorot_uniform"; VNone].
Definition init_of (v : value) : init_id :=
  if py_eq v (VStr "linear_initializer") then InitLinearExact
  else if py_in v [VStr "LinearInitializer"; VStr "random_monotonic_initializer"; VStr "RandomMonotonicInitializer";
                   VStr "random_uniform_or_linear_initializer"; VStr "RandomUniformOrLinearInitializer"]
       then InitLatticeRanged
  else if py_in v [VStr "kfl_random_monotonic_initializer"; VStr "KFLRandomMonotonicInitializer"] then InitKfl
  else if py_in v keras_initializer_names then InitKeras
  else InitUnknown.
Definition dict_get (k : string) (d : list (value * Z)) : option Z :=
  match filter (fun kv => py_eq (fst kv) (VStr k)) d with [] => None | kv :: _ => Some (snd kv) end.

Definition decide_rtl (r : rtl_raw) : option bool :=
  match regs_of (tr_regs r) with
  | None => None
  | Some regs =>
      Some (accepts_rtl (mkRTL (tr_num r) (tr_rank r) (tr_size r) (tr_omin r) (tr_omax r)
                               (py_in (tr_interp r) [VStr "hypercube"; VStr "simplex"])
                               (param_of (tr_param r)) (init_of (tr_init r)) regs
                               (tr_init_min r) (tr_init_max r) (tr_terms r)
                               (forallb (fun kv => py_in (fst kv) [VStr "unconstrained"; VStr "increasing"]) (tr_input r))
                               (dict_get "increasing" (tr_input r)) (dict_get "unconstrained" (tr_input r))))
  end.

Definition cdf_of (r : cdf_raw) (mono_ok : bool) : cdf_cfg :=
  mkCDF (dr_keypoints r) (dr_units r) (dr_sparsity r) (dr_dims r) mono_ok
        (py_in (dr_init r) keras_initializer_names)
        (py_in (dr_scaling r) [VStr "fixed"; VStr "learned_shared"; VStr "learned_per_input"])
        (py_in (dr_activation r) [VStr "relu6"; VStr "sigmoid"])
        (py_in (dr_reduction r) [VStr "mean"; VStr "geometric_mean"; VStr "none"]).
Definition decide_cdf (r : cdf_raw) : option cdf_cfg :=
  match conv_scalar (rmap norm_num (canonicalize_monotonicity (dr_mono r) (VBool true))) with
  | CStuck => None
  | CReject => Some (cdf_of r false)
  | CVal _ => Some (cdf_of r true)
  end.
Definition check_cdf (r : cdf_raw) (call_rejected : bool) (o : observed) : bool :=
  match decide_cdf r with
  | None => false
  | Some c =>
      match accepts_cdf c, o with
      | true, Accepted => Bool.eqb (cdf_call_ok c) (negb call_rejected)
      | false, Rejected => true
      | _, _ => false
      end
  end.

Definition decide_latreg (r : latreg_raw) : bool :=
  accepts_lattice_regularizer (mkLRg (gr_sizes r) (amt_of (gr_l1 r)) (amt_of (gr_l2 r))).

(* np.iterable over the universe; isinstance(x, (int, float)) *)
Definition np_iterable (v : value) : bool := match v with VStr _ | VList _ | VTuple _ => true | _ => false end.
Definition is_number (v : value) : bool := is_int v || is_float v.
(* np.iterable(v) and all(isinstance(x, (int, float)) for x in v); the items of a str are str *)
Definition numbers_ok (v : value) : bool :=
  match v with
  | VList l | VTuple l => forallb is_number l
  | VStr s => String.eqb s ""
  | _ => false
  end.
Definition int_of (v : value) : option Z := num_z v.
Definition cat_elem_of (t : value) : cat_elem :=
  match t with
  | VList vs | VTuple vs => ElemVals (map int_of vs)
  | VStr s => if String.eqb s "" then ElemVals [] else ElemVals [None]   (* its items are str, not int *)
  | _ => ElemNotIterable
  end.
Definition cat_mono_of (v : value) : cat_mono :=
  if negb (py_truthy v) || py_eq v (VStr "none") then CmFalsyOrNone
  else match v with
       | VList es | VTuple es => CmElems (map cat_elem_of es)
       | VStr _ => CmElems [ElemVals [None]]
       | _ => CmNotIterable
       end.
Definition calib_name (s : string) : bool := String.prefix "calib_" s.
Definition feature_of (f : feature_raw) : option feature_cfg :=
  match (match fr_buckets f with VNone => Some 0%Z | v => num_z v end) with
  | None => None
  | Some nb =>
      Some (mkF nb (numbers_ok (fr_keypoints f)) (cat_mono_of (fr_mono f)) (fr_lattice_size f)
                (negb (py_eq (fr_unimodality f) (VStr "none")) && negb (py_eq (fr_unimodality f) (VInt 0)))
                (fr_trust f) (fr_dominates f) (map calib_name (fr_reg_names f)))
  end.
Fixpoint features_of (fs : list feature_raw) : option (list feature_cfg) :=
  match fs with
  | [] => Some []
  | f :: r => match feature_of f, features_of r with Some x, Some l => Some (x :: l) | _, _ => None end
  end.
Definition lattice_names_ok (l : value) : bool :=
  match l with
  | VList xs | VTuple xs => forallb is_str xs
  | VStr _ => true
  | _ => false
  end.
Definition lattices_of (v : value) : lattices_spec :=
  if py_eq v (VStr "rtl_layer") then LatRtl
  else match v with VList ls => LatList (map lattice_names_ok ls) | _ => LatOther end.
Definition decide_premade (r : premade_raw) : option bool :=
  match (match mr_features r with None => Some None | Some fs => option_map Some (features_of fs) end) with
  | None => None
  | Some fs =>
      Some (accepts_verify_config
              (mkPM (mr_kind r) fs (lattices_of (mr_lattices r)) (mr_num_lattices r)
                    (py_eq (mr_param r) (VStr "kronecker_factored")) (map calib_name (mr_reg_names r))
                    (mr_middle_dim r) (mr_middle_mono r) (mr_middle_calib r) (numbers_ok (mr_output_init r))))
  end.
(* the premade constructors call verify_config before anything else: what it
   rejects they reject; what it accepts the layers may still reject *)
Definition agrees_one_sided (d : option bool) (o : observed) : bool :=
  match d, o with
  | Some false, Rejected => true
  | Some false, Accepted => false
  | Some true, _ => true
  | None, _ => false
  end.

Definition agrees (d : option bool) (o : observed) : bool :=
  match d, o with
  | Some true, Accepted => true
  | Some false, Rejected => true
  | _, _ => false
  end.

Definition check (c : case) : bool :=
  match c_cfg c with
  | CCanon f args r => result_same (gen_call f args) r
  | CLatticeC raw => agrees (decide_lattice None raw) (c_obs c)
  | CLatticeL raw units => agrees (decide_lattice_layer raw units) (c_obs c)
  | CLinear raw units => agrees (decide_linear raw units) (c_obs c)
  | CPwl raw units => agrees (decide_pwl raw units) (c_obs c)
  | CCat cc units => agrees (Some (match units with
                                   | Some u => accepts_categorical_layer cc u
                                   | None => accepts_categorical cc
                                   end)) (c_obs c)
  | CKfl raw => agrees (decide_kfl raw) (c_obs c)
  | CRtl raw => agrees (decide_rtl raw) (c_obs c)
  | CCdf raw call_rejected => check_cdf raw call_rejected (c_obs c)
  | CLatReg raw => agrees (Some (decide_latreg raw)) (c_obs c)
  | CPwlReg l1 l2 cyc => agrees (Some (accepts_pwl_regularizer (amt_of l1) (amt_of l2) cyc)) (c_obs c)
  | CVerifyConfig raw => agrees (decide_premade raw) (c_obs c)
  | CPremadeCtor raw => agrees_one_sided (decide_premade raw) (c_obs c)
  end.
