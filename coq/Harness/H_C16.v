(* C16 correspondence: the model's accept/reject decision (GENERATED
   canonicalisers of Gen/GenCanon.v on the spelled hyperparameters, then the
   hand-written cores of Model/Verify.v) against the class observed on the real
   constructor (+ build for layers): Rejected = ValueError, Accepted = built.
   A second kind of case ties the generated canonicalisers themselves to the
   real utils.py functions: (function, arguments, observed outcome). *)
From TFL Require Export Harness.Compare Model.PyVal Gen.GenCanon Model.Verify.
Open Scope string_scope.

Inductive observed := Rejected | Accepted.

Record lattice_raw := mkLR {
  r_sizes : list Z;
  r_monos : value; r_unimods : value; r_edge : value; r_trap : value;
  r_mdom : option (list (list Z)); r_rdom : option (list (list Z)); r_jmono : option (list (list Z));
  r_junimod : option (list (list Z * value));
  r_omin : option Q; r_omax : option Q;
  r_interp : value }.

Record linear_raw := mkNR {
  nr_monos : value; nr_num_input_dims : option Z;
  nr_mdom : option (list (list Z)); nr_rdom : option (list (list Z));
  nr_imin : value; nr_imax : value }.

Record pwl_raw := mkPR {
  pr_keypoints : option (list Q); pr_omin : option Q; pr_omax : option Q;
  pr_mono : value; pr_convex : value; pr_cyclic : bool; pr_kp_type : value;
  pr_impute : bool; pr_missing_in : bool; pr_missing_out : bool; pr_layer : bool }.

Record kfl_raw := mkKR {
  kr_size : Z; kr_units : Z; kr_terms : Z; kr_monos : value; kr_dims : Z;
  kr_omin : option Q; kr_omax : option Q }.

Inductive cfg :=
| CCanon (f : string) (args : list value) (r : result value)
| CLatticeC (raw : lattice_raw)     (* LatticeConstraints(...) *)
| CLatticeL (raw : lattice_raw)     (* Lattice(...) + build, default initialiser *)
| CLinear (raw : linear_raw)        (* LinearConstraints(...) / Linear(...) + build *)
| CPwl (raw : pwl_raw)              (* PWLCalibration(...) + build / PWLCalibrationConstraints *)
| CCat (c : cat_cfg)                (* CategoricalCalibration(...) *)
| CKfl (raw : kfl_raw).             (* KroneckerFactoredLattice(...) + build *)

Record case := mk { c_cfg : cfg; c_obs : observed }.

(* ---- glue: canonical values -> typed hyperparameters ---------------------- *)
Definition num_z (v : value) : option Z :=
  match v with VInt z => Some z | VBool b => Some (if b then 1 else 0)%Z | _ => None end.

Fixpoint to_zs (l : list value) : option (list Z) :=
  match l with
  | [] => Some []
  | x :: r => match num_z x, to_zs r with Some z, Some zs => Some (z :: zs) | _, _ => None end
  end.

(* outcome of a list canonicaliser as: rejected | conversion impossible | typed *)
Inductive conv (A : Type) := CReject | CStuck | CVal (a : A).
Arguments CReject {A}. Arguments CStuck {A}. Arguments CVal {A} a.

Definition conv_zs (r : result value) : conv (option (list Z)) :=
  match r with
  | Ok VNone => CVal None
  | Ok (VList l) => match to_zs l with Some zs => CVal (Some zs) | None => CStuck end
  | Ok _ => CStuck
  | ValueError => CReject
  | OtherError _ => CReject
  end.

Definition to_trust (e : value) : option (Z * Z * Z) :=
  match e with
  | VTuple [a; b; d] =>
      match num_z a, num_z b, num_z d with Some x, Some y, Some z => Some (x, y, z) | _, _, _ => None end
  | _ => None
  end.
Fixpoint to_trusts (l : list value) : option (list (Z * Z * Z)) :=
  match l with
  | [] => Some []
  | x :: r => match to_trust x, to_trusts r with Some t, Some ts => Some (t :: ts) | _, _ => None end
  end.
Definition conv_trusts (r : result value) : conv (list (Z * Z * Z)) :=
  match r with
  | Ok VNone => CVal []
  | Ok (VList l) => match to_trusts l with Some ts => CVal ts | None => CStuck end
  | Ok _ => CStuck
  | _ => CReject
  end.

Definition to_bound (v : value) : option (option Q) :=
  match v with VNone => Some None | VFloat q => Some (Some q) | _ => None end.
Fixpoint to_bounds (l : list value) : option (list (option Q)) :=
  match l with
  | [] => Some []
  | x :: r => match to_bound x, to_bounds r with Some b, Some bs => Some (b :: bs) | _, _ => None end
  end.
Definition conv_bounds (r : result value) : conv (option (list (option Q))) :=
  match r with
  | Ok VNone => CVal None
  | Ok (VList l) => match to_bounds l with Some bs => CVal (Some bs) | None => CStuck end
  | Ok _ => CStuck
  | _ => CReject
  end.

Definition conv_scalar (r : result value) : conv (option Z) :=
  match r with
  | Ok VNone => CVal None
  | Ok v => match num_z v with Some z => CVal (Some z) | None => CStuck end
  | _ => CReject
  end.

Definition dir_ok (d : value) : bool :=
  match d with
  | VStr s => String.eqb (lower s) "valley" || String.eqb (lower s) "peak"
  | _ => false
  end.

(* decision: Some true = accepted, Some false = ValueError, None = the glue
   cannot express the configuration (counts as a disagreement) *)
Definition decide_lattice (layer : bool) (r : lattice_raw) : option bool :=
  match conv_zs (canonicalize_monotonicities (r_monos r) (VBool false)),
        conv_zs (canonicalize_unimodalities (r_unimods r)),
        conv_trusts (canonicalize_trust (r_edge r)),
        conv_trusts (canonicalize_trust (r_trap r)) with
  | CStuck, _, _, _ | _, CStuck, _, _ | _, _, CStuck, _ | _, _, _, CStuck => None
  | CVal m, CVal u, CVal e, CVal t =>
      let c := mkL (r_sizes r) m u e t (r_mdom r) (r_rdom r) (r_jmono r)
                   (match r_junimod r with
                    | None => None
                    | Some cs => Some (map (fun c => (fst c, dir_ok (snd c))) cs)
                    end)
                   (r_omin r) (r_omax r)
                   (py_in (r_interp r) [VStr "hypercube"; VStr "simplex"]) in
      Some (if layer then accepts_lattice_layer c else accepts_lattice_constraints c)
  | _, _, _, _ => Some false
  end.

Definition decide_linear (r : linear_raw) : option bool :=
  match conv_zs (canonicalize_monotonicities (nr_monos r) (VBool true)),
        conv_bounds (canonicalize_input_bounds (nr_imin r)),
        conv_bounds (canonicalize_input_bounds (nr_imax r)) with
  | CStuck, _, _ | _, CStuck, _ | _, _, CStuck => None
  | CVal m, CVal lo, CVal hi =>
      Some (accepts_linear (mkLin m (nr_num_input_dims r) (nr_mdom r) (nr_rdom r) lo hi))
  | _, _, _ => Some false
  end.

Definition decide_pwl (r : pwl_raw) : option bool :=
  match conv_scalar (canonicalize_monotonicity (pr_mono r) (VBool true)),
        conv_scalar (canonicalize_convexity (pr_convex r)) with
  | CStuck, _ | _, CStuck => None
  | CVal m, CVal cv =>
      Some (accepts_pwl (mkP (pr_keypoints r) (pr_omin r) (pr_omax r) m cv (pr_cyclic r)
                             (py_in (pr_kp_type r) [VStr "fixed"; VStr "learned_interior"])
                             (py_eq (pr_kp_type r) (VStr "learned_interior"))
                             (py_in (pr_convex r) [VStr "none"; VInt 0])
                             (pr_impute r) (pr_missing_in r) (pr_missing_out r) (pr_layer r)))
  | _, _ => Some false
  end.

Definition decide_kfl (r : kfl_raw) : option bool :=
  match conv_zs (canonicalize_monotonicities (kr_monos r) (VBool false)) with
  | CStuck => None
  | CReject => Some false
  | CVal m => Some (accepts_kfl (mkK (kr_size r) (kr_units r) (kr_terms r) m (kr_dims r) (kr_omin r) (kr_omax r)))
  end.

Definition agrees (d : option bool) (o : observed) : bool :=
  match d, o with
  | Some true, Accepted => true
  | Some false, Rejected => true
  | _, _ => false
  end.

Definition check (c : case) : bool :=
  match c_cfg c with
  | CCanon f args r => result_same (gen_call f args) r
  | CLatticeC raw => agrees (decide_lattice false raw) (c_obs c)
  | CLatticeL raw => agrees (decide_lattice true raw) (c_obs c)
  | CLinear raw => agrees (decide_linear raw) (c_obs c)
  | CPwl raw => agrees (decide_pwl raw) (c_obs c)
  | CCat cc => agrees (Some (accepts_categorical cc)) (c_obs c)
  | CKfl raw => agrees (decide_kfl raw) (c_obs c)
  end.
