(* In-Coq comparison of model results with implementation results.  The
   harness writes case lists; [bad_indices] returns the positions of the cases
   whose check fails, so that only a short [list nat] is parsed from Coq. *)
From TFL Require Export Base.QNum.
Open Scope Q_scope.

(* |a - b| <= tol * max(1, |b|) *)
Definition qclose (tol a b : Q) : bool := Qle_bool (qabs (a - b)) (tol * qmax 1 (qabs b)).
Fixpoint qlist_close (tol : Q) (a b : list Q) : bool :=
  match a, b with
  | [], [] => true
  | x :: a', y :: b' => qclose tol x y && qlist_close tol a' b'
  | _, _ => false
  end.
Fixpoint qmat_close (tol : Q) (a b : list (list Q)) : bool :=
  match a, b with
  | [], [] => true
  | x :: a', y :: b' => qlist_close tol x y && qmat_close tol a' b'
  | _, _ => false
  end.
Definition opt_close {A} (f : A -> A -> bool) (a b : option A) : bool :=
  match a, b with Some x, Some y => f x y | None, None => true | _, _ => false end.

Fixpoint bad_from {A} (chk : A -> bool) (n : nat) (l : list A) : list nat :=
  match l with
  | [] => []
  | c :: r => if chk c then bad_from chk (S n) r else n :: bad_from chk (S n) r
  end.
Definition bad_indices {A} (chk : A -> bool) (l : list A) : list nat := bad_from chk 0%nat l.
