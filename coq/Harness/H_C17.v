(* Correspondence cases for C17: model inputs + the implementation's outputs. *)
From TFL Require Export Harness.Compare Model.RTLStructure Model.Ensembles.
Open Scope nat_scope.

Fixpoint nat_list_eqb (a b : list nat) : bool :=
  match a, b with
  | [], [] => true
  | x :: a', y :: b' => Nat.eqb x y && nat_list_eqb a' b'
  | _, _ => false
  end.
Fixpoint nat_mat_eqb (a b : list (list nat)) : bool :=
  match a, b with
  | [], [] => true
  | x :: a', y :: b' => nat_list_eqb x y && nat_mat_eqb a' b'
  | _, _ => false
  end.
Fixpoint structure_eqb (a b : structure) : bool :=
  match a, b with
  | [], [] => true
  | (k, v) :: a', (k', v') :: b' => nat_list_eqb k k' && nat_mat_eqb v v' && structure_eqb a' b'
  | _, _ => false
  end.
Definition opt_eqb {A} (f : A -> A -> bool) (a b : option A) : bool :=
  match a, b with Some x, Some y => f x y | None, None => true | _, _ => false end.

(* the oracle value captured from the implementation: an explicit permutation
   p (new position k holds the element that was at position p[k]) *)
Definition apply_perm {A} (d : A) (p : list nat) (l : list A) : list A := map (fun i => nth i l d) p.
Definition count_nat (i : nat) (l : list nat) : nat := length (filter (Nat.eqb i) l).
Definition is_perm (p : list nat) (n : nat) : bool :=
  Nat.eqb (length p) n && forallb (fun i => Nat.eqb (count_nat i p) 1) (seq 0 n).

Inductive case :=
| CRtl (cfg : rtl_cfg) (p1 p2 : list nat)
       (impl : option structure)                               (* layer._rtl_structure, None = raised *)
       (impl_call : option (list (list nat) * list (list nat))) (* gathered indices per output key, when observed *)
(* set_random_lattice_ensemble: t1[f] = value of the f-th np.random.choice(non_full_indices),
   t2[k] = value of np.random.choice(..., size, replace=False) for lattice k (as feature indices) *)
| CRandom (n num rank : nat) (t1 : list nat) (t2 : list (list nat)) (impl : option (list (list nat)))
(* construct_prefitting_model_config: perm = the shuffle of the pair list; impl lattices as sorted sets *)
| CCover (n rank : nat) (perm : list nat) (impl : option (list (list nat)))
(* _get_final_crystal_lattices with stubbed prefitting scores *)
| CCrystals (c : crystal_cfg) (impl : option (list (list nat)))
.

Fixpoint nat_ins (x : nat) (l : list nat) : list nat :=
  match l with [] => [x] | y :: r => if x <=? y then x :: l else y :: nat_ins x r end.
Definition nat_sort (l : list nat) : list nat := fold_right nat_ins [] l.

Definition check_random n num rank t1 t2 impl : bool :=
  opt_eqb nat_mat_eqb (random_ensemble (fun f _ => nth f t1 0) (fun k _ _ => nth k t2 []) n num rank) impl.

Definition check_cover n rank perm impl : bool :=
  match impl with
  | None => match prefitting_cover (fun l => l) n rank with None => true | Some _ => false end
  | Some ls =>
      is_perm perm (length (pairs n)) &&
      opt_eqb nat_mat_eqb (option_map (map nat_sort) (prefitting_cover (apply_perm (0, 0) perm) n rank)) (Some ls)
  end.

Definition check_crystals c impl : bool := opt_eqb nat_mat_eqb (crystal_lattices c) impl.

Definition check_rtl cfg p1 p2 impl impl_call : bool :=
  let n := length (flatten (c_input cfg)) in
  let m := rtl_structure cfg (apply_perm rin0 p1) (apply_perm rin0 p2) in
  match impl with
  | None => match m with None => true | Some _ => false end
  | Some s =>
      is_perm p1 n && is_perm p2 (c_num cfg * c_rank cfg) &&
      opt_eqb structure_eqb m (Some s) &&
      match impl_call, m with
      | Some (u, i), Some ms =>
          nat_mat_eqb (fst (rtl_outputs ms)) u && nat_mat_eqb (snd (rtl_outputs ms)) i
      | Some _, None => false
      | None, _ => true
      end
  end.

Definition check (c : case) : bool :=
  match c with
  | CRtl cfg p1 p2 impl impl_call => check_rtl cfg p1 p2 impl impl_call
  | CRandom n num rank t1 t2 impl => check_random n num rank t1 t2 impl
  | CCover n rank perm impl => check_cover n rank perm impl
  | CCrystals c impl => check_crystals c impl
  end.
