From TFL Require Export Harness.Compare Model.LatticeFinalize.
Open Scope Q_scope.
(* CFin: lattice_lib.finalize_constraints(w) = out.
   CCon: LatticeConstraints(strict)(w) = out, where wd is the real output of the
         Dykstra stage for w (or w itself when the stage is skipped: ran=false).
   CTol t c: case c compared with relative tolerance t instead of the default
         1e-9 (float32 cases: 1e-5). *)
Inductive case :=
| CFin (c : lat_cfg) (w out : list Q)
| CCon (c : lat_cfg) (ran : bool) (wd out : list Q)
| CTol (t : Q) (c : case).
Definition tol : Q := 1 # 1000000000.
Fixpoint check_with (t : Q) (c : case) : bool :=
  match c with
  | CFin cfg w out => qlist_close t (finalize_flat cfg w) out
  | CCon cfg ran wd out => qlist_close t (constraint_flat cfg ran wd) out
  | CTol t' c' => check_with t' c'
  end.
Definition check (c : case) : bool := check_with tol c.
