From TFL Require Export Harness.Compare Model.LatticeFinalize.
Open Scope Q_scope.
(* CFin: lattice_lib.finalize_constraints(w) = out.
   CCon: LatticeConstraints(strict)(w) = out, where wd is the real output of the
         Dykstra stage for w (or w itself when the stage is skipped: ran=false). *)
Inductive case :=
| CFin (c : lat_cfg) (w out : list Q)
| CCon (c : lat_cfg) (ran : bool) (wd out : list Q).
Definition tol : Q := 1 # 1000000000.
Definition check (c : case) : bool :=
  match c with
  | CFin cfg w out => qlist_close tol (finalize_flat cfg w) out
  | CCon cfg ran wd out => qlist_close tol (constraint_flat cfg ran wd) out
  end.
