(* C03, tie of section H (Props/C03.v, Proofs/PremadeEndToEnd.v): the model DESCRIPTIONS the end-to-end
   theorems quantify over (cl_model / cn_model) against real tfl.premade models.

   The description is built HERE from the model CONFIG alone (features: monotonicity, keypoints, convexity,
   default_value, lattice_size, buckets, pairs; interpolation; output_calibration; output_min / output_max;
   output_initialization; use_bias) exactly as cl_ok / cn_ok say the builders wire it: calibrator ranges
   [0, lattice_size - 1] resp. model range / [0, 1], calibrator monotonicity = calibrator_mono, lattice and
   linear monotonicities from lattice_dim_mono / premade_linear_monos, LinearInitializer / UniformOutputInitializer
   / Constant(ediff1d) / Constant(1/n), output calibrator on linspace(0, 1, len(output_initialization)).
   Compared: the function cl_eval / cn_eval of the INITIAL state of the layer machine (init_state (cl_vars md))
   with the outputs of the freshly built Keras model on points that include out-of-range inputs, missing
   values and default buckets.  The one thing taken from the built model is the categorical kernel (a
   RandomUniform draw, projected in build()): it is handed to the description as the raw draw cs_raw. *)
From TFL Require Export Harness.Compare Model.Premade Proofs.Premade Proofs.PremadeInit Proofs.PremadeEndToEnd.
From TFL Require Import Model.LinearProject Model.LatticeFinalize Model.PWLProject Model.PartialOrder.
Open Scope Q_scope.

Inductive featc :=
| FNum (mono : Z) (always : bool) (kps : list Q) (conv : Z) (default : option Q) (ls : nat)
| FCat (ps : list (nat * nat)) (nb : nat) (default : option Z) (kernel : list Q) (ls : nat).

(* raw values handed to the layers by one Update, in state order (calibrators, lattice / linear, output
   calibrator); the lattice kernel as the flat (prod sizes) column *)
Inductive rawv := RPwl (col : list Q) (mo : option Q) | RCat (vals : list Q) | RLat (flat : list Q) | RLin (k : list Q) (b : Q).

Record case := mkC {
  e_linear : bool; e_feats : list featc; e_simplex : bool; e_outcal : bool; e_use_bias : bool;
  e_min : option Q; e_max : option Q; e_oi : list Q;
  e_pts : list (list Q); e_outs : list Q;      (* the fresh model *)
  e_raw : list rawv; e_outs2 : list Q }.       (* after assigning e_raw to the variables and applying every constraint *)

Definition f_mono (f : featc) : fmono := match f with FNum m _ _ _ _ _ => MNum m | FCat ps _ _ _ _ => MPairs ps end.
Definition f_always (f : featc) : bool := match f with FNum _ a _ _ _ _ => a | FCat _ _ _ _ _ => false end.
Definition f_ls (f : featc) : nat := match f with FNum _ _ _ _ _ ls => ls | FCat _ _ _ _ ls => ls end.
(* the calibrator of feature f in front of a layer expecting range r *)
Definition f_cal (r : layer_range) (oi : list Q) (f : featc) : cal_spec :=
  match f with
  | FNum m a kps conv dv _ => CSPwl (mkPwlS kps (calibrator_mono m a) conv false false 8 r oi PKUniform) dv
  | FCat ps nb dv kernel _ => CSCat (mkCatS ps r nb kernel) dv
  end.
Definition outc_spec (c : case) : option pwl_spec :=
  if e_outcal c then Some (mkPwlS (linspace01 (length (e_oi c))) 1 0 false false 8 (ModelOutput (e_min c) (e_max c))
                                  (e_oi c) PKOutputCalibration)
  else None.

Definition cl_of (c : case) : cl_model :=
  let feats := map f_mono (e_feats c) in
  let sizes := map f_ls (e_feats c) in
  let r := if e_outcal c then InputToFinalCalibration else ModelOutput (e_min c) (e_max c) in
  let unis := map (fun _ => 0%Z) feats in
  mkCL feats (map f_always (e_feats c)) (map (fun f => f_cal (InputToLattice (f_ls f)) (e_oi c) f) (e_feats c))
       (mkLatS (mkLat sizes 1 (map lattice_dim_mono feats) [] [] (fst (output_range r)) (snd (output_range r)))
               true (fun K => K) r (e_oi c) (LKLinear unis))
       unis (if e_simplex c then Simplex else Hypercube) (outc_spec c) (e_min c) (e_max c) (e_oi c).

Definition cn_of (c : case) : cn_model :=
  let feats := map f_mono (e_feats c) in
  let n := length feats in
  let r := if e_outcal c then InputToFinalCalibration else ModelOutput (e_min c) (e_max c) in
  let weighted := is_some (e_min c) || is_some (e_max c) || e_outcal c in
  mkCN feats (map f_always (e_feats c)) (map (f_cal r (e_oi c)) (e_feats c))
       (mkLinS (fun q => q) (mkLin (premade_linear_monos feats weighted) [] [] (repeat None n) (repeat None n)
                                   (if weighted then 1 else 0)%nat) n)
       (e_use_bias c) (outc_spec c) (e_min c) (e_max c) (e_oi c).

Definition raw_val (sizes : list nat) (r : rawv) : lval :=
  match r with
  | RPwl col mo => VPwl col mo
  | RCat vals => VCat vals
  | RLat flat => VLat (of_list (sizes ++ [1%nat]) flat)
  | RLin k b => VLin k b
  end.
Definition delta_of (c : case) (i : nat) : lval := raw_val (map f_ls (e_feats c)) (nth i (e_raw c) (RLin [] 0)).

(* float32 model *)
Definition tol : Q := 1 # 100000.
(* Init, and the state after ONE Update with the raw values e_raw (the Dykstra stage of the lattice constraint
   is the identity oracle ls_dyk of cl_of: the harness hands over a kernel that is already feasible, which
   alternating projections leave where it is; the finalize / bound stages are computed) *)
Definition check (c : case) : bool :=
  if e_linear c then
    let md := cn_of c in
    qlist_close tol (map (fun x => Qred (cn_eval md (init_state (cn_vars md)) x)) (e_pts c)) (e_outs c) &&
    match e_raw c with [] => true | _ =>
      qlist_close tol (map (fun x => Qred (cn_eval md (final (cn_vars md) [Update (delta_of c)]) x)) (e_pts c)) (e_outs2 c) end
  else
    let md := cl_of c in
    qlist_close tol (map (fun x => Qred (cl_eval md (init_state (cl_vars md)) x)) (e_pts c)) (e_outs c) &&
    match e_raw c with [] => true | _ =>
      qlist_close tol (map (fun x => Qred (cl_eval md (final (cl_vars md) [Update (delta_of c)]) x)) (e_pts c)) (e_outs2 c) end.

(* the descriptions built here are the ones the theorems speak about: for the example configuration the
   constructor returns exactly ex_cl (Props/C03.v C03_calibrated_lattice_hypotheses_satisfiable) up to the
   categorical raw draw, and the check accepts its own initial function and rejects a shifted output *)
Definition ex_case (outs outs2 : list Q) : case :=
  mkC false [FNum 1 false [0; 1; 3] 0 (Some (-(1))) 2; FCat [(0, 2)]%nat 3 (Some (-1)%Z) [7#8; -(1#4); 1#8] 3]
      false false false (Some (-(2))) (Some 2) [-(2); 2] [[0; 0]; [3; 2]; [-(1); -(1)]] outs
      [RPwl [1#4; 1#4; 1#2] (Some (1#2)); RCat [0; 2; 1]; RLat [-(1); 0; 1; -(1#2); 1#2; 2]] outs2.
Example cl_of_example : cl_of (ex_case [] []) = ex_cl.
Proof. reflexivity. Qed.
Example check_accepts :
  let pts := [[0; 0]; [3; 2]; [-(1); -(1)]] in
  let o1 := map (cl_eval ex_cl (init_state (cl_vars ex_cl))) pts in
  let o2 := map (cl_eval ex_cl (final (cl_vars ex_cl) [Update (delta_of (ex_case [] []))])) pts in
  check (ex_case o1 o2) = true /\ check (ex_case [0; 0; 0] o2) = false /\ check (ex_case o1 o1) = false.
Proof. repeat split; vm_compute; reflexivity. Qed.
