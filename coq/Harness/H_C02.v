From TFL Require Export Harness.Compare Model.LatticeInterp.
Open Scope Q_scope.
(* One Lattice layer / lattice_lib call: interpolation scheme (true = simplex),
   input form (true = one tensor, false = list of per-feature tensors),
   clip_inputs, units, lattice sizes, kernel K[p][u], a batch of points (one
   coordinate row per unit; a single row when units = 1), the
   implementation's outputs (one row per point, one value per unit) and the
   relative tolerance of the comparison (tol = 1e-9 for float64 runs, tol32 =
   1e-5 for float32 runs). *)
Record case := mk { c_simplex : bool; c_tensor : bool; c_clip : bool; c_units : nat; c_sizes : list nat;
                    c_K : list (list Q); c_pts : list (list (list Q)); c_outs : list (list Q); c_tol : Q }.
Definition tol : Q := 1 # 1000000000.
Definition tol32 : Q := 1 # 100000.
Definition check (c : case) : bool :=
  qmat_close (c_tol c)
    (lattice_eval (if c_simplex c then Simplex else Hypercube) (c_tensor c) (c_clip c) (c_units c)
                  (c_sizes c) (c_K c) (c_pts c))
    (c_outs c).
