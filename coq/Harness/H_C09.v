(* C09: the implementation's multi-unit result, column by column, against the
   single-unit model run on that column alone. *)
From TFL Require Export Harness.Compare Model.LatticeDykstra Model.PWLProject Model.LinearProject.
From TFL Require Model.KFL Model.KFLUnits.
Open Scope Q_scope.

Definition lat1 (c : lat_cfg) : lat_cfg := mkLat (l_sizes c) 1 (l_monos c) (l_edge c) (l_trap c) (l_min c) (l_max c).
Definition dyk1 (c : dyk_cfg) : dyk_cfg :=
  mkDykCfg (k_sizes c) 1 (k_monos c) (k_unis c) (k_edge c) (k_trap c) (k_mdom c) (k_rdom c) (k_jmono c) (k_juni c) (k_iters c).

(* strict / non-strict LatticeConstraints on a flat (vertices x units) kernel given by rows *)
Definition lattice_constraint_model (dc : dyk_cfg) (lc : lat_cfg) (ran strict : bool) (w : list Q) : list Q :=
  let wd := if ran then dykstra_flat dc w else w in
  if strict then constraint_flat lc ran wd
  else to_list (l_shape lc) (clip_bounds (l_shape lc) (l_min lc) (l_max lc) (of_list (l_shape lc) wd)).

Inductive case :=
| CLat (dc : dyk_cfg) (lc : lat_cfg) (ran strict : bool) (W out : list (list Q))   (* rows = vertices *)
| CPwl (c : pwl_cfg) (W out : list (list Q))
| CLin (c : lin_cfg) (W out : list (list Q))
| CCat (ps : pairs) (lo hi : option Q) (W out : list (list Q))
(* KroneckerFactoredLattice with units > 1: implementation kernels in the layout
   k[i][j][t] (L, units*dims, terms); k0/s0/b0 assigned, steps = constraint
   applications performed on the real multi-unit layer, k1/s1 read back, outs =
   layer outputs (batch x units) on pts (one row of dims coordinates per unit) *)
| CKfl (c : KFL.config) (units dims terms : nat)
       (k0 : list (list (list Q))) (s0 : list (list Q)) (b0 : list Q) (steps : list KFL.step)
       (k1 : list (list (list Q))) (s1 : list (list Q)) (pts : list (list (list Q))) (outs : list (list Q)).

Definition tol : Q := 1 # 1000000000.
Definition ncols (W : list (list Q)) : nat := match W with [] => 0%nat | r :: _ => length r end.
Definition cols_ok (f : list Q -> option (list Q)) (W out : list (list Q)) : bool :=
  forallb (fun u => opt_close (qlist_close tol) (f (column u W)) (Some (column u out))) (seq 0 (ncols W)).

(* the ONE-unit KFL model on unit u's slice of the kernel, unit u's scale row and
   bias, against unit u of the implementation's multi-unit result and column u
   of its outputs (C09_kfl_run_on_slice: that one-unit run IS unit u of the
   multi-unit model) *)
Definition flat4 (k : KFL.kernel) : list Q := concat (concat (concat k)).
Definition kfl_unit_ok (c : KFL.config) (dims terms : nat)
           (k0 : list (list (list Q))) (s0 : list (list Q)) (b0 : list Q) (steps : list KFL.step)
           (k1 : list (list (list Q))) (s1 : list (list Q)) (pts : list (list (list Q))) (outs : list (list Q))
           (u : nat) : bool :=
  let L := KFL.c_size c in
  let p1 := KFL.run KFL.qroot c steps
              (KFL.mkPar (KFL.unpack L 1 dims terms (KFLUnits.slice_unit dims u k0)) [nth u s0 []] [nth u b0 0]) in
  qlist_close tol (flat4 (KFL.p_kern p1)) (flat4 (KFL.unpack L 1 dims terms (KFLUnits.slice_unit dims u k1))) &&
  qmat_close tol (KFL.p_scale p1) [nth u s1 []] &&
  qlist_close tol (map (fun pt => KFL.unit_out c p1 0 (nth u pt [])) pts) (column u outs).

Definition check (c : case) : bool :=
  match c with
  | CLat dc lc ran strict W out =>
      cols_ok (fun col => Some (lattice_constraint_model (dyk1 dc) (lat1 lc) ran strict col)) W out
  | CPwl cfg W out => cols_ok (fun col => Some (pwl_project_col cfg col)) W out
  | CLin cfg W out => cols_ok (lin_project_col qsqrt cfg) W out
  | CCat ps lo hi W out => cols_ok (cat_project_col ps lo hi) W out
  | CKfl c units dims terms k0 s0 b0 steps k1 s1 pts outs =>
      forallb (kfl_unit_ok c dims terms k0 s0 b0 steps k1 s1 pts outs) (seq 0 units)
  end.
