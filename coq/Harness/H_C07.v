From TFL Require Export Harness.Compare Model.KFL.
Open Scope Q_scope.
(* Kernels are passed in the IMPLEMENTATION layout k[i][j][t] (shape
   (L, units*dims, terms), the leading 1 dropped) and converted by the model's
   [unpack].

   CLayer: a built layer. si/bi = scale and bias of the fresh layer (compared
     with scale_init / bias_init); k0/s0/b0 = assigned parameters; steps = the
     constraint applications performed on the layer; k1/s1 = parameters read
     back afterwards; pts = points (one row of dims coordinates per unit),
     outs = layer outputs.
   CLibW / CLibMono / CLibBounds / CLibScale / CLibEval: direct calls of the
     kronecker_factored_lattice_lib functions (no gating). *)
Inductive case :=
| CLayer (c : config) (units dims terms : nat)
         (si : list (list Q)) (bi : list Q)
         (k0 : list (list (list Q))) (s0 : list (list Q)) (b0 : list Q)
         (steps : list step)
         (k1 : list (list (list Q))) (s1 : list (list Q))
         (pts : list (list (list Q))) (outs : list (list Q))
| CLibW (monos : option (list bool)) (omin omax : option Q) (L units dims terms : nat)
        (k0 : list (list (list Q))) (s : list (list Q)) (k1 : list (list (list Q)))
| CLibMono (monos : list bool) (L units dims terms : nat)
        (k0 : list (list (list Q))) (s : list (list Q)) (k1 : list (list (list Q)))
| CLibBounds (omin omax : option Q) (L units dims terms : nat)
        (k0 : list (list (list Q))) (k1 : list (list (list Q)))
| CLibScale (omin omax : option Q) (s0 s1 : list (list Q))
| CLibEval (clip : bool) (L units dims terms : nat)
        (k : list (list (list Q))) (s : list (list Q)) (b : list Q)
        (pts : list (list (list Q))) (outs : list (list Q))
(* CTol t c: case c compared with relative tolerance t instead of the default
   1e-9 (float32 layers: 1e-5). *)
| CTol (t : Q) (c : case).

Definition tol : Q := 1 # 1000000000.
Definition flat4 (k : kernel) : list Q := concat (concat (concat k)).
Definition shape4 (k : kernel) : list (list (list nat)) := map (map (map (@length Q))) k.
Fixpoint list_eqb {A} (e : A -> A -> bool) (a b : list A) : bool :=
  match a, b with [], [] => true | x :: a', y :: b' => e x y && list_eqb e a' b' | _, _ => false end.
Definition nat3_eqb : list (list (list nat)) -> list (list (list nat)) -> bool :=
  list_eqb (list_eqb (list_eqb Nat.eqb)).
Definition kern_close (tol : Q) (a b : kernel) : bool :=
  nat3_eqb (shape4 a) (shape4 b) && qlist_close tol (flat4 a) (flat4 b).

Fixpoint check_with (tol : Q) (c : case) : bool :=
  match c with
  | CLayer cfg units dims terms si bi k0 s0 b0 steps k1 s1 pts outs =>
      let L := c_size cfg in
      let p1 := run qroot cfg steps (mkPar (unpack L units dims terms k0) s0 b0) in
      qmat_close tol (scale_init cfg units terms) si &&
      qlist_close tol (bias_init cfg units) bi &&
      kern_close tol (p_kern p1) (unpack L units dims terms k1) &&
      qmat_close tol (p_scale p1) s1 &&
      qmat_close tol (map (layer_out cfg p1) pts) outs
  | CLibW monos omin omax L units dims terms k0 s k1 =>
      kern_close tol (finalize_weights qroot monos omin omax s (unpack L units dims terms k0))
                 (unpack L units dims terms k1)
  | CLibMono monos L units dims terms k0 s k1 =>
      kern_close tol (map2 (fun su ku => map2 (project_mono_term monos) su ku) s (unpack L units dims terms k0))
                 (unpack L units dims terms k1)
  | CLibBounds omin omax L units dims terms k0 k1 =>
      kern_close tol (map (map (project_bounds_term qroot omin omax)) (unpack L units dims terms k0))
                 (unpack L units dims terms k1)
  | CLibScale omin omax s0 s1 =>
      qmat_close tol (map (map (finalize_scale1 omin omax)) s0) s1
  | CLibEval clip L units dims terms k s b pts outs =>
      let cfg := mkCfg L None None None clip in
      qmat_close tol (map (layer_out cfg (mkPar (unpack L units dims terms k) s b)) pts) outs
  | CTol t c' => check_with t c'
  end.
Definition check (c : case) : bool := check_with tol c.

(* Second check, on the MODEL's constrained parameters of the layer cases:
   the property itself evaluated in exact arithmetic on the generated points
   (bounds at every point when clipping or in range; the monotonicity part is
   checked on the implementation side by the harness). *)
Definition in_range (L : nat) (x : Q) : bool := Qle_bool 0 x && Qle_bool x (qn L - 1).
Definition has_step_k (steps : list step) : bool :=
  existsb (fun s => match s with StepS => false | _ => true end) steps.
Definition has_step_s (steps : list step) : bool :=
  existsb (fun s => match s with StepK => false | _ => true end) steps.
Definition slack : Q := 1 # 1000000.
Fixpoint check_bounds (c : case) : bool :=
  match c with
  | CLayer cfg units dims terms si bi k0 s0 b0 steps k1 s1 pts outs =>
      if has_step_k steps && has_step_s steps then
        let L := c_size cfg in
        let p1 := run qroot cfg steps (mkPar (unpack L units dims terms k0) s0 b0) in
        forallb (fun xss =>
          if c_clip cfg || forallb (forallb (in_range L)) xss then
            forallb (fun y =>
              match c_min cfg with Some lo => Qle_bool (lo - slack) y | None => true end &&
              match c_max cfg with Some hi => Qle_bool y (hi + slack) | None => true end)
              (layer_out cfg p1 xss)
          else true) pts
      else true
  | CTol _ c' => check_bounds c'
  | _ => true
  end.
