From TFL Require Export Harness.Compare Model.Keypoints.
Open Scope Q_scope.
(* Correspondence cases for C18.  Every case carries the model inputs and the
   implementation's observed output (None = the call raised).

   Ties: NumPy rounds the float value of (n-1)*q, resp. of the interpolated
   weighted index.  Where the EXACT rational index is a tie x.5 (or within 1e-9
   of one) the float may land on either side, so the check accepts the
   implementation's result if SOME choice of neighbours at the tie positions
   reproduces it (all other positions round half to even, as np.rint does). *)
Inductive case :=
| Direct (vs : list Q) (k : nat) (mode : kmode) (cmin cmax dv : option Q) (ws : option (list Q))
         (red : reduction) (out : option (list Q)) (pwl_accepts : bool)
| Feature (fcs : list feature_config) (features : list (nat * list Q)) (ws : option (list Q))
          (red : reduction) (out : option (list (nat * list Q)))
| SetFeature (add_missing : bool) (fcs : list feature_config) (fk : list (nat * list Q))
             (out : list (nat * option (list Q)))
| Label (lc : label_config) (labels : labels_in) (logits : bool) (ws : option (list Q))
        (red : reduction) (out : option (list Q)).

Definition tol : Q := 1 # 1000000000.
Definition near_tie (x : Q) : bool := qle (qabs (x - inject_Z (Qfloor x) - (1#2))) tol.
Definition rnd_ch (ups : list nat) : nat -> Q -> Z :=
  fun j x => if near_tie x then (if mem_nat j ups then Qfloor x + 1 else Qfloor x)%Z
             else round_half_even x.
Fixpoint subsets (l : list nat) : list (list nat) :=
  match l with [] => [[]] | x :: r => let s := subsets r in s ++ map (cons x) s end.
Definition tie_positions (raws : list Q) : list nat :=
  filter (fun j => near_tie (nth j raws 0)) (seq 0 (length raws)).
Definition choices (raws : list Q) : list (list nat) :=
  let t := tie_positions raws in if (length t <=? 10)%nat then subsets t else [[]; t].
Definition out_close (a b : option (list Q)) : bool := opt_close (qlist_close tol) a b.

Definition check_ck (vs : list Q) (k : nat) (mode : kmode) (cmin cmax dv : option Q)
           (ws : option (list Q)) (red : reduction) (out : option (list Q)) : bool :=
  let gs := sort_unique (prep vs ws cmin cmax dv) in
  let w := is_some ws in
  existsb (fun ups => out_close (finish (rnd_ch ups) false gs k mode w red) out
                      || out_close (finish (rnd_ch ups) true gs k mode w red) out)
          (choices (raw_indices gs k mode w red)).

Definition ck_raws (vs : list Q) (k : nat) (mode : kmode) (cmin cmax dv : option Q)
           (ws : option (list Q)) (red : reduction) : list Q :=
  raw_indices (sort_unique (prep vs ws cmin cmax dv)) k mode (is_some ws) red.

Fixpoint lookup {A} (name : nat) (l : list (nat * A)) : option A :=
  match l with [] => None | (n, a) :: r => if (n =? name)%nat then Some a else lookup name r end.

(* result of the model for one feature vs the implementation's dict entry *)
Definition fk_close (r : fk_result) (entry : option (list Q)) : bool :=
  match r, entry with
  | FSkip, None => true
  | FKeypoints kps, Some e => qlist_close tol kps e
  | _, _ => false
  end.
Definition fc_choices (fc : feature_config) (vs : list Q) (ws : option (list Q)) (red : reduction) :=
  match fc_spec fc with
  | KMode m => choices (ck_raws vs (fc_num_keypoints fc) m (fc_clip_min fc) (fc_clip_max fc) (fc_default fc) ws red)
  | KGiven _ => [[]]
  end.
Definition check_feature_one (fcs : list feature_config) (ws : option (list Q)) (red : reduction)
           (entries : list (nat * list Q)) (f : nat * list Q) : bool :=
  let fc := fc_by_name fcs (fst f) in
  existsb (fun ups => fk_close (feature_keypoints_one (rnd_ch ups) false fc (snd f) ws red) (lookup (fst f) entries)
                      || fk_close (feature_keypoints_one (rnd_ch ups) true fc (snd f) ws red) (lookup (fst f) entries))
          (fc_choices fc (snd f) ws red).
Definition is_error (r : fk_result) : bool := match r with FError => true | _ => false end.
Definition is_skip (r : fk_result) : bool := match r with FSkip => true | _ => false end.

Definition spec_given (fc : feature_config) : nat * option (list Q) :=
  (fc_name fc, match fc_spec fc with KGiven k => Some k | KMode _ => None end).
Fixpoint given_close (a b : list (nat * option (list Q))) : bool :=
  match a, b with
  | [], [] => true
  | (n, x) :: a', (m, y) :: b' => (n =? m)%nat && opt_close (qlist_close tol) x y && given_close a' b'
  | _, _ => false
  end.
Definition label_close (r : fk_result) (out : option (list Q)) : bool :=
  match r, out with
  | FKeypoints kps, Some o => qlist_close tol kps o
  | FError, None => true
  | _, _ => false
  end.

(* Negative example weights: np.interp's xp is then not monotone and NumPy's search
   (guess + bisection) is not the model's scan, so the interpolated indices are not
   compared.  C18_valid_for_any_interp_indices says what every in-range index vector
   leads to: exactly k strictly increasing members of the model's distinct values, from
   the smallest to the largest; that is checked on the implementation's result.  Used only
   where the model does not raise (reduced weight sum <> 0) and indices are computed. *)
(* 'quantiles' results are data values: the same comparison with exact equality (the relative
   tolerance of [out_close] cannot tell neighbouring values apart at magnitudes like 1e16) *)
Fixpoint qlist_eq (a b : list Q) : bool :=
  match a, b with
  | [], [] => true
  | x :: a', y :: b' => Qeq_bool x y && qlist_eq a' b'
  | _, _ => false
  end.
Definition check_ck_eq (gs : list grp) (k : nat) (w : bool) (red : reduction) (out : option (list Q)) : bool :=
  existsb (fun ups => opt_close qlist_eq (finish (rnd_ch ups) false gs k Quantiles w red) out
                      || opt_close qlist_eq (finish (rnd_ch ups) true gs k Quantiles w red) out)
          (choices (raw_indices gs k Quantiles w red)).
Definition has_neg (ws : option (list Q)) : bool :=
  match ws with Some w => existsb (fun x => qlt x 0) w | None => false end.
Definition check_sel (sv : list Q) (k : nat) (o : list Q) : bool :=
  (length o =? k)%nat && strictly_inc_b o
  && forallb (fun x => existsb (fun y => qclose tol y x) sv) o
  && qclose tol (hd 0 sv) (hd 0 o) && qclose tol (last sv 0) (last o 0).
Definition neg_applies (gs : list grp) (k : nat) (mode : kmode) (ws : option (list Q)) (red : reduction) : bool :=
  has_neg ws && (2 <=? k)%nat && (k <=? length gs)%nat
  && match mode with Quantiles => true | _ => false end
  && match red with ROther => false | _ => negb (Qeq_bool (qsum (map (reduce red) gs)) 0) end.
Definition check_direct (vs : list Q) (k : nat) (mode : kmode) (cmin cmax dv : option Q)
           (ws : option (list Q)) (red : reduction) (out : option (list Q)) : bool :=
  let gs := sort_unique (prep vs ws cmin cmax dv) in
  if neg_applies gs k mode ws red
  then match out with Some o => check_sel (map gv gs) k o | None => false end
  else check_ck vs k mode cmin cmax dv ws red out
       && match mode with
          | Quantiles => check_ck_eq gs k (is_some ws) red out   (* data values: exact, at every magnitude *)
          | _ => true
          end.

Definition check (c : case) : bool :=
  match c with
  | Direct vs k mode cmin cmax dv ws red out pwl =>
    check_direct vs k mode cmin cmax dv ws red out
    && match out with Some o => Bool.eqb (pwl_keypoints_ok o) pwl | None => true end
  | Feature fcs features ws red out =>
    let model := compute_feature_keypoints rnd_he false fcs features ws red in
    match out with
    | None => existsb (fun r => is_error (snd r)) model
    | Some entries =>
      negb (existsb (fun r => is_error (snd r)) model)
      && (length entries =? length (filter (fun r => negb (is_skip (snd r))) model))%nat
      && forallb (check_feature_one fcs ws red entries) features
    end
  | SetFeature add fcs fk out =>
    given_close (map spec_given (set_feature_keypoints add fcs fk)) out
  | Label lc labels logits ws red out =>
    existsb (fun ups => label_close (compute_label_keypoints (rnd_ch ups) false lc labels logits ws red) out
                      || label_close (compute_label_keypoints (rnd_ch ups) true lc labels logits ws red) out)
            (match lc_spec lc with
             | KMode m => choices (ck_raws (label_values labels) (lc_num_keypoints lc) m (lc_output_min lc) (lc_output_max lc) None (label_weights labels ws) red)
             | KGiven _ => [[]]
             end)
  end.

(* statistics only: the code's own numerics (np.rint = half to even, NumPy's
   search) with no tie relaxation; cases failing this but passing [check] are
   those where float evaluation resolved an exact tie the other way *)
Definition check_exact (c : case) : bool :=
  match c with
  | Direct vs k mode cmin cmax dv ws red out _ =>
    out_close (compute_keypoints rnd_he false vs k mode cmin cmax dv ws red) out
  | _ => true
  end.
Definition no_tie (c : case) : bool :=
  match c with
  | Direct vs k mode cmin cmax dv ws red out _ =>
    match tie_positions (ck_raws vs k mode cmin cmax dv ws red) with [] => true | _ => false end
  | _ => true
  end.
