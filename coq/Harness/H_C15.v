From TFL Require Export Harness.Compare Model.CondPWL Model.CDF.
Open Scope Q_scope.

Definition qten_close (tol : Q) (a b : list (list (list Q))) : bool :=
  (fix go (a b : list (list (list Q))) : bool :=
     match a, b with
     | [], [] => true
     | x :: a', y :: b' => qmat_close tol x y && go a' b'
     | _, _ => false
     end) a b.

(* out = None: the implementation raised an exception.
   CPwl: smt/sgt = softmax / sigmoid tables captured from TensorFlow; tol = bound
   on the float rounding effect for this case, dtol = tolerance for the derived
   parameters; deltas / kos = derived parameters as returned ([] if none). *)
Inductive case :=
| CPwl (c : pcfg) (inputs : list (list Q)) (kip : option ptens) (kop : ptens)
       (smt : list (list Q * list Q)) (sgt : list (Q * Q)) (tol dtol : Q)
       (out : option (list (list Q))) (deltas kos : list (list (list Q)))
| CCdfFn (a : act) (r : red) (units sf : nat) (expm : option Q)
       (xs : list (list Q)) (loc : list (list (list (list Q)))) (scal : option (list (list (list (list Q)))))
       (sgt ext lgt : list (Q * Q)) (tol : Q) (out : option (list (list (list Q))))
| CCdfLayer (a : act) (r : red) (units sf : nat)
       (kernel : list (list (list Q))) (scaling : list Q) (xs : list (list Q))
       (sgt ext lgt : list (Q * Q)) (tol : Q) (out : option (list (list (list Q)))).

Fixpoint all_some {A} (l : list (option A)) : option (list A) :=
  match l with
  | [] => Some []
  | None :: _ => None
  | Some x :: r => match all_some r with Some r' => Some (x :: r') | None => None end
  end.

Definition check (cs : case) : bool :=
  match cs with
  | CPwl c inputs kip kop smt sgt tol dtol out deltas kos =>
      let sm := tbl_softmax smt in let sg := tbl_sigmoid sgt in
      opt_close (qmat_close tol) (pwl_fn sm sg c inputs kip kop) out
      && match out with
         | None => true
         | Some _ =>
             let d := pwl_derived sm sg c kip kop in
             qten_close dtol (fst d) deltas && qten_close dtol (snd d) kos
         end
  | CCdfFn a r units sf expm xs loc scal sgt ext lgt tol out =>
      let sg := tbl_near sgt in let ex := tbl_near ext in let lg := tbl_near lgt in
      opt_close (qten_close tol)
        (all_some (map (fun b => cdf_fn sg ex lg a r units sf expm (nth b xs [])
                                   (bsel [] b loc) (match scal with None => None | Some s => Some (bsel [] b s) end))
                       (seq 0 (length xs))))
        out
  | CCdfLayer a r units sf kernel scaling xs sgt ext lgt tol out =>
      let sg := tbl_near sgt in let ex := tbl_near ext in let lg := tbl_near lgt in
      opt_close (qten_close tol)
        (all_some (map (fun x => cdf_layer sg ex lg a r units sf kernel scaling x) xs))
        out
  end.
