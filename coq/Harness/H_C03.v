From TFL Require Export Harness.Compare Model.PremadeKFL.
Open Scope Q_scope.
(* One premade model (tfl.premade.CalibratedLattice with all_vertices or
   kronecker_factored parameterization, or tfl.premade.CalibratedLinear) in ONE
   weight state: every weight extracted from the Keras layers, the feature
   configuration, a list of input points and the outputs model(x) of the real
   Keras model (float32). *)
(* the KroneckerFactoredLattice layer of a kronecker_factored model: its
   hyperparameters as the LAYER holds them (lattice_sizes, monotonicities,
   output_min/max; units = 1, clip_inputs = False), dims, num_terms, and the three
   variables: kernel in the implementation layout k[i][j][t] (shape
   (L, units*dims, terms), leading 1 dropped; converted by MK.unpack), scale, bias *)
Record kflw := mkKflW {
  kw_L : nat; kw_monos : option (list bool); kw_min : option Q; kw_max : option Q;
  kw_dims : nat; kw_terms : nat;
  kw_k : list (list (list Q)); kw_s : list (list Q); kw_b : list Q }.
Definition kfl_cfg (w : kflw) : MK.config := MK.mkCfg (kw_L w) (kw_monos w) (kw_min w) (kw_max w) false.
Definition kfl_par (w : kflw) : MK.params :=
  MK.mkPar (MK.unpack (kw_L w) 1 (kw_dims w) (kw_terms w) (kw_k w)) (kw_s w) (kw_b w).

Record case := mk {
  c_linear : bool;
  c_sc : scheme; c_sizes : list nat; c_K : list (list Q);   (* lattice part (unused when c_linear) *)
  c_k : list Q; c_b : Q;                                     (* linear part (unused otherwise) *)
  c_cals : list calib; c_oc : out_calib;
  c_feat : list fmono;                                       (* canonical feature monotonicities *)
  c_lo : option Q; c_hi : option Q;                          (* model output_min / output_max *)
  c_pts : list (list Q); c_outs : list Q;
  c_kfl : option kflw }.                                     (* Some: the lattice part is a KFL layer *)

(* float32 model *)
Definition tol : Q := 1 # 100000.
Definition model_eval (c : case) (x : list Q) : Q :=
  match c_kfl c with Some w => cal_kfl_eval (kfl_cfg w) (kfl_par w) (c_cals c) (c_oc c) x | None =>
  if c_linear c then cal_linear_eval (c_k c) (c_b c) (c_cals c) (c_oc c) x
  else cal_lattice_eval (c_sc c) (c_sizes c) (c_K c) (c_cals c) (c_oc c) x end.
Definition check (c : case) : bool := qlist_close tol (map (model_eval c) (c_pts c)) (c_outs c).

(* ---- second check: the hypotheses of the composition theorems (Props/C03.v:
   cals_in_range / calib_range, outs_nondecr / outs_nonincr, categorical pairs,
   knondecr, non-negative weights, out_monotone, out_range, kernel bounds),
   decided on the extracted structure, up to float32 rounding [tol]. ---- *)
Definition le_t (a b : Q) : bool := Qle_bool a (b + tol).
Definition in_opt_range (lo hi : option Q) (v : Q) : bool :=
  match lo with Some l => le_t l v | None => true end && match hi with Some h => le_t v h | None => true end.
Fixpoint adjacent (r : Q -> Q -> bool) (l : list Q) : bool :=
  match l with a :: ((b :: _) as t) => r a b && adjacent r t | _ => true end.
Definition outs_of (col : list Q) : list Q := cumsum_incl 0 col.

Definition calib_ok (lo hi : option Q) (f : fmono) (c : calib) : bool :=
  match c with
  | CPwl kps lens col miss =>
      forallb (fun l => negb (Qle_bool l 0)) lens && (length lens =? length kps)%nat &&
      (length col =? S (length kps))%nat &&
      forallb (in_opt_range lo hi) (outs_of col) &&
      match miss with Some (_, mo) => in_opt_range lo hi mo | None => true end &&
      match f with
      | MNum m => if (m =? 1)%Z then adjacent le_t (outs_of col)
                  else if (m =? -1)%Z then adjacent (fun a b => le_t b a) (outs_of col) else true
      | MPairs _ => false
      end
  | CCat vals d =>
      forallb (in_opt_range lo hi) vals &&
      match f with
      | MPairs ps => forallb (fun p => (fst p <? length vals)%nat && (snd p <? length vals)%nat &&
                                       le_t (nth (fst p) vals 0) (nth (snd p) vals 0)) ps
      | MNum m => (m =? 0)%Z
      end
  end.

Fixpoint zip3_all {A B C} (f : A -> B -> C -> bool) (a : list A) (b : list B) (c : list C) : bool :=
  match a, b, c with
  | [], [], [] => true
  | x :: a', y :: b', z :: c' => f x y z && zip3_all f a' b' c'
  | _, _, _ => false
  end.

Definition kern_of (c : case) : tens := of_list (c_sizes c) (column 0 (c_K c)).
Definition nondecr_along (sizes : list nat) (K : tens) (d : nat) : bool :=
  forallb (fun i => if (S (nth d i 0%nat) <? nth d sizes 0%nat)%nat then le_t (K i) (K (upd i d (S (nth d i 0%nat)))) else true)
          (all_idx sizes).

Definition oc_ok (lo hi : option Q) (oc : out_calib) : bool :=
  match oc with
  | None => true
  | Some (kps, lens, col) =>
      forallb (fun l => negb (Qle_bool l 0)) lens && (length lens =? length kps)%nat && (length col =? S (length kps))%nat &&
      adjacent le_t (outs_of col) && forallb (in_opt_range lo hi) (outs_of col)
  end.
Definition has_oc (c : case) : bool := match c_oc c with Some _ => true | None => false end.

(* ---- KFL: kfl_feasible (Proofs/PremadeKFL.v) decided on the extracted layer,
   up to [tol]: per (unit, term) the shape, PK.sgood of the scale, PK.kgood of the
   weights relative to the sign of the scale (a scale within tol of 0 makes the
   term irrelevant); the fixed bias of a bounded layer; the layer's
   monotonicity flags = the features' lattice-dimension flags. ---- *)
Definition qabs_le (a b : Q) : bool := le_t a b && le_t (- b) a.
Definition vmaxabs (v : list Q) : Q := fold_right (fun w m => qmax (qabs w) m) 0 v.
Definition term_ok (w : kflw) (s : Q) (vs : list (list Q)) : bool :=
  let bounded2 := match kw_min w, kw_max w with Some _, Some _ => true | _, _ => false end in
  let bounded1 := match kw_min w, kw_max w with Some _, None => true | None, Some _ => true | _, _ => false end in
  let monos := match MK.canon_monos (kw_monos w) with Some ms => ms | None => [] end in
  let any_mono := existsb (fun b => b) monos in
  (length vs =? kw_dims w)%nat && forallb (fun v => (length v =? kw_L w)%nat) vs &&
  match kw_min w, kw_max w with
  | Some lo, Some hi => qabs_le s ((hi - lo) * (1#2))
  | Some _, None => le_t 0 s
  | None, Some _ => le_t s 0
  | None, None => true
  end &&
  (if any_mono then
     qabs_le s 0 ||
     (forallb (forallb (le_t 0)) vs &&
      forallb (fun mv => if fst mv : bool then adjacent (if Qle_bool 0 s then le_t else fun a b => le_t b a) (snd mv) else true)
              (combine monos vs))
   else true) &&
  (if bounded2 then le_t (fold_right (fun v m => vmaxabs v * m) 1 vs) 1 else true) &&
  (if bounded1 then forallb (forallb (le_t 0)) vs else true).
Definition kfl_ok (c : case) (w : kflw) : bool :=
  let '(lo, hi) := if has_oc c then (Some 0, Some 1) else (c_lo c, c_hi c) in
  let k := MK.p_kern (kfl_par w) in
  (* build_lattice_layer hands the layer the model's bounds ([0, 1] under an output calibrator) *)
  match kw_min w, lo with Some a, Some b => Qeq_bool a b | None, None => true | _, _ => false end &&
  match kw_max w, hi with Some a, Some b => Qeq_bool a b | None, None => true | _, _ => false end &&
  (length (c_cals c) =? kw_dims w)%nat && (length (c_feat c) =? kw_dims w)%nat && (2 <=? kw_L w)%nat && (1 <=? kw_dims w)%nat &&
  zip3_all (fun f cal (_ : nat) => calib_ok (Some 0) (Some (qn (kw_L w) - 1)) f cal) (c_feat c) (c_cals c) (seq 0 (kw_dims w)) &&
  match kw_monos w with
  | Some ms => (length ms =? kw_dims w)%nat &&
               forallb (fun fm => Bool.eqb (snd fm) (lattice_dim_mono (fst fm) =? 1)%Z) (combine (c_feat c) ms)
  | None => false
  end &&
  (length (kw_s w) =? 1)%nat && (length k =? 1)%nat && (length (kw_b w) =? 1)%nat &&
  forallb (fun su_ku => (length (fst su_ku) =? length (snd su_ku))%nat &&
                        forallb (fun s_vs => term_ok w (fst s_vs) (snd s_vs)) (combine (fst su_ku) (snd su_ku)))
          (combine (kw_s w) k) &&
  (if MK.has_bounds (kfl_cfg w)
   then forallb (fun b => qabs_le (b - MK.bias_init1 (kw_min w) (kw_max w)) 0) (kw_b w) else true).

Definition check_wiring (c : case) : bool :=
  oc_ok (c_lo c) (c_hi c) (c_oc c) &&
  match c_kfl c with Some w => kfl_ok c w | None =>
  if c_linear c then
    (* build_linear_layer: weighted average iff bounded or output-calibrated *)
    let wavg := has_oc c || match c_lo c, c_hi c with None, None => false | _, _ => true end in
    let '(lo, hi) := if has_oc c then (Some 0, Some 1) else (c_lo c, c_hi c) in
    (length (c_k c) =? length (c_cals c))%nat &&
    zip3_all (fun f cal w => calib_ok lo hi f cal &&
                             (if wavg || (lattice_dim_mono f =? 1)%Z then le_t 0 w else true))
             (c_feat c) (c_cals c) (c_k c) &&
    (* weights sum to one; the all-zero vector is the escape of known finding D32
       (reported by the predicate on the implementation when 0 is out of bounds) *)
    (if wavg then (le_t (qsum (c_k c)) 1 && le_t 1 (qsum (c_k c))) || (le_t (qsum (c_k c)) 0 && Qeq_bool (c_b c) 0) else true)
  else
    let '(lo, hi) := if has_oc c then (Some 0, Some 1) else (c_lo c, c_hi c) in
    (length (c_K c) =? prodn (c_sizes c))%nat && forallb (fun s => (2 <=? s)%nat) (c_sizes c) &&
    zip3_all (fun f cal s => calib_ok (Some 0) (Some (qn s - 1)) f cal) (c_feat c) (c_cals c) (c_sizes c) &&
    forallb (in_opt_range lo hi) (column 0 (c_K c)) &&
    forallb (fun d => if (lattice_dim_mono (nth d (c_feat c) (MNum 0)) =? 1)%Z then nondecr_along (c_sizes c) (kern_of c) d else true)
            (seq 0 (length (c_sizes c))) end.
