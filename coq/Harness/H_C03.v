From TFL Require Export Harness.Compare Model.PremadeKFL Model.PremadeCheck.
(* tie of the initial-value theorems (Props/C03.v section G): separate case type and check, run by
   harness/props/c03_init.py; required here so that the build of this module also builds it *)
From TFL Require Harness.H_C03Init.
(* tie of the end-to-end theorems (Props/C03.v section H): model descriptions built from the config, run by
   harness/props/c03_init.py; required here for the same reason *)
From TFL Require Harness.H_C03E2E.
Open Scope Q_scope.
(* One premade model (tfl.premade.CalibratedLattice with all_vertices or
   kronecker_factored parameterization, or tfl.premade.CalibratedLinear) in ONE
   weight state: every weight extracted from the Keras layers, the feature
   configuration, a list of input points and the outputs model(x) of the real
   Keras model (float32). *)
(* the KroneckerFactoredLattice layer of a kronecker_factored model: its
   hyperparameters as the LAYER holds them (lattice_sizes, monotonicities,
   output_min/max; units = 1, clip_inputs = False), dims, num_terms, and the three
   variables: kernel in the implementation layout k[i][j][t] (shape
   (L, units*dims, terms), leading 1 dropped; converted by MK.unpack), scale, bias *)
Record kflw := mkKflW {
  kw_L : nat; kw_monos : option (list bool); kw_min : option Q; kw_max : option Q;
  kw_dims : nat; kw_terms : nat;
  kw_k : list (list (list Q)); kw_s : list (list Q); kw_b : list Q }.
Definition kfl_cfg (w : kflw) : MK.config := MK.mkCfg (kw_L w) (kw_monos w) (kw_min w) (kw_max w) false.
Definition kfl_par (w : kflw) : MK.params :=
  MK.mkPar (MK.unpack (kw_L w) 1 (kw_dims w) (kw_terms w) (kw_k w)) (kw_s w) (kw_b w).

Record case1 := mk {
  c_linear : bool;
  c_sc : scheme; c_sizes : list nat; c_K : list (list Q);   (* lattice part (unused when c_linear) *)
  c_k : list Q; c_b : Q;                                     (* linear part (unused otherwise) *)
  c_cals : list calib; c_oc : out_calib;
  c_feat : list fmono;                                       (* canonical feature monotonicities *)
  c_lo : option Q; c_hi : option Q;                          (* model output_min / output_max *)
  c_pts : list (list Q); c_outs : list Q;
  c_kfl : option kflw }.                                     (* Some: the lattice part is a KFL layer *)

(* One tfl.premade.CalibratedLatticeEnsemble in ONE weight state: the members as
   the Keras graph wires them (for every lattice dimension the index of the model
   feature it reads and the calibrator unit in between; the lattice kernel column
   or the KFL layer's kernel / scale / bias and the unit), the combiner (Average
   / RTL average_outputs, or kernel and bias of tfl_output_linear_combination),
   the optional output calibrator, the features' configured monotonicities, the
   model's bounds, and points / outputs of the real model. *)
Record ecase := mkE { e_ens : ens; e_pts : list (list Q); e_outs : list Q }.

Inductive case := Single (c : case1) | Ens (e : ecase).

(* float32 model *)
Definition tol : Q := 1 # 100000.
Definition model_eval (c : case1) (x : list Q) : Q :=
  match c_kfl c with Some w => cal_kfl_eval (kfl_cfg w) (kfl_par w) (c_cals c) (c_oc c) x | None =>
  if c_linear c then cal_linear_eval (c_k c) (c_b c) (c_cals c) (c_oc c) x
  else cal_lattice_eval (c_sc c) (c_sizes c) (c_K c) (c_cals c) (c_oc c) x end.
Definition ens_eval (e : ens) (x : list Q) : Q := ensemble2_eval (en_ms e) (en_comb e) (en_oc e) x.
Definition check (c : case) : bool :=
  match c with
  | Single c => qlist_close tol (map (model_eval c) (c_pts c)) (c_outs c)
  | Ens e => qlist_close tol (map (ens_eval (e_ens e)) (e_pts e)) (e_outs e)
  end.

(* ---- second check: the hypotheses of the composition theorems (Props/C03.v:
   cals_in_range / calib_range, outs_nondecr / outs_nonincr, categorical pairs,
   knondecr, non-negative weights, out_monotone, out_range, kernel bounds;
   ensembles: member2_ok, member2_monotone_in, comb_monotone, comb_average_like,
   member2_in_bounds), decided on the extracted structure by the procedures of
   Model/PremadeCheck.v up to float32 rounding [tol]
   (C03_wiring_check_sound: they imply the hypotheses when the tolerance is 0). ---- *)
Definition le_t := le_t tol.
Definition in_opt_range := in_opt_range tol.
Definition calib_ok := calib_ok tol.
Definition oc_ok := oc_ok tol.
Definition nondecr_along := nondecr_along tol.
Definition qabs_le := qabs_le tol.
Definition kern_of (c : case1) : tens := of_list (c_sizes c) (column 0 (c_K c)).
Definition has_oc (c : case1) : bool := match c_oc c with Some _ => true | None => false end.

(* ---- KFL: kfl_feasible (Proofs/PremadeKFL.v) decided on the extracted layer,
   up to [tol] (Model/PremadeCheck.v term_ok); the layer's monotonicity flags =
   the features' lattice-dimension flags. ---- *)
Definition term_ok (w : kflw) (s : Q) (vs : list (list Q)) : bool := term_ok tol (kfl_cfg w) (kw_dims w) s vs.
Definition kfl_ok (c : case1) (w : kflw) : bool :=
  let '(lo, hi) := if has_oc c then (Some 0, Some 1) else (c_lo c, c_hi c) in
  let k := MK.p_kern (kfl_par w) in
  (* build_lattice_layer hands the layer the model's bounds ([0, 1] under an output calibrator) *)
  match kw_min w, lo with Some a, Some b => Qeq_bool a b | None, None => true | _, _ => false end &&
  match kw_max w, hi with Some a, Some b => Qeq_bool a b | None, None => true | _, _ => false end &&
  (length (c_cals c) =? kw_dims w)%nat && (length (c_feat c) =? kw_dims w)%nat && (2 <=? kw_L w)%nat && (1 <=? kw_dims w)%nat &&
  zip3_all (fun f cal (_ : nat) => calib_ok (Some 0) (Some (qn (kw_L w) - 1)) f cal) (c_feat c) (c_cals c) (seq 0 (kw_dims w)) &&
  match kw_monos w with
  | Some ms => (length ms =? kw_dims w)%nat &&
               forallb (fun fm => Bool.eqb (snd fm) (lattice_dim_mono (fst fm) =? 1)%Z) (combine (c_feat c) ms)
  | None => false
  end &&
  (length (kw_s w) =? 1)%nat && (length k =? 1)%nat && (length (kw_b w) =? 1)%nat &&
  forallb (fun su_ku => (length (fst su_ku) =? length (snd su_ku))%nat &&
                        forallb (fun s_vs => term_ok w (fst s_vs) (snd s_vs)) (combine (fst su_ku) (snd su_ku)))
          (combine (kw_s w) k) &&
  (if MK.has_bounds (kfl_cfg w)
   then forallb (fun b => qabs_le (b - MK.bias_init1 (kw_min w) (kw_max w)) 0) (kw_b w) else true).

Definition check_wiring1 (c : case1) : bool :=
  oc_ok (c_lo c) (c_hi c) (c_oc c) &&
  match c_kfl c with Some w => kfl_ok c w | None =>
  if c_linear c then
    (* build_linear_layer: weighted average iff bounded or output-calibrated *)
    let wavg := has_oc c || match c_lo c, c_hi c with None, None => false | _, _ => true end in
    let '(lo, hi) := if has_oc c then (Some 0, Some 1) else (c_lo c, c_hi c) in
    (length (c_k c) =? length (c_cals c))%nat &&
    zip3_all (fun f cal w => calib_ok lo hi f cal &&
                             (if wavg || (lattice_dim_mono f =? 1)%Z then le_t 0 w else true))
             (c_feat c) (c_cals c) (c_k c) &&
    (* weights sum to one; the all-zero vector is the escape of known finding D32
       (reported by the predicate on the implementation when 0 is out of bounds) *)
    (if wavg then (le_t (qsum (c_k c)) 1 && le_t 1 (qsum (c_k c))) || (le_t (qsum (c_k c)) 0 && Qeq_bool (c_b c) 0) else true)
  else
    let '(lo, hi) := if has_oc c then (Some 0, Some 1) else (c_lo c, c_hi c) in
    (length (c_K c) =? prodn (c_sizes c))%nat && forallb (fun s => (2 <=? s)%nat) (c_sizes c) &&
    zip3_all (fun f cal s => calib_ok (Some 0) (Some (qn s - 1)) f cal) (c_feat c) (c_cals c) (c_sizes c) &&
    forallb (in_opt_range lo hi) (column 0 (c_K c)) &&
    forallb (fun d => if (lattice_dim_mono (nth d (c_feat c) (MNum 0)) =? 1)%Z then nondecr_along (c_sizes c) (kern_of c) d else true)
            (seq 0 (length (c_sizes c))) end.

(* ensembles: ens_ok of Model/PremadeCheck.v at the float32 tolerance, the
   all-zero weight vector of known finding D32 accepted *)
Definition check_wiring (c : case) : bool :=
  match c with Single c => check_wiring1 c | Ens e => ens_ok tol true (e_ens e) end.
