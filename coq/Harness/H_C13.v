From TFL Require Export Harness.Compare Model.Regularizers.
Open Scope Q_scope.
(* One regularizer call: which regularizer (0 lattice Laplacian, 1 lattice
   torsion, 2/3/4 PWL Laplacian / Hessian / wrinkle), lattice sizes (lattice
   only), units, the amounts as given to the constructor (PWL: Scalar only),
   is_cyclic (PWL only), the kernel as a (rows, units) matrix, the value
   returned by the implementation and the relative tolerance of the comparison
   (tol = 1e-9 for float64 runs, tol32 = 1e-5 for float32 runs). *)
Record case := mk { c_kind : nat; c_sizes : list nat; c_units : nat; c_l1 : amount; c_l2 : amount;
                    c_cyclic : bool; c_kernel : list (list Q); c_out : Q; c_tol : Q }.
Definition tol : Q := 1 # 1000000000.
Definition tol32 : Q := 1 # 100000.
Definition scalar_of (a : amount) : Q := match a with Scalar q => q | PerDim _ => 0 end.

(* code-shaped model *)
Definition model (c : case) : Q :=
  let l1 := scalar_of (c_l1 c) in
  let l2 := scalar_of (c_l2 c) in
  match c_kind c with
  | 0%nat => lattice_laplacian (c_sizes c) (c_units c) (c_l1 c) (c_l2 c) (concat (c_kernel c))
  | 1%nat => lattice_torsion (c_sizes c) (c_units c) (c_l1 c) (c_l2 c) (concat (c_kernel c))
  | 2%nat => pwl_laplacian l1 l2 (c_cyclic c) (c_units c) (c_kernel c)
  | 3%nat => pwl_hessian l1 l2 (c_cyclic c) (c_units c) (c_kernel c)
  | _ => pwl_wrinkle l1 l2 (c_cyclic c) (c_units c) (c_kernel c)
  end.
(* documented formula (for wrinkle below three rows the implementation is
   documented to return 0) *)
Definition documented (c : case) : Q :=
  let l1 := scalar_of (c_l1 c) in
  let l2 := scalar_of (c_l2 c) in
  match c_kind c with
  | 0%nat => doc_laplacian (c_sizes c) (c_units c) (c_l1 c) (c_l2 c) (concat (c_kernel c))
  | 1%nat => doc_torsion (c_sizes c) (c_units c) (c_l1 c) (c_l2 c) (concat (c_kernel c))
  | 2%nat => doc_pwl_laplacian l1 l2 (c_cyclic c) (c_units c) (c_kernel c)
  | 3%nat => doc_pwl_hessian l1 l2 (c_cyclic c) (c_units c) (c_kernel c)
  | _ => if (length (c_kernel c) <? 3)%nat then 0 else doc_pwl_wrinkle l1 l2 (c_cyclic c) (c_units c) (c_kernel c)
  end.
Definition check (c : case) : bool :=
  qclose (c_tol c) (model c) (c_out c) && qclose (c_tol c) (documented c) (c_out c).
