From TFL Require Export Harness.Compare Model.LinearEval.
Open Scope Q_scope.
(* One Linear layer (units, kernel K[i][u], bias per unit, per-dimension
   optional bounds), a batch of input points (each point: one row per unit) and
   the implementation's outputs for them. *)
Record case := mk { c_units : nat; c_K : list (list Q); c_bias : list Q; c_bs : list bound;
                    c_pts : list (list (list Q)); c_outs : list (list Q) }.
Definition tol : Q := 1 # 1000000000.
Definition check (c : case) : bool :=
  qmat_close tol (map (linear_eval (c_units c) (c_K c) (c_bias c) (c_bs c)) (c_pts c)) (c_outs c).
