From TFL Require Export Harness.Compare Model.LinearEval Model.LinearLayer.
Open Scope Q_scope.
(* mk: one Linear layer (units, kernel K[i][u], bias per unit, per-dimension
   optional bounds), a batch of input points (each point: one row per unit) and
   the implementation's outputs for them.
   mkP: a configured layer (monotonicities, dominances, bounds, normalization)
   whose REAL kernel constraint was applied to the raw kernel W before the
   call: the implementation's constrained kernel and its outputs; the model
   projects W itself (Model/LinearProject.v) and evaluates Linear.call
   (Model/LinearLayer.v) with the projected kernel. *)
Inductive case :=
| mk (units : nat) (K : list (list Q)) (bias : list Q) (bs : list bound)
     (pts : list (list (list Q))) (outs : list (list Q))
| mkP (cfg : lin_cfg) (units : nat) (W : list (list Q)) (bias : option (list Q))
      (pts : list (list (list Q))) (kern : list (list Q)) (outs : list (list Q))
(* CTol t c: case c compared with relative tolerance t instead of the default
   1e-9 (float32 layers: 1e-5). *)
| CTol (t : Q) (c : case).
Definition tol : Q := 1 # 1000000000.

Definition as_input (units : nat) (pt : list (list Q)) : lin_input :=
  if (units =? 1)%nat then In1 (hd [] pt) else InN pt.
Fixpoint calls_close (tol : Q) (units : nat) (K : list (list Q)) (bias : option (list Q)) (bs : list bound)
         (pts : list (list (list Q))) (outs : list (list Q)) : bool :=
  match pts, outs with
  | [], [] => true
  | p :: pts', o :: outs' =>
      opt_close (qlist_close tol) (linear_call units K bias bs (as_input units p)) (Some o)
      && calls_close tol units K bias bs pts' outs'
  | _, _ => false
  end.

Fixpoint check_with (tol : Q) (c : case) : bool :=
  match c with
  | mk units K bias bs pts outs =>
      qmat_close tol (map (linear_eval units K bias bs) pts) outs
      && calls_close tol units K (Some bias) bs pts outs
  | mkP cfg units W bias pts kern outs =>
      match lin_project qsqrt cfg units W with
      | Some R => qmat_close tol R kern && calls_close tol units R bias (layer_bounds cfg (length W)) pts outs
      | None => false
      end
  | CTol t c' => check_with t c'
  end.
Definition check (c : case) : bool := check_with tol c.
