From TFL Require Export Harness.Compare Model.Asserts.
Open Scope Q_scope.
(* One eager  layer.assert_constraints(eps)  call on a real layer with assigned
   weights: the layer's (canonicalised) hyperparameters, the weights, eps and
   the observed outcome  [passed] = the call returned (false = it raised
   tf.errors.InvalidArgumentError). *)
Inductive case :=
| CLat (c : la_cfg) (w : list Q) (eps : Q) (passed : bool)                 (* tfl.layers.Lattice *)
| CRtl (ls : list (la_cfg * list Q)) (eps : Q) (passed : bool)             (* tfl.layers.RTL: its lattice layers *)
| CPwl (c : pwl_layer_acfg) (k : list (list Q)) (eps : Q) (passed : bool)  (* tfl.layers.PWLCalibration *)
| CPwlLib (c : pwl_acfg) (outs : list (list Q)) (eps : Q) (passed : bool)  (* pwl_calibration_lib.assert_constraints *)
| CLin (c : lin_acfg) (k : list (list Q)) (eps : Q) (passed : bool)        (* tfl.layers.Linear *)
| CCat (c : cat_acfg) (k : list (list Q)) (eps : Q) (passed : bool)        (* tfl.layers.CategoricalCalibration *)
| CKfl (c : kfl_acfg) (sc : list (list Q)) (w : list Q) (eps : Q) (passed : bool).  (* tfl.layers.KroneckerFactoredLattice *)

Definition model (c : case) : bool :=
  match c with
  | CLat c w e _ => assert_lattice_flat c w e
  | CRtl ls e _ => assert_rtl ls e
  | CPwl c k e _ => assert_pwl_layer c k e
  | CPwlLib c o e _ => assert_pwl_outputs c o e
  | CLin c k e _ => assert_linear c k e
  | CCat c k e _ => assert_categorical c k e
  | CKfl c s w e _ => assert_kfl_flat c s w e
  end.
Definition observed (c : case) : bool :=
  match c with
  | CLat _ _ _ p | CRtl _ _ p | CPwl _ _ _ p | CPwlLib _ _ _ p | CLin _ _ _ p | CCat _ _ _ p | CKfl _ _ _ _ p => p
  end.
Definition check (c : case) : bool := Bool.eqb (model c) (observed c).
