From TFL Require Export Harness.Compare Model.LatticeDykstra Model.PWLProject.
Open Scope Q_scope.
Inductive case :=
| CDyk (c : dyk_cfg) (w out : list Q)
| CPwl (c : pwl_cfg) (units : nat) (W out : list (list Q)).
Definition tol : Q := 1 # 1000000000.
Definition check (c : case) : bool :=
  match c with
  | CDyk cfg w out => qlist_close tol (dykstra_flat cfg w) out
  | CPwl cfg units W out => qmat_close tol (pwl_project cfg units W) out
  end.
