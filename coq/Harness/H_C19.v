From TFL Require Export Harness.Compare Model.Gradients.
Open Scope Q_scope.
(* One case = model inputs + what the implementation (tf.GradientTape) returned.

   CProd: slices of a tensor along the reduced axis (the harness moves the
     reduced axis last and flattens the rest), the upstream gradient per slice,
     the implementation's forward value per slice and its gradient per slice.
   CProd64: the same on a float64 tensor (compared with tolerance 1e-9).
   CHyper / CSimplex: a Lattice layer (sizes, clip_inputs, input form), one input
     point per unit, and for each of several kernels the tape gradient of
     output u w.r.t. kernel column u (one row per unit).
   CPwl: PWLCalibration with fixed keypoints (left keypoints, lengths), cyclic
     flag, per unit the input and whether it is the missing value; gradients as above.
   CCat: CategoricalCalibration (buckets, default_input_value), per unit the index.
   CKfl: KroneckerFactoredLattice, ONE unit: per-dimension input, scale per term,
     kernel per term K[t][d][k], bias; implementation output, tape gradient
     w.r.t. that unit's kernel (same layout), scales, and inputs (None for an
     input that sits on a kink of its interpolation weights). *)
Inductive case :=
| CProd (rows : list (list Q)) (dys : list Q) (fwd : list Q) (grad : list (list Q))
| CProd64 (rows : list (list Q)) (dys : list Q) (fwd : list Q) (grad : list (list Q))
| CHyper (clip as_list : bool) (sizes : list nat) (xs : list (list Q)) (grads : list (list (list Q)))
| CSimplex (clip : bool) (sizes : list nat) (xs : list (list Q)) (grads : list (list (list Q)))
| CPwl (cyclic : bool) (kps lens : list Q) (xs : list Q) (missing : list Q) (grads : list (list (list Q)))
| CCat (nb : nat) (default : option Z) (idx : list Z) (grads : list (list (list Q)))
| CKfl (clip : bool) (size : nat) (x : list Q) (bias : Q) (scales : list Q) (Ks : list (list (list Q)))
       (out : Q) (gK : list (list (list Q))) (gscale : list Q) (gx : list (option Q)).

Definition tol32 : Q := 1 # 100000.
Definition tol64 : Q := 1 # 1000000000.

Definition all_close (tol : Q) (w : list (list Q)) (grads : list (list (list Q))) : bool :=
  forallb (fun g => qmat_close tol w g) grads.

Fixpoint qcube_close (tol : Q) (a b : list (list (list Q))) : bool :=
  match a, b with
  | [], [] => true
  | x :: a', y :: b' => qmat_close tol x y && qcube_close tol a' b'
  | _, _ => false
  end.

Fixpoint optlist_close (tol : Q) (a : list Q) (b : list (option Q)) : bool :=
  match a, b with
  | [], [] => true
  | x :: a', Some y :: b' => qclose tol x y && optlist_close tol a' b'
  | _ :: a', None :: b' => optlist_close tol a' b'
  | _, _ => false
  end.

Definition check (c : case) : bool :=
  match c with
  | CProd rows dys fwd grad =>
      qlist_close tol32 (map prod rows) fwd &&
      qmat_close tol32 (map2 grad_prod_dy dys rows) grad &&
      Nat.eqb (length dys) (length rows)
  | CProd64 rows dys fwd grad =>
      qlist_close tol64 (map prod rows) fwd &&
      qmat_close tol64 (map2 grad_prod_dy dys rows) grad &&
      Nat.eqb (length dys) (length rows)
  | CHyper clip as_list sizes xs grads =>
      all_close tol64 (map (hyper_weights clip as_list sizes) xs) grads
  | CSimplex clip sizes xs grads =>
      all_close tol64 (map (simplex_weights clip sizes) xs) grads
  | CPwl cyclic kps lens xs missing grads =>
      all_close tol64 (map2 (fun x m => pwl_kernel_weights cyclic m kps lens x) xs missing) grads &&
      Nat.eqb (length xs) (length missing)
  | CCat nb default idx grads =>
      all_close tol64 (map (cat_weights nb default) idx) grads
  | CKfl clip size x bias scales Ks out gK gscale gx =>
      let ws := map (kfl_w1d clip size) x in
      let T := length scales in
      qclose tol32 (kfl_out ws bias scales Ks) out &&
      qcube_close tol32 (map2 (kfl_grad_kernel ws T) scales Ks) gK &&
      qlist_close tol32 (map (kfl_grad_scale ws T) Ks) gscale &&
      optlist_close tol32 (kfl_grad_input ws (map (kfl_dw1d clip size) x) scales Ks) gx
  end.
