(* C03, tie of section G (Props/C03.v): the FRESH weights of real tfl.premade models
   against the initial values the theorems C03_init_feasible_xxx are about
   (Proofs/PremadeInit.v: premade_lattice_init, premade_pwl_init, ediff1d,
   pwl_missing_init, premade_linear_init).  The arguments (sizes, feature
   monotonicities, keypoints, place of the layer, output_initialization) come from
   the MODEL CONFIG, not from the built layers: what is compared is "the builders
   hand these arguments to these initialisers".  Categorical calibrators start from
   a random draw (projected in build); for them the invariant itself is decided. *)
From TFL Require Export Harness.Compare Model.Premade.
From TFL Require Export Model.LatticeInit Model.PWLInit Model.LinearProject Proofs.Premade Proofs.PremadeInit.
Open Scope Q_scope.

Inductive case :=
| ILat (sizes : list nat) (feats : list fmono) (unis : list Z) (units : nat) (r : layer_range) (oi : list Q)
       (K : list (list Q))                    (* Lattice kernel, (prod sizes) x units *)
| IPwl (kps : list Q) (f : fmono) (always_monotonic : bool) (r : layer_range) (oi : list Q)
       (K : list (list Q)) (missing : list Q) (* PWLCalibration kernel, keypoints x units; missing_output per unit (or []) *)
| IOutCal (oi : list Q) (K : list (list Q))   (* output calibrator kernel *)
| ILin (feats : list fmono) (K : list (list Q))  (* Linear kernel, n x 1 *)
| ICat (ps : pairs) (r : layer_range) (K : list (list Q)).   (* CategoricalCalibration kernel, buckets x units *)

(* float32 weights *)
Definition tol : Q := 1 # 100000.
Definition ncols (K : list (list Q)) : nat := length (hd [] K).
Definition le_t (a b : Q) : bool := Qle_bool a (b + tol * qmax 1 (qabs b)).

Definition check (c : case) : bool :=
  match c with
  | ILat sizes feats unis units r oi K =>
      qlist_close tol (to_list (sizes ++ [units]) (premade_lattice_init sizes (map lattice_dim_mono feats) unis units r oi))
                  (concat K)
  | IPwl kps f always r oi K missing =>
      let mono := match f with MNum m => calibrator_mono m always | MPairs _ => 0%Z end in
      forallb (fun u => qlist_close tol (premade_pwl_init kps mono r oi) (column u K)) (seq 0 (ncols K)) &&
      forallb (fun v => qclose tol (pwl_missing_init (fst (output_range r)) (snd (output_range r)) false false) v) missing
  | IOutCal oi K => qlist_close tol (ediff1d oi) (column 0 K) && (ncols K =? 1)%nat
  | ILin feats K => qlist_close tol (premade_linear_init (length feats)) (column 0 K) && (ncols K =? 1)%nat
  | ICat ps r K =>
      forallb (fun u => let w := column u K in
                 forallb (fun p => le_t (nth (fst p) w 0) (nth (snd p) w 0)) ps &&
                 forallb (fun x => match fst (output_range r) with Some lo => le_t lo x | None => true end &&
                                   match snd (output_range r) with Some hi => le_t x hi | None => true end) w)
              (seq 0 (ncols K))
  end.

(* the check accepts the models' own initial values and rejects a shifted kernel *)
Example check_accepts :
  check (ILat [2; 2]%nat [MNum 1; MNum 0] [0; 0]%Z 1 (ModelOutput (Some 0) (Some 1)) [0; 1] [[0]; [0]; [1]; [1]]) = true /\
  check (ILat [2; 2]%nat [MNum 1; MNum 0] [0; 0]%Z 1 (ModelOutput (Some 0) (Some 1)) [0; 1] [[0]; [1]; [0]; [1]]) = false /\
  check (IPwl [0; 1; 3] (MNum (-1)) false (InputToLattice 3) [] [[2]; [-(2#3)]; [-(4#3)]] [1]) = true /\
  check (IPwl [0; 1; 3] (MNum (-1)) false (InputToLattice 3) [] [[0]; [2#3]; [4#3]] [1]) = false /\
  check (IOutCal [-(2); 0; 2] [[-(2)]; [2]; [2]]) = true /\
  check (ILin [MNum 1; MNum 0; MNum 0; MNum 0] [[1#4]; [1#4]; [1#4]; [1#4]]) = true /\
  check (ICat [(0, 1)]%nat (InputToLattice 2) [[1#2]; [1#4]]) = false.
Proof. repeat split; vm_compute; reflexivity. Qed.
