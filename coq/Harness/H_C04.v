From TFL Require Export Harness.Compare Model.PWLProject.
Open Scope Q_scope.
Inductive case :=
| CProj (c : pwl_cfg) (units : nat) (W out : list (list Q))
| CNaive (lo hi : option Q) (w out : list Q).
Definition tol : Q := 1 # 1000000000.
Definition check (c : case) : bool :=
  match c with
  | CProj cfg units W out => qmat_close tol (pwl_project cfg units W) out
  | CNaive lo hi w out => qlist_close tol (map (naive_bounds lo hi) w) out
  end.
