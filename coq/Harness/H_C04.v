From TFL Require Export Harness.Compare Model.PWLProject.
Open Scope Q_scope.
(* CTol t c: case c compared with relative tolerance t instead of the default
   1e-9 (float32 cases: 1e-5). *)
Inductive case :=
| CProj (c : pwl_cfg) (units : nat) (W out : list (list Q))
| CNaive (lo hi : option Q) (w out : list Q)
| CTol (t : Q) (c : case).
Definition tol : Q := 1 # 1000000000.
Fixpoint check_with (t : Q) (c : case) : bool :=
  match c with
  | CProj cfg units W out => qmat_close t (pwl_project cfg units W) out
  | CNaive lo hi w out => qlist_close t (map (naive_bounds lo hi) w) out
  | CTol t' c' => check_with t' c'
  end.
Definition check (c : case) : bool := check_with tol c.
