From TFL Require Export Harness.Compare Model.LatticeInit Model.PWLInit Model.KFLInit Model.LinearProject.
Open Scope Q_scope.

(* C10 correspondence cases: every constructor carries the model inputs and the
   implementation's initial weights. *)
Inductive case :=
(* lattice_lib.default_init_params(output_min, output_max) *)
| CDefault (omin omax : option Q) (impl_min impl_max : Q)
(* LinearInitializer(sizes, monos, omin, omax, unis)((prod sizes, units)) / lattice_lib.linear_initializer *)
| CLinear (sizes : list nat) (units : nat) (monos unis : option (list Z)) (omin omax : Q) (impl : list Q)
(* create_kernel_initializer(id, ...)((prod sizes, units)) and Lattice(...).build: kernel.
   which: 0 LinearInitializer, 1 RandomMonotonicInitializer, 2 Keras object (kernel not modelled);
   order/samples: oracles recovered from the implementation's kernel (random initialiser only) *)
| CLattice (id : init_id) (sizes : list nat) (units : nat) (monos unis : option (list Z)) (juni : list joint_uni)
           (omin omax : option Q) (override : option (Q * Q))
           (order : list (list idx)) (samples : list Q) (which : nat) (impl : list Q)
(* pwl_calibration_lib.linear_initializer / UniformOutputInitializer *)
| CPwlDirect (nk units : nat) (omin omax : Q) (mono : Z) (kps : option (list Q)) (impl : list (list Q))
(* PWLCalibration(...).build: kernel *)
| CPwlLayer (kps : list Q) (units : nat) (omin omax : option Q) (clamp_min clamp_max : bool) (mono : Z)
            (is_cyclic slopes : bool) (impl : list (list Q))
(* one column (fixed unit, dim, term) of kfl_random_monotonic_initializer *)
| CKflCol (any_mono mono : bool) (scale : Q) (samples impl : list Q)
(* scale_initializer, bias_initializer, kfl default_init_params *)
| CKflScaleBias (units terms : nat) (omin omax : option Q) (impl_scale : list (list Q)) (impl_bias : list Q)
                (impl_init_min impl_init_max : Q)
(* CategoricalCalibration.build with a given raw initial matrix: kernel = constraint(raw) *)
| CCategorical (ps : list (nat * nat)) (lo hi : option Q) (units : nat) (raw impl : list (list Q)).

Definition tol : Q := 1 # 1000000000.
Definition tol32 : Q := 1 # 100000.

(* ---- oracle hypotheses of the random initialiser, decided ---- *)
Definition mem_idx (v : idx) (l : list idx) : bool := existsb (idx_eqb v) l.
Definition perm_of (a b : list idx) : bool :=      (* b has no duplicates by construction *)
  (length a =? length b)%nat && forallb (fun v => mem_idx v a) b.
Fixpoint forall2b {A B} (f : A -> B -> bool) (a : list A) (b : list B) : bool :=
  match a, b with [], [] => true | x :: a', y :: b' => f x y && forall2b f a' b' | _, _ => false end.
Fixpoint sortedb (l : list Q) : bool :=
  match l with x :: ((y :: _) as r) => Qle_bool x y && sortedb r | _ => true end.
Definition oracle_ok (sizes : list nat) (order : list (list idx)) (samples : list Q) (lo hi : Q) : bool :=
  forall2b perm_of order (levels sizes) && sortedb samples &&
  (length samples =? length (concat order))%nat &&
  forallb (fun x => Qle_bool lo x && Qle_bool x hi) samples.

Definition check (c : case) : bool :=
  match c with
  | CDefault omin omax a b =>
      let '(x, y) := default_init_params omin omax in qclose tol x a && qclose tol y b
  | CLinear sizes units monos unis omin omax impl =>
      qlist_close tol (to_list (sizes ++ [units]) (linear_init sizes omin omax monos unis units)) impl
  | CLattice id sizes units monos unis juni omin omax override order samples which impl =>
      let ch := create_kernel_initializer id sizes monos omin omax unis juni override in
      match ch with
      | UseLinear _ _ _ _ => (which =? 0)%nat
      | UseRandomMono imin imax => (which =? 1)%nat && oracle_ok sizes order samples imin imax
      | UseKeras => (which =? 2)%nat
      end &&
      match lattice_init_kernel ch sizes units order samples with
      | Some W => qlist_close tol (to_list (sizes ++ [units]) W) impl
      | None => true
      end
  | CPwlDirect nk units omin omax mono kps impl =>
      qmat_close tol (pwl_linear_init nk units omin omax mono kps) impl
  | CPwlLayer kps units omin omax cmin cmax mono cyc slopes impl =>
      qmat_close tol (pwl_layer_init kps units omin omax cmin cmax mono cyc slopes) impl
  | CKflCol any_mono mono scale samples impl =>
      qlist_close tol (kfl_init_col any_mono mono scale samples) impl
  | CKflScaleBias units terms omin omax isc ib a b =>
      qmat_close tol (kfl_scale_init units terms omin omax) isc &&
      qlist_close tol (kfl_bias_init units omin omax) ib &&
      (let '(x, y) := kfl_default_init_params omin omax in qclose tol x a && qclose tol y b)
  | CCategorical ps lo hi units raw impl =>
      match lo, hi, ps with
      | None, None, [] => qmat_close tol raw impl              (* no constraint object: raw initial value *)
      | _, _, _ => match cat_project ps lo hi units raw with
                   | Some R => qmat_close tol R impl
                   | None => false
                   end
      end
  end.
