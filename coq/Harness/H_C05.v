From TFL Require Export Harness.Compare Model.PWLEval Model.CategoricalEval.
Open Scope Q_scope.
(* Cases of three kinds, each holding the model inputs and what the real layer
   returned.
   PwlFixed: a PWLCalibration with input_keypoints_type='fixed' (float64,
     tol = tol64; or float32 - the layer's default dtype -, tol = tol32):
     constructor arguments, kernel, call arguments; implementation's call
     result (None = ValueError; list of matrices, one per split output),
     keypoints_inputs(), keypoints_outputs().
   PwlLearned: a 'learned_interior' layer (float32, tol = tol32; float64 when
     the implementation supports it, tol = tol64): [sm] is softmax(logits)
     captured from TensorFlow (the oracle), [lefts]/[lens] are the layer's
     _interpolation_keypoints/_lengths after the call.  Stage 1: model tables
     from sm vs lefts/lens and keypoints_inputs(); stage 2: model call on the
     implementation's tables vs the implementation's result.
   Cat: a CategoricalCalibration layer (float32, exact on dyadic kernels). *)
Inductive case :=
| PwlFixed (tol : Q) (units : nat) (ks : list Q) (cyclic : bool) (kernel : list (list Q))
           (impute : bool) (miv mov : option Q) (mow : list Q) (split : bool)
           (as_list : bool) (inputs : list (list Q)) (is_missing : option (list (list Q)))
           (out : option (list (list (list Q)))) (kp_in kp_out : list (list Q))
| PwlLearned (tol : Q) (units : nat) (ks : list Q) (sm : list (list Q)) (lefts lens : list (list Q))
           (cyclic : bool) (kernel : list (list Q))
           (impute : bool) (miv mov : option Q) (mow : list Q) (split : bool)
           (as_list : bool) (inputs : list (list Q)) (is_missing : option (list (list Q)))
           (out : option (list (list (list Q)))) (kp_in kp_out : list (list Q))
| Cat (buckets units : nat) (kernel : list (list Q)) (default : option Z) (split : bool)
      (inputs : list (list Q)) (out : list (list (list Q))).

Definition tol64 : Q := 1 # 1000000000.
Definition tol32 : Q := 1 # 100000.

Fixpoint qten_close (tol : Q) (a b : list (list (list Q))) : bool :=
  match a, b with
  | [], [] => true
  | x :: a', y :: b' => qmat_close tol x y && qten_close tol a' b'
  | _, _ => false
  end.

Definition check (c : case) : bool :=
  match c with
  | PwlFixed tol units ks cyclic kernel impute miv mov mow split as_list inputs ms out kp_in kp_out =>
      let L := build_fixed units ks cyclic kernel impute miv mov mow split in
      opt_close (qten_close tol) (pwl_call L as_list inputs ms) out
      && qmat_close tol (keypoints_inputs L) kp_in
      && qmat_close tol (keypoints_outputs L) kp_out
  | PwlLearned tol units ks sm lefts lens cyclic kernel impute miv mov mow split as_list inputs ms out kp_in kp_out =>
      let Lm := build_learned units ks sm cyclic kernel impute miv mov mow split in
      let Li := mkPWL units true lefts lens cyclic kernel impute miv (build_missing_output units mov mow) split in
      qmat_close tol (p_lefts Lm) lefts
      && qmat_close tol (p_lens Lm) lens
      && qmat_close tol (keypoints_inputs Lm) kp_in
      && qmat_close tol (keypoints_outputs Lm) kp_out
      && opt_close (qten_close tol) (pwl_call Li as_list inputs ms) out
  | Cat buckets units kernel default split inputs out =>
      qten_close tol64 (cat_call (mkCat buckets units kernel default split) inputs) out
  end.
