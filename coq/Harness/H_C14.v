(* C14 correspondence: every case carries the inputs of ONE pair of public
   callables and the outputs of BOTH implementations; the models of both
   representations are evaluated on the same inputs and compared with them.
   The other models are used qualified (their short names clash). *)
From TFL Require Export Harness.Compare Model.Representations.
Open Scope Q_scope.

(* tolerance: t64 for float64 pairs, t32 for float32-only pairs (chosen per case) *)
Definition t64 : Q := 1 # 1000000000.
Definition t32 : Q := 1 # 100000.
Definition tolof (f64 : bool) : Q := if f64 then t64 else t32.

Inductive case :=
(* (a) KFL layer (implementation kernel layout k[i][j][t], scale, bias) vs a
   Lattice layer loaded with [dense] (computed exactly on the Python side);
   pts: one row of dims coordinates per unit; tensor: inputs given as one tensor *)
| CKfl (clip tensor : bool) (L units dims terms : nat)
       (k : list (list (list Q))) (s : list (list Q)) (b : list Q) (dense : mat)
       (pts : list (list (list Q))) (kfl_outs lat_outs : list (list Q))
(* (b1) pwl_calibration_fn's derived parameters of one (row, unit) slice
   (deltas, kos), the keypoints handed to the PWLCalibration layer, the
   optional (missing_input_value, missing_output_value), inputs and both outputs *)
| CPwl (f64 : bool) (imin : Q) (deltas kos ks : list Q) (missing : option (Q * Q))
       (xs fn_outs layer_outs : list Q)
(* (b2) cdf_fn vs CDF layer, relu6 activation (exact in the model) *)
| CCdf (f64 mean : bool) (units sf : nat) (kernel : list (list (list Q))) (scaling : list Q)
       (xs : list (list Q)) (fn_outs layer_outs : list mat)
(* (c) ParallelCombination of single-unit PWL calibrators (keypoints, kernel column) *)
| CPar (calibs : list (list Q * list Q)) (single as_list : bool) (m : mat) (outs : list mat)
(* (d) Aggregation around a one-unit Lattice over the element's features;
   x[b][e] = feature values of element e of example b *)
| CAgg (f64 clip : bool) (sizes : list nat) (K : mat) (x : list (list (list Q))) (outs : list Q)
(* (e) RTL: recorded structure, per-entry kernels of the sub-lattices, one
   example per element of inc/unc (groups), implementation outputs *)
| CRtl (simplex clip separate average : bool) (L rank : nat)
       (s : RTLStructure.structure) (kernels : list (list nat * mat))
       (examples : list (list (list Q) * list (list Q)))
       (outs : list (option (list Q) * option (list Q) * list Q)).

Fixpoint all2b {A B} (f : A -> B -> bool) (a : list A) (b : list B) : bool :=
  match a, b with
  | [], [] => true
  | x :: a', y :: b' => f x y && all2b f a' b'
  | _, _ => false
  end.
Definition mat_eqb (a b : mat) : bool := all2b (all2b Qeq_bool) a b.
Definition opt_mat_close (tol : Q) (a : option mat) (b : mat) : bool :=
  match a with Some m => qmat_close tol m b | None => false end.

(* ---- (a) ---- *)
Definition in_rangeb (L : nat) (x : Q) : bool := Qle_bool 0 x && Qle_bool x (KFL.qn L - 1).
Definition check_kfl clip tensor L units dims terms k s b dense pts kfl_outs lat_outs : bool :=
  let cfg := KFL.mkCfg L None None None clip in
  let p := KFL.mkPar (KFL.unpack L units dims terms k) s b in
  let D := dense_of_kfl L dims units p in
  let sizes := kfl_sizes L dims in
  let mk := map (KFL.layer_out cfg p) pts in
  let ml := LatticeInterp.lattice_eval LatticeInterp.Hypercube tensor clip units sizes D pts in
  mat_eqb D dense
  && qmat_close t64 mk kfl_outs
  && qmat_close t64 ml lat_outs
  (* the theorem, re-observed: the two MODELS agree exactly on clipped / in-range points *)
  && all2b (fun pt yz => if clip || forallb (forallb (in_rangeb L)) pt then all2b Qeq_bool (fst yz) (snd yz) else true)
           pts (combine mk ml).

(* ---- (b1) ---- *)
Definition fn_value imin deltas kos (missing : option (Q * Q)) (x : Q) : Q :=
  let out := CondPWL.interp x (map (fun s => s + imin) (CondPWL.cumsum_excl 0 deltas)) deltas kos in
  match missing with Some (m, v) => if Qeq_bool x m then v else out | None => out end.
Definition layer_value ks kos (missing : option (Q * Q)) (x : Q) : option Q :=
  let kern := map (fun v => [v]) kos in
  let L := match missing with
           | Some (m, v) => PWLEval.build_fixed 1 ks false kern true (Some m) (Some v) [] false
           | None => PWLEval.build_fixed 1 ks false kern false None None [] false
           end in
  match PWLEval.pwl_call L false [[x]] None with Some [[[y]]] => Some y | _ => None end.
Definition check_pwl f64 imin deltas kos ks missing xs fn_outs layer_outs : bool :=
  let tol := tolof f64 in
  qlist_close tol (layer_keypoints imin deltas) ks
  && qlist_close tol (map (fn_value imin deltas kos missing) xs) fn_outs
  && all2b (fun x y => opt_close (qclose tol) (layer_value ks kos missing x) (Some y)) xs layer_outs.

(* ---- (b2) ---- *)
Definition check_cdf f64 (mean : bool) units sf kernel scaling xs fn_outs layer_outs : bool :=
  let tol := tolof f64 in
  let r := if mean then CDF.RMean else CDF.RNone in
  let o := CDF.no_oracle in
  all2b (fun x y => opt_mat_close tol
           (CDF.cdf_fn o o o CDF.Relu6 r units sf None x kernel (Some (cdf_scaling_param (length x) scaling))) y)
        xs fn_outs
  && all2b (fun x y => opt_mat_close tol (CDF.cdf_layer o o o CDF.Relu6 r units sf kernel scaling x) y)
           xs layer_outs.

(* ---- (c) ---- *)
Definition calib_fn (c : list Q * list Q) : layer_fn :=
  pointwise (PWLEval.pwl_fn (PWLEval.kp_lefts (fst c)) (PWLEval.kp_diffs (fst c)) (snd c)).
Definition check_par calibs (single as_list : bool) (m : mat) (outs : list mat) : bool :=
  let x := if as_list then PCList (split_cols m) else PCTensor m in
  match pc_call (map calib_fn calibs) single x with
  | Some (PCSingle y) => single && all2b (qmat_close t64) [y] outs
  | Some (PCMulti ys) => negb single && all2b (qmat_close t64) ys outs
  | None => false
  end.

(* ---- (d) ---- *)
Definition check_agg f64 clip sizes K x outs : bool :=
  let g := LatticeInterp.unit_fn LatticeInterp.Hypercube true clip 1 sizes K 0 in
  qlist_close (tolof f64) (aggregation (rowwise g) x) outs.

(* ---- (e) ---- *)
Definition lat_of (simplex clip : bool) (L rank : nat) (kernels : list (list nat * mat))
           (m : list nat) (rows : list (list Q)) : list Q :=
  match find (fun e => RTLStructure.list_eqb (fst e) m) kernels with
  | Some (_, K) =>
      let units := length rows in
      map (fun u => LatticeInterp.unit_fn (if simplex then LatticeInterp.Simplex else LatticeInterp.Hypercube)
                      true clip units (repeat L rank) K u (nth u rows []))
          (seq 0 units)
  | None => []
  end.
Definition opt_list_close (tol : Q) (a b : option (list Q)) : bool := opt_close (qlist_close tol) a b.
Definition check_rtl simplex clip separate average L rank s kernels examples outs : bool :=
  all2b (fun (ex : list (list Q) * list (list Q)) (o : option (list Q) * option (list Q) * list Q) =>
    match rtl_call (lat_of simplex clip L rank kernels) s separate average (fst ex) (snd ex) with
    | RSep a b => separate && opt_list_close t32 a (fst (fst o)) && opt_list_close t32 b (snd (fst o))
    | RJoint y => negb separate && qlist_close t32 y (snd o)
    end) examples outs.

Definition check (c : case) : bool :=
  match c with
  | CKfl clip tensor L units dims terms k s b dense pts ko lo =>
      check_kfl clip tensor L units dims terms k s b dense pts ko lo
  | CPwl f64 imin deltas kos ks missing xs fo lo => check_pwl f64 imin deltas kos ks missing xs fo lo
  | CCdf f64 mean units sf kernel scaling xs fo lo => check_cdf f64 mean units sf kernel scaling xs fo lo
  | CPar calibs single as_list m outs => check_par calibs single as_list m outs
  | CAgg f64 clip sizes K x outs => check_agg f64 clip sizes K x outs
  | CRtl simplex clip separate average L rank s kernels examples outs =>
      check_rtl simplex clip separate average L rank s kernels examples outs
  end.
