From TFL Require Export Harness.Compare Model.LinearProject.
Open Scope Q_scope.
(* out = None: the implementation raised ValueError *)
Inductive case :=
| CLin (c : lin_cfg) (units : nat) (W : list (list Q)) (out : option (list (list Q)))
| CCat (ps : pairs) (lo hi : option Q) (units : nat) (W : list (list Q)) (out : option (list (list Q))).
Definition tol : Q := 1 # 1000000000.
Definition sort_ok (ps : pairs) : bool :=
  match ps with [] => true | _ =>
    match toposort ps with TopoOk s => topo_okb ps s | TopoCircular => true | TopoFuel => false end end.
Definition check (c : case) : bool :=
  match c with
  | CLin cfg units W out =>
      opt_close (qmat_close tol) (lin_project qsqrt cfg units W) out
  | CCat ps lo hi units W out =>
      opt_close (qmat_close tol) (cat_project ps lo hi units W) out
  end.
(* second check: the model's topological order is a valid one for acyclic inputs
   (validates at run time the hypothesis of the projection theorems) *)
Definition check_sort (c : case) : bool :=
  match c with
  | CLin cfg _ _ _ => sort_ok (swap_pairs (lc_mdom cfg)) && sort_ok (swap_pairs (lc_rdom cfg))
  | CCat ps _ _ _ _ _ => sort_ok ps
  end.
