(* C11 harness: ties the translator's class descriptions (Gen/GenConfig.v,
   regenerated from the source text) to the RUNNING classes.
   SigCase: inspect.signature(cls.__init__) observed at run time must equal the
            translator's parameter list (names, order, defaults, **kwargs).
   ObjCase: an object really constructed as cls( **kw ); observed: the items of
            obj.get_config() that do not come from the Keras base class;
            base_observed: the keys of the Keras base class's get_config.  The
            model's get_config(init kw) must have exactly the observed key set
            (conditional keys included) and, for every key whose value the
            model determines without an oracle (direct stores and the three
            wrappers with a concrete meaning), the observed value. *)
From Coq Require Export String List ZArith QArith Bool.
From TFL Require Export Harness.Compare Model.ConfigModel Gen.GenConfig.
Import ListNotations.
Open Scope string_scope.

Inductive case :=
| SigCase (name module : string) (params : list (string * option value)) (var_kw : bool)
| ObjCase (name module : string) (kw : kwargs) (observed : kwargs) (base_observed : list string).

Definition find_class (name module : string) : option class_desc :=
  find (fun d => String.eqb name (c_name d) && String.eqb module (c_module d)) all_classes.

(* defaults that are objects (tf.float32, an enum member) are compared by kind only *)
Definition default_match (a b : option value) : bool :=
  match a, b with
  | None, None => true
  | Some (VObj _ _), Some (VObj _ _) => true
  | Some x, Some y => value_eqb x y
  | _, _ => false
  end.
Fixpoint params_match (a b : list (string * option value)) : bool :=
  match a, b with
  | [], [] => true
  | (n, x) :: a', (m, y) :: b' => String.eqb n m && default_match x y && params_match a' b'
  | _, _ => false
  end.

(* objects (enum members, dtypes ...) are compared by kind only *)
Definition value_match (a b : value) : bool :=
  match a, b with
  | VObj _ _, VObj _ _ => true
  | _, _ => value_eqb a b
  end.

Definition id_wrap (_ : string) (v : value) : value := v.
Definition id_ser (v : value) : value := v.

Definition same_set (a b : list string) : bool :=
  inclb a b && inclb b a && Nat.eqb (length a) (length b).

Definition comparable (d : class_desc) (kw : kwargs) (e : emit) : bool :=
  match em_src e with
  | Attr a => match find_store_by_attr a (c_stores d) with
              | Some s => match ps_how s with
                          | Direct => true
                          | Wrapped w => match known_wrapper w with Some _ => true | None => false end
                          end
              | None => false
              end
  | BaseAttr k => match assoc k kw with Some _ => true | None => false end
  | _ => false
  end.

Definition check (c : case) : bool :=
  match c with
  | SigCase name module params var_kw =>
      match find_class name module with
      | Some d => params_match (c_params d) params && Bool.eqb (c_var_kw d) var_kw
      | None => false
      end
  | ObjCase name module kw observed base_observed =>
      match find_class name module with
      | Some d =>
          let st := init id_wrap d kw in
          let expected := filter (emit_on st) (c_emits d) in
          same_set (map em_key expected) (map fst observed) &&
          inclb base_observed (c_base_keys d) &&
          match c_base d, base_observed with
          | NoBase, [] => true
          | NoBase, _ => false
          | _, [] => false
          | _, _ => true
          end &&
          forallb (fun e =>
                     if comparable d kw e
                     then match assoc (em_key e) observed with
                          | Some v => value_match (emit_val id_ser st e) v
                          | None => false
                          end
                     else true) expected
      | None => false
      end
  end.
